(* Props/C05.v — property C05: complex-integer conversion is exact, layout-faithful and shape/stride
   agnostic.  Model/Complex.v models convert_complex on logical element lists (view -> astype -> view
   as flatten -> map -> unflatten); strides and memory layouts are NumPy's and are covered by the
   correspondence (every layout) and two exhaustive int16 sweeps on the real code. *)
From Coq Require Import ZArith List.
From NV Require Import Common.Py Spec.TimeSpec Model.Complex Proofs.C05Proofs.
Open Scope Z_scope.

Theorem C05_layout_size : forall p, length (enc_ci32 p) = 4%nat.
Proof. exact enc_ci32_length. Qed.
Print Assumptions C05_layout_size.
Theorem C05_layout_offsets : forall r i,
  firstn 2 (enc_ci32 (r, i)) = enc16 r /\ skipn 2 (enc_ci32 (r, i)) = enc16 i.
Proof. exact layout_offsets. Qed.
Print Assumptions C05_layout_offsets.
Theorem C05_layout_roundtrip : forall r i,
  in_int16 r = true -> in_int16 i = true -> dec_ci32 (enc_ci32 (r, i)) = (r, i).
Proof. exact layout_roundtrip. Qed.
Print Assumptions C05_layout_roundtrip.

(* viewing the record array as a flat field array, converting every field and viewing it back as
   complex converts every element's real and imaginary part separately — for every length *)
Theorem C05_interleave : forall (f : Z -> fpart) l,
  unflatten (map f (flatten l)) = map (fun p => (f (fst p), f (snd p))) l.
Proof. exact (@interleave fpart). Qed.
Print Assumptions C05_interleave.

(* every (real, imag) pair converts to exactly real + imag*j, and back to the original pair: all 2^32 pairs *)
Theorem C05_to_complex_exact : forall l,
  ci32_to_complex l = map (fun p => (FNum (fst p) 0, FNum (snd p) 0)) l.
Proof. exact to_complex_exact. Qed.
Print Assumptions C05_to_complex_exact.
Theorem C05_int_roundtrip : forall l,
  complex_to_ci32 (ci32_to_complex l) = map (fun p => (Some (fst p), Some (snd p))) l.
Proof. exact int_roundtrip. Qed.
Print Assumptions C05_int_roundtrip.
Theorem C05_shape_preserved : forall l,
  length (ci32_to_complex l) = length l /\ forall c, length (complex_to_ci32 c) = length c.
Proof. exact length_preserved. Qed.
Print Assumptions C05_shape_preserved.

(* float parts truncate toward zero: |q - trunc q| < 1 with the sign of q *)
Theorem C05_truncation : forall m e t, trunc_fpart (FNum m e) = Some t ->
  if 0 <=? e then t = m * 2 ^ e
  else let d := 2 ^ (- e) in Z.abs (m - t * d) < d /\ (0 <= m -> 0 <= t /\ t * d <= m) /\ (m <= 0 -> t <= 0 /\ m <= t * d).
Proof. exact trunc_spec. Qed.
Print Assumptions C05_truncation.

Example C05_witness :
  enc_ci32 (-2, 258) = [254; 255; 2; 1] /\
  complex_to_ci32 [(FNum (-7) (-1), FNum 32767 0)] = [(Some (-3), Some 32767)] /\
  fpart_eqb (round_b32 (FNum 16777217 0)) (FNum 16777216 0) = true /\
  fpart_eqb (round_b32 (FNum 1 (-150))) (FNum 0 0) = true /\
  fpart_eqb (round_b32 (FNum 3 (-150))) (FNum 2 (-149)) = true /\
  round_b32 (FNum 1 128) = FInf false.
Proof. repeat split; vm_compute; reflexivity. Qed.
