(* Props/C03.v — property C03: binary-time arithmetic and ordering are exact 128-bit fixed-point
   operations.  Statements only; proofs in Proofs/C03Proofs.v.  td_*/dt_* are regenerated from
   /repo/src/nitypes/bintime/_timedelta.py and _datetime.py on every run. *)
From Coq Require Import ZArith List.
From NV Require Import Common.Py Common.Trans Spec.TimeSpec Gen.BintimeGen Proofs.C03Proofs Proofs.C03Algebra.
Open Scope Z_scope.

(* every operator returns the integer result, or OverflowError exactly when it is out of range *)
Theorem C03_add : forall a b, td_add a b = spec_from_ticks (a + b).
Proof. exact td_add_spec. Qed.
Print Assumptions C03_add.
Theorem C03_sub : forall a b, td_sub a b = spec_from_ticks (a - b).
Proof. exact td_sub_spec. Qed.
Print Assumptions C03_sub.
Theorem C03_rsub : forall a b, td_rsub a b = spec_from_ticks (b - a).
Proof. exact td_rsub_spec. Qed.
Print Assumptions C03_rsub.
Theorem C03_neg : forall a, td_neg a = spec_from_ticks (- a).
Proof. exact td_neg_spec. Qed.
Print Assumptions C03_neg.
Theorem C03_abs : forall a, in128 a = true -> td_abs a = spec_from_ticks (Z.abs a).
Proof. exact td_abs_spec. Qed.
Print Assumptions C03_abs.
Theorem C03_mul_int : forall a n, td_mul_int a n = spec_from_ticks (a * n).
Proof. exact td_mul_int_spec. Qed.
Print Assumptions C03_mul_int.
Theorem C03_floordiv_int : forall a n,
  td_floordiv_int a n = if n =? 0 then Raise ZeroDivisionError else spec_from_ticks (a / n).
Proof. exact td_floordiv_int_spec. Qed.
Print Assumptions C03_floordiv_int.
Theorem C03_floordiv : forall a b, td_floordiv_td a b = spec_floordiv a b.
Proof. exact td_floordiv_td_spec. Qed.
Print Assumptions C03_floordiv.
Theorem C03_mod : forall a b, td_mod a b = spec_mod a b.
Proof. exact td_mod_spec. Qed.
Print Assumptions C03_mod.
Theorem C03_divmod : forall a b, in128 b = true -> b <> 0 -> td_divmod a b = Ok (a / b, a mod b).
Proof. exact td_divmod_ok. Qed.
Print Assumptions C03_divmod.
Theorem C03_overflow_iff : forall f a b,
  spec_binop f a b = Raise OverflowError <-> ~ (MIN128 <= f a b <= MAX128).
Proof. exact overflow_iff. Qed.
Print Assumptions C03_overflow_iff.
Theorem C03_zero_division : forall a,
  td_floordiv_td a 0 = Raise ZeroDivisionError /\ td_mod a 0 = Raise ZeroDivisionError /\
  td_divmod a 0 = Raise ZeroDivisionError /\ td_floordiv_int a 0 = Raise ZeroDivisionError.
Proof. exact zero_division. Qed.
Print Assumptions C03_zero_division.

(* a == (a//b)*b + a%b with floor semantics; (t+d)-t == d *)
Theorem C03_divmod_identity : forall a b, b <> 0 ->
  a = (a / b) * b + a mod b /\ (0 <= a mod b < b \/ b < a mod b <= 0).
Proof. exact divmod_identity. Qed.
Print Assumptions C03_divmod_identity.
Theorem C03_add_sub_cancel : forall t d s, td_add t d = Ok s -> in128 d = true -> td_sub s t = Ok d.
Proof. exact add_sub_cancel. Qed.
Print Assumptions C03_add_sub_cancel.

(* ordering, hash, bool agree with the integer order of ticks *)
Theorem C03_order : forall a b,
  td_lt a b = (a <? b) /\ td_le a b = (a <=? b) /\ td_eq a b = (a =? b) /\
  td_gt a b = (b <? a) /\ td_ge a b = (b <=? a).
Proof. exact compare_spec. Qed.
Print Assumptions C03_order.
Theorem C03_trichotomy : forall a b,
  (td_lt a b = true /\ td_eq a b = false /\ td_gt a b = false) \/
  (td_lt a b = false /\ td_eq a b = true /\ td_gt a b = false) \/
  (td_lt a b = false /\ td_eq a b = false /\ td_gt a b = true).
Proof. exact trichotomy. Qed.
Print Assumptions C03_trichotomy.
Theorem C03_hash_bool : forall a b,
  td_hash a = py_hash a /\ (a = b -> td_hash a = td_hash b) /\ td_bool a = negb (a =? 0).
Proof. exact hash_bool. Qed.
Print Assumptions C03_hash_bool.

(* DateTime +- TimeDelta, DateTime - DateTime, DateTime ordering/hash: the same integer operations *)
Theorem C03_datetime_ops : forall t d,
  dt_add_td t d = spec_from_ticks (t + d) /\ dt_sub_td t d = spec_from_ticks (t - d) /\
  dt_sub_dt t d = spec_from_ticks (t - d) /\ dt_rsub_dt t d = spec_from_ticks (d - t).
Proof. exact dt_ops_spec. Qed.
Print Assumptions C03_datetime_ops.
Theorem C03_datetime_order : forall a b,
  dt_lt a b = (a <? b) /\ dt_le a b = (a <=? b) /\ dt_eq a b = (a =? b) /\
  dt_gt a b = (b <? a) /\ dt_ge a b = (b <=? a) /\ dt_hash a = py_hash a.
Proof. exact dt_compare_spec. Qed.
Print Assumptions C03_datetime_order.
Theorem C03_datetime_add_sub_cancel : forall t d s,
  dt_add_td t d = Ok s -> in128 d = true -> dt_sub_dt s t = Ok d.
Proof. exact dt_add_sub_cancel. Qed.
Print Assumptions C03_datetime_add_sub_cancel.

(* algebraic laws users rely on (Proofs/C03Algebra.v): they hold exactly whenever no intermediate
   result leaves the signed 128-bit range, and the only failure mode is OverflowError *)
Theorem C03_add_comm : forall a b, td_add a b = td_add b a.
Proof. exact td_add_comm. Qed.
Print Assumptions C03_add_comm.
Theorem C03_add_assoc : forall a b c ab bc,
  td_add a b = Ok ab -> td_add b c = Ok bc -> td_add ab c = td_add a bc.
Proof. exact td_add_assoc. Qed.
Print Assumptions C03_add_assoc.
Theorem C03_add_zero : forall a, in128 a = true -> td_add a 0 = Ok a /\ td_add 0 a = Ok a.
Proof. exact td_add_zero. Qed.
Print Assumptions C03_add_zero.
Theorem C03_neg_involutive : forall a na, in128 a = true -> td_neg a = Ok na -> td_neg na = Ok a.
Proof. exact td_neg_involutive. Qed.
Print Assumptions C03_neg_involutive.
Theorem C03_neg_overflow_iff : forall a, in128 a = true -> (td_neg a = Raise OverflowError <-> a = MIN128).
Proof. exact td_neg_overflow_iff. Qed.
Print Assumptions C03_neg_overflow_iff.
Theorem C03_sub_as_add_neg : forall a b nb, td_neg b = Ok nb -> td_sub a b = td_add a nb.
Proof. exact td_sub_as_add_neg. Qed.
Print Assumptions C03_sub_as_add_neg.
Theorem C03_sub_self : forall a, td_sub a a = Ok 0.
Proof. exact td_sub_self. Qed.
Print Assumptions C03_sub_self.
Theorem C03_mul_int_distr : forall a b n ab pa pb,
  td_add a b = Ok ab -> td_mul_int a n = Ok pa -> td_mul_int b n = Ok pb ->
  td_mul_int ab n = td_add pa pb.
Proof. exact td_mul_int_distr. Qed.
Print Assumptions C03_mul_int_distr.
Theorem C03_mul_int_one_zero : forall a, in128 a = true -> td_mul_int a 1 = Ok a /\ td_mul_int a 0 = Ok 0.
Proof. exact td_mul_int_one_zero. Qed.
Print Assumptions C03_mul_int_one_zero.
(* the Python expression (a // b) * b + a % b evaluated with the generated operators gives back a ... *)
Theorem C03_divmod_recompose : forall a b q r p,
  in128 a = true -> in128 b = true -> b <> 0 ->
  td_divmod a b = Ok (q, r) -> td_mul_int b q = Ok p -> td_add p r = Ok a.
Proof. exact td_divmod_recompose. Qed.
Print Assumptions C03_divmod_recompose.
(* ... its intermediate product exists unless a is within |b| of an end of the range ... *)
Theorem C03_divmod_product_in_range : forall a b,
  in128 a = true -> in128 b = true -> b <> 0 ->
  MIN128 + Z.abs b <= a <= MAX128 - Z.abs b ->
  td_mul_int b (a / b) = Ok (b * (a / b)).
Proof. exact td_divmod_product_in_range. Qed.
Print Assumptions C03_divmod_product_in_range.
(* ... and there it raises OverflowError (never wraps), although a, b and the sum are in range *)
Theorem C03_divmod_product_overflow_witness :
  in128 MIN128 = true /\ in128 3 = true /\
  td_divmod MIN128 3 = Ok (-56713727820156410577229101238628035243, 1) /\
  td_mul_int 3 (-56713727820156410577229101238628035243) = Raise OverflowError.
Proof. exact td_divmod_product_overflow_witness. Qed.
Print Assumptions C03_divmod_product_overflow_witness.
Theorem C03_mod_sign : forall a b r, in128 b = true -> b <> 0 -> td_mod a b = Ok r ->
  (0 < b -> 0 <= r < b) /\ (b < 0 -> b < r <= 0).
Proof. exact td_mod_sign. Qed.
Print Assumptions C03_mod_sign.
Theorem C03_floordiv_floor : forall a b q, 0 < b -> td_floordiv_td a b = Ok q -> q * b <= a < (q + 1) * b.
Proof. exact td_floordiv_floor. Qed.
Print Assumptions C03_floordiv_floor.
Theorem C03_add_monotone : forall a b c ac bc,
  td_add a c = Ok ac -> td_add b c = Ok bc -> td_lt ac bc = td_lt a b /\ td_eq ac bc = td_eq a b.
Proof. exact td_add_monotone. Qed.
Print Assumptions C03_add_monotone.
Theorem C03_datetime_add_add : forall t d1 d2 s d12,
  dt_add_td t d1 = Ok s -> td_add d1 d2 = Ok d12 -> dt_add_td s d2 = dt_add_td t d12.
Proof. exact dt_add_add. Qed.
Print Assumptions C03_datetime_add_add.
Theorem C03_datetime_sub_antisym : forall a b d, dt_sub_dt a b = Ok d -> dt_sub_dt b a = td_neg d.
Proof. exact dt_sub_antisym. Qed.
Print Assumptions C03_datetime_sub_antisym.

Example C03_witness :
  td_add MAX128 1 = Raise OverflowError /\ td_add MAX128 (-1) = Ok (MAX128 - 1) /\
  td_divmod (-7) 2 = Ok (-4, 1) /\ td_divmod 7 (-2) = Ok (-4, -1) /\ td_floordiv_int MIN128 (-1) = Raise OverflowError.
Proof. repeat split; vm_compute; reflexivity. Qed.
