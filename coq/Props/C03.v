(* Props/C03.v — property C03: binary-time arithmetic and ordering are exact 128-bit fixed-point
   operations.  Statements only; proofs in Proofs/C03Proofs.v.  td_*/dt_* are regenerated from
   /repo/src/nitypes/bintime/_timedelta.py and _datetime.py on every run. *)
From Coq Require Import ZArith List.
From NV Require Import Common.Py Common.Trans Spec.TimeSpec Gen.BintimeGen Proofs.C03Proofs.
Open Scope Z_scope.

(* every operator returns the integer result, or OverflowError exactly when it is out of range *)
Theorem C03_add : forall a b, td_add a b = spec_from_ticks (a + b).
Proof. exact td_add_spec. Qed.
Print Assumptions C03_add.
Theorem C03_sub : forall a b, td_sub a b = spec_from_ticks (a - b).
Proof. exact td_sub_spec. Qed.
Print Assumptions C03_sub.
Theorem C03_rsub : forall a b, td_rsub a b = spec_from_ticks (b - a).
Proof. exact td_rsub_spec. Qed.
Print Assumptions C03_rsub.
Theorem C03_neg : forall a, td_neg a = spec_from_ticks (- a).
Proof. exact td_neg_spec. Qed.
Print Assumptions C03_neg.
Theorem C03_abs : forall a, in128 a = true -> td_abs a = spec_from_ticks (Z.abs a).
Proof. exact td_abs_spec. Qed.
Print Assumptions C03_abs.
Theorem C03_mul_int : forall a n, td_mul_int a n = spec_from_ticks (a * n).
Proof. exact td_mul_int_spec. Qed.
Print Assumptions C03_mul_int.
Theorem C03_floordiv_int : forall a n,
  td_floordiv_int a n = if n =? 0 then Raise ZeroDivisionError else spec_from_ticks (a / n).
Proof. exact td_floordiv_int_spec. Qed.
Print Assumptions C03_floordiv_int.
Theorem C03_floordiv : forall a b, td_floordiv_td a b = spec_floordiv a b.
Proof. exact td_floordiv_td_spec. Qed.
Print Assumptions C03_floordiv.
Theorem C03_mod : forall a b, td_mod a b = spec_mod a b.
Proof. exact td_mod_spec. Qed.
Print Assumptions C03_mod.
Theorem C03_divmod : forall a b, in128 b = true -> b <> 0 -> td_divmod a b = Ok (a / b, a mod b).
Proof. exact td_divmod_ok. Qed.
Print Assumptions C03_divmod.
Theorem C03_overflow_iff : forall f a b,
  spec_binop f a b = Raise OverflowError <-> ~ (MIN128 <= f a b <= MAX128).
Proof. exact overflow_iff. Qed.
Print Assumptions C03_overflow_iff.
Theorem C03_zero_division : forall a,
  td_floordiv_td a 0 = Raise ZeroDivisionError /\ td_mod a 0 = Raise ZeroDivisionError /\
  td_divmod a 0 = Raise ZeroDivisionError /\ td_floordiv_int a 0 = Raise ZeroDivisionError.
Proof. exact zero_division. Qed.
Print Assumptions C03_zero_division.

(* a == (a//b)*b + a%b with floor semantics; (t+d)-t == d *)
Theorem C03_divmod_identity : forall a b, b <> 0 ->
  a = (a / b) * b + a mod b /\ (0 <= a mod b < b \/ b < a mod b <= 0).
Proof. exact divmod_identity. Qed.
Print Assumptions C03_divmod_identity.
Theorem C03_add_sub_cancel : forall t d s, td_add t d = Ok s -> in128 d = true -> td_sub s t = Ok d.
Proof. exact add_sub_cancel. Qed.
Print Assumptions C03_add_sub_cancel.

(* ordering, hash, bool agree with the integer order of ticks *)
Theorem C03_order : forall a b,
  td_lt a b = (a <? b) /\ td_le a b = (a <=? b) /\ td_eq a b = (a =? b) /\
  td_gt a b = (b <? a) /\ td_ge a b = (b <=? a).
Proof. exact compare_spec. Qed.
Print Assumptions C03_order.
Theorem C03_trichotomy : forall a b,
  (td_lt a b = true /\ td_eq a b = false /\ td_gt a b = false) \/
  (td_lt a b = false /\ td_eq a b = true /\ td_gt a b = false) \/
  (td_lt a b = false /\ td_eq a b = false /\ td_gt a b = true).
Proof. exact trichotomy. Qed.
Print Assumptions C03_trichotomy.
Theorem C03_hash_bool : forall a b,
  td_hash a = py_hash a /\ (a = b -> td_hash a = td_hash b) /\ td_bool a = negb (a =? 0).
Proof. exact hash_bool. Qed.
Print Assumptions C03_hash_bool.

(* DateTime +- TimeDelta, DateTime - DateTime, DateTime ordering/hash: the same integer operations *)
Theorem C03_datetime_ops : forall t d,
  dt_add_td t d = spec_from_ticks (t + d) /\ dt_sub_td t d = spec_from_ticks (t - d) /\
  dt_sub_dt t d = spec_from_ticks (t - d) /\ dt_rsub_dt t d = spec_from_ticks (d - t).
Proof. exact dt_ops_spec. Qed.
Print Assumptions C03_datetime_ops.
Theorem C03_datetime_order : forall a b,
  dt_lt a b = (a <? b) /\ dt_le a b = (a <=? b) /\ dt_eq a b = (a =? b) /\
  dt_gt a b = (b <? a) /\ dt_ge a b = (b <=? a) /\ dt_hash a = py_hash a.
Proof. exact dt_compare_spec. Qed.
Print Assumptions C03_datetime_order.
Theorem C03_datetime_add_sub_cancel : forall t d s,
  dt_add_td t d = Ok s -> in128 d = true -> dt_sub_dt s t = Ok d.
Proof. exact dt_add_sub_cancel. Qed.
Print Assumptions C03_datetime_add_sub_cancel.

Example C03_witness :
  td_add MAX128 1 = Raise OverflowError /\ td_add MAX128 (-1) = Ok (MAX128 - 1) /\
  td_divmod (-7) 2 = Ok (-4, 1) /\ td_divmod 7 (-2) = Ok (-4, -1) /\ td_floordiv_int MIN128 (-1) = Raise OverflowError.
Proof. repeat split; vm_compute; reflexivity. Qed.
