(* Props/C04.v — property C04: time conversions err by less than the coarser resolution, exact when
   possible.  The integer pieces (td_to_dt, td_to_ht, td_to_ticks_dt, td_to_ticks_int, td_init) are
   regenerated from _timedelta.py on every run; Model/Convert.v composes them with the hand-modelled
   Decimal/float entry point rat_to_ticks (exact rational arithmetic).
   Units: datetime 1 us = 10^-6 s (US), hightime 1 ys = 10^-24 s (YS), bintime 1 tick = 2^-64 s (T64). *)
From Coq Require Import ZArith List.
From NV Require Import Common.Py Common.Trans Spec.TimeSpec Gen.BintimeGen Model.Convert
  Corr.C04Spec Corr.C04Model Proofs.ConvertProofs Proofs.C04Proofs.
From NV Require Model.Complex Model.Scaling Model.TotalSeconds Proofs.C04Float Proofs.C04Decimal.
Open Scope Z_scope.

(* bintime -> datetime: rounded down, error in [0, 1 us)  (t/2^64 - r/10^6 in [0, 10^-6)) *)
Theorem C04_bt_dt : forall t r, bt_to_dt_td t = Ok r -> 0 <= t * US - r * T64 < T64.
Proof. exact bt_to_dt_bound. Qed.
Print Assumptions C04_bt_dt.
(* bintime -> hightime: error in [0, 1 ys) *)
Theorem C04_bt_ht : forall t r, bt_to_ht_td t = Ok r -> 0 <= t * YS - r * T64 < T64.
Proof. exact bt_to_ht_bound. Qed.
Print Assumptions C04_bt_ht.
(* datetime -> bintime: error in [0, 1 tick), exact whenever the microseconds are representable *)
Theorem C04_dt_bt : forall us r, dt_to_bt_td us = Ok r -> 0 <= us * T64 - r * US < US.
Proof. exact dt_to_bt_bound. Qed.
Print Assumptions C04_dt_bt.
Theorem C04_dt_bt_exact : forall us r k, dt_to_bt_td us = Ok r -> us * T64 = k * US -> r = k.
Proof. exact dt_to_bt_exact. Qed.
Print Assumptions C04_dt_bt_exact.
(* hightime -> bintime: nearest tick (|error| <= 1/2 tick), exact when representable *)
Theorem C04_ht_bt : forall ys r, ht_to_bt_td ys = Ok r -> 2 * Z.abs (r * YS - ys * T64) <= YS.
Proof. exact ht_to_bt_bound. Qed.
Print Assumptions C04_ht_bt.
Theorem C04_ht_bt_exact : forall ys r k, ht_to_bt_td ys = Ok r -> ys * T64 = k * YS -> r = k.
Proof. exact ht_to_bt_exact. Qed.
Print Assumptions C04_ht_bt_exact.
(* hightime -> datetime: rounded down to the microsecond; datetime -> hightime -> datetime identity *)
Theorem C04_ht_dt : forall ys r, ht_to_dt_td ys = Ok r -> 0 <= ys - r * YS_PER_US < YS_PER_US.
Proof. exact ht_to_dt_bound. Qed.
Print Assumptions C04_ht_dt.
Theorem C04_dt_ht_dt_identity : forall us, (do y <- dt_to_ht_td us; ht_to_dt_td y) = Ok us.
Proof. exact dt_ht_dt_id. Qed.
Print Assumptions C04_dt_ht_dt_identity.
(* bintime -> hightime -> bintime is the identity *)
Theorem C04_bt_ht_bt_identity : forall t ys, in128 t = true -> bt_to_ht_td t = Ok ys -> ht_to_bt_td ys = Ok t.
Proof. exact bt_ht_bt_id. Qed.
Print Assumptions C04_bt_ht_bt_identity.

(* monotonic *)
Theorem C04_bt_dt_monotone : forall a b ra rb, a <= b -> bt_to_dt_td a = Ok ra -> bt_to_dt_td b = Ok rb -> ra <= rb.
Proof. exact bt_to_dt_mono. Qed.
Print Assumptions C04_bt_dt_monotone.
Theorem C04_bt_ht_monotone : forall a b ra rb, a <= b -> bt_to_ht_td a = Ok ra -> bt_to_ht_td b = Ok rb -> ra <= rb.
Proof. exact bt_to_ht_mono. Qed.
Print Assumptions C04_bt_ht_monotone.
Theorem C04_dt_bt_monotone : forall a b ra rb, a <= b -> dt_to_bt_td a = Ok ra -> dt_to_bt_td b = Ok rb -> ra <= rb.
Proof. exact dt_to_bt_mono. Qed.
Print Assumptions C04_dt_bt_monotone.
Theorem C04_ht_bt_monotone : forall a b ra rb, a <= b -> ht_to_bt_td a = Ok ra -> ht_to_bt_td b = Ok rb -> ra <= rb.
Proof. exact ht_to_bt_mono. Qed.
Print Assumptions C04_ht_bt_monotone.

(* same-type request: the value itself; tz rules of the dispatch *)
Theorem C04_same_type : forall f v, conv_td f f v = Ok v.
Proof. exact same_type_td. Qed.
Print Assumptions C04_same_type.
Theorem C04_same_type_datetime : forall f v tz fold, conv_dtm f f v tz fold = Ok (v, tz, fold).
Proof. exact same_type_dtm. Qed.
Print Assumptions C04_same_type_datetime.
Theorem C04_non_utc_refused : forall src v tz fold,
  src <> Bt -> is_utc tz = false -> conv_dtm src Bt v tz fold = Raise ValueError.
Proof. exact to_bintime_refuses_non_utc. Qed.
Print Assumptions C04_non_utc_refused.
Theorem C04_from_bintime_utc : forall dst v tz fold r tz' fold',
  dst <> Bt -> conv_dtm Bt dst v tz fold = Ok (r, tz', fold') -> tz' = 1 /\ fold' = 0.
Proof. exact from_bintime_is_utc. Qed.
Print Assumptions C04_from_bintime_utc.
Theorem C04_tz_fold_kept : forall src dst v tz fold r tz' fold',
  src <> Bt -> dst <> Bt -> conv_dtm src dst v tz fold = Ok (r, tz', fold') -> tz' = tz /\ fold' = fold.
Proof. exact dt_ht_keep_tz. Qed.
Print Assumptions C04_tz_fold_kept.

(* constructors: TimeDelta(int) exact; TimeDelta(float|Decimal) nearest tick, exact when representable;
   OverflowError exactly outside the 128-bit range *)
Theorem C04_ctor_int : forall n, ctor_int n = spec_from_ticks (n * T64).
Proof. exact ctor_int_spec. Qed.
Print Assumptions C04_ctor_int.
Theorem C04_ctor_nearest : forall n den r, 0 < den -> ctor_rat n den = Ok r -> 2 * Z.abs (r * den - n * T64) <= den.
Proof. exact ctor_rat_nearest. Qed.
Print Assumptions C04_ctor_nearest.
Theorem C04_ctor_exact : forall n den r k, 0 < den -> ctor_rat n den = Ok r -> n * T64 = k * den -> r = k.
Proof. exact ctor_rat_exact. Qed.
Print Assumptions C04_ctor_exact.
Theorem C04_overflow_iff : forall t, td_init t = Raise OverflowError <-> ~ (MIN128 <= t <= MAX128).
Proof. exact overflow_only_out_of_range. Qed.
Print Assumptions C04_overflow_iff.
(* TimeDelta(x.precision_total_seconds()) == x : any decimal approximation n/den of t/2^64 within a
   quarter tick rounds back to t.  PARTIAL: that the 64-digit Decimal division stays within that bound
   is not proved here (checked per run by the correspondence on generated values). *)
Theorem C04_precision_roundtrip_partial : forall n den t,
  0 < den -> in128 t = true -> 4 * Z.abs (n * T64 - t * den) < den -> ctor_rat n den = Ok t.
Proof. exact ctor_rat_roundtrip. Qed.
Print Assumptions C04_precision_roundtrip_partial.

Example C04_witness :
  bt_to_dt_td (T64 - 1) = Ok 999999 /\ dt_to_bt_td 1 = Ok 18446744073709 /\ ht_to_bt_td (-54211) = Ok (-1) /\
  ctor_rat 1 2 = Ok 9223372036854775808 /\ ctor_rat (-3) 2 = Ok (-27670116110564327424).
Proof. repeat split; vm_compute; reflexivity. Qed.

(* total_seconds(): float(whole) + float(frac / 2^64) as three round-to-nearest-even steps; the result is
   within half a quantum of each of them of the exact value t / 2^64 (all scaled by 2^-s into Z).  The
   model is compared bit for bit with the implementation on every run. *)
Theorem C04_total_seconds_error : forall t mw qw mf qf ms qs,
  Scaling.rnd Scaling.b64 (Complex.FNum (t / TotalSeconds.T64') 0) = Complex.FNum mw qw ->
  Scaling.rnd Scaling.b64 (Complex.FNum (t mod TotalSeconds.T64') (-64)) = Complex.FNum mf qf ->
  TotalSeconds.total_seconds t = Complex.FNum ms qs ->
  forall s, s <= -64 -> s <= qw -> s <= qf -> s <= qs ->
    2 * Z.abs (ms * 2 ^ (qs - s) - t * 2 ^ (-64 - s)) <= 2 ^ (qw - s) + 2 ^ (qf - s) + 2 ^ (qs - s).
Proof. exact C04Float.total_seconds_err. Qed.
Print Assumptions C04_total_seconds_error.

(* TimeDelta(x.precision_total_seconds()) == x for every TimeDelta, given the decimal module's guarantee
   for its two operations at 64 significant digits (the quotient frac/2^64 within 10^-64/2, the sum
   whole+q within 10^-45/2): 10^-45 is far below a quarter tick *)
Theorem C04_precision_roundtrip : forall t nq dq nD dD,
  in128 t = true -> 0 < dq -> 0 < dD ->
  2 * 10 ^ 64 * Z.abs (nq * T64 - (t mod T64) * dq) <= dq * T64 ->
  2 * 10 ^ 45 * Z.abs (nD * dq - ((t / T64) * dq + nq) * dD) <= dD * dq ->
  ctor_rat nD dD = Ok t.
Proof. exact C04Decimal.precision_roundtrip. Qed.
Print Assumptions C04_precision_roundtrip.
