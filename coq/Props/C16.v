(* Props/C16.v — property C16: DigitalWaveform.test reports exactly the incompatible (sample, signal)
   positions.  state_test / the tables are regenerated from _digital/_state.py on every run;
   wf_test is the hand model of DigitalWaveform.test (tied to the code by the correspondence). *)
From Coq Require Import ZArith List Bool String Ascii.
From NV Require Import Common.Py Common.Trans Spec.StateSpec Gen.StateGen Model.DigitalTest Proofs.C16Proofs.
Open Scope Z_scope.

(* for every pair of waveforms, every window and every argument (None, negative, too large):
   the loops return exactly the filter of incompatible positions, sample-major then column-minor,
   with indices into both waveforms, signal = signal_count-1-column, and both states;
   or ValueError for bad windows / signal counts / non-state values *)
Theorem C16_failures : forall a e start estart count,
  wf_test a e start estart count = spec_test a e start estart count.
Proof. exact wf_test_spec. Qed.
Print Assumptions C16_failures.

(* the code's table is NI's table (64 pairs, complete) *)
Theorem C16_table : forall a b, is_state a = true -> is_state b = true ->
  state_test a b = negb (compatible a b).
Proof. exact state_test_compat. Qed.
Print Assumptions C16_table.
Theorem C16_symmetric : forall a b, is_state a = true -> is_state b = true -> state_test a b = state_test b a.
Proof. exact symmetric. Qed.
Print Assumptions C16_symmetric.
Theorem C16_reflexive : forall a, is_state a = true -> state_test a a = false.
Proof. exact reflexive. Qed.
Print Assumptions C16_reflexive.
Theorem C16_unknown_compatible_with_all : forall a, is_state a = true ->
  state_test a 5 = false /\ state_test 5 a = false.
Proof. exact unknown_all. Qed.
Print Assumptions C16_unknown_compatible_with_all.

Theorem C16_char_roundtrip :
  forallb (fun s => match to_char s with Ok c => match from_char c with Ok s' => s =? s' | _ => false end | _ => false end) states = true /\
  (let chars := list_ascii_of_string spec_chars in
   forallb (fun c => match from_char c with Ok s => match to_char s with Ok c' => Ascii.eqb c c' | _ => false end | _ => false end) chars = true) /\
  state_char_table = spec_chars.
Proof. exact char_roundtrip. Qed.
Print Assumptions C16_char_roundtrip.

Example C16_witness :
  let a := {| buf := [[9;9];[0;1];[3;5]]; st := 1; cnt := 2; ncol := 2 |} in
  let e := {| buf := [[1;1];[7;2]]; st := 0; cnt := 2; ncol := 2 |} in
  wf_test a e None None None = Ok [(0, 0, 1, 0, 1); (1, 1, 1, 3, 7)].
Proof. vm_compute. reflexivity. Qed.
