(* Props/C09.v — property C09: irregular timing always carries one monotonic timestamp per sample.
   The invariant good (Proofs/WfmProofs.v) contains: timing_wf (stored timestamps are monotonic and the
   mode is IRREGULAR exactly when timestamps are stored) and #timestamps = sample_count. *)
From Coq Require Import ZArith List.
From NV Require Import Common.Py Spec.TimingSpec Model.Timing Model.Waveform Proofs.WfmProofs Proofs.TimingProofs Proofs.WfmProofs2.
Open Scope Z_scope.


(* after any history of construction, timing assignment, append (arrays with timestamps, waveforms,
   sequences), load_data, sample_count / capacity assignment and pickling (PRepickle: an object replaced by its
   pickle / deepcopy round trip): every object satisfies it *)
Theorem C09_reachable : forall ops p, pool_good p -> run_wf p ops ->
  Forall irregular_ok (fold_left pnext ops p).
Proof. exact irregular_reachable. Qed.
Print Assumptions C09_reachable.

(* the operations that would break it are rejected *)
Theorem C09_timing_assignment : forall o t o', good o -> timing_wf t -> assign_timing o (Some t) = Ok o' ->
  good o' /\ view o' = view o /\ o_timing o' = t /\ o_count o' = o_count o /\ o_props o' = o_props o.
Proof. exact assign_timing_spec. Qed.
Print Assumptions C09_timing_assignment.
Theorem C09_count_mismatch_rejected : forall o t l, t_tss t = Some l -> length l <> o_count o ->
  assign_timing o (Some t) = Raise IrregularTimestampCountMismatchError.
Proof. exact irregular_count_mismatch_rejected. Qed.
Print Assumptions C09_count_mismatch_rejected.
Theorem C09_sample_count_rejected : forall o l n, has_timing (o_kind o) = true -> t_tss (o_timing o) = Some l ->
  0 <= n -> Z.of_nat (o_start o) + n <= Z.of_nat (cap o) -> length l <> Z.to_nat n ->
  set_sample_count o (IInt n) = Raise IrregularTimestampCountMismatchError.
Proof. exact irregular_sample_count_rejected. Qed.
Print Assumptions C09_sample_count_rejected.

(* consequently get_timestamps(0, sample_count) succeeds with one timestamp per sample *)
Theorem C09_get_all_timestamps : forall r o l, good o -> has_timing (o_kind o) = true -> t_tss (o_timing o) = Some l ->
  get_timestamps r (o_timing o) 0 (Z.of_nat (o_count o)) = Ok l.
Proof. exact irregular_get_all_timestamps. Qed.
Print Assumptions C09_get_all_timestamps.

(* ... and pickling: the copy that a pickle / deepcopy round trip puts in an object's place keeps the invariant, shows
   the same samples and carries the same timing and properties, in a buffer without offset or slack *)
Theorem C09_pickled_copy : forall o, good o ->
  good (repickle o) /\ view (repickle o) = view o /\ o_timing (repickle o) = o_timing o /\ o_count (repickle o) = o_count o
  /\ o_props (repickle o) = o_props o /\ o_start (repickle o) = 0%nat /\ cap (repickle o) = o_count o.
Proof. exact repickle_spec. Qed.
Print Assumptions C09_pickled_copy.
