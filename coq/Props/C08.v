(* Props/C08.v — property C08: Timing yields exactly the requested timestamps, without drift, or refuses. *)
From Coq Require Import ZArith List.
From NV Require Import Common.Py Spec.TimingSpec Model.Timing Proofs.TimingProofs Proofs.C08Windows.
Open Scope Z_scope.

(* REGULAR: n timestamps, the k-th is timestamp + time_offset + (i+k)*sample_interval exactly, although
   the code accumulates with += (exact integer arithmetic in the family's unit: no drift) *)
Theorem C08_regular_exact : forall r ts off si i n l,
  gen_regular r ts off si i n = Ok l ->
  l = map (fun k => ts + match off with Some o => o | None => 0 end + (i + Z.of_nat k) * si) (seq 0 n).
Proof.
  intros r ts off si i n l H. rewrite (regular_spec _ _ _ _ _ _ _ H).
  unfold spec_regular. rewrite Nat2Z.id. reflexivity.
Qed.
Print Assumptions C08_regular_exact.
Theorem C08_regular_count : forall r ts off si i n l, gen_regular r ts off si i n = Ok l -> length l = n.
Proof. exact regular_length. Qed.
Print Assumptions C08_regular_count.

(* IRREGULAR: exactly the stored timestamps i..i+n-1; reaching beyond them raises ValueError *)
Theorem C08_irregular : forall r t l i n, t_mode t = 2 -> t_tss t = Some l ->
  get_timestamps r t i n = spec_irregular l i n.
Proof. exact irregular_spec. Qed.
Print Assumptions C08_irregular.
Theorem C08_irregular_never_fewer : forall l i n r, spec_irregular l i n = Ok r -> length r = Z.to_nat n.
Proof. exact irregular_exact_count. Qed.
Print Assumptions C08_irregular_never_fewer.

Theorem C08_no_timestamp_information : forall r t i n, 0 <= i -> 0 <= n ->
  t_mode t = 0 \/ (t_mode t = 1 /\ t_ts t = None) ->
  get_timestamps r t i n = Raise NoTimestampInformationError.
Proof. exact no_timestamp_information. Qed.
Print Assumptions C08_no_timestamp_information.
Theorem C08_negative_arguments : forall r t i n, i < 0 \/ n < 0 -> get_timestamps r t i n = Raise ValueError.
Proof. exact negative_arguments. Qed.
Print Assumptions C08_negative_arguments.

(* irregular timing can be created from exactly the non-decreasing or non-increasing sequences *)
Theorem C08_monotonic_iff : forall l, monotonic_sm l = monotone l.
Proof. exact monotonic_iff. Qed.
Print Assumptions C08_monotonic_iff.

(* the timestamp of a sample does not depend on the window it is read through (Proofs/C08Windows.v):
   the k-th timestamp of any window, and adjacent windows concatenate, for both modes *)
Theorem C08_regular_kth : forall r ts off si i n l k, (k < n)%nat ->
  gen_regular r ts off si i n = Ok l ->
  nth_error l k = Some (ts + match off with Some o => o | None => 0 end + (i + Z.of_nat k) * si).
Proof. exact regular_kth. Qed.
Print Assumptions C08_regular_kth.
Theorem C08_regular_window_split : forall r ts off si i n m l l1 l2,
  gen_regular r ts off si i (n + m) = Ok l ->
  gen_regular r ts off si i n = Ok l1 ->
  gen_regular r ts off si (i + Z.of_nat n) m = Ok l2 ->
  l = l1 ++ l2.
Proof. exact regular_window_split. Qed.
Print Assumptions C08_regular_window_split.
Theorem C08_irregular_window_split : forall l i n m r,
  0 <= i -> 0 <= n -> 0 <= m ->
  spec_irregular l i (n + m) = Ok r ->
  exists r1 r2, spec_irregular l i n = Ok r1 /\ spec_irregular l (i + n) m = Ok r2 /\ r = r1 ++ r2.
Proof. exact irregular_window_split. Qed.
Print Assumptions C08_irregular_window_split.

Example C08_witness :
  gen_regular {| lo_td := -100; hi_td := 100; lo_dtm := -1000; hi_dtm := 1000 |} 10 (Some 1) 3 2 4 = Ok [17; 20; 23; 26] /\
  monotonic_sm [0; 1; 1; 0] = false /\ monotonic_sm [3; 3; 2; 2; -5] = true /\
  spec_irregular [1; 2; 3; 4; 5] 3 4 = Raise ValueError.
Proof. repeat split; vm_compute; reflexivity. Qed.
