(* Props/C19.v — property C19: units mirror the extended properties; Scalar ordering and XYData pairing.
   Model/Scalar.v: the units attributes are lookups in the extended-property dictionary (so the
   "two views of one value" clause is structural in the model and is what the correspondence checks on
   the real objects); Scalar comparison and XYData validation are written in source order. *)
From Coq Require Import ZArith List.
From NV Require Import Common.Py Model.Scalar Proofs.C19Proofs.
Open Scope Z_scope.

Theorem C19_attr_write_visible : forall p k v p', attr_set p k v = Ok p' ->
  p_get p' k = Some v /\ attr_get p' k = v /\ forall k', k' <> k -> p_get p' k' = p_get p k'.
Proof. exact attr_write_visible. Qed.
Print Assumptions C19_attr_write_visible.
Theorem C19_dict_write_visible : forall p k v,
  attr_get (p_set p k v) k = v /\ forall k', k' <> k -> attr_get (p_set p k v) k' = attr_get p k'.
Proof. exact dict_write_visible. Qed.
Print Assumptions C19_dict_write_visible.
Theorem C19_dict_delete_visible : forall p k, attr_get (p_del p k) k = PStr 0.
Proof. exact dict_delete_visible. Qed.
Print Assumptions C19_dict_delete_visible.
Theorem C19_units_view_any_history : forall ops p k,
  let p' := fold_left (fun st op => snd (u_step st op)) ops p in
  attr_get p' k = match p_get p' k with Some v => v | None => PStr 0 end.
Proof. exact units_view_any_history. Qed.
Print Assumptions C19_units_view_any_history.
Theorem C19_units_type : forall p k, attr_set p k PNonStr = Raise TypeError.
Proof. exact attr_rejects_non_str. Qed.
Print Assumptions C19_units_type.

Theorem C19_ctor_conflict : forall u ext k v, p_get ext k = Some v -> u <> 0 -> v <> PStr u ->
  ctor_units (PStr u) ext k = Raise ValueError.
Proof. exact ctor_conflict. Qed.
Print Assumptions C19_ctor_conflict.
Theorem C19_ctor_sets_units : forall u ext k, p_get ext k = None ->
  exists p, ctor_units (PStr u) ext k = Ok p /\ attr_get p k = PStr u.
Proof. exact ctor_sets_units. Qed.
Print Assumptions C19_ctor_sets_units.
Theorem C19_ctor_units_type : forall ext k, ctor_units PNonStr ext k = Raise TypeError.
Proof. exact ctor_units_type. Qed.
Print Assumptions C19_ctor_units_type.

Theorem C19_comparison_table : forall op v1 u1 v2 u2,
  (u1 <> u2 -> scalar_cmp op v1 u1 v2 u2 = Raise ValueError) /\
  (u1 = u2 -> forall a b, v1 = VNum a -> v2 = VStr b -> scalar_cmp op v1 u1 v2 u2 = Raise TypeError) /\
  (u1 = u2 -> forall a b, v1 = VStr a -> v2 = VNum b -> scalar_cmp op v1 u1 v2 u2 = Raise TypeError) /\
  (u1 = u2 -> forall a b, v1 = VNum a -> v2 = VNum b -> exists r, scalar_cmp op v1 u1 v2 u2 = Ok r) /\
  (u1 = u2 -> forall a b, v1 = VStr a -> v2 = VStr b -> exists r, scalar_cmp op v1 u1 v2 u2 = Ok r).
Proof. exact cmp_table. Qed.
Print Assumptions C19_comparison_table.
Theorem C19_order_consistent : forall m1 e1 m2 e2 u,
  let a := VNum (Fin m1 e1) in let b := VNum (Fin m2 e2) in
  scalar_cmp OLe a u b u = Ok (negb (num_lt (Fin m2 e2) (Fin m1 e1))) /\
  scalar_cmp OGe a u b u = Ok (negb (num_lt (Fin m1 e1) (Fin m2 e2))) /\
  scalar_cmp OGt a u b u = Ok (num_lt (Fin m2 e2) (Fin m1 e1)) /\
  (num_lt (Fin m1 e1) (Fin m2 e2) = true \/ num_eq (Fin m1 e1) (Fin m2 e2) = true \/ num_lt (Fin m2 e2) (Fin m1 e1) = true).
Proof. exact cmp_consistent. Qed.
Print Assumptions C19_order_consistent.
Theorem C19_eq_needs_units_and_value : forall v1 u1 v2 u2, scalar_eq v1 u1 v2 u2 = true ->
  u1 = u2 /\ match v1, v2 with VNum a, VNum b => num_eq a b = true | VStr a, VStr b => a = b | _, _ => False end.
Proof. exact eq_iff. Qed.
Print Assumptions C19_eq_needs_units_and_value.
Theorem C19_only_scalars : forall v, (exists r, scalar_init v = Ok r) <-> v <> VOtherType.
Proof. exact only_scalars_accepted. Qed.
Print Assumptions C19_only_scalars.

Theorem C19_xydata_ok_iff : forall x y,
  xy_init x y = Ok tt <->
  (a_ndim x = 1 /\ a_ndim y = 1 /\ a_len x = a_len y /\ a_dtype x = a_dtype y /\ a_supported x = true).
Proof. exact xy_ok_iff. Qed.
Print Assumptions C19_xydata_ok_iff.
Theorem C19_xydata_error_class : forall x y e, xy_init x y = Raise e -> e = TypeError \/ e = ValueError.
Proof. exact xy_error_class. Qed.
Print Assumptions C19_xydata_error_class.

Example C19_witness :
  scalar_cmp OLt (VNum (Fin 100000000000000000000 0)) 1 (VNum (Fin 1 67)) 1 = Ok true /\
  scalar_cmp OLt (VNum (Fin 1 0)) 1 (VStr [97]) 2 = Raise ValueError /\
  scalar_cmp OGe (VStr [97]) 1 (VStr [97; 98]) 1 = Ok false /\
  xy_init {| a_ndim := 1; a_len := 3; a_dtype := 7; a_supported := true |} {| a_ndim := 1; a_len := 2; a_dtype := 7; a_supported := true |} = Raise ValueError.
Proof. repeat split; vm_compute; reflexivity. Qed.
