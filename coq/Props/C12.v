(* Props/C12.v — property C12: copy=True isolates, copy=False shares: no hidden aliasing and no
   hidden copies.  Model/Alias.v: a heap of buffers, strided references, np.asarray's copy rule, the
   construction/load paths, and later writes and in-capacity appends on either side. *)
From Coq Require Import ZArith List.
From NV Require Import Common.Py Model.Alias Proofs.C12Proofs.
Open Scope nat_scope.

(* memory facts: a write is invisible through other buffers, visible through every alias of the cell *)
Theorem C12_frame : forall h a b r c v r' c', r_buf a <> r_buf b -> hread (hwrite h a r c v) b r' c' = hread h b r' c'.
Proof. exact frame. Qed.
Print Assumptions C12_frame.
Theorem C12_write_read : forall h a b r c v r' c', r_buf a = r_buf b -> addr a r c = addr b r' c' ->
  r_buf a < length h -> addr a r c < length (bufof h (r_buf a)) -> hread (hwrite h a r c v) b r' c' = v.
Proof. exact write_read. Qed.
Print Assumptions C12_write_read.

(* copy=True (and from_port): a fresh buffer, every existing buffer untouched *)
Theorem C12_copy_is_fresh : forall p h s cast h' a, p <> PCtor -> build p h s cast true = Ok (h', a) ->
  r_buf a = length h /\ length h' = S (length h) /\ (forall b, b < length h -> bufof h' b = bufof h b).
Proof. exact copy_is_fresh. Qed.
Print Assumptions C12_copy_is_fresh.
Theorem C12_port_is_fresh : forall h s cast copy h' a, build PPort h s cast copy = Ok (h', a) -> r_buf a = length h.
Proof. exact port_is_fresh. Qed.
Print Assumptions C12_port_is_fresh.

(* ... hence, for EVERY later interleaving of writes and appends, neither side sees the other *)
Theorem C12_isolation_source : forall ops src h1 h2 o o', r_buf src <> r_buf (ao_ref o) -> agree (r_buf src) h1 h2 ->
  agree (r_buf src) (fst (arun src (h1, o) ops)) (fst (run_side src_only src (h2, o') ops)).
Proof. exact isolation_source. Qed.
Print Assumptions C12_isolation_source.
Theorem C12_isolation_object : forall ops src h1 h2 o, r_buf src <> r_buf (ao_ref o) -> agree (r_buf (ao_ref o)) h1 h2 ->
  agree (r_buf (ao_ref o)) (fst (arun src (h1, o) ops)) (fst (run_side obj_side src (h2, o) ops)) /\
  snd (arun src (h1, o) ops) = snd (run_side obj_side src (h2, o) ops).
Proof. exact isolation_object. Qed.
Print Assumptions C12_isolation_object.

(* copy=False: never allocates — the result is the caller's array (or its row) or the call raises *)
Theorem C12_no_hidden_copy : forall p h s cast h' a, p <> PPort -> p <> PCtor -> build p h s cast false = Ok (h', a) ->
  h' = h /\ is_view_of a s p /\ cast = false.
Proof. exact no_hidden_copy. Qed.
Print Assumptions C12_no_hidden_copy.
Theorem C12_impossible_no_copy_raises : forall h a vals cols,
  build PFrom1d h (SRef a) true false = Raise ValueError /\
  build PFrom1d h (SList vals cols) false false = Raise ValueError /\
  (forall i, build (PFrom2dRow i) h (SRef a) true false = Raise ValueError) /\
  build PLines h (SList vals cols) false false = Raise ValueError.
Proof. exact impossible_no_copy_raises. Qed.
Print Assumptions C12_impossible_no_copy_raises.

(* views (raw_data, data, get_*_data, rows of from_array_2d, signal columns) address the parent's cells;
   writes are visible both ways; in-capacity appends land in the caller's memory *)
Theorem C12_views_are_live : forall h a s n i c r cc,
  hread h (subrows a s n) r cc = hread h a (s + r) cc /\ hread h (rowof a i) r 0 = hread h a i r /\ hread h (colof a c) r 0 = hread h a r c.
Proof. intros. split; [apply subrows_cell|split; [apply rowof_cell|apply colof_cell]]. Qed.
Print Assumptions C12_views_are_live.
Theorem C12_shared_write_visible : forall h a s n r c v,
  r_buf a < length h -> addr a (s + r) c < length (bufof h (r_buf a)) ->
  hread (hwrite h a (s + r) c v) (subrows a s n) r c = v /\ hread (hwrite h (subrows a s n) r c v) a (s + r) c = v.
Proof. exact shared_write_visible. Qed.
Print Assumptions C12_shared_write_visible.
Theorem C12_shared_append_lands : forall h a s n v, s + n < r_rows a -> r_cols a = 1 ->
  r_buf a < length h -> addr a (s + n) 0 < length (bufof h (r_buf a)) ->
  let st := astep a (h, {| ao_ref := a; ao_start := s; ao_count := n; ao_owns := false |}) (AppendIn [v]) in
  hread (fst st) a (s + n) 0 = v /\ ao_count (snd st) = S n.
Proof. exact shared_append_lands. Qed.
Print Assumptions C12_shared_append_lands.

Example C12_witness :
  let h := [[1; 2; 3; 4]%Z] in
  let src := {| r_buf := 0; r_off := 0; r_rs := 1; r_cs := 1; r_rows := 4; r_cols := 1 |} in
  (exists h' a, build PFrom1d h (SRef src) false true = Ok (h', a) /\ r_buf a = 1 /\
     contents (hwrite h' src 0 0 9%Z) a = [[1]; [2]; [3]; [4]]%Z) /\
  (exists a, build PFrom1d h (SRef src) false false = Ok (h, a) /\ contents (hwrite h src 0 0 9%Z) a = [[9]; [2]; [3]; [4]]%Z) /\
  build PFrom1d h (SRef src) true false = Raise ValueError.
Proof. split; [eexists; eexists; vm_compute; repeat split; reflexivity|]. split; [eexists; vm_compute; repeat split; reflexivity|reflexivity]. Qed.
