(* Props/C11.v — property C11: scaled data is gain*raw+offset, element by element, in the requested
   dtype.  Model/Scaling.v: dtype validation, the get_raw_data window, conversion, and IEEE binary32 /
   binary64 arithmetic as exact dyadic operations followed by round-to-nearest-even. *)
From Coq Require Import ZArith List.
From NV Require Import Common.Py Model.Complex Model.Waveform Model.Scaling Proofs.C11Proofs.
Open Scope Z_scope.

(* dtype, length and element-by-element structure of a successful call, for every window *)
Theorem C11_structure : forall raw s d start sc tag out, get_scaled raw s d start sc = Ok (tag, out) ->
  exists f st c, fmt_of d = Ok (tag, f) /\ 0 <= st /\ 0 <= c /\ st + c <= Z.of_nat (length raw) /\
    arg_uint start (Some 0) = Ok st /\ arg_uint sc (Some (Z.of_nat (length raw) - st)) = Ok c /\
    out = map (scale_elem f s) (firstn (Z.to_nat c) (skipn (Z.to_nat st) raw)) /\ length out = Z.to_nat c /\
    forall k, (k < Z.to_nat c)%nat -> nth k out (FNan, FNan) = scale_elem f s (nth (Z.to_nat st + k) raw (FNan, FNan)).
Proof. exact get_scaled_spec. Qed.
Print Assumptions C11_structure.

Theorem C11_scaled_data_is_whole : forall raw s, scaled_data raw s = Ok (64, map (scale_elem b64 s) raw).
Proof. exact scaled_data_whole. Qed.
Print Assumptions C11_scaled_data_is_whole.

Theorem C11_rejections : forall (raw : list celem) s start sc,
  get_scaled raw s RBad start sc = Raise TypeError /\
  (forall e, window raw start sc = Raise e -> e = TypeError \/ e = ValueError) /\
  (forall st c, 0 <= st -> 0 <= c -> Z.of_nat (length raw) < st + c -> window raw (IInt st) (IInt c) = Raise ValueError).
Proof. intros. split; [reflexivity|]. split; [apply window_rejects|apply window_outside]. Qed.
Print Assumptions C11_rejections.

(* the window is the one get_raw_data applies to any object satisfying the pool invariant *)
Theorem C11_window_is_get_raw_data : forall o start sc, (o_start o + o_count o <= cap o)%nat -> get_data o start sc = window (view o) start sc.
Proof. exact get_data_window. Qed.
Print Assumptions C11_window_is_get_raw_data.

(* NO_SCALING: raw converted to the requested precision; exact whenever the value fits it *)
Theorem C11_no_scaling : forall f x, scale_elem f SNone x = (rnd f (fst x), rnd f (snd x)).
Proof. exact no_scaling_elem. Qed.
Print Assumptions C11_no_scaling.
Theorem C11_conversion_exact_when_representable : forall f m e m' q', m <> 0 -> Z.abs m < 2 ^ prec f -> 0 < prec f -> qmin f <= e ->
  rnd f (FNum m e) = FNum m' q' -> q' <= e /\ forall s, s <= q' -> m' * 2 ^ (q' - s) = m * 2 ^ (e - s).
Proof. exact rnd_exact. Qed.
Print Assumptions C11_conversion_exact_when_representable.

(* one rounding: within half a unit in the last place (values scaled by 2^-s into the integers) *)
Theorem C11_rounding_error : forall f m e m' q', m <> 0 -> rnd f (FNum m e) = FNum m' q' ->
  q' = quantum f m e /\ forall s, s <= e -> s <= q' -> 2 * Z.abs (m' * 2 ^ (q' - s) - m * 2 ^ (e - s)) <= 2 ^ (q' - s).
Proof. exact rnd_err. Qed.
Print Assumptions C11_rounding_error.

(* LinearScaleMode: |result - (x*g + o)| <= ulp(product)/2 + ulp(sum)/2 *)
Theorem C11_linear_error : forall f mx ex mg eg mo eo m1 q1 m2 q2,
  rnd f (FNum (mx * mg) (ex + eg)) = FNum m1 q1 ->
  rnd f (fadd_exact (FNum m1 q1) (FNum mo eo)) = FNum m2 q2 ->
  forall s, s <= ex + eg -> s <= eo -> s <= q1 -> s <= q2 ->
    2 * Z.abs (m2 * 2 ^ (q2 - s) - (mx * mg * 2 ^ (ex + eg - s) + mo * 2 ^ (eo - s))) <= 2 ^ (q1 - s) + 2 ^ (q2 - s).
Proof. exact lin_err. Qed.
Print Assumptions C11_linear_error.

Example C11_witness :
  get_scaled [(FNum 1 0, FNum 0 0); (FNum 3 0, FNum 0 0); (FNum (-7) 0, FNum 0 0)] (SLinear (FNum 1 (-1)) (FNum 1 0)) R32 (IInt 1) INone
    = Ok (32, [(FNum 10485760 (-22), FNum 0 0); (FNum (-10485760) (-22), FNum 0 0)]) /\
  rnd b32 (FNum 16777217 0) = FNum 8388608 1 /\ rnd b32 (FNum 1 130) = FInf false.
Proof. vm_compute. repeat split; reflexivity. Qed.
