(* Props/C20.v — property C20: a Timing holds exactly the members its mode allows, and never changes.
   Model/Timing.v is the hand model of Timing.__init__ + the three validate_init_args (source order),
   tied to the code by an exhaustive correspondence over modes x member kinds. *)
From Coq Require Import ZArith List.
From NV Require Import Common.Py Spec.TimingSpec Model.Timing Proofs.TimingProofs.
Open Scope Z_scope.

Theorem C20_accepted_iff_table : forall mode ts off si tss,
  (exists t, timing_init mode ts off si tss = Ok t) <-> spec_accepts mode ts off si tss = true.
Proof. exact init_ok_iff. Qed.
Print Assumptions C20_accepted_iff_table.

Theorem C20_rejected_with_type_or_value_error : forall mode ts off si tss e,
  timing_init mode ts off si tss = Raise e -> e = TypeError \/ e = ValueError.
Proof. exact init_error_class. Qed.
Print Assumptions C20_rejected_with_type_or_value_error.

Theorem C20_members_and_flags : forall mode ts off si tss t,
  timing_init mode ts off si tss = Ok t ->
  t_mode t = mode /\
  has (t_ts t) = is_dtm ts /\ has (t_off t) = is_td off /\ has (t_si t) = is_td si /\
  has (t_tss t) = match tss with TSeq _ => true | _ => false end /\
  (mode = 0 -> t_si t = None /\ t_tss t = None) /\
  (mode = 1 -> t_tss t = None /\ has (t_si t) = true) /\
  (mode = 2 -> t_ts t = None /\ t_off t = None /\ t_si t = None).
Proof. exact init_members. Qed.
Print Assumptions C20_members_and_flags.

Theorem C20_absent_member_raises : forall (o : option Z), has o = false -> read o = Raise RuntimeError.
Proof. exact (@read_absent Z). Qed.
Print Assumptions C20_absent_member_raises.

Theorem C20_empty : forall t, timing_init 0 ANone ANone ANone TNone = Ok t ->
  has (t_ts t) = false /\ has (t_off t) = false /\ has (t_si t) = false /\ has (t_tss t) = false.
Proof. exact empty_has_no_members. Qed.
Print Assumptions C20_empty.

Theorem C20_equal_iff_same_members : forall a b, timing_eqb a b = true <-> a = b.
Proof. exact timing_eq_iff. Qed.
Print Assumptions C20_equal_iff_same_members.

Example C20_witness :
  (exists t, timing_init 1 (ADatetime 5) ANone (ATimedelta 2) TNone = Ok t) /\
  timing_init 2 ANone ANone ANone (TSeq [ADatetime 1; ADatetime 1; ADatetime 0; ADatetime 3]) = Raise ValueError /\
  timing_init 0 ANone ANone (ATimedelta 1) TNone = Raise ValueError /\
  timing_init 7 ANone ANone ANone TNone = Raise ValueError.
Proof. repeat split; try (eexists; reflexivity). Qed.
