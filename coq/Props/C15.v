(* Props/C15.v — property C15: digital signal names always reflect the NI_LineNames property.
   Model/Names.v: property value, cached parsed list, key-changed invalidation, index reversal. *)
From Coq Require Import ZArith List.
From NV Require Import Common.Py Model.Names Proofs.C15Proofs.
Open Scope Z_scope.

(* the cache is the parse of the CURRENT property after every operation, hence after every history *)
Theorem C15_step_coherent : forall st op r st', coherent st -> nstep st op = (r, st') -> coherent st'.
Proof. exact step_coherent. Qed.
Print Assumptions C15_step_coherent.

(* after any history from a fresh object: signals[i].name is the (signal_count-1-i)-th trimmed entry
   of the current NI_LineNames ('' when absent); signals[name] returns a signal carrying that name or
   raises IndexError; assigning a clean name changes that name only and NI_LineNames is the joined list *)
Theorem C15_names_reflect_property : forall ops n p,
  let st := nrun ops {| n_cols := n; n_prop := p; n_cache := None |} in
  (forall i c, sig_col st i = Ok c -> fst (nstep st (NRead i)) = Ok (NName (spec_name st c))) /\
  (forall name, (exists c, (c < n_cols st)%nat /\ fst (nstep st (NLookup name)) = Ok (NIndex (Z.of_nat (n_cols st) - 1 - Z.of_nat c)) /\ spec_name st c = name)
                \/ fst (nstep st (NLookup name)) = Raise IndexError) /\
  (forall i c v, sig_col st i = Ok c -> clean v ->
     let st' := snd (nstep st (NWrite i v)) in
     fst (nstep st (NWrite i v)) = Ok NNone /\
     n_prop st' = Some (join (set_nth_s (pad (n_cols st) (parse (match n_prop st with Some s => s | None => [] end))) c v)) /\
     forall c', spec_name st' c' = if Nat.eqb c' c then v else spec_name st c').
Proof. exact C15_histories. Qed.
Print Assumptions C15_names_reflect_property.

Theorem C15_rejected_write_changes_nothing : forall st i, coherent st ->
  let st' := snd (nstep st (NWriteBad i)) in
  (exists e, fst (nstep st (NWriteBad i)) = Raise e) /\ n_prop st' = n_prop st /\ n_cols st' = n_cols st /\
  forall c, spec_name st' c = spec_name st c.
Proof. exact write_bad_unchanged. Qed.
Print Assumptions C15_rejected_write_changes_nothing.

Theorem C15_index_reversal : forall st i c, sig_col st i = Ok c -> 0 <= i -> Z.of_nat c = Z.of_nat (n_cols st) - 1 - i.
Proof. exact sig_col_reverse. Qed.
Print Assumptions C15_index_reversal.

(* re-parsing a joined list of clean names gives the list back (why a clean write is local) *)
Theorem C15_parse_join : forall l, l <> [] -> Forall clean l -> parse (join l) = l.
Proof. exact parse_join. Qed.
Print Assumptions C15_parse_join.

Example C15_witness :
  let st := nrun [NRead 0; NMerge (Some [97; 44; 32; 98; 32]); NWrite 0 [99]] {| n_cols := 3; n_prop := None; n_cache := None |} in
  n_prop st = Some [97; 44; 32; 98; 44; 32; 99] /\ fst (nstep st (NRead 1)) = Ok (NName [98]) /\
  fst (nstep st (NLookup [99])) = Ok (NIndex 0) /\ fst (nstep st (NLookup [100])) = Raise IndexError.
Proof. vm_compute. repeat split; reflexivity. Qed.
