(* Props/C06.v — property C06: port data unpacks to the documented bit / line / signal mapping.
   bit_mask, _get_port_dtype and _mask_to_column_indices (a while loop, translated to a fuelled
   Fixpoint) are regenerated from _digital/_port.py on every run; Model/Port.v models the rest of
   port_to_line_data / from_port at the level of integer sample values. *)
From Coq Require Import ZArith List String.
From NV Require Import Common.Py Common.Trans Spec.PortSpec Gen.PortGen Model.Port Proofs.C06Proofs Model.PortBytes Proofs.C06Bytes.
Open Scope Z_scope.

(* bits_asc W mask 0 IS the ascending list of set mask bits below W *)
Theorem C06_set_bits : forall n m b p, 0 <= m ->
  In p (bits_asc n m b) <-> (b <= p < b + Z.of_nat n /\ Z.testbit m (p - b) = true).
Proof. exact bits_asc_in. Qed.
Print Assumptions C06_set_bits.
Theorem C06_set_bits_ascending : forall n m b, ascending_from b (bits_asc n m b).
Proof. exact bits_asc_ascending. Qed.
Print Assumptions C06_set_bits_ascending.

(* the regenerated loop: for EVERY mask that fits the port (any width), the column list is the set
   bits in data-column order — no mask is special *)
Theorem C06_columns : forall big (W : nat) mask, 0 <= mask < 2 ^ Z.of_nat W ->
  port_mask_to_columns mask (Z.of_nat W) (order_str big)
  = Ok (if big then rev (map (col_of true (Z.of_nat W)) (bits_asc W mask 0)) else bits_asc W mask 0).
Proof. exact columns_spec. Qed.
Print Assumptions C06_columns.

(* one row per sample; data column c holds the c-th highest (big) / c-th lowest (little) set mask bit *)
Theorem C06_row : forall big (W : nat) mask v, 0 <= mask < 2 ^ Z.of_nat W ->
  line_row big W mask v = Ok (spec_row big W mask v).
Proof. exact row_spec. Qed.
Print Assumptions C06_row.

(* signal i = data column signal_count-1-i: the i-th lowest set bit for 'big', the i-th highest for 'little' *)
Theorem C06_signal : forall (W : nat) mask v i,
  let bits := bits_asc W mask 0 in
  (i < length bits)%nat ->
  signal_of_row false (spec_row true W mask v) i = Z.testbit v (nth i bits 0) /\
  signal_of_row false (spec_row false W mask v) i = Z.testbit v (nth (length bits - 1 - i) bits 0).
Proof. exact signal_spec. Qed.
Print Assumptions C06_signal.
Theorem C06_signal_count : forall big (W : nat) mask v, length (spec_row big W mask v) = length (bits_asc W mask 0).
Proof. exact signal_count_spec. Qed.
Print Assumptions C06_signal_count.

Theorem C06_from_port : forall big (W : nat) mask values,
  0 <= mask < 2 ^ Z.of_nat W -> forallb (in_width W) values = true ->
  from_port true W (Some mask) big values = Ok (map (spec_row big W mask) values).
Proof. exact from_port_array. Qed.
Print Assumptions C06_from_port.

(* mask bits beyond the port width and negative masks are rejected, never turned into signals *)
Theorem C06_wide_mask_rejected : forall big (W : nat) mask, 2 ^ Z.of_nat W <= mask ->
  port_mask_to_columns mask (Z.of_nat W) (order_str big) = Raise ValueError.
Proof. exact wide_mask_rejected. Qed.
Print Assumptions C06_wide_mask_rejected.
Theorem C06_negative_mask_rejected : forall big w mask, mask < 0 ->
  port_mask_to_columns mask w (order_str big) = Raise ValueError.
Proof. exact negative_mask_rejected. Qed.
Print Assumptions C06_negative_mask_rejected.
Theorem C06_from_port_bad_mask : forall big (W : nat) mask values,
  mask < 0 \/ 2 ^ Z.of_nat W <= mask ->
  exists e, from_port true W (Some mask) big values = Raise e /\ (e = ValueError \/ e = OverflowError).
Proof. exact from_port_bad_mask. Qed.
Print Assumptions C06_from_port_bad_mask.

Example C06_witness :
  port_mask_to_columns 15 8 "big" = Ok [4; 5; 6; 7] /\ port_mask_to_columns 256 16 "big" = Ok [7] /\
  line_row true 8 6 5 = Ok [true; false] /\ line_row false 8 6 5 = Ok [false; true] /\
  port_mask_to_columns 256 8 "big" = Raise ValueError.
Proof. repeat split; vm_compute; reflexivity. Qed.

(* the byte-level pipeline of port_to_line_data — the k native (little-endian) bytes of a port value, byteswap for
   bitorder='big', view(uint8), np.unpackbits in the requested bit order — yields exactly the value-level row the
   theorems above speak of, for every port width and every value: the result depends only on the integer *)
Theorem C06_bytes : forall big k v, pipeline_row big k v = full_row big (8 * k) v.
Proof. exact pipeline_row_spec. Qed.
Print Assumptions C06_bytes.

(* an array of the other byte order is first converted to native order: same value, hence the same native bytes and
   the same row, whatever order the samples arrived in *)
Theorem C06_byte_order : forall k v, 0 <= v < 256 ^ Z.of_nat k -> normalise_be k (be_bytes k v) = le_bytes k v.
Proof. exact normalise_be_ok. Qed.
Print Assumptions C06_byte_order.
