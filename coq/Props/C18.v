(* Props/C18.v — property C18: Vector is a homogeneous typed list: list semantics, one item type,
   nothing lost.  Model/Vector.v: the class stores a real Python list, so list behaviour is ListSpec
   itself; the model adds the constructor, the isinstance checks and the mixins built on them. *)
From Coq Require Import ZArith List.
From NV Require Import Common.Py Spec.ListSpec Model.Vector Proofs.C18Proofs Proofs.C18Extend.
Open Scope Z_scope.

(* the constructor keeps exactly the iterable's items in order; value type = type of the first item,
   or value_type for an empty iterable *)
Theorem C18_constructor : forall values value_type s,
  v_init values value_type = Ok s ->
  exists items, values = ItItems items /\ elems s = items /\ typed s /\
    match items with x :: _ => type_of x = Some (vt s) | [] => value_type = Some (vt s) end.
Proof. exact init_spec. Qed.
Print Assumptions C18_constructor.

Theorem C18_constructor_rejects_mixed : forall x rest value_type,
  existsb (fun v => negb (match type_of x with Some t => instance_of t v | None => false end)) (x :: rest) = true ->
  v_init (ItItems (x :: rest)) value_type = Raise TypeError.
Proof. exact init_rejects. Qed.
Print Assumptions C18_constructor_rejects_mixed.

(* after ANY operation — and therefore after any history of operations — every element is an
   instance of the vector's value type, which never changes *)
Theorem C18_step_typed : forall s op r s', typed s -> v_step s op = (r, s') -> typed s' /\ vt s' = vt s.
Proof. exact step_typed. Qed.
Print Assumptions C18_step_typed.
Theorem C18_typed_reachable : forall ops s, typed s ->
  typed (fold_left (fun st op => snd (v_step st op)) ops s).
Proof. exact history_typed. Qed.
Print Assumptions C18_typed_reachable.

(* inserting, assigning or slice-assigning a value that is not an instance of the value type raises
   TypeError and stores nothing *)
Theorem C18_reject_wrong_type : forall s x i,
  instance_of (vt s) x = false ->
  v_step s (VSet (XInt i) (One x)) = (Raise TypeError, s) /\
  v_step s (VInsert (Some i) (One x)) = (Raise TypeError, s) /\
  v_step s (VAppend (One x)) = (Raise TypeError, s) /\
  forall a b c items, In x items -> v_step s (VSetSlice a b c (ItItems items)) = (Raise TypeError, s).
Proof. exact reject_wrong_type. Qed.
Print Assumptions C18_reject_wrong_type.

(* extend / += exactly: the vector ends up with its old items followed by the longest well-typed
   prefix of the argument (typed_prefix), and the call succeeds iff that prefix is the whole
   argument; a well-typed argument is appended whole, in order; v.extend(v) doubles the vector *)
Theorem C18_extend_exact : forall s items,
  let kept := {| vt := vt s; elems := elems s ++ typed_prefix (vt s) items |} in
  v_step s (VExtend (ItItems items)) =
    (if forallb (instance_of (vt s)) items then Ok RNone else Raise TypeError, kept) /\
  v_step s (VIadd (ItItems items)) = v_step s (VExtend (ItItems items)).
Proof. exact step_extend_exact. Qed.
Print Assumptions C18_extend_exact.
Theorem C18_typed_prefix : forall t items,
  exists rest, items = typed_prefix t items ++ rest /\
    Forall (fun v => instance_of t v = true) (typed_prefix t items) /\
    match rest with nil => True | cons y _ => instance_of t y = false end.
Proof. exact typed_prefix_spec. Qed.
Print Assumptions C18_typed_prefix.
Theorem C18_extend_ok : forall s items,
  forallb (instance_of (vt s)) items = true ->
  v_step s (VExtend (ItItems items)) = (Ok RNone, {| vt := vt s; elems := elems s ++ items |}).
Proof. exact step_extend_ok. Qed.
Print Assumptions C18_extend_ok.
Theorem C18_extend_self : forall s, typed s ->
  v_step s (VExtend ItSelf) = (Ok RNone, {| vt := vt s; elems := elems s ++ elems s |}).
Proof. exact step_extend_self. Qed.
Print Assumptions C18_extend_self.

Example C18_witness :
  (exists s, v_init (ItItems [SInt 1; SBool true; SInt 3]) None = Ok s /\ vt s = TInt) /\
  v_init (ItItems [SBool true; SInt 3]) None = Raise TypeError /\
  v_init (ItItems []) None = Raise TypeError /\
  fst (v_step {| vt := TInt; elems := [SInt 1] |} (VAppend (One (SFloat 3)))) = Raise TypeError.
Proof. repeat split; try (eexists; split; reflexivity); reflexivity. Qed.
