(* Props/C17.v — property C17: DateTimeArray and TimeDeltaArray behave exactly like a list of their
   elements.  Model/TimeArray.v is the hand model of the two classes (identical code up to the element
   class): the class's own methods with NumPy's slice assignment / np.insert / np.delete, and CPython's
   MutableSequence mixins on top; Spec/ListSpec.v is Python's list.  Both are compared with the real
   classes AND with real Python lists on every run (three-way correspondence). *)
From Coq Require Import ZArith List.
From NV Require Import Common.Py Spec.ListSpec Model.TimeArray Proofs.C17Proofs Proofs.C17Reverse.
Open Scope Z_scope.

(* slice assignment, for EVERY start/stop/step and EVERY replacement length: the shrink / grow /
   replace branches of __setitem__ compute exactly what list slice assignment computes and raise
   ValueError exactly where it does (zero step, extended slice of a different length) *)
Theorem C17_slice_assignment : forall l a b c vs, a_setslice_values l a b c vs = l_setslice l a b c vs.
Proof. exact setslice_refines. Qed.
Print Assumptions C17_slice_assignment.

(* every operation (indexing, assignment, deletion, insert, append, extend (also with itself), +=, pop,
   remove, clear, index, count, len, iteration — all argument kinds incl. wrong-typed ones) gives the
   list's answer, the list's error, and the list's resulting content; reverse()'s swap loop computes
   List.rev (C17_reverse_is_rev), so the statement holds for every operation *)
Theorem C17_reverse_is_rev : forall l, a_reverse l = rev l.
Proof. exact a_reverse_is_rev. Qed.
Print Assumptions C17_reverse_is_rev.
Theorem C17_refines_list : forall l op, step l op = spec_step l op.
Proof.
  intros l op. destruct op; try (apply step_refines; discriminate).
  cbn [step spec_step]. rewrite a_reverse_is_rev. reflexivity.
Qed.
Print Assumptions C17_refines_list.

(* a call that raises leaves the array exactly as it was (also part of C07) *)
Theorem C17_raise_leaves_unchanged : forall l op e l', step l op = (Raise e, l') -> l' = l.
Proof. exact step_raise_unchanged. Qed.
Print Assumptions C17_raise_leaves_unchanged.

Theorem C17_insert_clamps : forall l i t, a_insert l (Some i) (VElem t) = Ok (l_insert l i t).
Proof. exact insert_refines. Qed.
Print Assumptions C17_insert_clamps.

Theorem C17_clear_empties : forall fuel l, (length l < fuel)%nat -> a_clear fuel l = [].
Proof. exact clear_refines. Qed.
Print Assumptions C17_clear_empties.

Example C17_witness :
  a_setslice_values [10; 11; 12; 13] (Some 3) (Some 1) None [7] = Ok [10; 11; 12; 7; 13] /\
  a_setslice_values [10; 11; 12; 13] None None (Some (-1)) [7] = Raise ValueError /\
  a_setslice_values [10; 11; 12; 13] (Some 1) (Some 3) None [] = Ok [10; 13] /\
  a_reverse [1; 2; 3; 4; 5] = [5; 4; 3; 2; 1].
Proof. repeat split; vm_compute; reflexivity. Qed.
