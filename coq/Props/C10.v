(* Props/C10.v — property C10: append merges timing, scaling and properties by the documented rules only. *)
From Coq Require Import ZArith List.
Import ListNotations.
From NV Require Import Common.Py Spec.TimingSpec Model.Timing Model.Waveform Proofs.WfmProofs Proofs.WfmProofs2 Proofs.C10Complete Proofs.C10Irregular.
Open Scope Z_scope.

(* a successful append: samples appended in order, dtypes / signal counts matched, NONE/REGULAR receivers
   keep their timing (sources NONE/REGULAR), IRREGULAR receivers end up with the concatenated timestamps
   (sources IRREGULAR), extended properties added only under missing keys with earlier sources winning,
   scale mode / dtype / start untouched *)
Theorem C10_append_waveforms : forall o srcs o' ws, good o -> cols_ok o -> Forall good srcs -> Forall cols_ok srcs ->
  Forall (fun s => o_kind s = o_kind o) srcs -> append_waveforms o srcs = Ok (o', ws) ->
  good o' /\ cols_ok o' /\
  view o' = view o ++ flat_map view srcs /\ o_count o' = (o_count o + sum_counts srcs)%nat /\
  Forall (fun s => o_dtype s = o_dtype o /\ (o_kind o = KDigital -> o_ncols s = o_ncols o)) srcs /\
  (has_timing (o_kind o) = true -> t_mode (o_timing o) <> 2 ->
     o_timing o' = o_timing o /\ Forall (fun s => t_mode (o_timing s) <> 2) srcs) /\
  (has_timing (o_kind o) = true -> t_mode (o_timing o) = 2 ->
     Forall (fun s => t_mode (o_timing s) = 2) srcs /\
     forall a, t_tss (o_timing o) = Some a -> t_tss (o_timing o') = Some (a ++ all_tss srcs)) /\
  (forall k, wp_get (o_props o') k = match wp_get (o_props o) k with Some v => Some v | None => first_with srcs k end) /\
  o_scale o' = o_scale o /\ o_kind o' = o_kind o /\ o_dtype o' = o_dtype o /\ o_ncols o' = o_ncols o /\ o_start o' = o_start o.
Proof. exact append_waveforms_spec. Qed.
Print Assumptions C10_append_waveforms.

Theorem C10_mode_mismatch_rejected : forall t other, timing_wf t -> timing_wf other ->
  Bool.eqb (t_mode t =? 2) (t_mode other =? 2) = false -> append_timing t other = Raise TimingMismatchError.
Proof. exact append_rejects_mode_mismatch. Qed.
Print Assumptions C10_mode_mismatch_rejected.

Theorem C10_properties_never_overwritten : forall srcs p k,
  wp_get (fold_left (fun q s => wp_merge q (o_props s)) srcs p) k
  = match wp_get p k with Some v => Some v | None => first_with srcs k end.
Proof. exact merged_props_get. Qed.
Print Assumptions C10_properties_never_overwritten.

(* neither the sources nor any other object of the pool is modified (Timing values are immutable records) *)
Theorem C10_sources_unchanged : forall p i o j, (i < length p)%nat -> j <> i -> pget (pool_set p i o) j = pget p j.
Proof. exact pget_pool_set_other. Qed.
Print Assumptions C10_sources_unchanged.

(* appending an array requires timestamps exactly when the receiver is IRREGULAR *)
Theorem C10_array_timestamps : forall t,
  (t_mode t = 2 -> append_timestamps t TsNone = Raise TimingMismatchError) /\
  (t_mode t <> 2 -> append_timestamps t TsNone = Ok t /\ forall l, append_timestamps t (TsList l) = Raise ValueError).
Proof. exact array_timestamps_rule. Qed.
Print Assumptions C10_array_timestamps.

(* the converse for NONE/REGULAR receivers and spectra: compatible sources (dtype, signal count), no
   IRREGULAR source, and a buffer that can hold or grow to the total => append MUST succeed, and the
   warnings are exactly one ScalingMismatchWarning per source whose scale mode differs followed by one
   TimingMismatchWarning per source whose sample interval differs *)
Theorem C10_append_must_succeed : forall o srcs,
  Forall (src_compatible o) srcs ->
  (has_timing (o_kind o) = true -> t_mode (o_timing o) <> 2 /\ Forall (fun s => t_mode (o_timing s) <> 2) srcs) ->
  (o_resizable o = true \/ (o_start o + o_count o + fold_left (fun n s => (n + o_count s)%nat) srcs 0%nat <= cap o)%nat) ->
  exists o', append_waveforms o srcs =
    Ok (o', scale_warnings o srcs ++ (if has_timing (o_kind o) then timing_warnings (o_timing o) srcs else [])).
Proof. exact append_waveforms_complete. Qed.
Print Assumptions C10_append_must_succeed.

(* the converse for IRREGULAR receivers: compatible IRREGULAR sources whose timestamps, put after the receiver's, keep
   the whole sequence monotonic MUST be accepted - no timing warning - and the receiver ends up with exactly the
   concatenated timestamps; when the concatenation is not monotonic the append is refused with ValueError *)
Theorem C10_irregular_append_must_succeed : forall o srcs a,
  Forall (src_compatible o) srcs -> has_timing (o_kind o) = true ->
  t_mode (o_timing o) = 2 -> t_tss (o_timing o) = Some a -> Forall irregular_src srcs ->
  monotone (a ++ flat_map stss srcs) = true ->
  (o_resizable o = true \/ (o_start o + o_count o + fold_left (fun n s => (n + o_count s)%nat) srcs 0%nat <= cap o)%nat) ->
  exists o', append_waveforms o srcs = Ok (o', scale_warnings o srcs)
             /\ t_mode (o_timing o') = 2 /\ t_tss (o_timing o') = Some (a ++ flat_map stss srcs).
Proof. exact append_waveforms_irregular_complete. Qed.
Print Assumptions C10_irregular_append_must_succeed.
Theorem C10_irregular_append_not_monotonic : forall o srcs a,
  Forall (src_compatible o) srcs -> has_timing (o_kind o) = true ->
  t_mode (o_timing o) = 2 -> t_tss (o_timing o) = Some a -> monotone a = true -> Forall irregular_src srcs ->
  Forall (fun s => monotone (stss s) = true) srcs ->
  monotone (a ++ flat_map stss srcs) = false ->
  append_waveforms o srcs = Raise ValueError.
Proof. exact append_waveforms_irregular_reject. Qed.
Print Assumptions C10_irregular_append_not_monotonic.

(* non-vacuity: an IRREGULAR receiver and two IRREGULAR sources meeting the hypotheses above, the result they force,
   and a source whose timestamp would break monotonicity *)
Definition irr (l : list Z) : timing := {| t_mode := 2; t_ts := None; t_off := None; t_si := None; t_tss := Some l |}.
Definition mkobj (rows : list (list Z)) (t : timing) : obj :=
  {| o_kind := KAnalog; o_dtype := 0; o_rows := rows; o_ncols := 1; o_start := 0; o_count := length rows; o_resizable := true;
     o_timing := t; o_scale := 0; o_props := [] |}.
Example C10_irregular_witness :
  let o := mkobj [[5]; [6]] (irr [10; 20]) in
  let srcs := [mkobj [[7]] (irr [20]); mkobj [[8]; [9]] (irr [30; 31])] in
  Forall (src_compatible o) srcs /\ Forall irregular_src srcs /\ monotone ([10; 20] ++ flat_map stss srcs) = true /\
  (exists o', append_waveforms o srcs = Ok (o', []) /\ t_tss (o_timing o') = Some [10; 20; 20; 30; 31] /\ view o' = [[5]; [6]; [7]; [8]; [9]]) /\
  append_waveforms o [mkobj [[7]] (irr [15])] = Raise ValueError.
Proof.
  cbv zeta. repeat split.
  - repeat constructor; intro; discriminate.
  - repeat constructor; eexists; reflexivity.
  - eexists. split; [vm_compute; reflexivity|]. split; reflexivity.
Qed.
