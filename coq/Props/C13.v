(* Props/C13.v — property C13: pickle and deepcopy reproduce every public value exactly and
   independently.  Model/Pickle.v models each __reduce__/_unpickle pair as "constructor applied to the
   reduced arguments"; values are immutable terms in the model, so independence is decided by the
   correspondence (mutate the copy / the original and re-observe the other), not by a theorem. *)
From Coq Require Import ZArith List.
From NV Require Import Common.Py Spec.TimeSpec Spec.TimingSpec Spec.ListSpec Model.Cvi Model.Timing Model.Waveform Model.Vector Model.Pickle
  Proofs.WfmProofs Proofs.C02Proofs Proofs.C13Proofs.
From NV Require Model.Alias Proofs.C12Proofs.
Open Scope Z_scope.

(* a waveform / spectrum satisfying the pool invariant pickles to an object with the same observable
   state (kind, dtype, visible samples, signal count, sample count, timing, scale, properties), no
   slack (start_index 0, capacity = sample_count), which compares equal and satisfies the invariant *)
Theorem C13_waveform_roundtrip : forall o, good o -> cols_ok o -> tvalid (o_timing o) = true ->
  exists o', wf_pickle o = Ok o' /\ same_obs o' o /\ o_start o' = 0%nat /\ cap o' = o_count o /\ o_resizable o' = true /\
             good o' /\ cols_ok o'.
Proof. exact wf_pickle_spec. Qed.
Print Assumptions C13_waveform_roundtrip.

(* ... and every object reached by ANY history of pool operations satisfies those hypotheses *)
Theorem C13_every_reachable_waveform_pickles : forall ops, run_wf [] ops -> run_tv ops ->
  Forall (fun o => exists o', wf_pickle o = Ok o' /\ same_obs o' o /\ o_start o' = 0%nat /\ cap o' = o_count o /\ wf_eqb o' o = true)
         (fold_left pnext ops []).
Proof. exact reachable_pickles. Qed.
Print Assumptions C13_every_reachable_waveform_pickles.

(* equality is a function of the observable state: same observable state => equal, whatever the slack *)
Theorem C13_eq_ignores_slack : forall a b, same_obs a b -> wf_eqb a b = true.
Proof. exact wf_eqb_obs. Qed.
Print Assumptions C13_eq_ignores_slack.
Theorem C13_eq_sound : forall a b, wf_eqb a b = true ->
  o_dtype a = o_dtype b /\ view a = view b /\ (has_scale (o_kind a) = true -> o_scale a = o_scale b).
Proof. exact wf_eqb_slack. Qed.
Print Assumptions C13_eq_sound.

(* independence, on the memory model of C12: the copy's samples live in a freshly allocated array, so
   after ANY interleaving of later writes/appends neither side sees the other *)
Theorem C13_copy_is_independent : forall h o h' c ops, pickle_data h o = (h', c) -> (Alias.r_buf (Alias.ao_ref o) < length h)%nat ->
  C12Proofs.agree (Alias.r_buf (Alias.ao_ref o)) (fst (C12Proofs.arun (Alias.ao_ref o) (h', c) ops))
                  (fst (C12Proofs.run_side C12Proofs.src_only (Alias.ao_ref o) (h', c) ops)) /\
  C12Proofs.agree (Alias.r_buf (Alias.ao_ref c)) (fst (C12Proofs.arun (Alias.ao_ref o) (h', c) ops))
                  (fst (C12Proofs.run_side C12Proofs.obj_side (Alias.ao_ref o) (h', c) ops)) /\
  snd (C12Proofs.arun (Alias.ao_ref o) (h', c) ops) = snd (C12Proofs.run_side C12Proofs.obj_side (Alias.ao_ref o) (h', c) ops).
Proof. exact pickled_copy_independent. Qed.
Print Assumptions C13_copy_is_independent.

(* Timing: every Timing the constructor accepts pickles to itself (all members, None vs zero kept) *)
Theorem C13_timing_roundtrip : forall mode ts off si tss t, timing_init mode ts off si tss = Ok t -> timing_pickle t = Ok t.
Proof. intros mode ts off si tss t H. apply timing_pickle_id. exact (timing_init_valid _ _ _ _ _ _ H). Qed.
Print Assumptions C13_timing_roundtrip.
Theorem C13_timing_valid_invariant : forall ops p, pool_tv p -> run_tv ops -> pool_tv (fold_left pnext ops p).
Proof. exact history_tv. Qed.
Print Assumptions C13_timing_valid_invariant.

(* Vector: the pickled value type is restored, the values are installed unchanged *)
Theorem C13_vector_roundtrip : forall s, v_pickle s = Ok s.
Proof. exact v_pickle_id. Qed.
Print Assumptions C13_vector_roundtrip.
Theorem C13_vector_rederive_refuted : exists s, typed s /\ v_pickle_rederive s <> Ok s.
Proof. exact v_pickle_rederive_refuted. Qed.
Print Assumptions C13_vector_rederive_refuted.

(* TimeDelta / DateTime: (from_ticks, (ticks,)) — proved over the regenerated model in C02 *)
Theorem C13_timedelta_roundtrip : forall t, in128 t = true -> td_unpickle t = Ok t.
Proof. exact pickle_roundtrip. Qed.
Print Assumptions C13_timedelta_roundtrip.
Theorem C13_datetime_roundtrip : forall t, in128 t = true -> dt_unpickle t = Ok t.
Proof. exact dt_pickle_roundtrip. Qed.
Print Assumptions C13_datetime_roundtrip.

Example C13_witness :
  let o := {| o_kind := KAnalog; o_dtype := 0; o_rows := [[9]; [1]; [2]; [3]; [9]; [9]]; o_ncols := 1; o_start := 1; o_count := 3;
              o_resizable := false; o_timing := {| t_mode := 2; t_ts := None; t_off := None; t_si := None; t_tss := Some [5; 6; 7] |};
              o_scale := 2; o_props := [(1, [86])] |} in
  exists o', wf_pickle o = Ok o' /\ o_rows o' = [[1]; [2]; [3]] /\ o_start o' = 0%nat /\ wf_eqb o' o = true /\
  timing_pickle {| t_mode := 1; t_ts := None; t_off := Some 0; t_si := Some 0; t_tss := None |}
    = Ok {| t_mode := 1; t_ts := None; t_off := Some 0; t_si := Some 0; t_tss := None |}.
Proof. eexists. vm_compute. repeat split; reflexivity. Qed.
