(* Props/C01.v — property C01: waveform sample buffers match a plain list model after every operation
   history.  Model/Waveform.v is the shared hand model of AnalogWaveform / ComplexWaveform / Spectrum /
   DigitalWaveform (checks in source order, NumPy zeros/resize/slice-assignment modelled), tied to the
   code by the pool correspondence (full snapshot of every object after every call).
   view o := firstn count (skipn start rows) is the data view; good o is the invariant. *)
From Coq Require Import ZArith List.
From NV Require Import Common.Py Spec.TimingSpec Model.Timing Model.Waveform Proofs.WfmProofs.
Open Scope Z_scope.

(* after ANY history of public calls (valid and invalid arguments interleaved, any pool of objects):
   0 <= start, start + count <= capacity, the view has exactly count samples of signal_count columns *)
Theorem C01_invariant_reachable : forall ops p, pool_good p -> run_wf p ops -> pool_good (fold_left pnext ops p).
Proof. exact history_good. Qed.
Print Assumptions C01_invariant_reachable.
Theorem C01_invariant_meaning : forall o, good o -> cols_ok o ->
  (o_start o + o_count o <= cap o)%nat /\ length (view o) = o_count o /\
  Forall (fun r => length r = o_ncols o) (view o) /\
  (has_timing (o_kind o) = true -> forall l, t_tss (o_timing o) = Some l -> length l = o_count o /\ monotonic_sm l = true).
Proof. exact good_meaning. Qed.
Print Assumptions C01_invariant_meaning.
Theorem C01_construction_sizes : forall k dt ok sc st ca nc fill t s p o,
  timing_wf t -> new_obj k dt ok sc st ca nc fill t s p = Ok o -> good o /\ cols_ok o /\ o_timing o = t /\ o_props o = p.
Proof. exact new_obj_good. Qed.
Print Assumptions C01_construction_sizes.
Theorem C01_construction_array : forall k a dr ok st sc ca nc t s p o,
  arr_ok k a -> timing_wf t -> from_array k a dr ok st sc ca nc t s p = Ok o ->
  good o /\ cols_ok o /\ o_timing o = t /\ o_props o = p /\
  exists s0 c0, view o = firstn c0 (skipn s0 (a_rows a)) /\ o_count o = c0 /\ o_start o = s0.
Proof. exact from_array_good. Qed.
Print Assumptions C01_construction_array.

(* the view is exactly what a plain list predicts *)
Theorem C01_append_array : forall o a ts o', good o -> cols_ok o -> arr_ok (o_kind o) a -> append_array o a ts = Ok o' ->
  good o' /\ cols_ok o' /\ view o' = view o ++ a_rows a /\ o_count o' = (o_count o + alen a)%nat /\
  o_start o' = o_start o /\ o_props o' = o_props o /\ o_scale o' = o_scale o /\ o_kind o' = o_kind o /\
  o_dtype o' = o_dtype o /\ o_ncols o' = o_ncols o.
Proof. exact append_array_spec. Qed.
Print Assumptions C01_append_array.
Theorem C01_load_data : forall o a copy start sc o', good o -> cols_ok o -> arr_ok (o_kind o) a -> load_data o a copy start sc = Ok o' ->
  exists s c, arg_uint start (Some 0) = Ok s /\ arg_uint sc (Some (Z.of_nat (alen a) - s)) = Ok c /\ s + c <= Z.of_nat (alen a) /\
  good o' /\ cols_ok o' /\ view o' = firstn (Z.to_nat c) (skipn (Z.to_nat s) (a_rows a)) /\ o_count o' = Z.to_nat c /\
  o_timing o' = o_timing o /\ o_props o' = o_props o /\ o_scale o' = o_scale o /\ o_kind o' = o_kind o /\ o_dtype o' = o_dtype o /\
  o_ncols o' = o_ncols o.
Proof. exact load_data_spec. Qed.
Print Assumptions C01_load_data.
Theorem C01_capacity_keeps_samples : forall o v o', good o -> set_capacity o v = Ok o' ->
  good o' /\ view o' = view o /\ o_count o' = o_count o /\ o_start o' = o_start o /\ o_timing o' = o_timing o /\
  o_props o' = o_props o /\ o_scale o' = o_scale o /\ o_kind o' = o_kind o /\ o_dtype o' = o_dtype o /\ o_ncols o' = o_ncols o /\
  firstn (o_start o + o_count o) (o_rows o') = firstn (o_start o + o_count o) (o_rows o) /\
  (exists n, arg_uint v None = Ok n /\ Z.of_nat (cap o') = n).
Proof. exact set_capacity_spec. Qed.
Print Assumptions C01_capacity_keeps_samples.
Theorem C01_sample_count : forall o v o', good o -> set_sample_count o v = Ok o' ->
  exists n, arg_uint v None = Ok n /\ good o' /\ o_count o' = Z.to_nat n /\
  view o' = firstn (Z.to_nat n) (skipn (o_start o) (o_rows o)) /\
  (Z.to_nat n <= o_count o -> view o' = firstn (Z.to_nat n) (view o))%nat /\
  (o_count o <= Z.to_nat n -> firstn (o_count o) (view o') = view o)%nat /\
  o_timing o' = o_timing o /\ o_props o' = o_props o /\ o_scale o' = o_scale o /\ o_start o' = o_start o /\ o_rows o' = o_rows o.
Proof. exact set_sample_count_spec. Qed.
Print Assumptions C01_sample_count.
(* get_raw_data / get_data(start, count): the corresponding sub-list, or TypeError / ValueError *)
Theorem C01_get_data : forall o start sc l, get_data o start sc = Ok l ->
  exists s c, arg_uint start (Some 0) = Ok s /\ arg_uint sc (Some (Z.of_nat (o_count o) - s)) = Ok c /\
  s + c <= Z.of_nat (o_count o) /\ l = firstn (Z.to_nat c) (skipn (Z.to_nat s) (view o)).
Proof. exact get_data_spec. Qed.
Print Assumptions C01_get_data.
Theorem C01_get_data_error : forall o start sc e, get_data o start sc = Raise e -> e = TypeError \/ e = ValueError.
Proof. exact get_data_error. Qed.
Print Assumptions C01_get_data_error.

Example C01_witness :
  let o := {| o_kind := KDigital; o_dtype := 6; o_rows := [[0;0];[1;2];[3;4];[0;0]]; o_ncols := 2; o_start := 1; o_count := 2;
              o_resizable := true; o_timing := empty_timing; o_scale := 0; o_props := [] |} in
  view o = [[1;2];[3;4]] /\
  (exists o', append_array o {| a_rows := [[5;6];[7;8]]; a_ndim := 2; a_ncols := 2; a_dtype := 6; a_owns := true |} TsNone = Ok o'
              /\ view o' = [[1;2];[3;4];[5;6];[7;8]] /\ cap o' = 5%nat) /\
  load_data o {| a_rows := [[5;6]]; a_ndim := 2; a_ncols := 2; a_dtype := 6; a_owns := true |} true (IInt 0) (IInt 4) = Raise ValueError.
Proof. cbn zeta. split; [reflexivity|]. split; [eexists; split; [reflexivity|split; reflexivity]|reflexivity]. Qed.
