(* Props/C07.v — property C07: a rejected call leaves the object, and its arguments, exactly as they were.
   In the models every method performs all its checks before it builds the new state, so a Raise
   returns the input state; what ties this to the code is the correspondence, which compares the
   snapshot of EVERY pool object (receiver, sources, other objects) after every raising call with the
   state before it, under a fault generator (every op kind x every failure cause). *)
From Coq Require Import ZArith List.
From NV Require Import Common.Py Spec.TimingSpec Model.Timing Model.Waveform Proofs.WfmProofs
  Spec.ListSpec Model.TimeArray Proofs.C17Proofs Model.Vector Proofs.C18Proofs.
Open Scope Z_scope.

(* waveforms and Spectrum: every raising call on a pool returns the pool unchanged — receiver and arguments *)
Theorem C07_waveform_pool : forall p op p' e ws, pstep p op = (p', Raise e, ws) -> p' = p.
Proof. exact pstep_raise_unchanged. Qed.
Print Assumptions C07_waveform_pool.

(* DateTimeArray / TimeDeltaArray *)
Theorem C07_time_arrays : forall l op e l', step l op = (Raise e, l') -> l' = l.
Proof. exact step_raise_unchanged. Qed.
Print Assumptions C07_time_arrays.

(* Vector: single-call operations (extend / += are sequences of appends and are excluded by the property) *)
Theorem C07_vector : forall s op e s', (forall vs, op <> VExtend vs /\ op <> VIadd vs) ->
  v_step s op = (Raise e, s') -> s' = s.
Proof. exact vstep_raise_unchanged. Qed.
Print Assumptions C07_vector.
