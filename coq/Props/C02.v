(* Props/C02.v — property C02: NI-BTF 128-bit values round-trip bit-exactly through every
   representation.  Only statements; every proof is `exact <lemma>` (Proofs/C02Proofs.v).
   The functions td_*/dt_*/tv_* are regenerated from /repo/src/nitypes/bintime on every run. *)
From Coq Require Import ZArith List.
From NV Require Import Common.Py Common.Trans Spec.TimeSpec Gen.BintimeGen Model.Cvi Proofs.C02Proofs Proofs.C02Order Model.PickleInt Proofs.C02Pickle.
Open Scope Z_scope.

(* whole_seconds = floor(ticks / 2^64), fractional_seconds = ticks mod 2^64, for EVERY integer *)
Theorem C02_to_tuple : forall t, td_to_tuple t = (t / T64, t mod T64).
Proof. exact td_to_tuple_spec. Qed.
Print Assumptions C02_to_tuple.

Theorem C02_decomposition : forall t,
  let '(w, f) := spec_to_tuple t in t = w * T64 + f /\ 0 <= f < T64.
Proof. exact to_tuple_decomp. Qed.
Print Assumptions C02_decomposition.

(* an in-range tick count always yields an int64 whole-seconds part *)
Theorem C02_tuple_range : forall t, in128 t = true -> MIN64 <= fst (spec_to_tuple t) <= MAX64.
Proof. exact to_tuple_range. Qed.
Print Assumptions C02_tuple_range.

(* from_ticks: the value itself, or OverflowError exactly outside the signed 128-bit range *)
Theorem C02_from_ticks : forall t, td_from_ticks t = spec_from_ticks t.
Proof. exact td_from_ticks_spec. Qed.
Print Assumptions C02_from_ticks.

Theorem C02_from_ticks_reject : forall t,
  td_from_ticks t = Raise OverflowError <-> ~ (MIN128 <= t <= MAX128).
Proof. exact from_ticks_reject. Qed.
Print Assumptions C02_from_ticks_reject.

Theorem C02_from_ticks_never_alters : forall t,
  td_from_ticks t = Ok t \/ td_from_ticks t = Raise OverflowError.
Proof. exact from_ticks_total. Qed.
Print Assumptions C02_from_ticks_never_alters.

Theorem C02_constructor_range : forall t, td_init t = spec_from_ticks t.
Proof. exact td_init_spec. Qed.
Print Assumptions C02_constructor_range.

(* from_tuple: whole*2^64 + frac, or OverflowError exactly when a part is out of its range *)
Theorem C02_from_tuple : forall w f, td_from_tuple w f = spec_from_tuple w f.
Proof. exact td_from_tuple_spec. Qed.
Print Assumptions C02_from_tuple.

Theorem C02_from_tuple_reject : forall w f,
  td_from_tuple w f = Raise OverflowError <-> ~ (MIN64 <= w <= MAX64 /\ 0 <= f <= UMAX64).
Proof. exact from_tuple_reject. Qed.
Print Assumptions C02_from_tuple_reject.

(* ticks -> tuple -> ticks and tuple -> ticks -> tuple are identities *)
Theorem C02_ticks_tuple_ticks : forall t,
  in128 t = true -> let '(w, f) := td_to_tuple t in td_from_tuple w f = Ok t.
Proof. exact from_to_tuple. Qed.
Print Assumptions C02_ticks_tuple_ticks.

Theorem C02_tuple_ticks_tuple : forall w f t, td_from_tuple w f = Ok t -> td_to_tuple t = (w, f).
Proof. exact to_from_tuple. Qed.
Print Assumptions C02_tuple_ticks_tuple.

(* the tuple carries the value without loss and in order (Proofs/C02Order.v): to_tuple is injective and
   the lexicographic order of (whole, fraction) tuples is the order of ticks, in both directions *)
Theorem C02_to_tuple_injective : forall t u, td_to_tuple t = td_to_tuple u -> t = u.
Proof. exact to_tuple_injective. Qed.
Print Assumptions C02_to_tuple_injective.
Theorem C02_to_tuple_order : forall t u, tuple_ltb (td_to_tuple t) (td_to_tuple u) = (t <? u).
Proof. exact to_tuple_order. Qed.
Print Assumptions C02_to_tuple_order.
Theorem C02_from_tuple_order : forall w1 f1 w2 f2 t1 t2,
  td_from_tuple w1 f1 = Ok t1 -> td_from_tuple w2 f2 = Ok t2 ->
  (t1 <? t2) = tuple_ltb (w1, f1) (w2, f2).
Proof. exact from_tuple_order. Qed.
Print Assumptions C02_from_tuple_order.

(* the 16-byte record: fraction (uint64, little endian) at offset 0, seconds (int64) at offset 8 *)
Theorem C02_cvi_layout : forall t,
  enc_elem t = le_bytes 8 (t mod T64) ++ le_bytes 8 ((t / T64) mod T64).
Proof. exact enc_elem_layout. Qed.
Print Assumptions C02_cvi_layout.

Theorem C02_cvi_size : forall t, length (enc_elem t) = 16%nat.
Proof. exact enc_elem_length. Qed.
Print Assumptions C02_cvi_size.

Theorem C02_cvi_roundtrip : forall t, in128 t = true -> dec_elem (enc_elem t) = Ok t.
Proof. exact dec_enc_elem. Qed.
Print Assumptions C02_cvi_roundtrip.

Theorem C02_array_roundtrip : forall l,
  forallb in128 l = true -> arr_to_list (arr_of_list l) = map Ok l.
Proof. exact array_roundtrip. Qed.
Print Assumptions C02_array_roundtrip.

Theorem C02_pickle : forall t, in128 t = true -> td_unpickle t = Ok t.
Proof. exact pickle_roundtrip. Qed.
Print Assumptions C02_pickle.

(* DateTime: every entry path is the TimeDelta one applied to the offset from the epoch *)
Theorem C02_datetime_from_ticks : forall t, dt_from_ticks t = spec_from_ticks t.
Proof. exact dt_from_ticks_spec. Qed.
Print Assumptions C02_datetime_from_ticks.

Theorem C02_datetime_from_tuple : forall w f, dt_from_tuple w f = spec_from_tuple w f.
Proof. exact dt_from_tuple_spec. Qed.
Print Assumptions C02_datetime_from_tuple.

Theorem C02_datetime_from_offset : forall t, dt_from_offset t = t.
Proof. exact dt_from_offset_spec. Qed.
Print Assumptions C02_datetime_from_offset.

Theorem C02_datetime_pickle : forall t, in128 t = true -> dt_unpickle t = Ok t.
Proof. exact dt_pickle_roundtrip. Qed.
Print Assumptions C02_datetime_pickle.

(* ... and pickling down to the bytes: pickle (protocol 2 and later) writes the tick count with save_int - BININT1/2,
   BININT, or LONG1 with the minimal little-endian two's-complement bytes (Model/PickleInt.v, compared with the int
   opcode found in the implementation's pickle streams by the correspondence) - and reading it back is lossless for
   every integer that LONG1 can hold, in particular for every 128-bit tick count *)
Theorem C02_pickle_int_bytes : forall t, in128 t = true -> load_int (save_int t) = Some t.
Proof. exact load_save_int_128. Qed.
Print Assumptions C02_pickle_int_bytes.
Theorem C02_pickle_long_roundtrip : forall x, decode_long (encode_long x) = x.
Proof. exact decode_encode_long. Qed.
Print Assumptions C02_pickle_long_roundtrip.

(* non-vacuity: the hypotheses are met by a value with a negative whole part and frac >= 2^63 *)
Example C02_witness :
  in128 (-1) = true /\ td_to_tuple (-1) = (-1, 18446744073709551615) /\
  dec_elem (enc_elem (-1)) = Ok (-1) /\ td_from_ticks (MAX128 + 1) = Raise OverflowError.
Proof. repeat split; vm_compute; reflexivity. Qed.
