(* Props/C14.v — property C14: calendar fields, normalized fields and text agree with the tick value.
   td_*/dt_* field functions and td_str_parts are regenerated from _timedelta.py/_datetime.py on every
   run; year/month/day are delegated by the code to hightime/datetime and modelled by Model/Calendar.v
   (tied to Python's calendar by the correspondence). *)
From Coq Require Import ZArith List.
From NV Require Import Common.Py Common.Trans Spec.TimeSpec Gen.BintimeGen Model.Calendar Model.Convert
  Model.DateTimeFields Proofs.CalendarProofs Proofs.C14Proofs Model.Text Proofs.C14Text Proofs.C14TextFields.
Open Scope Z_scope.

(* the calendar model is a bijection between day numbers and valid proleptic Gregorian dates, for
   EVERY day (complete sweep of one 400-year era lifted by periodicity) *)
Theorem C14_calendar_days : forall z,
  let '(y, m, d) := civil_of_days z in days_of_civil y m d = z /\ valid_date y m d = true.
Proof. exact days_of_civil_of_days. Qed.
Print Assumptions C14_calendar_days.
Theorem C14_calendar_dates : forall y m d,
  valid_date y m d = true -> civil_of_days (days_of_civil y m d) = (y, m, d).
Proof. exact civil_of_days_of_civil. Qed.
Print Assumptions C14_calendar_dates.

(* every TimeDelta (every integer tick count): normalized ranges, and the fields add up to the value
   rounded down to a yoctosecond *)
Theorem C14_timedelta_fields : forall t,
  0 <= td_seconds t < 86400 /\ 0 <= td_microseconds t < 1000000 /\
  0 <= td_femtoseconds t < 1000000000 /\ 0 <= td_yoctoseconds t < 1000000000 /\
  td_days t * 86400 + td_seconds t = t / T64 /\
  td_microseconds t * 1000000000000000000 + td_femtoseconds t * 1000000000 + td_yoctoseconds t
    = (YS * (t mod T64)) / T64.
Proof. exact td_fields_spec. Qed.
Print Assumptions C14_timedelta_fields.

(* str(TimeDelta): h:mm:ss fields in range, at most 18 fractional digits, and the printed value is
   within 1/2 * 10^-18 s of the exact one — including the carry when the fraction rounds up *)
Theorem C14_timedelta_str : forall t,
  let '(d, h, m, s, f) := td_str_parts t in
  0 <= h < 24 /\ 0 <= m < 60 /\ 0 <= s < 60 /\ 0 <= f < AS /\
  2 * Z.abs (((((d * 24 + h) * 60 + m) * 60 + s) * AS + f) * T64 - AS * t) <= T64.
Proof. exact td_str_parts_spec. Qed.
Print Assumptions C14_timedelta_str.

(* ... and the text str() builds from those parts (Model/Text.v render_td: "[-]D day[s], H:MM:SS[.fraction]" with
   trailing zeros of the 18-digit fraction stripped; compared character by character with the implementation's
   str() by the correspondence) identifies them: reading the text back yields exactly these parts *)
Theorem C14_timedelta_text : forall t, in128 t = true ->
  let '(d, h, m, s, f) := td_str_parts t in parse_td (render_td d h m s f) = Some (d, h, m, s, f).
Proof. exact td_text_identifies. Qed.
Print Assumptions C14_timedelta_text.

(* str(DateTime) ("YYYY-MM-DD HH:MM:SS[.6|15|24 digits]+00:00", Model/Text.v render_dt) shows the same fields:
   reading it back yields exactly the nine fields, for every DateTime whose year is 0..9999 *)
Theorem C14_datetime_text : forall t,
  let '(y, mo, d) := dt_ymd t in
  0 <= y < 10000 ->
  parse_dt (render_dt y mo d (dt_hour t) (dt_minute t) (dt_second t) (dt_microsecond t) (dt_femtosecond t) (dt_yoctosecond t))
  = Some (y, mo, d, dt_hour t, dt_minute t, dt_second t, dt_microsecond t, dt_femtosecond t, dt_yoctosecond t).
Proof. exact dt_text_identifies. Qed.
Print Assumptions C14_datetime_text.

(* DateTime: the nine fields identify the instant ticks/2^64 s rounded down to a yoctosecond in the
   proleptic Gregorian UTC calendar counted from 1904-01-01T00:00:00Z *)
Theorem C14_datetime_time_fields : forall t,
  0 <= dt_hour t < 24 /\ 0 <= dt_minute t < 60 /\ 0 <= dt_second t < 60 /\
  dt_hour t * 3600 + dt_minute t * 60 + dt_second t = td_seconds t /\
  dt_microsecond t = td_microseconds t /\ dt_femtosecond t = td_femtoseconds t /\ dt_yoctosecond t = td_yoctoseconds t.
Proof. exact dt_hms_spec. Qed.
Print Assumptions C14_datetime_time_fields.
Theorem C14_datetime_fields : forall t,
  let '(y, mo, d) := dt_ymd t in
  valid_date y mo d = true /\
  ys_of_fields y mo d (dt_hour t) (dt_minute t) (dt_second t) (dt_microsecond t) (dt_femtosecond t) (dt_yoctosecond t)
  = (t / T64) * YS + (YS * (t mod T64)) / T64.
Proof. exact dt_fields_spec. Qed.
Print Assumptions C14_datetime_fields.

(* building a DateTime from those fields (e.g. evaluating its repr) returns the identical tick value *)
Theorem C14_fields_roundtrip : forall t,
  in128 t = true -> in_ht_td ((t / T64) * YS + (YS * (t mod T64)) / T64) = true ->
  let '(y, mo, d) := dt_ymd t in
  dt_of_fields y mo d (dt_hour t) (dt_minute t) (dt_second t) (dt_microsecond t) (dt_femtosecond t) (dt_yoctosecond t) = Ok t.
Proof. exact dt_fields_roundtrip. Qed.
Print Assumptions C14_fields_roundtrip.

Example C14_witness :
  dt_ymd (-1) = (1903, 12, 31) /\ dt_hour (-1) = 23 /\ dt_yoctosecond (-1) = 999945789 /\
  td_str_parts (T64 - 1) = (0, 0, 0, 1, 0) /\ td_str_parts (-1) = (0, 0, 0, 0, 0) /\
  dt_ymd (3502915200 * T64) = (2015, 1, 1).
Proof. repeat split; vm_compute; reflexivity. Qed.
