(* Model/Pickle.v — hand model of the __reduce__/_unpickle pairs: what each public type hands to
   pickle / copy.deepcopy and how the constructor rebuilds the value from it.
   pickle and deepcopy themselves (serialising ints, strs, floats, lists, dicts, ndarrays, datetimes
   exactly; deepcopy = the same reconstruction on deep-copied arguments) are outside /repo and assumed. *)
From NV Require Import Common.Py Spec.TimingSpec Spec.ListSpec Model.Timing Model.Waveform Model.Vector.
Open Scope Z_scope.

(* ---- Timing: (mode, timestamp, time_offset, sample_interval, timestamps) back through __init__ ---- *)
Definition arg_dtm (o : option Z) : arg := match o with Some v => ADatetime v | None => ANone end.
Definition arg_td (o : option Z) : arg := match o with Some v => ATimedelta v | None => ANone end.
Definition timing_pickle (t : timing) : res timing :=
  timing_init (t_mode t) (arg_dtm (t_ts t)) (arg_td (t_off t)) (arg_td (t_si t))
              (match t_tss t with Some l => TSeq (map ADatetime l) | None => TNone end).

(* what every constructed Timing satisfies *)
Definition tvalid (t : timing) : bool :=
  match t_mode t with
  | 0 => negb (has (t_si t)) && negb (has (t_tss t))
  | 1 => has (t_si t) && negb (has (t_tss t))
  | 2 => negb (has (t_ts t)) && negb (has (t_off t)) && negb (has (t_si t))
         && match t_tss t with Some l => monotonic_sm l | None => false end
  | _ => false
  end.

(* ---- waveforms: cls(sample_count, [signal_count,] dtype, raw_data=/data= the visible window,
        extended_properties=, timing=, scale_mode=) ---- *)
Definition wf_pickle (o : obj) : res obj :=
  do t' <- (if has_timing (o_kind o) then timing_pickle (o_timing o) else Ok (o_timing o));
  from_array (o_kind o)
    {| a_rows := view o; a_ndim := (match o_kind o with KDigital => 2 | _ => 1 end)%nat; a_ncols := o_ncols o;
       a_dtype := o_dtype o; a_owns := true |}
    (Some (o_dtype o)) true INone (IInt (Z.of_nat (o_count o))) INone
    (match o_kind o with KDigital => IInt (Z.of_nat (o_ncols o)) | _ => INone end)
    t' (o_scale o) (o_props o).

(* __eq__: dtype, visible data, properties (as a dict), timing, scale mode — never start_index/capacity *)
Definition keys (p : wprops) : list Z := map fst p.
Definition props_eqb (p q : wprops) : bool :=
  forallb (fun k => match wp_get p k, wp_get q k with
                    | Some a, Some b => list_eqb Z.eqb a b | None, None => true | _, _ => false end) (keys p ++ keys q).
Definition wf_eqb (a b : obj) : bool :=
  kind_eqb (o_kind a) (o_kind b) && (o_dtype a =? o_dtype b) && list_eqb (list_eqb Z.eqb) (view a) (view b)
  && props_eqb (o_props a) (o_props b)
  && (if has_timing (o_kind a) then timing_eqb (o_timing a) (o_timing b) else true)
  && (if has_scale (o_kind a) then o_scale a =? o_scale b else true).

(* ---- Vector: _unpickle builds an empty vector of the pickled value type, then installs the values ---- *)
Definition v_unpickle (values : list sval) (t : vty) : res vec :=
  do s <- v_init (ItItems []) (Some t); Ok {| vt := vt s; elems := values |}.
Definition v_pickle (s : vec) : res vec := v_unpickle (elems s) (vt s).
(* what re-deriving the type from the first value would do (the pre-fix behaviour), for contrast *)
Definition v_pickle_rederive (s : vec) : res vec := v_init (ItItems (elems s)) (Some (vt s)).

(* ---- time arrays: (cls, (list(iter(self)),)) ---- *)
Definition arr_pickle (l : list Z) : list Z := map (fun x => x) l.
