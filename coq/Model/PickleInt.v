(* Model/PickleInt.v — how pickle (protocol 2 and later) writes a Python int: BININT1 / BININT2 / BININT for small
   values, LONG1 with the minimal little-endian two's-complement bytes otherwise (pickle.encode_long). *)
From Coq Require Import ZArith List Bool Lia.
From NV Require Import Model.PortBytes.
Import ListNotations.
Open Scope Z_scope.

Definition bitlen (y : Z) : Z := if y <=? 0 then 0 else Z.log2 y + 1.          (* int.bit_length of a non-negative int *)

(* number of bytes of the minimal two's-complement form (0 for 0) *)
Definition nbytes (x : Z) : Z :=
  if x =? 0 then 0 else if x <? 0 then bitlen (- x - 1) / 8 + 1 else bitlen x / 8 + 1.

Definition encode_long (x : Z) : list Z :=
  let n := Z.to_nat (nbytes x) in le_bytes n (x mod 256 ^ Z.of_nat n).

Definition decode_long (l : list Z) : Z :=
  let n := Z.of_nat (length l) in
  let v := le_value l in
  if (n =? 0) then 0 else if 2 ^ (8 * n - 1) <=? v then v - 256 ^ n else v.

Definition OP_BININT1 : Z := 75.  Definition OP_BININT2 : Z := 77.  Definition OP_BININT : Z := 74.  Definition OP_LONG1 : Z := 138.

(* pickle.save_long for protocol >= 2 *)
Definition save_int (x : Z) : list Z :=
  if (0 <=? x) && (x <? 256) then [OP_BININT1; x]
  else if (0 <=? x) && (x <? 65536) then OP_BININT2 :: le_bytes 2 x
  else if (- 2147483648 <=? x) && (x <? 2147483648) then OP_BININT :: le_bytes 4 (x mod 4294967296)
  else OP_LONG1 :: Z.of_nat (length (encode_long x)) :: encode_long x.

Definition load_int (l : list Z) : option Z :=
  match l with
  | 75 :: [b] => Some b
  | 77 :: ([_; _] as bs) => Some (le_value bs)
  | 74 :: ([_; _; _; _] as bs) => let v := le_value bs in Some (if 2147483648 <=? v then v - 4294967296 else v)
  | 138 :: n :: bs => if n =? Z.of_nat (length bs) then Some (decode_long bs) else None
  | _ => None
  end.
