(* Model/Waveform.v — the shared state-machine model of AnalogWaveform / ComplexWaveform / Spectrum /
   DigitalWaveform (nitypes/waveform/_numeric.py, _spectrum.py, _digital/_waveform.py): a pool of
   objects, each with a sample buffer (rows x columns), start index, sample count, resizability of
   the underlying ndarray, timing, scale mode and extended properties.  Every method is written with
   its checks in the order of the source, followed by the state it builds.  NumPy is modelled:
   np.zeros/np.full fill, ndarray.resize keeps the prefix and zero-fills (ValueError when the array
   does not own its data), slice assignment copies row by row. *)
From NV Require Import Common.Py Spec.TimingSpec Model.Timing.
From Coq Require Import Lia.
Open Scope Z_scope.

Inductive wkind := KAnalog | KComplex | KSpectrum | KDigital.
Definition kind_eqb (a b : wkind) : bool :=
  match a, b with KAnalog, KAnalog | KComplex, KComplex | KSpectrum, KSpectrum | KDigital, KDigital => true | _, _ => false end.
Definition has_timing (k : wkind) : bool := match k with KSpectrum => false | _ => true end.
Definition has_scale (k : wkind) : bool := match k with KAnalog | KComplex => true | _ => false end.

Definition row := list Z.
Definition wprops := list (Z * list Z).        (* key id -> str value (code points) *)

Record obj := {
  o_kind : wkind; o_dtype : Z;
  o_rows : list row; o_ncols : nat;
  o_start : nat; o_count : nat;
  o_resizable : bool;
  o_timing : timing;
  o_scale : Z;                                  (* 0 = NO_SCALING, otherwise the id of a LinearScaleMode value *)
  o_props : wprops
}.

Definition cap (o : obj) : nat := length (o_rows o).
Definition view (o : obj) : list row := firstn (o_count o) (skipn (o_start o) (o_rows o)).

(* an ndarray argument *)
Record arr := { a_rows : list row; a_ndim : nat; a_ncols : nat; a_dtype : Z; a_owns : bool }.
Definition alen (a : arr) : nat := length (a_rows a).

(* an integer argument: None | an int | something that is not an integer *)
Inductive iarg := INone | IInt (z : Z) | IBad.
Definition arg_uint (a : iarg) (default : option Z) : res Z :=
  match (match a with INone => match default with Some d => Ok d | None => Raise TypeError end
                    | IInt z => Ok z | IBad => Raise TypeError end) with
  | Ok z => if z <? 0 then Raise ValueError else Ok z
  | Raise e => Raise e
  end.

Definition empty_timing : timing := {| t_mode := 0; t_ts := None; t_off := None; t_si := None; t_tss := None |}.
Definition zero_row (n : nat) : row := repeat 0 n.

(* supported raw dtypes per class are decided by the harness and passed as a flag *)

(* ---- timing helpers ---- *)
Definition tss_len (t : timing) : option nat := match t_tss t with Some l => Some (length l) | None => None end.
Definition validate_timing (t : timing) (count : nat) : res unit :=
  match t_tss t with
  | Some l => if Nat.eqb (length l) count then Ok tt else Raise IrregularTimestampCountMismatchError
  | None => Ok tt
  end.

Inductive warning := WTiming | WScaling.

(* strategy.append_timing(timing, other): (new timing, warnings) *)
Definition opt_z_eqb (a b : option Z) : bool :=
  match a, b with Some x, Some y => x =? y | None, None => true | _, _ => false end.
Definition append_timing (t other : timing) : res (timing * list warning) :=
  if t_mode t =? 2 then
    if negb (t_mode other =? 2) then Raise TimingMismatchError else
    match t_tss t, t_tss other with
    | Some a, Some b =>
        match a, b with
        | [], _ => Ok (other, [])
        | _, [] => Ok (t, [])
        | _, _ => if monotonic_sm (a ++ b)
                  then Ok ({| t_mode := 2; t_ts := None; t_off := None; t_si := None; t_tss := Some (a ++ b) |}, [])
                  else Raise ValueError
        end
    | _, _ => Raise OtherError
    end
  else
    if t_mode other =? 2 then Raise TimingMismatchError
    else Ok (t, if opt_z_eqb (t_si t) (t_si other) then [] else [WTiming]).

(* strategy.append_timestamps(timing, timestamps) for append(array, timestamps) *)
Inductive tsarg := TsNone | TsList (l : list Z) | TsWrongType.
Definition append_timestamps (t : timing) (ts : tsarg) : res timing :=
  if t_mode t =? 2 then
    match ts with
    | TsNone => Raise TimingMismatchError
    | TsWrongType => Raise TypeError
    | TsList [] => Ok t
    | TsList l =>
        match t_tss t with
        | Some a => if monotonic_sm (a ++ l)
                    then Ok {| t_mode := 2; t_ts := None; t_off := None; t_si := None; t_tss := Some (a ++ l) |}
                    else Raise ValueError
        | None => Raise OtherError
        end
    end
  else match ts with TsNone => Ok t | _ => Raise ValueError end.

(* ---- buffer primitives ---- *)
Definition resize_rows (o : obj) (n : nat) : res (list row) :=
  if negb (o_resizable o) then Raise ValueError
  else Ok (firstn n (o_rows o) ++ repeat (zero_row (o_ncols o)) (n - cap o)).

Definition with_rows (o : obj) (rows : list row) : obj :=
  {| o_kind := o_kind o; o_dtype := o_dtype o; o_rows := rows; o_ncols := o_ncols o; o_start := o_start o;
     o_count := o_count o; o_resizable := o_resizable o; o_timing := o_timing o; o_scale := o_scale o; o_props := o_props o |}.

(* capacity setter *)
Definition set_capacity (o : obj) (v : iarg) : res obj :=
  do n <- arg_uint v None;
  if n <? Z.of_nat (o_start o + o_count o) then Raise ValueError
  else if n =? Z.of_nat (cap o) then Ok o
  else do rows <- resize_rows o (Z.to_nat n); Ok (with_rows o rows).

(* _increase_capacity(amount) *)
Definition increase_capacity (o : obj) (amount : nat) : res obj :=
  let nc := (o_start o + o_count o + amount)%nat in
  if Nat.ltb (cap o) nc then set_capacity o (IInt (Z.of_nat nc)) else Ok o.

(* self._data[off : off+len(src)] = src *)
Definition assign_rows (rows : list row) (off : nat) (src : list row) : list row :=
  firstn off rows ++ src ++ skipn (off + length src) rows.

Definition set_count (o : obj) (c : nat) : obj :=
  {| o_kind := o_kind o; o_dtype := o_dtype o; o_rows := o_rows o; o_ncols := o_ncols o; o_start := o_start o;
     o_count := c; o_resizable := o_resizable o; o_timing := o_timing o; o_scale := o_scale o; o_props := o_props o |}.
Definition set_timing (o : obj) (t : timing) : obj :=
  {| o_kind := o_kind o; o_dtype := o_dtype o; o_rows := o_rows o; o_ncols := o_ncols o; o_start := o_start o;
     o_count := o_count o; o_resizable := o_resizable o; o_timing := t; o_scale := o_scale o; o_props := o_props o |}.
Definition set_props (o : obj) (p : wprops) : obj :=
  {| o_kind := o_kind o; o_dtype := o_dtype o; o_rows := o_rows o; o_ncols := o_ncols o; o_start := o_start o;
     o_count := o_count o; o_resizable := o_resizable o; o_timing := o_timing o; o_scale := o_scale o; o_props := p |}.
Definition set_scale (o : obj) (s : Z) : obj :=
  {| o_kind := o_kind o; o_dtype := o_dtype o; o_rows := o_rows o; o_ncols := o_ncols o; o_start := o_start o;
     o_count := o_count o; o_resizable := o_resizable o; o_timing := o_timing o; o_scale := s; o_props := o_props o |}.

(* extended properties: _merge adds only the keys the receiver lacks *)
Fixpoint wp_get (p : wprops) (k : Z) : option (list Z) :=
  match p with [] => None | (k', v) :: p' => if k =? k' then Some v else wp_get p' k end.
Fixpoint wp_merge (p other : wprops) : wprops :=
  match other with
  | [] => p
  | (k, v) :: other' => wp_merge (match wp_get p k with Some _ => p | None => p ++ [(k, v)] end) other'
  end.

(* ---- construction ---- *)
(* cls(sample_count, dtype, start_index=, capacity=, [signal_count, default_value], timing=, ...) *)
Definition new_obj (k : wkind) (dtype : Z) (dtype_ok : bool) (sc start capa ncols : iarg) (fill : Z)
                   (t : timing) (scale : Z) (p : wprops) : res obj :=
  do start <- arg_uint start (Some 0);
  do sc <- arg_uint sc (Some 0);
  do nc <- (match k with KDigital => arg_uint ncols (Some 1) | _ => Ok 1 end);
  do capa <- arg_uint capa (Some sc);
  if negb dtype_ok then Raise TypeError
  else if capa <? start then Raise ValueError
  else if capa <? start + sc then Raise ValueError
  else
    let o := {| o_kind := k; o_dtype := dtype; o_rows := repeat (repeat fill (Z.to_nat nc)) (Z.to_nat capa);
                o_ncols := Z.to_nat nc; o_start := Z.to_nat start; o_count := Z.to_nat sc; o_resizable := true;
                o_timing := empty_timing; o_scale := scale; o_props := p |} in
    do _ <- (if has_timing k then validate_timing t (Z.to_nat sc) else Ok tt);
    Ok (set_timing o t).

(* cls(raw_data=array / data=array, dtype=, start_index=, sample_count=, capacity=, signal_count=) *)
Definition from_array (k : wkind) (a : arr) (dtype_req : option Z) (dtype_ok : bool)
                      (start sc capa ncols : iarg) (t : timing) (scale : Z) (p : wprops) : res obj :=
  let nd_ok := match k with KDigital => Nat.eqb (a_ndim a) 1 || Nat.eqb (a_ndim a) 2 | _ => Nat.eqb (a_ndim a) 1 end in
  do _ <- (match k with KDigital => Ok tt | _ => if nd_ok then Ok tt else Raise ValueError end);
  do _ <- (match dtype_req with Some d => if d =? a_dtype a then Ok tt else Raise DatatypeMismatchError | None => Ok tt end);
  if negb dtype_ok then Raise TypeError else
  do _ <- (if nd_ok then Ok tt else Raise ValueError);
  let n := Z.of_nat (alen a) in
  do capa <- arg_uint capa (Some n);
  if negb (capa =? n) then Raise ValueError else
  do start <- arg_uint start (Some 0);
  if capa <? start then Raise ValueError else
  do sc <- arg_uint sc (Some (n - start));
  if n <? start + sc then Raise ValueError else
  do _ <- (match k with
           | KDigital => do nc <- arg_uint ncols (Some (Z.of_nat (a_ncols a)));
                         if nc =? Z.of_nat (a_ncols a) then Ok tt else Raise SignalCountMismatchError
           | _ => Ok tt end);
  let o := {| o_kind := k; o_dtype := a_dtype a; o_rows := a_rows a; o_ncols := a_ncols a;
              o_start := Z.to_nat start; o_count := Z.to_nat sc; o_resizable := a_owns a;
              o_timing := empty_timing; o_scale := scale; o_props := p |} in
  do _ <- (if has_timing k then validate_timing t (Z.to_nat sc) else Ok tt);
  Ok (set_timing o t).

(* ---- mutating methods ---- *)
Definition set_sample_count (o : obj) (v : iarg) : res obj :=
  do n <- arg_uint v None;
  if Z.of_nat (cap o) <? Z.of_nat (o_start o) + n then Raise ValueError
  else do _ <- (if has_timing (o_kind o) then validate_timing (o_timing o) (Z.to_nat n) else Ok tt);
       Ok (set_count o (Z.to_nat n)).

Definition assign_timing (o : obj) (t : option timing) : res obj :=
  match t with
  | None => Raise TypeError
  | Some t => do _ <- validate_timing t (o_count o); Ok (set_timing o t)
  end.

(* load_data(array, copy=, start_index=, sample_count=) *)
Definition load_data (o : obj) (a : arr) (copy : bool) (start sc : iarg) : res obj :=
  if negb (a_dtype a =? o_dtype o) then Raise DatatypeMismatchError else
  do _ <- (match o_kind o with
           | KDigital => if Nat.eqb (a_ndim a) 1 || Nat.eqb (a_ndim a) 2 then Ok tt else Raise ValueError
           | _ => if Nat.eqb (a_ndim a) 1 then Ok tt else Raise ValueError end);
  let n := Z.of_nat (alen a) in
  do start <- arg_uint start (Some 0);
  if n <? start then Raise ValueError else
  do sc <- arg_uint sc (Some (n - start));
  if n <? start + sc then Raise ValueError else
  do _ <- (if has_timing (o_kind o) then
             match t_tss (o_timing o) with
             | Some l => if Z.of_nat (length l) =? sc then Ok tt else Raise IrregularTimestampCountMismatchError
             | None => Ok tt end
           else Ok tt);
  do _ <- (match o_kind o with
           | KDigital => if Nat.eqb (a_ncols a) (o_ncols o) then Ok tt else Raise SignalCountMismatchError
           | _ => Ok tt end);
  let src := firstn (Z.to_nat sc) (skipn (Z.to_nat start) (a_rows a)) in
  if copy then
    do o1 <- (if Z.of_nat (cap o) <? sc then set_capacity o (IInt sc) else Ok o);
    Ok {| o_kind := o_kind o; o_dtype := o_dtype o; o_rows := assign_rows (o_rows o1) 0 src; o_ncols := o_ncols o;
          o_start := 0; o_count := Z.to_nat sc; o_resizable := o_resizable o1; o_timing := o_timing o;
          o_scale := o_scale o; o_props := o_props o |}
  else
    Ok {| o_kind := o_kind o; o_dtype := o_dtype o; o_rows := a_rows a; o_ncols := o_ncols o;
          o_start := Z.to_nat start; o_count := Z.to_nat sc; o_resizable := a_owns a; o_timing := o_timing o;
          o_scale := o_scale o; o_props := o_props o |}.

(* append(array, timestamps) *)
Definition append_array (o : obj) (a : arr) (ts : tsarg) : res obj :=
  if negb (a_dtype a =? o_dtype o) then Raise DatatypeMismatchError else
  do _ <- (match o_kind o with
           | KDigital => if Nat.eqb (a_ndim a) 1 || Nat.eqb (a_ndim a) 2 then
                           (if Nat.eqb (a_ncols a) (o_ncols o) then Ok tt else Raise SignalCountMismatchError)
                         else Raise ValueError
           | _ => if Nat.eqb (a_ndim a) 1 then Ok tt else Raise ValueError end);
  do _ <- (match o_kind o, ts with
           | KSpectrum, _ => Ok tt
           | _, TsList l => if Nat.eqb (length l) (alen a) then Ok tt else Raise IrregularTimestampCountMismatchError
           | _, _ => Ok tt end);
  do t' <- (if has_timing (o_kind o) then append_timestamps (o_timing o) ts else Ok (o_timing o));
  do o1 <- increase_capacity o (alen a);
  let rows := assign_rows (o_rows o1) (o_start o + o_count o) (a_rows a) in
  Ok {| o_kind := o_kind o; o_dtype := o_dtype o; o_rows := rows; o_ncols := o_ncols o; o_start := o_start o;
        o_count := (o_count o + alen a)%nat; o_resizable := o_resizable o; o_timing := t';
        o_scale := o_scale o; o_props := o_props o |}.

(* append(waveform) / append([waveforms]) *)
Fixpoint check_sources (o : obj) (srcs : list obj) : res (list warning) :=
  match srcs with
  | [] => Ok []
  | s :: rest =>
      if negb (o_dtype s =? o_dtype o) then Raise DatatypeMismatchError
      else if kind_eqb (o_kind o) KDigital && negb (Nat.eqb (o_ncols s) (o_ncols o)) then Raise SignalCountMismatchError
      else do ws <- check_sources o rest;
           Ok ((if has_scale (o_kind o) && negb (o_scale s =? o_scale o) then [WScaling] else []) ++ ws)
  end.
Fixpoint merge_timings (t : timing) (srcs : list obj) : res (timing * list warning) :=
  match srcs with
  | [] => Ok (t, [])
  | s :: rest => do (t1, w1) <- append_timing t (o_timing s);
                 do (t2, w2) <- merge_timings t1 rest; Ok (t2, w1 ++ w2)
  end.
Definition append_waveforms (o : obj) (srcs : list obj) : res (obj * list warning) :=
  do w1 <- check_sources o srcs;
  do (t', w2) <- (if has_timing (o_kind o) then merge_timings (o_timing o) srcs else Ok (o_timing o, []));
  let total := fold_left (fun n s => (n + o_count s)%nat) srcs 0%nat in
  do o1 <- increase_capacity o total;
  let data := flat_map view srcs in
  let rows := assign_rows (o_rows o1) (o_start o + o_count o) data in
  let props := fold_left (fun p s => wp_merge p (o_props s)) srcs (o_props o) in
  Ok ({| o_kind := o_kind o; o_dtype := o_dtype o; o_rows := rows; o_ncols := o_ncols o; o_start := o_start o;
         o_count := (o_count o + total)%nat; o_resizable := o_resizable o; o_timing := t';
         o_scale := o_scale o; o_props := props |}, w1 ++ w2).

(* get_raw_data / get_data(start_index, sample_count) *)
Definition get_data (o : obj) (start sc : iarg) : res (list row) :=
  do start <- arg_uint start (Some 0);
  if Z.of_nat (o_count o) <? start then Raise ValueError else
  do sc <- arg_uint sc (Some (Z.of_nat (o_count o) - start));
  if Z.of_nat (o_count o) <? start + sc then Raise ValueError
  else Ok (firstn (Z.to_nat sc) (skipn (Z.to_nat start) (view o))).

(* a write through the data view: wf.raw_data[i] = v  /  wf.data[i, c] = v  (0 <= i < sample_count) *)
Definition write_view (o : obj) (i c : nat) (v : Z) : obj :=
  let r := nth (o_start o + i) (o_rows o) [] in
  let r' := firstn c r ++ v :: skipn (S c) r in
  with_rows o (firstn (o_start o + i) (o_rows o) ++ r' :: skipn (S (o_start o + i)) (o_rows o)).

(* ---- the pool and its operations ---- *)
Inductive wop :=
| PNew (k : wkind) (dtype : Z) (dtype_ok : bool) (sc start capa ncols : iarg) (fill : Z) (t : timing) (scale : Z) (p : wprops)
| PFromArray (k : wkind) (a : arr) (dtype_req : option Z) (dtype_ok : bool) (start sc capa ncols : iarg) (t : timing) (scale : Z) (p : wprops)
| PLoad (i : nat) (a : arr) (copy : bool) (start sc : iarg)
| PAppendArr (i : nat) (a : arr) (ts : tsarg)
| PAppendWfm (i : nat) (srcs : list nat) (ts_given : bool)
| PSetCap (i : nat) (v : iarg)
| PSetCount (i : nat) (v : iarg)
| PSetTiming (i : nat) (t : option timing)
| PSetScale (i : nat) (s : option Z)
| PWrite (i : nat) (r c : nat) (v : Z)
| PGet (i : nat) (start sc : iarg)
| PRepickle (i : nat).                      (* object i replaced by its pickle / deepcopy round trip *)

Inductive wout := WNone | WRows (l : list row).

Definition pool := list obj.
Definition pool_set (p : pool) (i : nat) (o : obj) : pool := firstn i p ++ o :: skipn (S i) p.
Definition dummy : obj :=
  {| o_kind := KAnalog; o_dtype := 0; o_rows := []; o_ncols := 1; o_start := 0; o_count := 0; o_resizable := true;
     o_timing := empty_timing; o_scale := 0; o_props := [] |}.
Definition pget (p : pool) (i : nat) : obj := nth i p dummy.

(* pickle.loads(pickle.dumps(o)) or copy.deepcopy(o): the same observable state over a buffer of its own, without slack *)
Definition repickle (o : obj) : obj :=
  {| o_kind := o_kind o; o_dtype := o_dtype o; o_rows := firstn (o_count o) (skipn (o_start o) (o_rows o)); o_ncols := o_ncols o;
     o_start := 0; o_count := o_count o; o_resizable := true; o_timing := o_timing o; o_scale := o_scale o; o_props := o_props o |}.

Definition pstep (p : pool) (op : wop) : pool * res wout * list warning :=
  let upd i (r : res obj) := match r with Ok o' => (pool_set p i o', Ok WNone, []) | Raise e => (p, Raise e, []) end in
  match op with
  | PNew k dt ok sc st ca nc fill t s pr =>
      match new_obj k dt ok sc st ca nc fill t s pr with Ok o => (p ++ [o], Ok WNone, []) | Raise e => (p, Raise e, []) end
  | PFromArray k a dr ok st sc ca nc t s pr =>
      match from_array k a dr ok st sc ca nc t s pr with Ok o => (p ++ [o], Ok WNone, []) | Raise e => (p, Raise e, []) end
  | PLoad i a copy st sc => upd i (load_data (pget p i) a copy st sc)
  | PAppendArr i a ts => upd i (append_array (pget p i) a ts)
  | PAppendWfm i srcs ts_given =>
      if ts_given then (p, Raise ValueError, []) else
      match append_waveforms (pget p i) (map (pget p) srcs) with
      | Ok (o', ws) => (pool_set p i o', Ok WNone, ws)
      | Raise e => (p, Raise e, [])
      end
  | PSetCap i v => upd i (set_capacity (pget p i) v)
  | PSetCount i v => upd i (set_sample_count (pget p i) v)
  | PSetTiming i t => upd i (assign_timing (pget p i) t)
  | PSetScale i s => match s with Some s => upd i (Ok (set_scale (pget p i) s)) | None => (p, Raise TypeError, []) end
  | PWrite i r c v => upd i (Ok (write_view (pget p i) r c v))
  | PGet i st sc => (p, do l <- get_data (pget p i) st sc; Ok (WRows l), [])
  | PRepickle i => upd i (Ok (repickle (pget p i)))
  end.
