(* Model/Names.v — hand model of DigitalWaveform signal names: the NI_LineNames property, the cached
   name list (_line_names), the key-changed callback, the index reversal and lookup by name.
   Strings are lists of code points. *)
From NV Require Import Common.Py.
From Coq Require Import Lia.
Open Scope Z_scope.

Definition str := list Z.
Definition COMMA : Z := 44.
Definition SPACE : Z := 32.
(* str.strip() whitespace: every code point for which str.isspace() holds (compared with the running Python over the
   whole code space by the NWsSet correspondence case) *)
Definition is_ws (c : Z) : bool :=
  ((9 <=? c) && (c <=? 13)) || ((28 <=? c) && (c <=? 32)) || (c =? 133) || (c =? 160)
  || (c =? 5760) || ((8192 <=? c) && (c <=? 8202)) || (c =? 8232) || (c =? 8233) || (c =? 8239) || (c =? 8287) || (c =? 12288).

(* s.split(",") *)
Fixpoint split_aux (cur : str) (s : str) : list str :=
  match s with
  | [] => [rev cur]
  | c :: s' => if c =? COMMA then rev cur :: split_aux [] s' else split_aux (c :: cur) s'
  end.
Definition split_comma (s : str) : list str := split_aux [] s.

Fixpoint dropws (s : str) : str := match s with [] => [] | c :: s' => if is_ws c then dropws s' else s end.
Definition strip (s : str) : str := rev (dropws (rev (dropws s))).

(* ", ".join(names) *)
Fixpoint join (l : list str) : str :=
  match l with
  | [] => []
  | [x] => x
  | x :: rest => x ++ COMMA :: SPACE :: join rest
  end.

Definition parse (s : str) : list str := map strip (split_comma s).
Definition pad (n : nat) (l : list str) : list str := l ++ repeat [] (n - length l).

Record nstate := { n_cols : nat; n_prop : option str; n_cache : option (list str) }.

(* _get_line_names(): fill the cache if needed *)
Definition names_of (st : nstate) : list str :=
  match n_cache st with
  | Some l => l
  | None => pad (n_cols st) (parse (match n_prop st with Some s => s | None => [] end))
  end.
Definition fill (st : nstate) : nstate := {| n_cols := n_cols st; n_prop := n_prop st; n_cache := Some (names_of st) |}.

Fixpoint set_nth_s (l : list str) (i : nat) (v : str) : list str :=
  match l, i with
  | [], _ => []
  | _ :: l', O => v :: l'
  | x :: l', S i' => x :: set_nth_s l' i' v
  end.

Inductive nop :=
| NRead (i : Z)                      (* signals[i].name *)
| NWrite (i : Z) (v : str)           (* signals[i].name = v *)
| NWriteBad (i : Z)                  (* signals[i].name = <not a str>: rejected, nothing changes *)
| NSetProp (v : str)                 (* extended_properties["NI_LineNames"] = v *)
| NDelProp                           (* del extended_properties["NI_LineNames"] *)
| NMerge (v : option str)            (* append(waveform whose properties carry / do not carry NI_LineNames) *)
| NOther                             (* load_data, other property writes, ...: nothing that concerns the names *)
| NLookup (name : str)               (* signals[name].name, or IndexError *)
| NPickle.                           (* pickle / deepcopy round trip: same property, empty cache *)

Inductive nout := NNone | NName (s : str) | NIndex (i : Z).

Definition sig_col (st : nstate) (i : Z) : res nat :=
  let n := Z.of_nat (n_cols st) in
  let j := if i <? 0 then i + n else i in
  if (j <? 0) || (n <=? j) then Raise IndexError else Ok (Z.to_nat (n - 1 - j)).

Fixpoint index_of (l : list str) (v : str) (i : nat) : option nat :=
  match l with [] => None | x :: l' => if list_eqb Z.eqb x v then Some i else index_of l' v (S i) end.

Definition nstep (st : nstate) (op : nop) : res nout * nstate :=
  match op with
  | NRead i =>
      match sig_col st i with
      | Ok c => (Ok (NName (nth c (names_of st) [])), fill st)
      | Raise e => (Raise e, st)
      end
  | NWrite i v =>
      match sig_col st i with
      | Ok c =>
          let names := set_nth_s (names_of st) c v in
          (* the property is rewritten, the key-changed callback drops the cache *)
          (Ok NNone, {| n_cols := n_cols st; n_prop := Some (join names); n_cache := None |})
      | Raise e => (Raise e, st)
      end
  | NWriteBad i =>
      match sig_col st i with
      | Ok _ => (Raise TypeError, fill st)      (* the names are read (cache filled) before the join fails *)
      | Raise e => (Raise e, st)
      end
  | NSetProp v => (Ok NNone, {| n_cols := n_cols st; n_prop := Some v; n_cache := None |})
  | NDelProp => match n_prop st with
                | Some _ => (Ok NNone, {| n_cols := n_cols st; n_prop := None; n_cache := None |})
                | None => (Raise KeyError, st) end
  | NMerge v =>
      match n_prop st, v with
      | None, Some s => (Ok NNone, {| n_cols := n_cols st; n_prop := Some s; n_cache := None |})
      | _, _ => (Ok NNone, st)
      end
  | NOther => (Ok NNone, st)
  | NLookup name =>
      match index_of (firstn (n_cols st) (names_of st)) name 0 with
      | Some c => (Ok (NIndex (Z.of_nat (n_cols st) - 1 - Z.of_nat c)), fill st)
      | None => (Raise IndexError, fill st)
      end
  | NPickle => (Ok NNone, {| n_cols := n_cols st; n_prop := n_prop st; n_cache := None |})
  end.

(* the cache, when present, is the parse of the current property *)
Definition coherent (st : nstate) : Prop :=
  match n_cache st with
  | None => True
  | Some l => l = pad (n_cols st) (parse (match n_prop st with Some s => s | None => [] end))
  end.

(* what C15 says a name is *)
Definition spec_name (st : nstate) (c : nat) : str :=
  nth c (pad (n_cols st) (parse (match n_prop st with Some s => s | None => [] end))) [].

Definition nocomma (s : str) : Prop := Forall (fun c => c <> COMMA) s.
