(* Model/Vector.v — hand model of nitypes.vector.Vector: a Python list of scalars plus a value type.
   The class delegates storage to a real list, so list behaviour is Spec/ListSpec.v itself; what the
   model adds is the constructor (iterable materialised once, value type from the first element or
   value_type), the isinstance checks of __setitem__/insert, and the MutableSequence mixins built on
   them (append = insert(len), extend = repeated append, pop, remove, reverse, clear, +=). *)
From NV Require Import Common.Py Spec.ListSpec.
From Coq Require Import Lia.
Open Scope Z_scope.

Inductive vty := TBool | TInt | TFloat | TStr.
(* a scalar value: floats are given as twice their value (halves are enough to tell them from ints) *)
Inductive sval := SBool (b : bool) | SInt (z : Z) | SFloat (h : Z) | SStr (id : Z) | SOther.

Definition type_of (v : sval) : option vty :=
  match v with SBool _ => Some TBool | SInt _ => Some TInt | SFloat _ => Some TFloat | SStr _ => Some TStr | SOther => None end.
(* isinstance(v, t): bool is a subclass of int *)
Definition instance_of (t : vty) (v : sval) : bool :=
  match v, t with
  | SBool _, TBool | SBool _, TInt | SInt _, TInt | SFloat _, TFloat | SStr _, TStr => true
  | _, _ => false
  end.
(* Python ==: numbers compare by value across bool/int/float, strings by content *)
Definition num2 (v : sval) : option Z :=
  match v with SBool b => Some (if b then 2 else 0) | SInt z => Some (2 * z) | SFloat h => Some h | _ => None end.
Definition py_eqb (a b : sval) : bool :=
  match num2 a, num2 b with
  | Some x, Some y => x =? y
  | None, None => match a, b with SStr x, SStr y => x =? y | _, _ => false end
  | _, _ => false
  end.

Record vec := { vt : vty; elems : list sval }.

(* what the caller passes where an iterable is expected *)
Inductive iterarg := ItItems (l : list sval) | ItStr | ItNotIter | ItSelf.
(* what the caller passes where one value is expected *)
Inductive onearg := One (v : sval) | OneIterable.     (* OneIterable: a list/tuple given as a single value *)
Inductive vidx := XInt (i : Z) | XSlice (a b c : option Z) | XBad.

Inductive vop :=
| VGet (i : vidx) | VSet (i : vidx) (v : onearg) | VSetSlice (a b c : option Z) (vs : iterarg)
| VDel (i : vidx) | VInsert (i : option Z) (v : onearg) | VAppend (v : onearg)
| VExtend (vs : iterarg) | VIadd (vs : iterarg) | VPop (i : option Z) | VRemove (v : sval) | VReverse | VClear
| VIndex (v : sval) | VCount (v : sval) | VLen | VIter.

Inductive vout := RNone | RVal (v : sval) | RList (l : list sval) | RInt (n : Z).

(* Vector(values, value_type=...) *)
Definition v_init (values : iterarg) (value_type : option vty) : res vec :=
  match values with
  | ItNotIter | ItSelf => Raise TypeError
  | ItStr => Raise TypeError        (* a str is an iterable of 1-character strs; handled by the harness as items *)
  | ItItems [] => match value_type with Some t => Ok {| vt := t; elems := [] |} | None => Raise TypeError end
  | ItItems (x :: rest) =>
      match type_of x with
      | None => Raise TypeError
      | Some t =>
          if forallb (fun v => match type_of v with Some _ => instance_of t v | None => false end) (x :: rest)
          then Ok {| vt := t; elems := x :: rest |} else Raise TypeError
      end
  end.

Definition sdefault : sval := SOther.
Definition find_py (l : list sval) (v : sval) : option nat :=
  (fix go (l : list sval) (i : nat) := match l with [] => None | x :: l' => if py_eqb x v then Some i else go l' (S i) end) l 0%nat.

Definition v_insert (s : vec) (i : option Z) (v : onearg) : res vec :=
  match v with
  | OneIterable => Raise TypeError
  | One x =>
      if negb (instance_of (vt s) x) then Raise TypeError
      else match i with
           | None => Raise TypeError
           | Some i => Ok {| vt := vt s; elems := l_insert (elems s) i x |}
           end
  end.

(* extend / += : the mixin appends item by item; a wrong-typed item stops it with the earlier items kept *)
Fixpoint v_extend_items (s : vec) (items : list sval) : res vec * vec :=
  match items with
  | [] => (Ok s, s)
  | x :: rest =>
      match v_insert s (Some (len (elems s))) (One x) with
      | Ok s' => v_extend_items s' rest
      | Raise e => (Raise e, s)
      end
  end.

Fixpoint v_swap_loop (l : list sval) (i : nat) (todo : nat) : list sval :=
  match todo with
  | O => l
  | S todo' =>
      let n := length l in
      let x := nth i l sdefault in let y := nth (n - i - 1) l sdefault in
      v_swap_loop (set_nth (set_nth l i y) (n - i - 1) x) (S i) todo'
  end.

Definition v_step (s : vec) (op : vop) : res vout * vec :=
  let upd (r : res (list sval)) := match r with Ok l' => (Ok RNone, {| vt := vt s; elems := l' |}) | Raise e => (Raise e, s) end in
  let l := elems s in
  match op with
  | VGet (XInt i) => (do v <- l_getitem sdefault l i; Ok (RVal v), s)
  | VGet (XSlice a b c) => (do r <- l_getslice sdefault l a b c; Ok (RList r), s)
  | VGet XBad => (Raise TypeError, s)
  | VSet (XInt i) (One x) => if instance_of (vt s) x then upd (l_setitem l i x) else (Raise TypeError, s)
  | VSet _ _ => (Raise TypeError, s)
  | VSetSlice a b c vs =>
      match vs with
      | ItNotIter | ItStr => (Raise TypeError, s)
      | ItSelf => upd (l_setslice l a b c l)
      | ItItems items => if forallb (instance_of (vt s)) items then upd (l_setslice l a b c items) else (Raise TypeError, s)
      end
  | VDel (XInt i) => upd (l_delitem l i)
  | VDel (XSlice a b c) => upd (l_delslice l a b c)
  | VDel XBad => (Raise TypeError, s)
  | VInsert i v => match v_insert s i v with Ok s' => (Ok RNone, s') | Raise e => (Raise e, s) end
  | VAppend v => match v_insert s (Some (len l)) v with Ok s' => (Ok RNone, s') | Raise e => (Raise e, s) end
  | VExtend vs | VIadd vs =>
      match vs with
      | ItNotIter => (Raise TypeError, s)
      | ItStr => (Raise TypeError, s)     (* harness passes a str as its characters; see props/c18.py *)
      | ItSelf => let '(r, s') := v_extend_items s l in (do _ <- r; Ok RNone, s')
      | ItItems items => let '(r, s') := v_extend_items s items in (do _ <- r; Ok RNone, s')
      end
  | VPop i => match l_pop sdefault l (match i with Some i => i | None => -1 end) with
              | Ok (v, l') => (Ok (RVal v), {| vt := vt s; elems := l' |}) | Raise e => (Raise e, s) end
  | VRemove v => match find_py l v with Some i => upd (Ok (del_nth l i)) | None => (Raise ValueError, s) end
  | VReverse => (Ok RNone, {| vt := vt s; elems := v_swap_loop l 0 (Nat.div (length l) 2) |})
  | VClear => (Ok RNone, {| vt := vt s; elems := [] |})
  | VIndex v => (match find_py l v with Some i => Ok (RInt (Z.of_nat i)) | None => Raise ValueError end, s)
  | VCount v => (Ok (RInt (len (filter (fun x => py_eqb x v) l))), s)
  | VLen => (Ok (RInt (len l)), s)
  | VIter => (Ok (RList l), s)
  end.

Definition typed (s : vec) : Prop := Forall (fun v => instance_of (vt s) v = true) (elems s).
