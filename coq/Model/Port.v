(* Model/Port.v — hand model of port_to_line_data / DigitalWaveform.from_port on integer sample values.
   bit_mask, _get_port_dtype and _mask_to_column_indices are REGENERATED (Gen/PortGen.v); the
   byteswap / view(uint8) / np.unpackbits pipeline is modelled by its value-level meaning
   (full big row = bits w-1..0, full little row = bits 0..w-1) and compared with the real pipeline
   (either byte order, any stride) by the correspondence. *)
From NV Require Import Common.Py Common.Trans Spec.PortSpec Gen.PortGen.
From Coq Require Import String.
Open Scope Z_scope.

Definition order_str (big : bool) : string := if big then "big"%string else "little"%string.

(* np.unpackbits of the (byte-order normalised) value: column c of the full row *)
Definition full_row (big : bool) (w : nat) (v : Z) : list bool :=
  map (fun c => Z.testbit v (if big then Z.of_nat w - 1 - Z.of_nat c else Z.of_nat c)) (seq 0 w).

(* line_data_2d or line_data_2d[:, columns] *)
Definition line_row (big : bool) (w : nat) (mask v : Z) : res (list bool) :=
  do full <- port_bit_mask (Z.of_nat w);
  if mask =? full then Ok (full_row big w v)
  else do cols <- port_mask_to_columns mask (Z.of_nat w) (order_str big);
       Ok (map (fun c => nth (Z.to_nat c) (full_row big w v) false) cols).

(* from_port on a list / array of values: validation order of the source.
   is_array: input is an ndarray of width w; otherwise a Python sequence whose port width comes from the mask *)
Definition from_port (is_array : bool) (w_array : nat) (mask : option Z) (big : bool) (values : list Z)
  : res (list (list bool)) :=
  if negb is_array && match mask with None => true | Some _ => false end then Raise ValueError else
  do dflt <- (if is_array then port_bit_mask (Z.of_nat w_array) else Ok 0);
  let m := match mask with Some m => m | None => dflt end in
  if m <? 0 then Raise ValueError else
  do wbits <- (if is_array then Ok (Z.of_nat w_array) else port_dtype_bits m);
  let w := Z.to_nat wbits in
  if negb (forallb (in_width w) values) then Raise OverflowError      (* np.asarray of an out-of-range Python int *)
  else
    (* port_to_line_data is applied to the whole array: the mask is validated even when there are no samples *)
    do _ <- line_row big w m 0;
    (fix go (vs : list Z) : res (list (list bool)) :=
       match vs with [] => Ok [] | v :: vs' => do r <- line_row big w m v; do rs <- go vs'; Ok (r :: rs) end) values.
