(* Model/Text.v — the text renderings of TimeDelta and DateTime as executable definitions over character codes,
   with parsers used only to state that a rendering identifies its fields. *)
From Coq Require Import ZArith List Bool Lia.
Import ListNotations.
Open Scope Z_scope.

Definition is_digit (c : Z) : bool := (48 <=? c) && (c <=? 57).

(* exactly w decimal digits, most significant first: n mod 10^w *)
Fixpoint pad (w : nat) (n : Z) : list Z :=
  match w with O => [] | S w' => pad w' (n / 10) ++ [48 + n mod 10] end.

Fixpoint parse_acc (acc : Z) (l : list Z) : option Z :=
  match l with
  | [] => Some acc
  | c :: r => if is_digit c then parse_acc (acc * 10 + (c - 48)) r else None
  end.

Fixpoint strip0 (l : list Z) : list Z :=
  match l with 48 :: r => strip0 r | _ => l end.

(* decimal rendering without leading zeros (values below 10^40, far beyond any field here) *)
Definition dec (n : Z) : list Z := match strip0 (pad 40 n) with [] => [48] | l => l end.

Definition rstrip0 (l : list Z) : list Z := rev (strip0 (rev l)).

Definition str_day  : list Z := [32; 100; 97; 121].          (* " day" *)
Definition comma_sp : list Z := [44; 32].                     (* ", " *)
Definition COLON : Z := 58.  Definition DOT : Z := 46.  Definition MINUS : Z := 45.  Definition PLUS : Z := 43.
Definition SPACE : Z := 32.  Definition CH_s : Z := 115.

(* str(TimeDelta) in the style of datetime.timedelta, fraction f scaled to 18 digits *)
Definition render_td (d h m s f : Z) : list Z :=
  (if d =? 0 then []
   else (if d <? 0 then [MINUS] else []) ++ dec (Z.abs d) ++ str_day ++ (if Z.abs d =? 1 then [] else [CH_s]) ++ comma_sp)
  ++ dec h ++ [COLON] ++ pad 2 m ++ [COLON] ++ pad 2 s
  ++ (if f =? 0 then [] else DOT :: rstrip0 (pad 18 f)).

(* str(DateTime): ISO date, space, time, the shortest of 0/6/15/24 fraction digits that loses nothing, "+00:00" *)
Definition utc_suffix : list Z := [PLUS; 48; 48; COLON; 48; 48].
Definition render_dt (y mo d h mi s us fs ys : Z) : list Z :=
  pad 4 y ++ [MINUS] ++ pad 2 mo ++ [MINUS] ++ pad 2 d ++ [SPACE] ++ pad 2 h ++ [COLON] ++ pad 2 mi ++ [COLON] ++ pad 2 s
  ++ (if ys =? 0 then (if fs =? 0 then (if us =? 0 then [] else DOT :: pad 6 us)
                       else DOT :: pad 6 us ++ pad 9 fs)
      else DOT :: pad 6 us ++ pad 9 fs ++ pad 9 ys)
  ++ utc_suffix.

(* ---------------------------------------------------------------- parsers (used to state unambiguity) *)
Definition take (w : nat) (l : list Z) : option (Z * list Z) :=
  if Nat.leb w (length l) then
    match parse_acc 0 (firstn w l) with Some n => Some (n, skipn w l) | None => None end
  else None.

Definition expect (c : Z) (l : list Z) : option (list Z) :=
  match l with x :: r => if x =? c then Some r else None | [] => None end.

Fixpoint list_eqb (a b : list Z) : bool :=
  match a, b with
  | [], [] => true
  | x :: a', y :: b' => (x =? y) && list_eqb a' b'
  | _, _ => false
  end.

Notation "'opt' x <- e ; k" := (match e with Some x => k | None => None end) (at level 200, x pattern, e at level 100, k at level 200).

Definition parse_dt (l : list Z) : option (Z * Z * Z * Z * Z * Z * Z * Z * Z) :=
  opt (y, l) <- take 4 l; opt l <- expect MINUS l;
  opt (mo, l) <- take 2 l; opt l <- expect MINUS l;
  opt (d, l) <- take 2 l; opt l <- expect SPACE l;
  opt (h, l) <- take 2 l; opt l <- expect COLON l;
  opt (mi, l) <- take 2 l; opt l <- expect COLON l;
  opt (s, l) <- take 2 l;
  match l with
  | 46 :: r =>
      match length r with
      | 12%nat => opt (us, r) <- take 6 r; if list_eqb r utc_suffix then Some (y, mo, d, h, mi, s, us, 0, 0) else None
      | 21%nat => opt (us, r) <- take 6 r; opt (fs, r) <- take 9 r;
                  if list_eqb r utc_suffix then Some (y, mo, d, h, mi, s, us, fs, 0) else None
      | 30%nat => opt (us, r) <- take 6 r; opt (fs, r) <- take 9 r; opt (ys, r) <- take 9 r;
                  if list_eqb r utc_suffix then Some (y, mo, d, h, mi, s, us, fs, ys) else None
      | _ => None
      end
  | _ => if list_eqb l utc_suffix then Some (y, mo, d, h, mi, s, 0, 0, 0) else None
  end.

Fixpoint span_digits (l : list Z) : list Z * list Z :=
  match l with
  | c :: r => if is_digit c then let (a, b) := span_digits r in (c :: a, b) else ([], l)
  | [] => ([], [])
  end.

Definition take_dec (l : list Z) : option (Z * list Z) :=
  let (a, b) := span_digits l in
  match a with [] => None | _ => match parse_acc 0 a with Some n => Some (n, b) | None => None end end.

Definition parse_frac (r : list Z) : option Z :=
  if (Nat.leb 1 (length r) && Nat.leb (length r) 18)%bool then
    match parse_acc 0 r with Some v => Some (v * 10 ^ Z.of_nat (18 - length r)) | None => None end
  else None.

Definition parse_time (l : list Z) : option (Z * Z * Z * Z) :=
  opt (h, l) <- take_dec l; opt l <- expect COLON l;
  opt (m, l) <- take 2 l; opt l <- expect COLON l;
  opt (s, l) <- take 2 l;
  match l with
  | [] => Some (h, m, s, 0)
  | 46 :: r => opt f <- parse_frac r; Some (h, m, s, f)
  | _ => None
  end.

Definition parse_td_tail (neg : bool) (a : Z) (l0 l1 : list Z) : option (Z * Z * Z * Z * Z) :=
  match l1 with
  | 32 :: 100 :: 97 :: 121 :: r =>
      let r := match r with 115 :: r' => r' | _ => r end in
      opt r <- expect 44 r; opt r <- expect 32 r;
      opt (h, m, s, f) <- parse_time r;
      Some (if neg then - a else a, h, m, s, f)
  | _ => if neg then None else opt (h, m, s, f) <- parse_time l0; Some (0, h, m, s, f)
  end.

Definition parse_td (l : list Z) : option (Z * Z * Z * Z * Z) :=
  let (neg, l0) := match l with c :: r => if c =? MINUS then (true, r) else (false, l) | [] => (false, l) end in
  opt (a, l1) <- take_dec l0; parse_td_tail neg a l0 l1.
