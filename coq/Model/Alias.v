(* Model/Alias.v — hand model of memory sharing: a heap of buffers, NumPy-style strided 2-D
   references into them (1-D arrays have one column), np.asarray(a, dtype, copy=), the construction
   and load paths that use it, and writes / in-capacity appends on either side afterwards. *)
From NV Require Import Common.Py.
From Coq Require Import Lia.
Open Scope nat_scope.

Definition heap := list (list Z).
Record aref := { r_buf : nat; r_off : nat; r_rs : nat; r_cs : nat; r_rows : nat; r_cols : nat }.

Definition addr (a : aref) (r c : nat) : nat := r_off a + r * r_rs a + c * r_cs a.
Definition bufof (h : heap) (b : nat) : list Z := nth b h [].
Definition hread (h : heap) (a : aref) (r c : nat) : Z := nth (addr a r c) (bufof h (r_buf a)) 0%Z.

Definition upd {A} (l : list A) (i : nat) (v : A) : list A :=
  if Nat.ltb i (length l) then firstn i l ++ v :: skipn (S i) l else l.
Definition hwrite (h : heap) (a : aref) (r c : nat) (v : Z) : heap :=
  upd h (r_buf a) (upd (bufof h (r_buf a)) (addr a r c) v).

Definition contents (h : heap) (a : aref) : list (list Z) :=
  map (fun r => map (fun c => hread h a r c) (seq 0 (r_cols a))) (seq 0 (r_rows a)).

(* a fresh C-contiguous buffer holding [vals] (rows of [cols] values) *)
Definition alloc (h : heap) (vals : list (list Z)) (cols : nat) : heap * aref :=
  (h ++ [concat vals],
   {| r_buf := length h; r_off := 0; r_rs := cols; r_cs := 1; r_rows := length vals; r_cols := cols |}).

(* rows s .. s+n-1 of a reference (basic slicing: a view) and one row as a 1-D array (a column of
   the model's 2-D layout is not needed: 1-D arrays are n x 1) *)
Definition subrows (a : aref) (s n : nat) : aref :=
  {| r_buf := r_buf a; r_off := r_off a + s * r_rs a; r_rs := r_rs a; r_cs := r_cs a; r_rows := n; r_cols := r_cols a |}.
(* row i of a 2-D array as a 1-D array of its own (array[i]): elements become rows *)
Definition rowof (a : aref) (i : nat) : aref :=
  {| r_buf := r_buf a; r_off := r_off a + i * r_rs a; r_rs := r_cs a; r_cs := 1; r_rows := r_cols a; r_cols := 1 |}.
(* one column (DigitalWaveformSignal.data = data[:, col]) *)
Definition colof (a : aref) (c : nat) : aref :=
  {| r_buf := r_buf a; r_off := r_off a + c * r_cs a; r_rs := r_rs a; r_cs := 1; r_rows := r_rows a; r_cols := 1 |}.

Inductive source := SRef (a : aref) | SList (vals : list (list Z)) (cols : nat).

(* np.asarray(array, dtype, copy=copy) under NumPy 2 semantics; [cast] = the dtype differs *)
Definition asarray (h : heap) (s : source) (cast copy : bool) : res (heap * aref) :=
  match s with
  | SList vals cols => if copy then Ok (alloc h vals cols) else Raise ValueError
  | SRef a => if copy then Ok (alloc h (contents h a) (r_cols a))
              else if cast then Raise ValueError else Ok (h, a)
  end.

Inductive path :=
| PFrom1d                 (* from_array_1d / from_arrays_1d / Spectrum.from_array_1d *)
| PFrom2dRow (i : nat)    (* the i-th waveform of from_array_2d *)
| PLines                  (* DigitalWaveform.from_lines *)
| PCtor                   (* cls(raw_data= / data= / x_data=) : adopts the array *)
| PPort.                  (* from_port / from_ports: always freshly unpacked *)

Definition build (p : path) (h : heap) (s : source) (cast copy : bool) : res (heap * aref) :=
  match p with
  | PFrom1d => asarray h s cast copy
  | PFrom2dRow i =>
      match s with
      | SRef a => asarray h (SRef (rowof a i)) cast copy
      | SList vals cols => asarray h (SList (map (fun v => [v]) (nth i vals [])) 1) cast copy
      end
  | PLines =>
      match s with
      | SRef a => if cast then Raise TypeError (* DatatypeMismatchError *) else asarray h s false copy
      | SList _ _ => asarray h s cast copy
      end
  | PCtor =>
      match s with
      | SRef a => if cast then Raise TypeError else Ok (h, a)
      | SList _ _ => Raise TypeError
      end
  | PPort => match s with
             | SRef a => Ok (alloc h (contents h a) (r_cols a))
             | SList vals cols => Ok (alloc h vals cols)
             end
  end.

(* an object: its backing array, the window, and whether it may resize the array *)
Record aobj := { ao_ref : aref; ao_start : nat; ao_count : nat; ao_owns : bool }.
Definition ao_view (o : aobj) : aref := subrows (ao_ref o) (ao_start o) (ao_count o).
Definition mk_obj (a : aref) (owns : bool) : aobj := {| ao_ref := a; ao_start := 0; ao_count := r_rows a; ao_owns := owns |}.

(* load_data(array, copy=): copy=True copies into the object's own array (growing it if it may),
   copy=False adopts the array *)
Fixpoint write_rows (h : heap) (a : aref) (r0 : nat) (rows : list (list Z)) : heap :=
  match rows with
  | [] => h
  | row :: rest =>
      let h' := fold_left (fun hh cv => hwrite hh a r0 (fst cv) (snd cv)) (combine (seq 0 (length row)) row) h in
      write_rows h' a (S r0) rest
  end.

Definition load (h : heap) (o : aobj) (s : source) (cast copy : bool) : res (heap * aobj) :=
  match s with
  | SList _ _ => Raise TypeError
  | SRef a =>
      if cast then Raise TypeError else
      if copy then
        let vals := contents h a in
        if Nat.leb (r_rows a) (r_rows (ao_ref o)) then
          Ok (write_rows h (ao_ref o) 0 vals, {| ao_ref := ao_ref o; ao_start := 0; ao_count := r_rows a; ao_owns := ao_owns o |})
        else if ao_owns o then
          (* ndarray.resize: the object's array grows; nobody else refers to an owned array *)
          let '(h', a') := alloc h vals (r_cols a) in
          Ok (h', {| ao_ref := a'; ao_start := 0; ao_count := r_rows a; ao_owns := true |})
        else Raise ValueError
      else Ok (h, {| ao_ref := a; ao_start := 0; ao_count := r_rows a; ao_owns := false |})
  end.

Inductive aop :=
| WSrc (r c : nat) (v : Z)          (* the caller writes source[r, c] *)
| WObj (r c : nat) (v : Z)          (* a write through raw_data / data / get_*_data / signal.data *)
| AppendIn (row : list Z).          (* append one sample; only within capacity *)

Definition astep (src : aref) (st : heap * aobj) (op : aop) : heap * aobj :=
  let '(h, o) := st in
  match op with
  | WSrc r c v => (hwrite h src r c v, o)
  | WObj r c v => (hwrite h (ao_view o) r c v, o)
  | AppendIn row =>
      if Nat.ltb (ao_start o + ao_count o) (r_rows (ao_ref o)) then
        (write_rows h (ao_ref o) (ao_start o + ao_count o) [row],
         {| ao_ref := ao_ref o; ao_start := ao_start o; ao_count := S (ao_count o); ao_owns := ao_owns o |})
      else (h, o)
  end.
