(* Model/DigitalTest.v — hand model of DigitalWaveform.test (nitypes/waveform/_digital/_waveform.py),
   written in the order of the source: argument conversion, the three checks, then the two
   nested loops with the running indices; the state table and DigitalState.test are regenerated. *)
From NV Require Import Common.Py Common.Trans Spec.StateSpec Gen.StateGen.
From Coq Require Import String Ascii.
Open Scope Z_scope.

(* DigitalState(x): ValueError unless x is one of the 8 members *)
Definition digital_state (x : Z) : res Z := if (0 <=? x) && (x <=? 7) then Ok x else Raise ValueError.

(* inner loop: for column_index in range(signal_count) *)
Fixpoint test_columns (a e : dwf) (s es : Z) (c : nat) (todo : nat) (acc : list failure) : res (list failure) :=
  match todo with
  | O => Ok acc
  | S todo' =>
      do x <- digital_state (cell a (Z.to_nat s) c);
      do y <- digital_state (cell e (Z.to_nat es) c);
      let acc' := if state_test x y
                  then acc ++ [(s, es, Z.of_nat (ncol a) - 1 - Z.of_nat c, x, y)] else acc in
      test_columns a e s es (S c) todo' acc'
  end.

(* outer loop: for _ in range(sample_count), start_sample += 1, expected_start_sample += 1 *)
Fixpoint test_samples (a e : dwf) (s es : Z) (todo : nat) (acc : list failure) : res (list failure) :=
  match todo with
  | O => Ok acc
  | S todo' =>
      do acc' <- test_columns a e s es 0 (ncol a) acc;
      test_samples a e (s + 1) (es + 1) todo' acc'
  end.

Definition wf_test (a e : dwf) (start estart count : option Z) : res (list failure) :=
  do s <- arg_uint start 0;
  do es <- arg_uint estart 0;
  do n <- arg_uint count (Z.of_nat (cnt a) - s);
  if negb (Nat.eqb (ncol a) (ncol e)) then Raise ValueError
  else if Z.of_nat (cnt a) <? s + n then Raise ValueError
  else if Z.of_nat (cnt e) <? es + n then Raise ValueError
  else test_samples a e s es (Z.to_nat n) [].

(* to_char / from_char over the generated character table *)
Fixpoint str_index (c : ascii) (s : string) (i : Z) : option Z :=
  match s with
  | EmptyString => None
  | String d s' => if Ascii.eqb c d then Some i else str_index c s' (i + 1)
  end.
Definition to_char (s : Z) : res ascii :=
  do v <- digital_state s;
  match String.get (Z.to_nat v) state_char_table with Some c => Ok c | None => Raise IndexError end.
Definition from_char (c : ascii) : res Z :=
  match str_index c state_char_table 0 with Some i => digital_state i | None => Raise KeyError end.
