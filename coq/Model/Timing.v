(* Model/Timing.v — hand model of nitypes.waveform.Timing and its three sample-interval strategies
   (validation order of validate_init_args as in the sources, the has_* flags, equality,
   get_timestamps with the regular generator written as the code writes it: first element
   start_time + start_index*interval, then repeated += interval). *)
From NV Require Import Common.Py Spec.TimingSpec.
Open Scope Z_scope.

Record timing := {
  t_mode : Z;
  t_ts : option Z; t_off : option Z; t_si : option Z;
  t_tss : option (list Z)
}.

Definition opt_of_dtm (a : arg) : option Z := match a with ADatetime v => Some v | _ => None end.
Definition opt_of_td (a : arg) : option Z := match a with ATimedelta v => Some v | _ => None end.

(* validate_unsupported_arg: ValueError unless None *)
Definition unsupported (a : arg) : res unit := match a with ANone => Ok tt | _ => Raise ValueError end.
Definition unsupported_tss (a : tss_arg) : res unit := match a with TNone => Ok tt | _ => Raise ValueError end.

(* _are_timestamps_monotonic: the direction state machine *)
Inductive dir := Unk | Inc | Dec.
Definition get_dir (a b : Z) : dir := if a <? b then Inc else if b <? a then Dec else Unk.
Fixpoint mono_from (d : dir) (prev : Z) (l : list Z) : bool :=
  match l with
  | [] => true
  | x :: l' =>
      match get_dir prev x, d with
      | Unk, _ => mono_from d x l'
      | c, Unk => mono_from c x l'
      | Inc, Inc | Dec, Dec => mono_from d x l'
      | _, _ => false
      end
  end.
Definition monotonic_sm (l : list Z) : bool := match l with [] => true | x :: l' => mono_from Unk x l' end.

Definition timing_init (mode : Z) (ts off si : arg) (tss : tss_arg) : res timing :=
  match mode with
  | 0 =>
      if negb (is_dtm ts || is_none ts) then Raise TypeError
      else if negb (is_td off || is_none off) then Raise TypeError
      else do _ <- unsupported si; do _ <- unsupported_tss tss;
      Ok {| t_mode := 0; t_ts := opt_of_dtm ts; t_off := opt_of_td off; t_si := None; t_tss := None |}
  | 1 =>
      if negb (is_dtm ts || is_none ts) then Raise TypeError
      else if negb (is_td off || is_none off) then Raise TypeError
      else if negb (is_td si) then Raise TypeError
      else do _ <- unsupported_tss tss;
      Ok {| t_mode := 1; t_ts := opt_of_dtm ts; t_off := opt_of_td off; t_si := opt_of_td si; t_tss := None |}
  | 2 =>
      do _ <- unsupported ts; do _ <- unsupported off; do _ <- unsupported si;
      match tss with
      | TSeq items =>
          if negb (forallb is_dtm items) then Raise TypeError
          else if negb (monotonic_sm (map dtm_value items)) then Raise ValueError
          else Ok {| t_mode := 2; t_ts := None; t_off := None; t_si := None; t_tss := Some (map dtm_value items) |}
      | _ => Raise TypeError
      end
  | _ => Raise ValueError
  end.

Definition has {A} (o : option A) : bool := match o with Some _ => true | None => false end.
Definition read {A} (o : option A) : res A := match o with Some v => Ok v | None => Raise RuntimeError end.

Definition opt_eqb (a b : option Z) : bool :=
  match a, b with Some x, Some y => x =? y | None, None => true | _, _ => false end.
Definition timing_eqb (a b : timing) : bool :=
  opt_eqb (t_ts a) (t_ts b) && opt_eqb (t_off a) (t_off b) && opt_eqb (t_si a) (t_si b)
  && (t_mode a =? t_mode b)
  && match t_tss a, t_tss b with Some x, Some y => list_eqb Z.eqb x y | None, None => true | _, _ => false end.

(* get_timestamps.  Values of one family are exact integers; [lo_td, hi_td] and [lo_dtm, hi_dtm] are
   the ranges of the family's timedelta and datetime types (OverflowError outside). *)
Record ranges := { lo_td : Z; hi_td : Z; lo_dtm : Z; hi_dtm : Z }.
Definition chk (lo hi v : Z) : res Z := if (lo <=? v) && (v <=? hi) then Ok v else Raise OverflowError.

Fixpoint gen_rest (r : ranges) (cur si : Z) (n : nat) : res (list Z) :=
  match n with
  | O => Ok []
  | S n' => do nxt <- chk (lo_dtm r) (hi_dtm r) (cur + si); do rest <- gen_rest r nxt si n'; Ok (nxt :: rest)
  end.

Definition gen_regular (r : ranges) (ts : Z) (off : option Z) (si i : Z) (n : nat) : res (list Z) :=
  do start <- match off with Some o => chk (lo_dtm r) (hi_dtm r) (ts + o) | None => Ok ts end;
  do prod <- chk (lo_td r) (hi_td r) (i * si);
  do first <- chk (lo_dtm r) (hi_dtm r) (start + prod);
  match n with
  | O => Ok []
  | S n' => do rest <- gen_rest r first si n'; Ok (first :: rest)
  end.

Definition get_timestamps (r : ranges) (t : timing) (i n : Z) : res (list Z) :=
  if i <? 0 then Raise ValueError else if n <? 0 then Raise ValueError else
  match t_mode t with
  | 0 => Raise NoTimestampInformationError
  | 1 => match t_ts t, t_si t with
         | Some ts, Some si => gen_regular r ts (t_off t) si i (Z.to_nat n)
         | _, _ => Raise NoTimestampInformationError
         end
  | _ => match t_tss t with
         | Some l => if Z.of_nat (length l) <? i + n then Raise ValueError
                     else Ok (firstn (Z.to_nat n) (skipn (Z.to_nat i) l))
         | None => Raise OtherError
         end
  end.

Definition start_time (r : ranges) (t : timing) : res Z :=
  do ts <- read (t_ts t);
  match t_off t with Some o => chk (lo_dtm r) (hi_dtm r) (ts + o) | None => Ok ts end.
