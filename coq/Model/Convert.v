(* Model/Convert.v — conversions between the three time families on exact integer representations:
   datetime.timedelta = microseconds (10^-6 s), hightime.timedelta = yoctoseconds (10^-24 s),
   bintime.TimeDelta = ticks (2^-64 s); datetimes are offsets from 1904-01-01T00:00:00Z.
   The integer pieces (td_to_dt, td_to_ht, td_to_ticks_dt, td_init) are REGENERATED from
   _timedelta.py; the Decimal/float entry points are modelled by hand as exact rational arithmetic
   (valid while the Decimal context precision of 64 digits suffices — see DESIGN §4.5). *)
From NV Require Import Common.Py Common.Trans Spec.TimeSpec Gen.BintimeGen.
Open Scope Z_scope.

Definition US : Z := 1000000.
Definition YS : Z := 1000000000000000000000000.
Definition YS_PER_US : Z := 1000000000000000000.

(* round-half-even of a / b for b > 0 (Python's round() on Decimal and float) *)
Definition rne_div (a b : Z) : Z :=
  let q := a / b in let r := a mod b in
  if 2 * r <? b then q else if b <? 2 * r then q + 1 else if Z.even q then q else q + 1.

(* TimeDelta._to_ticks(Decimal | float): seconds = n/den exactly (den = 10^k or 2^k, > 0):
   whole = int(seconds) (truncation toward zero), frac = seconds - whole,
   ticks = whole*2^64 + round(frac*2^64) *)
Definition rat_to_ticks (n den : Z) : Z :=
  let whole := Z.quot n den in
  let fr := Z.rem n den in
  whole * T64 + rne_div (fr * T64) den.

(* ranges of the foreign types *)
Definition DT_TD_MIN_US : Z := -999999999 * 86400 * US.
Definition DT_TD_MAX_US : Z := 999999999 * 86400 * US + 86400 * US - 1.
Definition in_dt_td (us : Z) : bool := (DT_TD_MIN_US <=? us) && (us <=? DT_TD_MAX_US).
Definition in_ht_td (ys : Z) : bool := (DT_TD_MIN_US * YS_PER_US <=? ys) && (ys <=? DT_TD_MAX_US * YS_PER_US + YS_PER_US - 1).

(* timedelta conversions; a value is the exact integer count of its unit *)
Definition bt_to_dt_td (t : Z) : res Z :=
  let '(ws, us) := td_to_dt t in
  let r := ws * US + us in if in_dt_td r then Ok r else Raise OverflowError.
Definition bt_to_ht_td (t : Z) : res Z :=
  let '(ws, ys) := td_to_ht t in
  let r := ws * YS + ys in if in_ht_td r then Ok r else Raise OverflowError.
Definition dt_to_bt_td (us : Z) : res Z :=
  let days := us / (86400 * US) in
  let rest := us mod (86400 * US) in
  td_init (td_to_ticks_dt days (rest / US) (rest mod US)).
Definition ht_to_bt_td (ys : Z) : res Z := td_init (rat_to_ticks ys YS).
Definition ht_to_dt_td (ys : Z) : res Z := Ok (ys / YS_PER_US).
Definition dt_to_ht_td (us : Z) : res Z := Ok (us * YS_PER_US).

(* TimeDelta(int), TimeDelta(float | Decimal) *)
Definition ctor_int (n : Z) : res Z := td_init (td_to_ticks_int n).
Definition ctor_rat (n den : Z) : res Z := td_init (rat_to_ticks n den).
