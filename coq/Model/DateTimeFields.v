(* Model/DateTimeFields.v — calendar fields of bintime.DateTime and the constructor-from-fields path.
   hour..yoctosecond are regenerated from _datetime.py/_timedelta.py; year/month/day are delegated by
   the code to hightime/datetime (epoch + timedelta(seconds, yoctoseconds)) and modelled by
   Model/Calendar.v. *)
From NV Require Import Common.Py Common.Trans Spec.TimeSpec Gen.BintimeGen Model.Calendar Model.Convert.
Open Scope Z_scope.

Definition dt_ymd (t : Z) : Z * Z * Z := civil_of_days (EPOCH_1904 + td_days t).

(* total yoctoseconds since the epoch of a field tuple: what hightime computes for
   ht.datetime(y, mo, d, h, mi, s, us, fs, ys, utc) - ht.datetime(1904, 1, 1, utc) *)
Definition ys_of_fields (y mo d h mi s us fs ys : Z) : Z :=
  ((days_of_civil y mo d - EPOCH_1904) * 86400 + h * 3600 + mi * 60 + s) * YS
  + us * 1000000000000000000 + fs * 1000000000 + ys.

(* DateTime(y, mo, d, h, mi, s, us, fs, ys, tzinfo=utc).ticks *)
Definition dt_of_fields (y mo d h mi s us fs ys : Z) : res Z := ht_to_bt_td (ys_of_fields y mo d h mi s us fs ys).
