(* Model/Scalar.v — hand model of the units views (Scalar / Vector / XYData / numeric waveforms /
   Spectrum), of Scalar's comparison operators (in the order of the source: class check, units
   check, numeric/str dispatch) and of XYData's construction checks (source order). *)
From NV Require Import Common.Py.
From Coq Require Import Lia.
Open Scope Z_scope.

(* ---- extended properties as an association list; the units attributes are views of it ---- *)
Inductive pval := PStr (s : Z) | PNonStr.           (* a str value (identified by an id; 0 = "") or something else *)
Definition props := list (Z * pval).                 (* key id -> value *)
Fixpoint p_get (p : props) (k : Z) : option pval :=
  match p with [] => None | (k', v) :: p' => if k =? k' then Some v else p_get p' k end.
Fixpoint p_del (p : props) (k : Z) : props :=
  match p with [] => [] | (k', v) :: p' => if k =? k' then p_del p' k else (k', v) :: p_del p' k end.
Definition p_set (p : props) (k : Z) (v : pval) : props := (k, v) :: p_del p k.

(* attribute getter: extended_properties.get(KEY, "") *)
Definition attr_get (p : props) (k : Z) : pval := match p_get p k with Some v => v | None => PStr 0 end.
(* attribute setter: TypeError unless str *)
Definition attr_set (p : props) (k : Z) (v : pval) : res props :=
  match v with PStr _ => Ok (p_set p k v) | PNonStr => Raise TypeError end.

Inductive uop :=
| USetAttr (k : Z) (v : pval)      (* obj.units = v / obj.x_units = v / obj.channel_name = v *)
| USetDict (k : Z) (v : pval)      (* obj.extended_properties[KEY] = v *)
| UDelDict (k : Z).                (* del obj.extended_properties[KEY] *)

Definition u_step (p : props) (op : uop) : res unit * props :=
  match op with
  | USetAttr k v => match attr_set p k v with Ok p' => (Ok tt, p') | Raise e => (Raise e, p) end
  | USetDict k v => (Ok tt, p_set p k v)
  | UDelDict k => match p_get p k with Some _ => (Ok tt, p_del p k) | None => (Raise KeyError, p) end
  end.

(* constructor rule shared by Scalar / Vector / XYData: the units argument against extended_properties *)
Definition ctor_units (units : pval) (ext : props) (k : Z) : res props :=
  match units with
  | PNonStr => Raise TypeError
  | PStr u =>
      match p_get ext k with
      | None => Ok (p_set ext k (PStr u))
      | Some v => if negb (u =? 0) && negb (match v with PStr w => u =? w | PNonStr => false end)
                  then Raise ValueError else Ok ext
      end
  end.

(* ---- Scalar values and comparison ---- *)
Inductive num := Fin (m e : Z) | PInf | NInf | NaN.         (* m * 2^e, exact *)
Inductive sv := VNum (n : num) | VStr (s : list Z) | VOtherType.   (* bool/int/float | str | anything else *)

Definition cmp_fin (m1 e1 m2 e2 : Z) : comparison :=
  let e := Z.min e1 e2 in Z.compare (m1 * 2 ^ (e1 - e)) (m2 * 2 ^ (e2 - e)).
(* Python's < on numbers, exact across int/float *)
Definition num_lt (a b : num) : bool :=
  match a, b with
  | NaN, _ | _, NaN => false
  | Fin m1 e1, Fin m2 e2 => match cmp_fin m1 e1 m2 e2 with Lt => true | _ => false end
  | NInf, NInf | PInf, PInf => false
  | NInf, _ => true | _, PInf => true
  | _, _ => false
  end.
Definition num_eq (a b : num) : bool :=
  match a, b with
  | Fin m1 e1, Fin m2 e2 => match cmp_fin m1 e1 m2 e2 with Eq => true | _ => false end
  | PInf, PInf | NInf, NInf => true
  | _, _ => false
  end.
Fixpoint str_lt (a b : list Z) : bool :=
  match a, b with
  | _, [] => false
  | [], _ :: _ => true
  | x :: a', y :: b' => if x <? y then true else if y <? x then false else str_lt a' b'
  end.
Definition str_eq (a b : list Z) : bool := list_eqb Z.eqb a b.

Inductive cmpop := OLt | OLe | OGt | OGe.

(* Scalar.__lt__ & co: units first, then the numeric / str dispatch *)
Definition scalar_cmp (op : cmpop) (v1 : sv) (u1 : Z) (v2 : sv) (u2 : Z) : res bool :=
  if negb (u1 =? u2) then Raise ValueError else
  match v1, v2 with
  | VNum a, VNum b =>
      Ok (match op with
          | OLt => num_lt a b | OGt => num_lt b a
          | OLe => num_lt a b || num_eq a b | OGe => num_lt b a || num_eq a b end)
  | VStr a, VStr b =>
      Ok (match op with
          | OLt => str_lt a b | OGt => str_lt b a
          | OLe => negb (str_lt b a) | OGe => negb (str_lt a b) end)
  | _, _ => Raise TypeError
  end.
Definition scalar_eq (v1 : sv) (u1 : Z) (v2 : sv) (u2 : Z) : bool :=
  (match v1, v2 with VNum a, VNum b => num_eq a b | VStr a, VStr b => str_eq a b | _, _ => false end) && (u1 =? u2).
Definition scalar_init (v : sv) : res sv := match v with VOtherType => Raise TypeError | _ => Ok v end.

(* ---- XYData construction: (ndim, length, dtype id, supported?) of each axis array ---- *)
Record arrd := { a_ndim : Z; a_len : Z; a_dtype : Z; a_supported : bool }.
Definition xy_init (x y : arrd) : res unit :=
  if negb (a_dtype x =? a_dtype y) then Raise TypeError
  else if negb (a_ndim x =? 1) then Raise ValueError
  else if negb (a_ndim y =? 1) then Raise ValueError
  else if negb (a_len x =? a_len y) then Raise ValueError
  else if negb (a_supported x) then Raise TypeError
  else Ok tt.
