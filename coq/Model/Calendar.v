(* Model/Calendar.v — proleptic Gregorian calendar (the model of datetime.date.toordinal /
   fromordinal, which hightime/datetime provide to bintime.DateTime.year/month/day).
   Days are counted from 0000-03-01 ("shifted" day numbers); ordinals as Python counts them
   (0001-01-01 = 1) are day + ORD_SHIFT. *)
From Coq Require Import ZArith List Lia Bool.
Open Scope Z_scope.

Definition ERA : Z := 146097.   (* days in 400 Gregorian years *)

(* day number (since 0000-03-01) of a civil date *)
Definition doe_of (yoe mp d : Z) : Z :=           (* mp: month counted from March = 0 *)
  yoe * 365 + yoe / 4 - yoe / 100 + ((153 * mp + 2) / 5 + d - 1).
Definition days_of_civil (y m d : Z) : Z :=
  let y' := if m <=? 2 then y - 1 else y in
  let era := y' / 400 in
  let yoe := y' - era * 400 in
  let mp := if 2 <? m then m - 3 else m + 9 in
  era * ERA + doe_of yoe mp d.

(* civil date of a day number *)
Definition yoe_of_doe (doe : Z) : Z := (doe - doe / 1460 + doe / 36524 - doe / 146096) / 365.
Definition civil_of_doe (doe : Z) : Z * Z * Z :=   (* (yoe, mp, d) *)
  let yoe := yoe_of_doe doe in
  let doy := doe - (365 * yoe + yoe / 4 - yoe / 100) in
  let mp := (5 * doy + 2) / 153 in
  (yoe, mp, doy - (153 * mp + 2) / 5 + 1).
Definition civil_of_days (z : Z) : Z * Z * Z :=
  let era := z / ERA in
  let doe := z - era * ERA in
  let '(yoe, mp, d) := civil_of_doe doe in
  let m := if mp <? 10 then mp + 3 else mp - 9 in
  let y := yoe + era * 400 in
  ((if m <=? 2 then y + 1 else y), m, d).

Definition is_leap (y : Z) : bool := ((y mod 4 =? 0) && negb (y mod 100 =? 0)) || (y mod 400 =? 0).
Definition days_in_month (y m : Z) : Z :=
  match m with
  | 2 => if is_leap y then 29 else 28
  | 4 | 6 | 9 | 11 => 30
  | _ => 31
  end.
Definition valid_date (y m d : Z) : bool :=
  (1 <=? m) && (m <=? 12) && (1 <=? d) && (d <=? days_in_month y m).

(* Python ordinal of a shifted day number: 0001-01-01 has ordinal 1 *)
Definition ORD_SHIFT : Z := 1 - days_of_civil 1 1 1.
Definition EPOCH_1904 : Z := days_of_civil 1904 1 1.   (* NI-BTF epoch as a day number *)
