(* Model/TimeArray.v — hand model of DateTimeArray / TimeDeltaArray (the two classes are the same
   code up to the element class).  The array content is the list of tick values; the methods the
   class defines itself are written in source order with NumPy's primitives (basic slice assignment
   incl. its length-1 broadcast, np.delete, np.insert, np.append) as list functions; the methods it
   inherits from collections.abc.MutableSequence are written as CPython defines them on top. *)
From NV Require Import Common.Py Spec.ListSpec.
From Coq Require Import Lia.
Open Scope Z_scope.

Inductive val := VElem (t : Z) | VBad.                      (* an element of the right class | anything else *)
Inductive idx := IInt (i : Z) | ISlice (a b c : option Z) | IBad.
Inductive vals := VList (l : list val) | VSelf | VNotIterable | VNone.

Inductive aop :=
| OGet (i : idx) | OSet (i : idx) (v : val) | OSetSlice (a b c : option Z) (vs : vals)
| ODel (i : idx) | OInsert (i : option Z) (v : val) | OAppend (v : val) | OExtend (vs : vals) | OIadd (vs : vals)
| OPop (i : option Z) (bad : bool) | ORemove (v : val) | OReverse | OClear | OIndex (v : val) | OCount (v : val)
| OLen | OIter
| OEq (other : list Z)           (* self == an array holding [other]: np.array_equal *)
| OIndexR (v : val) (s : Z) (e : option Z)    (* index(v, start[, stop]): the Sequence mixin, bounds as in slice notation *)
| OIterAppend (k t : Z).                      (* it = iter(a); k times next(it) (until exhausted); a.append(t); then the rest of it:
                                                 a live iterator, like a list's, sees what is appended while it runs *)

Inductive out := ONone | OVal (t : Z) | OList (l : list Z) | OInt (n : Z).

(* --- NumPy primitives on the element list (indices already normalised by slice.indices) --- *)
Definition np_assign_range (l : list Z) (a b : Z) (vs : list Z) : res (list Z) :=
  let cnt := Z.max 0 (b - a) in
  if len vs =? cnt then Ok (firstn (Z.to_nat a) l ++ vs ++ skipn (Z.to_nat (a + cnt)) l)
  else if len vs =? 1 then Ok (firstn (Z.to_nat a) l ++ repeat (hd 0 vs) (Z.to_nat cnt) ++ skipn (Z.to_nat (a + cnt)) l)
  else Raise ValueError.
Definition np_delete_range (l : list Z) (a b : Z) : list Z :=
  if a <? b then firstn (Z.to_nat a) l ++ skipn (Z.to_nat b) l else l.
Definition np_insert (l : list Z) (i : Z) (vs : list Z) : list Z :=
  firstn (Z.to_nat i) l ++ vs ++ skipn (Z.to_nat i) l.
Definition np_assign_strided (l : list Z) (s e k : Z) (vs : list Z) : res (list Z) :=
  let ps := positions s e k in
  if len vs =? len ps then Ok (set_positions l ps vs)
  else if len vs =? 1 then Ok (set_positions l ps (repeat (hd 0 vs) (length ps)))
  else Raise ValueError.

Definition all_elems (l : list val) : option (list Z) :=
  fold_right (fun v acc => match v, acc with VElem t, Some r => Some (t :: r) | _, _ => None end) (Some []) l.

(* --- methods defined by the class --- *)
Definition a_getitem_int (l : list Z) (i : Z) : res Z := l_getitem 0 l i.

Definition a_setslice_values (l : list Z) (a b c : option Z) (values : list Z) : res (list Z) :=
  do (s, e, k) <- slice_indices a b c (len l);
  let sel := range_len s e k in
  let n := len values in
  if negb (k =? 1) && negb (n =? sel) then Raise ValueError
  else if n <? sel then
    do l1 <- np_assign_range l s (s + n) values;
    Ok (np_delete_range l1 (s + n) e)
  else if sel <? n then
    do l1 <- np_assign_range l s e (firstn (Z.to_nat sel) values);
    Ok (np_insert l1 (s + sel) (skipn (Z.to_nat sel) values))
  else np_assign_strided l s e k values.

Definition a_setitem_slice (l : list Z) (a b c : option Z) (vs : vals) : res (list Z) :=
  match vs with
  | VNotIterable | VNone => Raise TypeError
  | VSelf => a_setslice_values l a b c l
  | VList items => match all_elems items with
                   | None => Raise TypeError
                   | Some values => a_setslice_values l a b c values end
  end.

Definition a_delitem (l : list Z) (i : idx) : res (list Z) :=
  match i with
  | IInt i => l_delitem l i
  | ISlice a b c => l_delslice l a b c
  | IBad => Raise TypeError
  end.

Definition a_insert (l : list Z) (i : option Z) (v : val) : res (list Z) :=
  match i, v with
  | None, _ => Raise TypeError
  | _, VBad => Raise TypeError
  | Some i, VElem t =>
      let n := len l in
      let j := Z.min (Z.max i (- n)) n in
      let j' := if j <? 0 then j + n else j in      (* np.insert counts a negative index from the end *)
      Ok (np_insert l j' [t])
  end.

Definition a_extend (l : list Z) (vs : vals) : res (list Z) :=
  match vs with
  | VNone | VNotIterable => Raise TypeError
  | VSelf => Ok (l ++ l)
  | VList items => match all_elems items with Some r => Ok (l ++ r) | None => Raise TypeError end
  end.

(* --- MutableSequence / Sequence mixins, as CPython defines them --- *)
Definition a_pop (l : list Z) (i : Z) : res (Z * list Z) :=
  do v <- a_getitem_int l i; do l' <- a_delitem l (IInt i); Ok (v, l').

(* reverse: for i in range(n // 2): self[i], self[n-i-1] = self[n-i-1], self[i] *)
Fixpoint swap_loop (l : list Z) (i : nat) (todo : nat) : list Z :=
  match todo with
  | O => l
  | S todo' =>
      let n := length l in
      let x := nth i l 0 in let y := nth (n - i - 1) l 0 in
      swap_loop (set_nth (set_nth l i y) (n - i - 1) x) (S i) todo'
  end.
Definition a_reverse (l : list Z) : list Z := swap_loop l 0 (Nat.div (length l) 2).

(* clear: pop() until IndexError *)
Fixpoint a_clear (fuel : nat) (l : list Z) : list Z :=
  match fuel with
  | O => l
  | S f => match a_pop l (-1) with Ok (_, l') => a_clear f l' | Raise _ => l end
  end.

(* index(v, start, stop): negative bounds count from the end, all bounds are clamped *)
Definition l_index_range (l : list Z) (t : Z) (s : Z) (e : option Z) : res Z :=
  let n := len l in
  let s' := if s <? 0 then Z.max (s + n) 0 else Z.min s n in
  let e' := match e with None => n | Some e => if e <? 0 then Z.max (e + n) 0 else Z.min e n end in
  match l_index (firstn (Z.to_nat (e' - s')) (skipn (Z.to_nat s') l)) t with Ok i => Ok (s' + i) | Raise x => Raise x end.

Definition step (l : list Z) (op : aop) : res out * list Z :=
  let keep (r : res (list Z)) := match r with Ok l' => (Ok ONone, l') | Raise e => (Raise e, l) end in
  match op with
  | OGet (IInt i) => (do v <- a_getitem_int l i; Ok (OVal v), l)
  | OGet (ISlice a b c) => (do r <- l_getslice 0 l a b c; Ok (OList r), l)
  | OGet IBad => (Raise TypeError, l)
  | OSet (IInt i) v => match v with VBad => (Raise TypeError, l) | VElem t => keep (l_setitem l i t) end
  | OSet (ISlice _ _ _) _ => (Raise TypeError, l)          (* a single element is not an iterable *)
  | OSet IBad _ => (Raise TypeError, l)
  | OSetSlice a b c vs => keep (a_setitem_slice l a b c vs)
  | ODel i => keep (a_delitem l i)
  | OInsert i v => keep (a_insert l i v)
  | OAppend v => keep (a_insert l (Some (len l)) v)
  | OExtend vs => keep (a_extend l vs)
  | OIadd vs => keep (a_extend l vs)
  | OPop i bad =>
      if bad then (Raise TypeError, l) else
      match a_pop l (match i with Some i => i | None => -1 end) with
      | Ok (v, l') => (Ok (OVal v), l') | Raise e => (Raise e, l) end
  | ORemove v => match v with
                 | VBad => (Raise ValueError, l)     (* not found: == with a foreign object is False *)
                 | VElem t => match l_index l t with
                              | Ok i => keep (a_delitem l (IInt i))
                              | Raise e => (Raise e, l) end end
  | OReverse => (Ok ONone, a_reverse l)
  | OClear => (Ok ONone, a_clear (S (length l)) l)
  | OIndex v => (match v with VBad => Raise ValueError | VElem t => do i <- l_index l t; Ok (OInt i) end, l)
  | OCount v => (Ok (OInt (match v with VBad => 0 | VElem t => l_count l t end)), l)
  | OLen => (Ok (OInt (len l)), l)
  | OIter => (Ok (OList l), l)
  | OEq other => (Ok (OInt (if list_eqb Z.eqb l other then 1 else 0)), l)
  | OIndexR v s e => (match v with VBad => Raise ValueError | VElem t => do i <- l_index_range l t s e; Ok (OInt i) end, l)
  | OIterAppend k t => (Ok (OList (if k <=? len l then l ++ [t] else l)), l ++ [t])
  end.

(* --- the spec: a Python list subjected to the same operation; wrong-typed elements / indices are
       rejected with TypeError and nothing changes --- *)
Definition spec_step (l : list Z) (op : aop) : res out * list Z :=
  let keep (r : res (list Z)) := match r with Ok l' => (Ok ONone, l') | Raise e => (Raise e, l) end in
  match op with
  | OGet (IInt i) => (do v <- l_getitem 0 l i; Ok (OVal v), l)
  | OGet (ISlice a b c) => (do r <- l_getslice 0 l a b c; Ok (OList r), l)
  | OGet IBad => (Raise TypeError, l)
  | OSet (IInt i) (VElem t) => keep (l_setitem l i t)
  | OSet _ _ => (Raise TypeError, l)
  | OSetSlice a b c vs =>
      match vs with
      | VNotIterable | VNone => (Raise TypeError, l)
      | VSelf => keep (l_setslice l a b c l)
      | VList items => match all_elems items with
                       | Some values => keep (l_setslice l a b c values)
                       | None => (Raise TypeError, l) end
      end
  | ODel (IInt i) => keep (l_delitem l i)
  | ODel (ISlice a b c) => keep (l_delslice l a b c)
  | ODel IBad => (Raise TypeError, l)
  | OInsert (Some i) (VElem t) => (Ok ONone, l_insert l i t)
  | OInsert _ _ => (Raise TypeError, l)
  | OAppend (VElem t) => (Ok ONone, l ++ [t])
  | OAppend VBad => (Raise TypeError, l)
  | OExtend vs | OIadd vs =>
      match vs with
      | VNotIterable | VNone => (Raise TypeError, l)
      | VSelf => (Ok ONone, l ++ l)
      | VList items => match all_elems items with Some r => (Ok ONone, l ++ r) | None => (Raise TypeError, l) end
      end
  | OPop i bad =>
      if bad then (Raise TypeError, l) else
      match l_pop 0 l (match i with Some i => i | None => -1 end) with
      | Ok (v, l') => (Ok (OVal v), l') | Raise e => (Raise e, l) end
  | ORemove (VElem t) => keep (l_remove l t)
  | ORemove VBad => (Raise ValueError, l)
  | OReverse => (Ok ONone, rev l)
  | OClear => (Ok ONone, [])
  | OIndex (VElem t) => (do i <- l_index l t; Ok (OInt i), l)
  | OIndex VBad => (Raise ValueError, l)
  | OCount (VElem t) => (Ok (OInt (l_count l t)), l)
  | OCount VBad => (Ok (OInt 0), l)
  | OLen => (Ok (OInt (len l)), l)
  | OIter => (Ok (OList l), l)
  | OEq other => (Ok (OInt (if list_eqb Z.eqb l other then 1 else 0)), l)
  | OIndexR v s e => (match v with VBad => Raise ValueError | VElem t => do i <- l_index_range l t s e; Ok (OInt i) end, l)
  | OIterAppend k t => (Ok (OList (if k <=? len l then l ++ [t] else l)), l ++ [t])
  end.
