(* Model/TotalSeconds.v — TimeDelta.total_seconds():
     seconds = float(ticks >> 64); seconds += float((ticks & (2^64-1)) / 2^64); return seconds
   float(int) and int / int are correctly rounded in CPython, the addition is an IEEE binary64 add:
   three round-to-nearest-even steps on exact dyadic values (Model/Scaling.v). *)
From NV Require Import Common.Py Model.Complex Model.Scaling.
Open Scope Z_scope.

Definition T64' : Z := 18446744073709551616.
Definition total_seconds (t : Z) : fpart :=
  let w := t / T64' in            (* ticks >> 64 : floor *)
  let fr := t mod T64' in         (* ticks & mask : 0 <= fr < 2^64 *)
  fadd b64 (rnd b64 (FNum w 0)) (rnd b64 (FNum fr (-64))).
