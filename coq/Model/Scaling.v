(* Model/Scaling.v — hand model of NumericWaveform.get_scaled_data / scaled_data:
   validate dtype -> get_raw_data window -> _convert_data (astype / convert_complex) ->
   scale_mode._transform_data (identity, or data * gain + offset in the array's own precision).
   Floats are exact dyadic rationals m * 2^e, infinities or NaN (Model/Complex.v); IEEE binary32 /
   binary64 arithmetic = exact operation followed by round-to-nearest-even [rnd].  Signed zeros are
   identified (the harness compares values, not sign bits of zero). *)
From NV Require Import Common.Py Model.Complex Model.Waveform.
From Coq Require Import Lia.
Open Scope Z_scope.

Record fmt := { prec : Z; qmin : Z; emax : Z }.
Definition b32 : fmt := {| prec := 24; qmin := -149; emax := 128 |}.
Definition b64 : fmt := {| prec := 53; qmin := -1074; emax := 1024 |}.

(* round to nearest, ties to even, gradual underflow, overflow to infinity *)
Definition rnd (f : fmt) (x : fpart) : fpart :=
  match x with
  | FNum 0 _ => FNum 0 0
  | FNum m e =>
      let a := Z.abs m in
      let E := e + Z.log2 a in
      let q := Z.max (E - (prec f - 1)) (qmin f) in
      let M := if q <=? e then a * 2 ^ (e - q) else rne_shift a (q - e) in
      if (0 <=? q) && (2 ^ (emax f) <=? M * 2 ^ q) then FInf (m <? 0)
      else FNum (Z.sgn m * M) q
  | other => other
  end.

Definition fmul_exact (a b : fpart) : fpart :=
  match a, b with
  | FNan, _ | _, FNan => FNan
  | FInf s, FInf t => FInf (xorb s t)
  | FInf s, FNum m _ | FNum m _, FInf s => if m =? 0 then FNan else FInf (xorb s (m <? 0))
  | FNum m1 e1, FNum m2 e2 => FNum (m1 * m2) (e1 + e2)
  end.
Definition fadd_exact (a b : fpart) : fpart :=
  match a, b with
  | FNan, _ | _, FNan => FNan
  | FInf s, FInf t => if Bool.eqb s t then FInf s else FNan
  | FInf s, _ | _, FInf s => FInf s
  | FNum m1 e1, FNum m2 e2 => let e := Z.min e1 e2 in FNum (m1 * 2 ^ (e1 - e) + m2 * 2 ^ (e2 - e)) e
  end.
Definition fneg (a : fpart) : fpart :=
  match a with FNum m e => FNum (- m) e | FInf s => FInf (negb s) | FNan => FNan end.

Definition fmul (f : fmt) (a b : fpart) : fpart := rnd f (fmul_exact a b).
Definition fadd (f : fmt) (a b : fpart) : fpart := rnd f (fadd_exact a b).

(* scale modes: NO_SCALING | LinearScaleMode(gain, offset): the constructor stores float(gain),
   float(offset) (binary64); an array of precision f multiplies by the Python float cast to f *)
Inductive smode := SNone | SLinear (gain offset : fpart).
Definition lin_real (f : fmt) (g o x : fpart) : fpart :=
  fadd f (fmul f x (rnd f (rnd b64 g))) (rnd f (rnd b64 o)).
(* complex data: (a+bi) * (g+0i) + (o+0i) with finite parts: (a*g + o) + (b*g)i *)
Definition lin_imag (f : fmt) (g x : fpart) : fpart := fmul f x (rnd f (rnd b64 g)).

Definition celem := (fpart * fpart)%type.       (* analog samples have imaginary part 0 *)
Definition scale_elem (f : fmt) (s : smode) (x : celem) : celem :=
  let c := (rnd f (fst x), rnd f (snd x)) in     (* _convert_data: astype / convert_complex *)
  match s with
  | SNone => c
  | SLinear g o => (lin_real f g o (fst c), lin_imag f g (snd c))
  end.

(* the window of get_raw_data(start_index, sample_count) on the visible samples *)
Definition window {A} (l : list A) (start sc : iarg) : res (list A) :=
  let n := Z.of_nat (length l) in
  do start <- arg_uint start (Some 0);
  if n <? start then Raise ValueError else
  do sc <- arg_uint sc (Some (n - start));
  if n <? start + sc then Raise ValueError
  else Ok (firstn (Z.to_nat sc) (skipn (Z.to_nat start) l)).

(* requested scaled dtype: default | the 32-bit one | the 64-bit one | anything unsupported *)
Inductive dreq := RDefault | R32 | R64 | RBad.
Definition fmt_of (d : dreq) : res (Z * fmt) :=
  match d with RDefault | R64 => Ok (64, b64) | R32 => Ok (32, b32) | RBad => Raise TypeError end.

Definition get_scaled (raw : list celem) (s : smode) (d : dreq) (start sc : iarg) : res (Z * list celem) :=
  do tf <- fmt_of d;
  do w <- window raw start sc;
  Ok (fst tf, map (scale_elem (snd tf) s) w).
Definition scaled_data (raw : list celem) (s : smode) : res (Z * list celem) := get_scaled raw s RDefault (IInt 0) INone.
