(* Model/PortBytes.v — the byte-level pipeline of port_to_line_data: the native little-endian bytes of each port value,
   byteswap for bitorder='big', view(uint8), np.unpackbits. *)
From Coq Require Import ZArith List Bool Lia.
Import ListNotations.
Open Scope Z_scope.

(* the k bytes of an unsigned k-byte integer in memory, lowest address first *)
Fixpoint le_bytes (k : nat) (v : Z) : list Z :=
  match k with O => [] | S k' => (v mod 256) :: le_bytes k' (v / 256) end.
Definition be_bytes (k : nat) (v : Z) : list Z := rev (le_bytes k v).

(* the value a little-/big-endian reader sees in k bytes *)
Fixpoint le_value (l : list Z) : Z := match l with [] => 0 | b :: r => b + 256 * le_value r end.
Definition be_value (l : list Z) : Z := le_value (rev l).

(* np.unpackbits of one byte *)
Definition unpack_big (b : Z) : list bool := map (fun j => Z.testbit b (7 - Z.of_nat j)) (seq 0 8).
Definition unpack_little (b : Z) : list bool := map (fun j => Z.testbit b (Z.of_nat j)) (seq 0 8).

(* port_to_line_data's row for one value held in native (little-endian) memory: byteswap when bitorder is 'big'
   (a no-op for one byte), view as bytes, unpack in the requested bit order *)
Definition pipeline_row (big : bool) (k : nat) (v : Z) : list bool :=
  let bytes := le_bytes k v in
  let bytes := if big then rev bytes else bytes in
  flat_map (if big then unpack_big else unpack_little) bytes.

(* a non-native (big-endian) array is first converted with astype: same value, native bytes *)
Definition normalise_be (k : nat) (mem : list Z) : list Z := le_bytes k (be_value mem).
