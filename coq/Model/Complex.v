(* Model/Complex.v — hand model of nitypes.complex.convert_complex on logical (C-order) element
   lists: ComplexInt32 = (int16 real, int16 imag); complex floats have parts that are dyadic
   rationals m * 2^e (exactly what float.hex() shows), infinities or NaN.
   The pipeline view(int16/floatN) -> astype -> view(complex) is modelled as
   flatten -> map -> unflatten; NumPy's strides/layout handling is covered by the correspondence. *)
From NV Require Import Common.Py Spec.TimeSpec.
From Coq Require Import Lia.
Open Scope Z_scope.

Inductive fpart := FNum (m e : Z) | FInf (neg : bool) | FNan.

Definition INT16_MIN : Z := -32768.
Definition INT16_MAX : Z := 32767.
Definition in_int16 (z : Z) : bool := (INT16_MIN <=? z) && (z <=? INT16_MAX).

(* byte layout of one ComplexInt32 record: int16 real at offset 0, int16 imag at offset 2, little endian *)
Definition enc16 (z : Z) : list Z := le_bytes 2 z.
Definition dec16 (bs : list Z) : Z := let u := le_val bs in if u <? 32768 then u else u - 65536.
Definition enc_ci32 (p : Z * Z) : list Z := enc16 (fst p) ++ enc16 (snd p).
Definition dec_ci32 (bs : list Z) : Z * Z := (dec16 (firstn 2 bs), dec16 (skipn 2 bs)).

(* the interleaved view: [(r0,i0); (r1,i1); ...] <-> [r0; i0; r1; i1; ...] *)
Fixpoint flatten (l : list (Z * Z)) : list Z :=
  match l with [] => [] | (r, i) :: l' => r :: i :: flatten l' end.
Fixpoint unflatten {A} (l : list A) : list (A * A) :=
  match l with r :: i :: l' => (r, i) :: unflatten l' | _ => [] end.

(* astype(float): an int16 is exactly representable in binary32 and binary64 *)
Definition int_to_float (z : Z) : fpart := FNum z 0.
(* astype(int16) of a float: truncation toward zero (defined for values whose truncation fits) *)
Definition trunc_fpart (f : fpart) : option Z :=
  match f with
  | FNum m e => Some (if 0 <=? e then m * 2 ^ e else Z.quot m (2 ^ (- e)))
  | _ => None
  end.

Definition ci32_to_complex (l : list (Z * Z)) : list (fpart * fpart) := unflatten (map int_to_float (flatten l)).

Fixpoint flatten_f (l : list (fpart * fpart)) : list fpart :=
  match l with [] => [] | (r, i) :: l' => r :: i :: flatten_f l' end.
Definition complex_to_ci32 (l : list (fpart * fpart)) : list (option Z * option Z) :=
  unflatten (map trunc_fpart (flatten_f l)).

(* IEEE conversion binary64 -> binary32 of a dyadic value: round to nearest, ties to even, with
   gradual underflow (quantum 2^-149) and overflow to infinity *)
Definition rne_shift (a : Z) (k : Z) : Z :=     (* round-half-even of a / 2^k for k > 0, a >= 0 *)
  let d := 2 ^ k in let q := a / d in let r := a mod d in
  if 2 * r <? d then q else if d <? 2 * r then q + 1 else if Z.even q then q else q + 1.
Definition round_b32 (f : fpart) : fpart :=
  match f with
  | FNum 0 _ => FNum 0 0
  | FNum m e =>
      let a := Z.abs m in
      let E := e + Z.log2 a in               (* exponent of the leading bit *)
      let q := Z.max (E - 23) (-149) in      (* quantum of the result *)
      let M := if q <=? e then a * 2 ^ (e - q) else rne_shift a (q - e) in
      if (0 <=? q) && (2 ^ 128 <=? M * 2 ^ q) then FInf (m <? 0)
      else FNum (Z.sgn m * M) q
  | other => other
  end.

(* canonical form of a dyadic: odd mantissa (or 0 with exponent 0), so that equal values compare equal *)
Fixpoint strip_twos (fuel : nat) (m e : Z) : Z * Z :=
  match fuel with
  | O => (m, e)
  | S f => if (m =? 0) then (0, 0) else if Z.even m then strip_twos f (m / 2) (e + 1) else (m, e)
  end.
Definition canon (f : fpart) : fpart :=
  match f with FNum m e => let '(m', e') := strip_twos 1200 m e in FNum m' e' | o => o end.
Definition fpart_eqb (a b : fpart) : bool :=
  match canon a, canon b with
  | FNum m e, FNum m' e' => (m =? m') && (e =? e')
  | FInf x, FInf y => Bool.eqb x y
  | FNan, FNan => true
  | _, _ => false
  end.
