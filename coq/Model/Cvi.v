(* Model/Cvi.v — hand-written byte-level model of one element of DateTimeArray/TimeDeltaArray.
   Element encode = to_tuple ; to_cvi ; NumPy structured store (uint64 lsb @0, int64 msb @8,
   little-endian two's complement — NumPy's storage is modelled, compared byte-for-byte with
   ndarray.tobytes() by the correspondence).  Decode = item() ; from_cvi ; from_tuple. *)
From NV Require Import Common.Py Common.Trans Spec.TimeSpec Gen.BintimeGen.
Open Scope Z_scope.

Definition enc_elem (t : Z) : list Z :=
  let '(w, f) := td_to_tuple t in
  let '(lsb, msb) := tv_to_cvi f w in
  le_bytes 8 lsb ++ le_bytes 8 msb.

Definition dec_elem (bs : list Z) : res Z :=
  let lsb := le_val (firstn 8 bs) in
  let msb := signed64 (le_val (skipn 8 bs)) in
  let '(w, f) := tv_from_cvi lsb msb in
  td_from_tuple w f.

(* array = list of elements; getitem/setitem on the byte representation *)
Definition arr_of_list (l : list Z) : list (list Z) := map enc_elem l.
Definition arr_to_list (a : list (list Z)) : list (res Z) := map dec_elem a.

(* pickling: __reduce__ is (from_ticks, (ticks,)); unpickling applies from_ticks *)
Definition td_unpickle (t : Z) : res Z := td_from_ticks t.
Definition dt_unpickle (t : Z) : res Z := dt_from_ticks t.
