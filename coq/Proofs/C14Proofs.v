(* Proofs/C14Proofs.v — calendar fields, normalized fields and text agree with the tick value. *)
From Coq Require Import ZArith List Lia Bool.
From NV Require Import Common.Py Common.Trans Spec.TimeSpec Gen.BintimeGen Model.Calendar Model.Convert
  Model.DateTimeFields Proofs.Bits Proofs.C02Proofs Proofs.CalendarProofs Proofs.ConvertProofs.
Open Scope Z_scope.

Ltac bt_norm :=
  autorewrite with pyconst in *;
  repeat rewrite ?shiftr64, ?shiftl64, ?land_mask64 in *.

Lemma div_scale a b c : 0 < b -> 0 < c -> (a * c) / b / c = a / b.
Proof. intros. rewrite Z.div_div by lia. apply Z.div_mul_cancel_r; lia. Qed.

Definition sub_ys (t : Z) : Z := (YS * (t mod T64)) / T64.   (* the fraction floored to a yoctosecond *)

Lemma sub_ys_range t : 0 <= sub_ys t < YS.
Proof.
  unfold sub_ys, YS, T64.
  pose proof (Z.mod_pos_bound t 18446744073709551616 ltac:(lia)) as M.
  set (f := t mod 18446744073709551616) in *.
  pose proof (Z.div_mod (1000000000000000000000000 * f) 18446744073709551616 ltac:(lia)).
  pose proof (Z.mod_pos_bound (1000000000000000000000000 * f) 18446744073709551616 ltac:(lia)). lia.
Qed.

(* TimeDelta fields: normalized ranges, and they add up to the value floored to a yoctosecond *)
Lemma td_fields_spec t :
  0 <= td_seconds t < 86400 /\ 0 <= td_microseconds t < 1000000 /\
  0 <= td_femtoseconds t < 1000000000 /\ 0 <= td_yoctoseconds t < 1000000000 /\
  td_days t * 86400 + td_seconds t = t / T64 /\
  td_microseconds t * 1000000000000000000 + td_femtoseconds t * 1000000000 + td_yoctoseconds t = sub_ys t.
Proof.
  unfold td_seconds, td_days, td_microseconds, td_femtoseconds, td_yoctoseconds. bt_norm.
  pose proof (sub_ys_range t) as R. unfold sub_ys, YS in *.
  pose proof (Z.mod_pos_bound t T64 ltac:(unfold T64; lia)) as M.
  set (f := t mod T64) in *. set (w := t / T64).
  (* (10^6 f)/2^64 and (10^15 f)/2^64 are the yoctosecond count divided by 10^18 / 10^9 *)
  assert (E6 : (1000000 * f) / T64 = ((1000000000000000000000000 * f) / T64) / 1000000000000000000).
  { replace (1000000000000000000000000 * f) with ((1000000 * f) * 1000000000000000000) by lia.
    symmetry. apply div_scale; unfold T64; lia. }
  assert (E15 : (1000000000000000 * f) / T64 = ((1000000000000000000000000 * f) / T64) / 1000000000).
  { replace (1000000000000000000000000 * f) with ((1000000000000000 * f) * 1000000000) by lia.
    symmetry. apply div_scale; unfold T64; lia. }
  rewrite E6, E15.
  set (Y := (1000000000000000000000000 * f) / T64) in *.
  pose proof (Z.div_mod w 86400 ltac:(lia)). pose proof (Z.mod_pos_bound w 86400 ltac:(lia)).
  pose proof (Z.div_mod Y 1000000000000000000 ltac:(lia)). pose proof (Z.mod_pos_bound Y 1000000000000000000 ltac:(lia)).
  pose proof (Z.div_mod Y 1000000000 ltac:(lia)). pose proof (Z.mod_pos_bound Y 1000000000 ltac:(lia)).
  pose proof (Z.div_mod (Y / 1000000000) 1000000000 ltac:(lia)). pose proof (Z.mod_pos_bound (Y / 1000000000) 1000000000 ltac:(lia)).
  assert (Y / 1000000000 / 1000000000 = Y / 1000000000000000000) by (rewrite Z.div_div by lia; reflexivity).
  repeat split; lia.
Qed.

(* str(): days, h:mm:ss and 18 fractional digits; the printed value is within 1/2 * 10^-18 s *)
Definition AS : Z := 1000000000000000000.   (* attoseconds per second *)
Lemma td_str_parts_spec t :
  let '(d, h, m, s, f) := td_str_parts t in
  0 <= h < 24 /\ 0 <= m < 60 /\ 0 <= s < 60 /\ 0 <= f < AS /\
  2 * Z.abs (((((d * 24 + h) * 60 + m) * 60 + s) * AS + f) * T64 - AS * t) <= T64.
Proof.
  unfold td_str_parts. bt_norm. change (10 ^ 18) with AS. change 18446744073709551616 with T64.
  set (a := (AS * t + T64 / 2) / T64).
  assert (Ha : 2 * Z.abs (a * T64 - AS * t) <= T64).
  { unfold a, T64. change (18446744073709551616 / 2) with 9223372036854775808.
    pose proof (Z.div_mod (AS * t + 9223372036854775808) 18446744073709551616 ltac:(lia)).
    pose proof (Z.mod_pos_bound (AS * t + 9223372036854775808) 18446744073709551616 ltac:(lia)). lia. }
  pose proof (Z.div_mod a AS ltac:(unfold AS; lia)) as D1. pose proof (Z.mod_pos_bound a AS ltac:(unfold AS; lia)) as M1.
  set (sec := a / AS) in *. set (f := a mod AS) in *.
  pose proof (Z.div_mod sec 86400 ltac:(lia)) as D2. pose proof (Z.mod_pos_bound sec 86400 ltac:(lia)) as M2.
  set (d := sec / 86400) in *. set (s1 := sec mod 86400) in *.
  pose proof (Z.div_mod s1 60 ltac:(lia)) as D3. pose proof (Z.mod_pos_bound s1 60 ltac:(lia)) as M3.
  set (mi := s1 / 60) in *. set (s := s1 mod 60) in *.
  pose proof (Z.div_mod mi 60 ltac:(lia)) as D4. pose proof (Z.mod_pos_bound mi 60 ltac:(lia)) as M4.
  set (h := mi / 60) in *. set (m := mi mod 60) in *.
  assert (((((d * 24 + h) * 60 + m) * 60 + s) * AS + f) = a) by lia.
  repeat split; try lia.
Qed.

(* DateTime time-of-day fields *)
Lemma dt_hms_spec t :
  0 <= dt_hour t < 24 /\ 0 <= dt_minute t < 60 /\ 0 <= dt_second t < 60 /\
  dt_hour t * 3600 + dt_minute t * 60 + dt_second t = td_seconds t /\
  dt_microsecond t = td_microseconds t /\ dt_femtosecond t = td_femtoseconds t /\ dt_yoctosecond t = td_yoctoseconds t.
Proof.
  unfold dt_hour, dt_minute, dt_second, dt_microsecond, dt_femtosecond, dt_yoctosecond.
  destruct (td_fields_spec t) as (Hs & _).
  set (s := td_seconds t) in *.
  pose proof (Z.div_mod s 3600 ltac:(lia)). pose proof (Z.mod_pos_bound s 3600 ltac:(lia)).
  pose proof (Z.div_mod s 60 ltac:(lia)). pose proof (Z.mod_pos_bound s 60 ltac:(lia)).
  pose proof (Z.div_mod (s / 60) 60 ltac:(lia)). pose proof (Z.mod_pos_bound (s / 60) 60 ltac:(lia)).
  assert (s / 60 / 60 = s / 3600) by (rewrite Z.div_div by lia; reflexivity).
  repeat split; lia.
Qed.

(* all nine fields identify the instant floor(ticks / 2^64 s to a yoctosecond) in the proleptic
   Gregorian calendar counted from 1904-01-01T00:00:00Z *)
Lemma dt_fields_spec t :
  let '(y, mo, d) := dt_ymd t in
  valid_date y mo d = true /\
  ys_of_fields y mo d (dt_hour t) (dt_minute t) (dt_second t) (dt_microsecond t) (dt_femtosecond t) (dt_yoctosecond t)
  = (t / T64) * YS + sub_ys t.
Proof.
  unfold dt_ymd. pose proof (days_of_civil_of_days (EPOCH_1904 + td_days t)) as C.
  destruct (civil_of_days (EPOCH_1904 + td_days t)) as [[y mo] d]. destruct C as [C1 C2].
  split; [exact C2|].
  unfold ys_of_fields. rewrite C1.
  destruct (dt_hms_spec t) as (_ & _ & _ & Hs & -> & -> & ->).
  destruct (td_fields_spec t) as (_ & _ & _ & _ & Hd & Hsub).
  rewrite <- Hsub, <- Hd. unfold YS. lia.
Qed.

(* building a DateTime from its own fields returns the identical tick value *)
Lemma dt_fields_roundtrip t :
  in128 t = true -> in_ht_td ((t / T64) * YS + sub_ys t) = true ->
  let '(y, mo, d) := dt_ymd t in
  dt_of_fields y mo d (dt_hour t) (dt_minute t) (dt_second t) (dt_microsecond t) (dt_femtosecond t) (dt_yoctosecond t) = Ok t.
Proof.
  intros Hr Hh. pose proof (dt_fields_spec t) as F.
  destruct (dt_ymd t) as [[y mo] d]. destruct F as [_ F].
  unfold dt_of_fields. rewrite F.
  apply (bt_ht_bt_id t); [exact Hr|].
  unfold bt_to_ht_td. rewrite td_to_ht_spec. unfold sub_ys in Hh. rewrite Hh. reflexivity.
Qed.
