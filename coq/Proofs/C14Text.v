(* Proofs/C14Text.v — the text renderings of Model/Text.v identify their fields: parsing a rendering back returns
   exactly the fields it was made from (so no two field tuples share a text), for every in-range tuple. *)
From Coq Require Import ZArith List Bool Lia.
From NV Require Import Model.Text.
Import ListNotations.
Open Scope Z_scope.

Lemma pad_length w : forall n, length (pad w n) = w.
Proof. induction w as [|w IH]; intros n; cbn [pad]; [reflexivity|]. rewrite app_length, IH. simpl. lia. Qed.

Lemma parse_acc_app l1 : forall a l2,
  parse_acc a (l1 ++ l2) = match parse_acc a l1 with Some a' => parse_acc a' l2 | None => None end.
Proof. induction l1 as [|c l1 IH]; intros a l2; simpl; [reflexivity|]. destruct (is_digit c); auto. Qed.

Lemma is_digit_mod n : is_digit (48 + n mod 10) = true.
Proof. unfold is_digit. pose proof (Z.mod_pos_bound n 10 ltac:(lia)). apply andb_true_intro; split; apply Z.leb_le; lia. Qed.

Lemma parse_pad w : forall a n, 0 <= n < 10 ^ Z.of_nat w -> parse_acc a (pad w n) = Some (a * 10 ^ Z.of_nat w + n).
Proof.
  induction w as [|w IH]; intros a n H.
  - change (10 ^ Z.of_nat 0) with 1 in *. simpl. f_equal. lia.
  - cbn [pad]. rewrite parse_acc_app. rewrite Nat2Z.inj_succ, Z.pow_succ_r in * by lia.
    assert (Hp : 0 < 10 ^ Z.of_nat w) by (apply Z.pow_pos_nonneg; lia).
    rewrite IH by (split; [apply Z.div_pos; lia | apply Z.div_lt_upper_bound; lia]).
    cbn [parse_acc]. rewrite is_digit_mod. f_equal.
    pose proof (Z.div_mod n 10 ltac:(lia)). set (p := 10 ^ Z.of_nat w) in *. lia.
Qed.

Lemma firstn_exact (l r : list Z) : firstn (length l) (l ++ r) = l.
Proof. induction l; simpl; congruence. Qed.
Lemma skipn_exact (l r : list Z) : skipn (length l) (l ++ r) = r.
Proof. induction l; simpl; congruence. Qed.

Lemma take_exact p r v : parse_acc 0 p = Some v -> take (length p) (p ++ r) = Some (v, r).
Proof.
  intros H. unfold take. rewrite app_length.
  replace (Nat.leb (length p) (length p + length r)) with true by (symmetry; apply Nat.leb_le; lia).
  rewrite firstn_exact, skipn_exact, H. reflexivity.
Qed.

Lemma take_pad w n r B : B = 10 ^ Z.of_nat w -> 0 <= n < B -> take w (pad w n ++ r) = Some (n, r).
Proof.
  intros -> H. pose proof (take_exact (pad w n) r n) as T. rewrite pad_length in T. apply T.
  rewrite parse_pad by assumption. f_equal.
Qed.

Lemma take_pad_end w n B : B = 10 ^ Z.of_nat w -> 0 <= n < B -> take w (pad w n) = Some (n, []).
Proof. intros HB H. rewrite <- (app_nil_r (pad w n)). eapply take_pad; eassumption. Qed.

Lemma list_eqb_refl l : list_eqb l l = true.
Proof. induction l; simpl; [reflexivity|]. rewrite Z.eqb_refl. assumption. Qed.


Definition digits (l : list Z) : Prop := Forall (fun c => is_digit c = true) l.
Definition stop (b : list Z) : Prop := match b with [] => True | c :: _ => is_digit c = false end.

Lemma pad_digits w : forall n, digits (pad w n).
Proof.
  induction w as [|w IH]; intros n; cbn [pad]; [constructor|].
  apply Forall_app; split; [apply IH | constructor; [apply is_digit_mod | constructor]].
Qed.

Lemma strip0_split l : exists k, l = repeat 48 k ++ strip0 l.
Proof.
  induction l as [|c l [k IH]]; [exists 0%nat; reflexivity|].
  destruct (Z.eq_dec c 48) as [->|Hc].
  - exists (S k). cbn [strip0 repeat app]. f_equal. exact IH.
  - exists 0%nat. cbn [repeat app]. destruct c as [|p|p]; try reflexivity.
    repeat (destruct p as [p|p|]; try reflexivity). congruence.
Qed.

Lemma parse_acc_zeros k : forall a, parse_acc a (repeat 48 k) = Some (a * 10 ^ Z.of_nat k).
Proof.
  induction k as [|k IH]; intros a.
  - simpl. f_equal. lia.
  - cbn [repeat parse_acc]. change (is_digit 48) with true. cbn iota. rewrite IH.
    rewrite Nat2Z.inj_succ, Z.pow_succ_r by lia. f_equal. lia.
Qed.

Lemma digits_strip0 l : digits l -> digits (strip0 l).
Proof.
  intros H. destruct (strip0_split l) as [k E]. rewrite E in H. apply Forall_app in H. apply H.
Qed.

Lemma parse_strip0 l : parse_acc 0 (strip0 l) = parse_acc 0 l.
Proof.
  destruct (strip0_split l) as [k E]. rewrite E at 2. rewrite parse_acc_app, parse_acc_zeros. reflexivity.
Qed.

Lemma dec_digits n : digits (dec n).
Proof.
  unfold dec. pose proof (digits_strip0 _ (pad_digits 40 n)) as H.
  destruct (strip0 (pad 40 n)); [repeat constructor | exact H].
Qed.

Lemma dec_nonempty n : dec n <> [].
Proof. unfold dec. destruct (strip0 (pad 40 n)); discriminate. Qed.

Lemma parse_dec n : 0 <= n < 10 ^ 40 -> parse_acc 0 (dec n) = Some n.
Proof.
  intros H. pose proof (parse_strip0 (pad 40 n)) as E. rewrite (parse_pad 40 0 n) in E by exact H.
  unfold dec. destruct (strip0 (pad 40 n)) eqn:S; [|rewrite E; f_equal; lia].
  simpl in E. injection E as E. simpl. f_equal. lia.
Qed.

Lemma span_digits_app a : forall b, digits a -> stop b -> span_digits (a ++ b) = (a, b).
Proof.
  induction a as [|c a IH]; intros b Ha Hb.
  - cbn [app]. destruct b as [|x b]; [reflexivity|]. cbn [span_digits]. simpl in Hb. rewrite Hb. reflexivity.
  - inversion Ha as [|? ? Hc Ha']; subst. cbn [app span_digits]. rewrite Hc, (IH b Ha' Hb). reflexivity.
Qed.

Lemma take_dec_dec n b : 0 <= n < 10 ^ 40 -> stop b -> take_dec (dec n ++ b) = Some (n, b).
Proof.
  intros H Hb. unfold take_dec. rewrite (span_digits_app _ _ (dec_digits n) Hb).
  pose proof (dec_nonempty n). destruct (dec n) eqn:E; [congruence|]. rewrite <- E, parse_dec by exact H. reflexivity.
Qed.

Lemma rev_repeat (x : Z) k : rev (repeat x k) = repeat x k.
Proof. induction k as [|k IH]; [reflexivity|]. cbn [repeat rev]. rewrite IH. symmetry. apply repeat_cons. Qed.

Lemma rstrip0_split l : exists k, l = rstrip0 l ++ repeat 48 k.
Proof.
  destruct (strip0_split (rev l)) as [k E]. exists k. unfold rstrip0.
  apply (f_equal (@rev Z)) in E. rewrite rev_involutive, rev_app_distr, rev_repeat in E. exact E.
Qed.

Lemma parse_frac_render f : 0 < f < 10 ^ 18 -> parse_frac (rstrip0 (pad 18 f)) = Some f.
Proof.
  intros H. destruct (rstrip0_split (pad 18 f)) as [k E]. set (r := rstrip0 (pad 18 f)) in *.
  pose proof (parse_pad 18 0 f ltac:(change (Z.of_nat 18) with 18; lia)) as P. rewrite E, parse_acc_app in P.
  assert (L : (length r + k = 18)%nat).
  { pose proof (f_equal (@length Z) E) as L. rewrite pad_length, app_length, repeat_length in L. lia. }
  destruct (parse_acc 0 r) as [v|] eqn:V; [|discriminate]. rewrite parse_acc_zeros in P. injection P as P.
  assert (length r <> 0)%nat.
  { intros Z0. destruct r; [|discriminate]. simpl in V. injection V as <-. lia. }
  unfold parse_frac. replace (Nat.leb 1 (length r) && Nat.leb (length r) 18)%bool with true
    by (symmetry; apply andb_true_intro; split; apply Nat.leb_le; lia).
  replace (18 - length r)%nat with k by lia. rewrite V. f_equal. lia.
Qed.

Global Opaque pad.

Theorem parse_dt_render y mo d h mi s us fs ys :
  0 <= y < 10000 -> 0 <= mo < 100 -> 0 <= d < 100 -> 0 <= h < 100 -> 0 <= mi < 100 -> 0 <= s < 100 ->
  0 <= us < 1000000 -> 0 <= fs < 1000000000 -> 0 <= ys < 1000000000 ->
  parse_dt (render_dt y mo d h mi s us fs ys) = Some (y, mo, d, h, mi, s, us, fs, ys).
Proof.
  intros Hy Hmo Hd Hh Hmi Hs Hus Hfs Hys.
  unfold parse_dt, render_dt.
  rewrite (take_pad 4 y _ 10000) by (reflexivity || lia). cbn [app expect MINUS]. rewrite Z.eqb_refl.
  rewrite (take_pad 2 mo _ 100) by (reflexivity || lia). cbn [app expect MINUS]. rewrite Z.eqb_refl.
  rewrite (take_pad 2 d _ 100) by (reflexivity || lia). cbn [app expect SPACE]. rewrite Z.eqb_refl.
  rewrite (take_pad 2 h _ 100) by (reflexivity || lia). cbn [app expect COLON]. rewrite Z.eqb_refl.
  rewrite (take_pad 2 mi _ 100) by (reflexivity || lia). cbn [app expect COLON]. rewrite Z.eqb_refl.
  rewrite (take_pad 2 s _ 100) by (reflexivity || lia).
  destruct (Z.eqb_spec ys 0) as [->|Hy0]; [destruct (Z.eqb_spec fs 0) as [->|Hf0]; [destruct (Z.eqb_spec us 0) as [->|Hu0]|]|].
  - cbn [app]. unfold utc_suffix, PLUS, COLON. cbn [list_eqb Z.eqb Pos.eqb andb]. reflexivity.
  - cbn [app DOT]. rewrite app_length, pad_length. cbn [length utc_suffix Nat.add].
    rewrite (take_pad 6 us _ 1000000) by (reflexivity || lia). rewrite list_eqb_refl. reflexivity.
  - cbn [app DOT]. rewrite <- !app_assoc. rewrite !app_length, !pad_length. cbn [length utc_suffix Nat.add].
    rewrite (take_pad 6 us _ 1000000) by (reflexivity || lia).
    rewrite (take_pad 9 fs _ 1000000000) by (reflexivity || lia). rewrite list_eqb_refl. reflexivity.
  - cbn [app DOT]. rewrite <- !app_assoc. rewrite !app_length, !pad_length. cbn [length utc_suffix Nat.add].
    rewrite (take_pad 6 us _ 1000000) by (reflexivity || lia).
    rewrite (take_pad 9 fs _ 1000000000) by (reflexivity || lia).
    rewrite (take_pad 9 ys _ 1000000000) by (reflexivity || lia). rewrite list_eqb_refl. reflexivity.
Qed.

Lemma stop_colon r : stop (COLON :: r). Proof. reflexivity. Qed.

Lemma parse_time_render h m s f :
  0 <= h < 10 ^ 40 -> 0 <= m < 100 -> 0 <= s < 100 -> 0 <= f < 10 ^ 18 ->
  parse_time (dec h ++ [COLON] ++ pad 2 m ++ [COLON] ++ pad 2 s ++ (if f =? 0 then [] else DOT :: rstrip0 (pad 18 f)))
  = Some (h, m, s, f).
Proof.
  intros Hh Hm Hs Hf. unfold parse_time. cbn [app].
  rewrite (take_dec_dec h _ Hh (stop_colon _)). cbn [expect COLON]. rewrite Z.eqb_refl.
  rewrite (take_pad 2 m _ 100) by (reflexivity || lia). cbn [expect COLON]. rewrite Z.eqb_refl.
  rewrite (take_pad 2 s _ 100) by (reflexivity || lia).
  destruct (Z.eqb_spec f 0) as [->|Hf0]; [reflexivity|].
  cbn [DOT]. rewrite parse_frac_render by lia. reflexivity.
Qed.

Lemma digit_not_minus c : is_digit c = true -> (c =? MINUS) = false.
Proof. unfold is_digit, MINUS. intros H. apply andb_prop in H as [H1 H2]. apply Z.leb_le in H1, H2. apply Z.eqb_neq. lia. Qed.

Theorem parse_td_render d h m s f :
  - 10 ^ 40 < d < 10 ^ 40 -> 0 <= h < 10 ^ 40 -> 0 <= m < 100 -> 0 <= s < 100 -> 0 <= f < 10 ^ 18 ->
  parse_td (render_td d h m s f) = Some (d, h, m, s, f).
Proof.
  intros Hd Hh Hm Hs Hf. unfold render_td.
  pose proof (parse_time_render h m s f Hh Hm Hs Hf) as PT.
  set (time := dec h ++ [COLON] ++ pad 2 m ++ [COLON] ++ pad 2 s ++ (if f =? 0 then [] else DOT :: rstrip0 (pad 18 f))) in *.
  destruct (Z.eqb_spec d 0) as [->|Hd0].
  - cbn [app]. unfold parse_td.
    pose proof (dec_digits h) as D. pose proof (dec_nonempty h) as N.
    assert (E : time = dec h ++ COLON :: (pad 2 m ++ [COLON] ++ pad 2 s ++ (if f =? 0 then [] else DOT :: rstrip0 (pad 18 f)))) by reflexivity.
    assert (TD := take_dec_dec h _ Hh (stop_colon (pad 2 m ++ [COLON] ++ pad 2 s ++ (if f =? 0 then [] else DOT :: rstrip0 (pad 18 f))))).
    rewrite <- E in TD.
    destruct time as [|c t] eqn:TM.
    { destruct (dec h); [congruence | discriminate E]. }
    assert (Hc : is_digit c = true).
    { destruct (dec h) as [|c' t'] eqn:DH; [congruence|]. inversion D; subst. cbn [app] in E. congruence. }
    rewrite (digit_not_minus c Hc), TD. unfold parse_td_tail. cbn [COLON]. rewrite PT. reflexivity.
  - assert (Ha : 0 <= Z.abs d < 10 ^ 40) by lia.
    set (tail := str_day ++ (if Z.abs d =? 1 then [] else [CH_s]) ++ comma_sp ++ time).
    assert (ST : stop tail) by reflexivity.
    assert (TD : take_dec (dec (Z.abs d) ++ tail) = Some (Z.abs d, tail)) by (apply take_dec_dec; assumption).
    assert (TAIL : forall (neg : bool) l0, parse_td_tail neg (Z.abs d) l0 tail = Some ((if neg then - Z.abs d else Z.abs d), h, m, s, f)).
    { intros neg l0. unfold parse_td_tail, tail. destruct (Z.abs d =? 1); cbn [str_day CH_s comma_sp app expect Z.eqb Pos.eqb]; rewrite PT; reflexivity. }
    destruct (Z.ltb_spec d 0) as [Hneg|Hpos].
    + rewrite <- !app_assoc. fold tail. cbn [app MINUS]. unfold parse_td. cbn [MINUS Z.eqb Pos.eqb].
      rewrite TD, TAIL. replace (- Z.abs d) with d by lia. reflexivity.
    + rewrite <- !app_assoc. fold tail. cbn [app]. unfold parse_td.
      pose proof (dec_digits (Z.abs d)) as D. pose proof (dec_nonempty (Z.abs d)) as N.
      destruct (dec (Z.abs d) ++ tail) as [|c t] eqn:DT.
      { destruct (dec (Z.abs d)); [congruence | discriminate DT]. }
      assert (Hc : is_digit c = true).
      { destruct (dec (Z.abs d)) as [|c' t'] eqn:DH; [congruence|]. inversion D; subst. cbn [app] in DT. congruence. }
      rewrite (digit_not_minus c Hc), TD, TAIL. replace (Z.abs d) with d by lia. reflexivity.
Qed.
