(* Proofs/C08Windows.v — the timestamp of a sample does not depend on the window it is read through:
   reading [i, i+n+m) gives the concatenation of reading [i, i+n) and [i+n, i+n+m), for REGULAR and
   for IRREGULAR timing; a sub-window of a readable irregular window is readable. *)
From Coq Require Import ZArith List Lia Bool.
From NV Require Import Common.Py Spec.TimingSpec Model.Timing Proofs.TimingProofs.
Import ListNotations.
Open Scope Z_scope.

Lemma regular_exact r ts off si i n l :
  gen_regular r ts off si i n = Ok l ->
  l = map (fun k => ts + match off with Some o => o | None => 0 end + (i + Z.of_nat k) * si) (seq 0 n).
Proof.
  intro H. rewrite (regular_spec _ _ _ _ _ _ _ H). unfold spec_regular. rewrite Nat2Z.id. reflexivity.
Qed.

Lemma regular_window_split r ts off si i n m l l1 l2 :
  gen_regular r ts off si i (n + m) = Ok l ->
  gen_regular r ts off si i n = Ok l1 ->
  gen_regular r ts off si (i + Z.of_nat n) m = Ok l2 ->
  l = l1 ++ l2.
Proof.
  intros H H1 H2. apply regular_exact in H. apply regular_exact in H1. apply regular_exact in H2.
  subst l l1 l2. rewrite seq_app, map_app. f_equal. cbn [Nat.add].
  rewrite <- (Nat.add_0_r n) at 1. clear. generalize 0%nat as s.
  induction m as [|m IH]; intro s; [reflexivity|].
  cbn [seq map]. f_equal.
  - f_equal. lia.
  - rewrite <- Nat.add_succ_r. apply IH.
Qed.

Lemma regular_kth r ts off si i n l k : (k < n)%nat ->
  gen_regular r ts off si i n = Ok l ->
  nth_error l k = Some (ts + match off with Some o => o | None => 0 end + (i + Z.of_nat k) * si).
Proof.
  intros Hk H. apply regular_exact in H. subst l.
  rewrite nth_error_map, nth_error_nth' with (d := 0%nat) by (rewrite seq_length; exact Hk).
  rewrite seq_nth by exact Hk. reflexivity.
Qed.

Lemma skipn_skipn' {A} (l : list A) : forall a b, skipn b (skipn a l) = skipn (a + b) l.
Proof.
  induction l as [|x l IH]; intros a b.
  - rewrite !skipn_nil. reflexivity.
  - destruct a as [|a]; [reflexivity|]. cbn [Nat.add skipn]. apply IH.
Qed.

Lemma irregular_window_split l i n m r :
  0 <= i -> 0 <= n -> 0 <= m ->
  spec_irregular l i (n + m) = Ok r ->
  exists r1 r2, spec_irregular l i n = Ok r1 /\ spec_irregular l (i + n) m = Ok r2 /\ r = r1 ++ r2.
Proof.
  intros Hi Hn Hm. unfold spec_irregular.
  destruct (Z.ltb_spec i 0); [lia|]. destruct (Z.ltb_spec (n + m) 0); [lia|].
  destruct (Z.ltb_spec n 0); [lia|]. destruct (Z.ltb_spec m 0); [lia|].
  destruct (Z.ltb_spec (i + n) 0); [lia|]. cbn [orb].
  destruct (Z.ltb_spec (Z.of_nat (length l)) (i + (n + m))); [discriminate|].
  destruct (Z.ltb_spec (Z.of_nat (length l)) (i + n)); [lia|].
  destruct (Z.ltb_spec (Z.of_nat (length l)) (i + n + m)); [lia|].
  intro R. injection R as <-. eexists _, _. split; [reflexivity|]. split; [reflexivity|].
  rewrite !Z2Nat.inj_add by lia.
  set (a := Z.to_nat i). set (b := Z.to_nat n). set (c := Z.to_nat m).
  rewrite <- (firstn_skipn b (firstn (b + c) (skipn a l))) at 1. f_equal.
  - rewrite firstn_firstn. f_equal. lia.
  - rewrite skipn_firstn_comm. replace (b + c - b)%nat with c by lia.
    f_equal. apply skipn_skipn'.
Qed.
