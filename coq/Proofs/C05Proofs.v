(* Proofs/C05Proofs.v — complex-integer conversion: layout, exactness, round trip, truncation. *)
From Coq Require Import ZArith List Lia Bool.
From NV Require Import Common.Py Spec.TimeSpec Model.Complex Proofs.Bits.
Open Scope Z_scope.

(* layout: 4 bytes, real at offset 0, imag at offset 2; decode . encode = id on int16 x int16 *)
Lemma enc_ci32_length p : length (enc_ci32 p) = 4%nat.
Proof. unfold enc_ci32, enc16. rewrite app_length, !le_bytes_length. reflexivity. Qed.

Lemma dec16_enc16 z : in_int16 z = true -> dec16 (enc16 z) = z.
Proof.
  unfold in_int16, INT16_MIN, INT16_MAX, dec16, enc16. rewrite andb_true_iff, !Z.leb_le. intros [H1 H2].
  rewrite le_val_le_bytes. change (256 ^ Z.of_nat 2) with 65536.
  destruct (Z_lt_le_dec z 0).
  - assert (z mod 65536 = z + 65536) by (symmetry; apply (Z.mod_unique _ _ (-1)); lia).
    destruct (Z.ltb_spec (z mod 65536) 32768); lia.
  - rewrite Z.mod_small by lia. destruct (Z.ltb_spec z 32768); lia.
Qed.

Lemma layout_roundtrip r i : in_int16 r = true -> in_int16 i = true -> dec_ci32 (enc_ci32 (r, i)) = (r, i).
Proof.
  intros Hr Hi. unfold dec_ci32, enc_ci32. cbn [fst snd].
  rewrite firstn_app_exact, skipn_app_exact by apply le_bytes_length.
  rewrite !dec16_enc16 by assumption. reflexivity.
Qed.

Lemma layout_offsets r i : firstn 2 (enc_ci32 (r, i)) = enc16 r /\ skipn 2 (enc_ci32 (r, i)) = enc16 i.
Proof. unfold enc_ci32. cbn [fst snd]. split; [apply firstn_app_exact | apply skipn_app_exact]; apply le_bytes_length. Qed.

(* the interleave lemma: viewing as a flat array, mapping, and viewing back pairs is a pairwise map *)
Lemma interleave {A} (f : Z -> A) l : unflatten (map f (flatten l)) = map (fun p => (f (fst p), f (snd p))) l.
Proof. induction l as [|[r i] l IH]; [reflexivity|]. cbn [flatten map unflatten fst snd]. rewrite IH. reflexivity. Qed.

Lemma interleave_f {A} (f : fpart -> A) l : unflatten (map f (flatten_f l)) = map (fun p => (f (fst p), f (snd p))) l.
Proof. induction l as [|[r i] l IH]; [reflexivity|]. cbn [flatten_f map unflatten fst snd]. rewrite IH. reflexivity. Qed.

(* int -> complex is exactly real + imag*j, element by element, shape (= length) preserved *)
Theorem to_complex_exact l : ci32_to_complex l = map (fun p => (FNum (fst p) 0, FNum (snd p) 0)) l.
Proof. unfold ci32_to_complex. apply interleave. Qed.

(* ... and converting back returns the original pair: for ALL 2^32 pairs *)
Theorem int_roundtrip l : complex_to_ci32 (ci32_to_complex l) = map (fun p => (Some (fst p), Some (snd p))) l.
Proof.
  unfold complex_to_ci32. rewrite to_complex_exact, interleave_f, map_map.
  apply map_ext. intros [r i]. cbn. rewrite !Z.mul_1_r. reflexivity.
Qed.

Theorem length_preserved l : length (ci32_to_complex l) = length l /\ forall c, length (complex_to_ci32 c) = length c.
Proof.
  split; [rewrite to_complex_exact; apply map_length|].
  intro c. unfold complex_to_ci32. rewrite interleave_f. apply map_length.
Qed.

(* truncation toward zero: same sign, |q - trunc q| < 1, for every dyadic q = m * 2^e *)
Theorem trunc_spec m e t : trunc_fpart (FNum m e) = Some t ->
  if 0 <=? e then t = m * 2 ^ e
  else let d := 2 ^ (- e) in Z.abs (m - t * d) < d /\ (0 <= m -> 0 <= t /\ t * d <= m) /\ (m <= 0 -> t <= 0 /\ m <= t * d).
Proof.
  cbn [trunc_fpart]. destruct (Z.leb_spec 0 e) as [He|He]; intro Ht; inversion Ht; subst; [reflexivity|].
  set (d := 2 ^ (- e)). assert (Hd : 0 < d) by (apply Z.pow_pos_nonneg; lia).
  pose proof (Z.quot_rem' m d) as QR. 
  destruct (Z_le_gt_dec 0 m) as [Hm|Hm].
  - pose proof (Z.rem_bound_pos m d Hm Hd). pose proof (Z.quot_pos m d Hm Hd).
    repeat split; try lia.
  - pose proof (Z.rem_nonpos m d ltac:(lia) ltac:(lia)) as RB1. pose proof (Z.rem_bound_abs m d ltac:(lia)) as RB2.
    assert (Z.quot m d <= 0) by nia.
    repeat split; try lia; nia.
Qed.
