From Coq Require Import ZArith List Lia Bool.
From NV Require Import Common.Py Model.Names.
Open Scope Z_scope.

Lemma names_of_coherent st : coherent st ->
  names_of st = pad (n_cols st) (parse (match n_prop st with Some s => s | None => [] end)).
Proof. unfold coherent, names_of. destruct (n_cache st); [intro H; exact H|reflexivity]. Qed.

(* the cache always reflects the property, after any operation *)
Theorem step_coherent st op r st' : coherent st -> nstep st op = (r, st') -> coherent st'.
Proof.
  intros C H. destruct op; cbn [nstep] in H.
  - destruct (sig_col st i); inversion H; subst; [|exact C]. unfold coherent, fill. cbn. apply names_of_coherent. exact C.
  - destruct (sig_col st i); inversion H; subst; [exact I|exact C].
  - destruct (sig_col st i); inversion H; subst; [|exact C]. unfold coherent, fill. cbn. apply names_of_coherent. exact C.
  - inversion H; subst. exact I.
  - destruct (n_prop st); inversion H; subst; [exact I|exact C].
  - destruct (n_prop st) as [p|]; [inversion H; subst; exact C|]. destruct v; inversion H; subst; [exact I|exact C].
  - inversion H; subst. exact C.
  - destruct (index_of _ _ _); inversion H; subst; unfold coherent, fill; cbn; apply names_of_coherent; exact C.
  - inversion H; subst. exact I.
Qed.

Theorem history_coherent : forall ops st, coherent st -> coherent (fold_left (fun s op => snd (nstep s op)) ops st).
Proof.
  induction ops as [|op ops IH]; intros st C; [exact C|]. cbn [fold_left]. apply IH.
  destruct (nstep st op) as [r st'] eqn:E. cbn [snd]. eapply step_coherent; eauto.
Qed.

(* hence a name read is always the (signal_count-1-i)-th trimmed entry of the CURRENT NI_LineNames *)
Theorem read_spec st i c : coherent st -> sig_col st i = Ok c ->
  fst (nstep st (NRead i)) = Ok (NName (spec_name st c)).
Proof.
  intros C H. cbn [nstep]. rewrite H. cbn [fst]. rewrite (names_of_coherent st C). reflexivity.
Qed.

Lemma sig_col_spec st i c : sig_col st i = Ok c -> 0 <= i < Z.of_nat (n_cols st) ->
  Z.of_nat c = Z.of_nat (n_cols st) - 1 - i /\ (c < n_cols st)%nat.
Proof.
  unfold sig_col. intros H Hi. destruct (Z.ltb_spec i 0); [lia|].
  destruct (Z.ltb_spec i 0); [lia|]. cbn [orb] in H. destruct (Z.leb_spec (Z.of_nat (n_cols st)) i); [lia|].
  inversion H. split; lia.
Qed.

(* lookup by name returns a signal carrying that name, or IndexError *)
Lemma index_of_spec l v : forall i c, index_of l v i = Some c -> (i <= c < i + length l)%nat /\ nth (c - i) l [] = v.
Proof.
  induction l as [|x l IH]; intros i c H; [discriminate|]. cbn [index_of] in H.
  destruct (list_eqb Z.eqb x v) eqn:E.
  - inversion H. subst. split; [cbn; lia|]. rewrite Nat.sub_diag. cbn. apply (list_eqb_eq Z.eqb Z.eqb_eq) in E. exact E.
  - destruct (IH _ _ H) as [B N]. split; [cbn [length]; lia|]. replace (c - i)%nat with (S (c - S i)) by lia. exact N.
Qed.

Lemma nth_firstn_lt {A} (l : list A) d : forall n c, (c < n)%nat -> nth c (firstn n l) d = nth c l d.
Proof.
  induction l as [|x l IH]; intros n c H; [rewrite firstn_nil; reflexivity|].
  destruct n; [lia|]. destruct c; [reflexivity|]. cbn. apply IH. lia.
Qed.

Theorem lookup_spec st name r : coherent st -> fst (nstep st (NLookup name)) = r ->
  (exists c, (c < n_cols st)%nat /\ r = Ok (NIndex (Z.of_nat (n_cols st) - 1 - Z.of_nat c)) /\ spec_name st c = name)
  \/ r = Raise IndexError.
Proof.
  intros C. cbn [nstep]. destruct (index_of _ _ _) as [c|] eqn:E; cbn [fst]; intro H; subst r; [left|right; reflexivity].
  destruct (index_of_spec _ _ _ _ E) as [B N].
  rewrite firstn_length in B. assert (Hc : (c < n_cols st)%nat) by lia.
  exists c. split; [exact Hc|]. split; [reflexivity|].
  rewrite Nat.sub_0_r in N. unfold spec_name. rewrite <- (names_of_coherent st C).
  rewrite <- N. symmetry. apply nth_firstn_lt. exact Hc.
Qed.

(* ---- strings: split / strip / join ---- *)
Lemma dropws_length s : (length (dropws s) <= length s)%nat.
Proof. induction s as [|c s IH]; cbn; [lia|]. destruct (is_ws c); cbn; lia. Qed.
Lemma dropws_fix s : length (dropws s) = length s -> dropws s = s.
Proof. destruct s as [|c s]; cbn; [reflexivity|]. destruct (is_ws c); [|reflexivity]. pose proof (dropws_length s). lia. Qed.
Lemma dropws_idem s : dropws (dropws s) = dropws s.
Proof. induction s as [|c s IH]; cbn; [reflexivity|]. destruct (is_ws c) eqn:E; [exact IH|]. cbn. rewrite E. reflexivity. Qed.
Lemma dropws_head s : dropws s = [] \/ exists h t, dropws s = h :: t /\ is_ws h = false.
Proof. induction s as [|c s IH]; cbn; [left; reflexivity|]. destruct (is_ws c) eqn:E; [exact IH|]. right. eauto. Qed.
Lemma dropws_snoc u h : is_ws h = false -> exists u', dropws (u ++ [h]) = u' ++ [h].
Proof.
  intro Hh. induction u as [|c u IH]; cbn.
  - rewrite Hh. exists []. reflexivity.
  - destruct (is_ws c); [exact IH|]. exists (c :: u). reflexivity.
Qed.
Lemma dropws_Forall (P : Z -> Prop) s : Forall P s -> Forall P (dropws s).
Proof. induction 1 as [|c s Hc Hs IH]; cbn; [constructor|]. destruct (is_ws c); [exact IH|]. constructor; assumption. Qed.

Lemma strip_fix s : strip s = s <-> dropws s = s /\ dropws (rev s) = rev s.
Proof.
  unfold strip. split.
  - intro H. assert (L : length (dropws (rev (dropws s))) = length s) by (rewrite <- (rev_length (dropws _)), H; reflexivity).
    pose proof (dropws_length s) as L1. pose proof (dropws_length (rev (dropws s))) as L2. rewrite rev_length in L2.
    assert (D : dropws s = s) by (apply dropws_fix; lia). split; [exact D|].
    rewrite D in L. apply dropws_fix. rewrite L, rev_length. reflexivity.
  - intros [A B]. rewrite A, B. apply rev_involutive.
Qed.

Lemma strip_idem s : strip (strip s) = strip s.
Proof.
  apply strip_fix. unfold strip. split.
  - destruct (dropws_head s) as [E|[h [t [E Hh]]]]; rewrite E; [reflexivity|].
    cbn [rev]. destruct (dropws_snoc (rev t) h Hh) as [u' Hu]. rewrite Hu.
    rewrite rev_app_distr. cbn. rewrite Hh. reflexivity.
  - rewrite rev_involutive. apply dropws_idem.
Qed.

Lemma strip_space y : strip y = y -> strip (SPACE :: y) = y.
Proof. intro H. apply strip_fix in H. destruct H as [A B]. unfold strip. cbn [dropws]. change (is_ws SPACE) with true. cbn iota. rewrite A, B. apply rev_involutive. Qed.

Lemma strip_nocomma s : nocomma s -> nocomma (strip s).
Proof. unfold nocomma, strip. intro H. apply Forall_rev, dropws_Forall, Forall_rev, dropws_Forall. exact H. Qed.

Lemma split_nocomma x : forall cur rest, nocomma x -> split_aux cur (x ++ rest) = split_aux (rev x ++ cur) rest.
Proof.
  induction x as [|c x IH]; intros cur rest H; [reflexivity|]. inversion H as [|? ? Hc Hx]; subst.
  cbn [app split_aux]. destruct (Z.eqb_spec c COMMA) as [E|_]; [contradiction|].
  rewrite IH by exact Hx. cbn [rev]. rewrite <- app_assoc. reflexivity.
Qed.

Lemma split_join : forall l x cur, nocomma x -> Forall nocomma l ->
  split_aux cur (join (x :: l)) = (rev cur ++ x) :: map (cons SPACE) l.
Proof.
  induction l as [|y l IH]; intros x cur Hx Hl.
  - cbn [join map]. rewrite <- (app_nil_r x) at 1. rewrite split_nocomma by exact Hx. cbn [split_aux].
    rewrite rev_app_distr, rev_involutive. reflexivity.
  - inversion Hl as [|? ? Hy Hl']; subst.
    change (join (x :: y :: l)) with (x ++ COMMA :: SPACE :: join (y :: l)).
    rewrite split_nocomma by exact Hx. cbn [split_aux]. change (COMMA =? COMMA) with true. cbn iota.
    change (SPACE =? COMMA) with false. cbn iota.
    rewrite rev_app_distr, rev_involutive. rewrite (IH y [SPACE] Hy Hl'). reflexivity.
Qed.

Lemma split_pieces_nocomma s : forall cur, nocomma cur -> Forall nocomma (split_aux cur s).
Proof.
  induction s as [|c s IH]; intros cur H; cbn [split_aux].
  - constructor; [|constructor]. apply Forall_rev. exact H.
  - destruct (Z.eqb_spec c COMMA) as [E|NE].
    + constructor; [apply Forall_rev; exact H|]. apply IH. constructor.
    + apply IH. constructor; assumption.
Qed.

Definition clean (v : str) : Prop := nocomma v /\ strip v = v.

Lemma parse_clean s : Forall clean (parse s).
Proof.
  unfold parse, split_comma. pose proof (split_pieces_nocomma s [] (Forall_nil _)) as H.
  induction H as [|x l Hx Hl IH]; cbn [map]; constructor; [|exact IH].
  split; [apply strip_nocomma; exact Hx|apply strip_idem].
Qed.

Lemma nil_clean : clean []. Proof. split; [constructor|reflexivity]. Qed.

Lemma pad_clean n l : Forall clean l -> Forall clean (pad n l).
Proof. intro H. unfold pad. apply Forall_app. split; [exact H|]. apply Forall_forall. intros x Hx. apply repeat_spec in Hx. subst. exact nil_clean. Qed.

Theorem parse_join l : l <> [] -> Forall clean l -> parse (join l) = l.
Proof.
  destruct l as [|x l]; [congruence|]. intros _ H. inversion H as [|? ? [Hx Sx] Hl]; subst.
  unfold parse, split_comma. rewrite split_join; [|exact Hx|eapply Forall_impl; [|exact Hl]; intros a [Ha _]; exact Ha].
  cbn [rev app map]. rewrite Sx. f_equal. rewrite map_map.
  clear H Hx Sx. induction Hl as [|y l [Hy Sy] Hl IH]; cbn [map]; [reflexivity|]. rewrite strip_space by exact Sy. f_equal. exact IH.
Qed.

Lemma set_nth_length l : forall c v, length (set_nth_s l c v) = length l.
Proof. induction l as [|x l IH]; intros c v; [reflexivity|]. destruct c; cbn; [reflexivity|]. rewrite IH. reflexivity. Qed.
Lemma set_nth_clean l : forall c v, clean v -> Forall clean l -> Forall clean (set_nth_s l c v).
Proof. induction l as [|x l IH]; intros c v Hv H; [constructor|]. inversion H; subst. destruct c; cbn; constructor; auto. Qed.
Lemma set_nth_nth l : forall c v c', (c < length l)%nat ->
  nth c' (set_nth_s l c v) [] = if Nat.eqb c' c then v else nth c' l [].
Proof.
  induction l as [|x l IH]; intros c v c' H; [cbn in H; lia|]. destruct c; destruct c'; cbn; try reflexivity.
  apply IH. cbn in H. lia.
Qed.

Lemma pad_length n l : (n <= length (pad n l))%nat.
Proof. unfold pad. rewrite app_length, repeat_length. lia. Qed.
Lemma pad_noop n l : (n <= length l)%nat -> pad n l = l.
Proof. intro H. unfold pad. replace (n - length l)%nat with 0%nat by lia. apply app_nil_r. Qed.

(* assigning a clean name changes that signal's name only, and NI_LineNames carries the new list *)
Theorem write_spec st i c v : coherent st -> sig_col st i = Ok c -> (c < n_cols st)%nat -> clean v ->
  let st' := snd (nstep st (NWrite i v)) in
  fst (nstep st (NWrite i v)) = Ok NNone /\ coherent st' /\
  n_prop st' = Some (join (set_nth_s (pad (n_cols st) (parse (match n_prop st with Some s => s | None => [] end))) c v)) /\
  forall c', spec_name st' c' = if Nat.eqb c' c then v else spec_name st c'.
Proof.
  intros C H Hc Hv. cbn [nstep]. rewrite H. cbn [fst snd]. rewrite (names_of_coherent st C).
  set (names := pad _ _). split; [reflexivity|]. split; [exact I|]. split; [reflexivity|].
  intro c'. unfold spec_name. cbn [n_prop n_cols].
  assert (L : (n_cols st <= length names)%nat) by apply pad_length.
  assert (CL : Forall clean names) by (apply pad_clean, parse_clean).
  rewrite parse_join.
  - rewrite pad_noop by (rewrite set_nth_length; exact L). apply set_nth_nth. fold names. lia.
  - intro E. apply (f_equal (@length str)) in E. rewrite set_nth_length in E. cbn in E. lia.
  - apply set_nth_clean; assumption.
Qed.

(* the whole statement over histories: after ANY sequence of operations from a fresh object the
   cache is coherent, so reads, lookups and writes obey the three statements above *)
Definition nrun (ops : list nop) (st : nstate) : nstate := fold_left (fun s op => snd (nstep s op)) ops st.

Theorem C15_histories ops n p : let st := nrun ops {| n_cols := n; n_prop := p; n_cache := None |} in
  (forall i c, sig_col st i = Ok c -> fst (nstep st (NRead i)) = Ok (NName (spec_name st c))) /\
  (forall name, (exists c, (c < n_cols st)%nat /\ fst (nstep st (NLookup name)) = Ok (NIndex (Z.of_nat (n_cols st) - 1 - Z.of_nat c)) /\ spec_name st c = name)
                \/ fst (nstep st (NLookup name)) = Raise IndexError) /\
  (forall i c v, sig_col st i = Ok c -> clean v ->
     let st' := snd (nstep st (NWrite i v)) in
     fst (nstep st (NWrite i v)) = Ok NNone /\
     n_prop st' = Some (join (set_nth_s (pad (n_cols st) (parse (match n_prop st with Some s => s | None => [] end))) c v)) /\
     forall c', spec_name st' c' = if Nat.eqb c' c then v else spec_name st c').
Proof.
  intro st. assert (C : coherent st) by (apply history_coherent; exact I).
  split; [intros i c H; apply read_spec; assumption|]. split.
  - intro name. destruct (lookup_spec st name _ C eq_refl) as [[c [A [B D]]]|E]; [left; eauto|right; exact E].
  - intros i c v H Hv. assert (Hc : (c < n_cols st)%nat).
    { unfold sig_col in H. destruct ((_ <? 0) || _) eqn:E; [discriminate|]. inversion H. apply orb_false_iff in E. destruct E as [E1 E2].
      apply Z.ltb_ge in E1. apply Z.leb_gt in E2. lia. }
    destruct (write_spec st i c v C H Hc Hv) as [A [_ [B D]]]. auto.
Qed.

(* the reversal: signal i reads column n-1-i *)
Theorem sig_col_reverse st i c : sig_col st i = Ok c -> 0 <= i ->
  Z.of_nat c = Z.of_nat (n_cols st) - 1 - i.
Proof.
  unfold sig_col. intro H. intro Hi. destruct (Z.ltb_spec i 0); [lia|].
  destruct ((_ <? 0) || _) eqn:E; [discriminate|]. inversion H. apply orb_false_iff in E. destruct E as [E1 E2].
  apply Z.ltb_ge in E1. apply Z.leb_gt in E2. lia.
Qed.

(* a rejected (non-str) name assignment changes neither the property nor any name *)
Theorem write_bad_unchanged st i : coherent st ->
  let st' := snd (nstep st (NWriteBad i)) in
  (exists e, fst (nstep st (NWriteBad i)) = Raise e) /\ n_prop st' = n_prop st /\ n_cols st' = n_cols st /\
  forall c, spec_name st' c = spec_name st c.
Proof.
  intro C. cbn [nstep]. destruct (sig_col st i); cbn [fst snd]; (split; [eexists; reflexivity|]); repeat split; reflexivity.
Qed.
