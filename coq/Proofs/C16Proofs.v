(* Proofs/C16Proofs.v — DigitalWaveform.test (loops with running indices) = filter over the window. *)
From Coq Require Import ZArith List Lia Bool String Ascii.
From NV Require Import Common.Py Common.Trans Spec.StateSpec Gen.StateGen Model.DigitalTest.
Open Scope Z_scope.

Definition states : list Z := [0; 1; 2; 3; 4; 5; 6; 7].

(* the regenerated table is NI's table: 64 cases *)
Lemma table_is_ni :
  forallb (fun a => forallb (fun b => Bool.eqb (state_test a b) (negb (compatible a b))) states) states = true.
Proof. vm_compute. reflexivity. Qed.

Lemma table_props :
  forallb (fun a => forallb (fun b => Bool.eqb (state_test a b) (state_test b a)) states) states = true /\
  forallb (fun a => negb (state_test a a)) states = true /\
  forallb (fun a => negb (state_test a 5) && negb (state_test 5 a)) states = true.
Proof. repeat split; vm_compute; reflexivity. Qed.

Lemma in_states s : is_state s = true -> In s states.
Proof.
  unfold is_state. rewrite andb_true_iff, !Z.leb_le. intros [H1 H2]. unfold states.
  assert (s = 0 \/ s = 1 \/ s = 2 \/ s = 3 \/ s = 4 \/ s = 5 \/ s = 6 \/ s = 7) by lia.
  simpl. intuition.
Qed.

Lemma state_test_compat a b : is_state a = true -> is_state b = true ->
  state_test a b = negb (compatible a b).
Proof.
  intros Ha Hb. pose proof table_is_ni as T.
  rewrite forallb_forall in T. specialize (T a (in_states a Ha)).
  rewrite forallb_forall in T. specialize (T b (in_states b Hb)).
  apply eqb_prop in T. exact T.
Qed.

Lemma symmetric a b : is_state a = true -> is_state b = true -> state_test a b = state_test b a.
Proof.
  intros Ha Hb. destruct table_props as [T _].
  rewrite forallb_forall in T. specialize (T a (in_states a Ha)).
  rewrite forallb_forall in T. specialize (T b (in_states b Hb)).
  apply eqb_prop in T. exact T.
Qed.

Lemma reflexive a : is_state a = true -> state_test a a = false.
Proof.
  intros Ha. destruct table_props as [_ [T _]].
  rewrite forallb_forall in T. specialize (T a (in_states a Ha)).
  apply negb_true_iff in T. exact T.
Qed.

Lemma unknown_all a : is_state a = true -> state_test a 5 = false /\ state_test 5 a = false.
Proof.
  intros Ha. destruct table_props as [_ [_ T]].
  rewrite forallb_forall in T. specialize (T a (in_states a Ha)).
  apply andb_true_iff in T. destruct T as [T1 T2].
  apply negb_true_iff in T1. apply negb_true_iff in T2. auto.
Qed.

Lemma digital_state_spec x : digital_state x = if is_state x then Ok x else Raise ValueError.
Proof. reflexivity. Qed.

(* one row: the inner loop visits columns c .. c+todo-1 in order *)
Definition row_pos (i : nat) (c todo : nat) : list (nat * nat) := map (fun k => (i, k)) (seq c todo).

Definition fail_of (a e : dwf) (s es : Z) (p : nat * nat) : list failure :=
  let x := cell a (Z.to_nat s + fst p) (snd p) in
  let y := cell e (Z.to_nat es + fst p) (snd p) in
  if compatible x y then []
  else [(s + Z.of_nat (fst p), es + Z.of_nat (fst p), Z.of_nat (ncol a) - 1 - Z.of_nat (snd p), x, y)].

Definition valid_at (a e : dwf) (s es : Z) (p : nat * nat) : bool :=
  is_state (cell a (Z.to_nat s + fst p) (snd p)) && is_state (cell e (Z.to_nat es + fst p) (snd p)).

Lemma test_columns_spec a e s es i : 0 <= s -> 0 <= es ->
  forall todo c acc,
  test_columns a e (s + Z.of_nat i) (es + Z.of_nat i) c todo acc =
  if forallb (valid_at a e s es) (row_pos i c todo)
  then Ok (acc ++ flat_map (fail_of a e s es) (row_pos i c todo))
  else Raise ValueError.
Proof.
  intros Hs Hes. induction todo as [|todo IH]; intros c acc.
  - simpl. rewrite app_nil_r. reflexivity.
  - cbn [test_columns]. unfold row_pos. cbn [seq map forallb flat_map].
    unfold valid_at at 1. cbn [fst snd].
    replace (Z.to_nat (s + Z.of_nat i)) with (Z.to_nat s + i)%nat by lia.
    replace (Z.to_nat (es + Z.of_nat i)) with (Z.to_nat es + i)%nat by lia.
    rewrite !digital_state_spec.
    destruct (is_state (cell a (Z.to_nat s + i) c)) eqn:Ea; cbn [bind andb]; [|reflexivity].
    destruct (is_state (cell e (Z.to_nat es + i) c)) eqn:Ee; cbn [bind andb]; [|reflexivity].
    specialize (IH (S c)). unfold row_pos in IH.
    replace (Z.to_nat s + i)%nat with (Z.to_nat (s + Z.of_nat i)) in * by lia.
    replace (Z.to_nat es + i)%nat with (Z.to_nat (es + Z.of_nat i)) in * by lia.
    rewrite IH.
    replace (Z.to_nat (s + Z.of_nat i)) with (Z.to_nat s + i)%nat in * by lia.
    replace (Z.to_nat (es + Z.of_nat i)) with (Z.to_nat es + i)%nat in * by lia.
    destruct (forallb _ _); [|reflexivity].
    f_equal. unfold fail_of at 2. cbn [fst snd].
    rewrite (state_test_compat _ _ Ea Ee).
    destruct (compatible _ _); cbn [negb]; [reflexivity|].
    rewrite <- app_assoc. reflexivity.
Qed.

Definition rows_pos (i0 n ncols : nat) : list (nat * nat) :=
  flat_map (fun i => row_pos i 0 ncols) (seq i0 n).

Lemma test_samples_spec a e s es : 0 <= s -> 0 <= es ->
  forall todo i acc,
  test_samples a e (s + Z.of_nat i) (es + Z.of_nat i) todo acc =
  if forallb (valid_at a e s es) (rows_pos i todo (ncol a))
  then Ok (acc ++ flat_map (fail_of a e s es) (rows_pos i todo (ncol a)))
  else Raise ValueError.
Proof.
  intros Hs Hes. induction todo as [|todo IH]; intros i acc.
  - simpl. rewrite app_nil_r. reflexivity.
  - cbn [test_samples]. rewrite (test_columns_spec a e s es i Hs Hes).
    unfold rows_pos. cbn [seq flat_map]. rewrite forallb_app, flat_map_app.
    destruct (forallb (valid_at a e s es) (row_pos i 0 (ncol a))); cbn [bind andb]; [|reflexivity].
    replace (s + Z.of_nat i + 1) with (s + Z.of_nat (S i)) by lia.
    replace (es + Z.of_nat i + 1) with (es + Z.of_nat (S i)) by lia.
    rewrite IH. unfold rows_pos.
    destruct (forallb _ _); [|reflexivity]. rewrite app_assoc. reflexivity.
Qed.

Lemma positions_rows n ncols : positions n ncols = rows_pos 0 n ncols.
Proof. reflexivity. Qed.

Lemma arg_uint_nonneg a d v : 0 <= d -> arg_uint a d = Ok v -> 0 <= v.
Proof.
  unfold arg_uint. intros _ H.
  destruct (Z.ltb_spec (match a with Some v0 => v0 | None => d end) 0); [discriminate|].
  injection H as <-. lia.
Qed.

Theorem wf_test_spec a e start estart count : wf_test a e start estart count = spec_test a e start estart count.
Proof.
  unfold wf_test, spec_test.
  destruct (arg_uint start 0) as [s|] eqn:Es; cbn [bind]; [|reflexivity].
  destruct (arg_uint estart 0) as [es|] eqn:Ees; cbn [bind]; [|reflexivity].
  destruct (arg_uint count _) as [n|] eqn:En; cbn [bind]; [|reflexivity].
  destruct (negb (Nat.eqb (ncol a) (ncol e))); [reflexivity|].
  destruct (Z.of_nat (cnt a) <? s + n); cbn [orb]; [reflexivity|].
  destruct (Z.of_nat (cnt e) <? es + n); [reflexivity|].
  assert (Hs : 0 <= s) by (eapply arg_uint_nonneg; [|exact Es]; lia).
  assert (Hes : 0 <= es) by (eapply arg_uint_nonneg; [|exact Ees]; lia).
  pose proof (test_samples_spec a e s es Hs Hes (Z.to_nat n) 0%nat []) as T.
  cbn [Z.of_nat] in T. rewrite ?Z.add_0_r in T. rewrite T.
  unfold positions, rows_pos, row_pos, valid_at, fail_of. cbn [app].
  destruct (forallb _ _); reflexivity.
Qed.

Lemma success_iff a e st est c l :
  wf_test a e st est c = Ok l -> (length l = 0%nat <-> l = []).
Proof. intros _. destruct l; simpl; split; intro H; try reflexivity; discriminate. Qed.

(* to_char / from_char are mutually inverse over the 8 states / '01ZLHXTV' *)
Lemma char_roundtrip :
  forallb (fun s => match to_char s with Ok c => match from_char c with Ok s' => s =? s' | _ => false end | _ => false end) states = true /\
  (let chars := list_ascii_of_string spec_chars in
   forallb (fun c => match from_char c with Ok s => match to_char s with Ok c' => Ascii.eqb c c' | _ => false end | _ => false end) chars = true) /\
  state_char_table = spec_chars.
Proof. repeat split; vm_compute; reflexivity. Qed.
