(* Proofs/C02Pickle.v — pickle's int encoding is lossless: load_int (save_int x) = Some x for every integer whose
   two's-complement form fits LONG1's one-byte length (so for every 128-bit tick count, and far beyond). *)
From Coq Require Import ZArith List Bool Lia.
From NV Require Import Common.Py Spec.TimeSpec Model.PortBytes Proofs.C06Bytes.
From NV Require Import Model.PickleInt.
Import ListNotations.
Open Scope Z_scope.

Lemma pow256 n : 256 ^ Z.of_nat n = 2 ^ (8 * Z.of_nat n).
Proof. change 256 with (2 ^ 8). rewrite <- Z.pow_mul_r by lia. reflexivity. Qed.

Lemma signed_roundtrip (n : nat) x : (0 < n)%nat -> - 2 ^ (8 * Z.of_nat n - 1) <= x < 2 ^ (8 * Z.of_nat n - 1) ->
  decode_long (le_bytes n (x mod 256 ^ Z.of_nat n)) = x.
Proof.
  intros Hn Hx. unfold decode_long. rewrite le_bytes_length.
  assert (P : 256 ^ Z.of_nat n = 2 * 2 ^ (8 * Z.of_nat n - 1)).
  { rewrite pow256. replace (8 * Z.of_nat n) with (Z.succ (8 * Z.of_nat n - 1)) at 1 by lia. rewrite Z.pow_succ_r by lia. reflexivity. }
  assert (H0 : 0 < 2 ^ (8 * Z.of_nat n - 1)) by (apply Z.pow_pos_nonneg; lia).
  set (h := 2 ^ (8 * Z.of_nat n - 1)) in *. set (m := 256 ^ Z.of_nat n) in *.
  rewrite le_value_bytes by (apply Z.mod_pos_bound; lia).
  replace (Z.of_nat n =? 0) with false by (symmetry; apply Z.eqb_neq; lia).
  destruct (Z_lt_ge_dec x 0) as [Neg|Pos].
  - assert (E : x mod m = x + m).
    { symmetry. apply Z.mod_unique with (-1); lia. }
    rewrite E. destruct (Z.leb_spec h (x + m)); lia.
  - rewrite Z.mod_small by lia. destruct (Z.leb_spec h x); lia.
Qed.

Lemma bitlen_bound y : 0 <= y -> y < 2 ^ bitlen y /\ 0 <= bitlen y.
Proof.
  intro H. unfold bitlen. destruct (Z.leb_spec y 0).
  - assert (y = 0) by lia. subst. simpl. lia.
  - pose proof (Z.log2_spec y ltac:(lia)). pose proof (Z.log2_nonneg y). replace (Z.log2 y + 1) with (Z.succ (Z.log2 y)) by lia. lia.
Qed.

Lemma nbytes_range x : x <> 0 -> 1 <= nbytes x /\ - 2 ^ (8 * nbytes x - 1) <= x < 2 ^ (8 * nbytes x - 1).
Proof.
  intro Hx. unfold nbytes. replace (x =? 0) with false by (symmetry; apply Z.eqb_neq; exact Hx).
  destruct (Z.ltb_spec x 0) as [Neg|Pos].
  - destruct (bitlen_bound (- x - 1) ltac:(lia)) as [B1 B0]. set (b := bitlen (- x - 1)) in *.
    assert (Hb : b <= 8 * (b / 8 + 1) - 1) by (pose proof (Z.div_mod b 8 ltac:(lia)); pose proof (Z.mod_pos_bound b 8 ltac:(lia)); lia).
    pose proof (Z.pow_le_mono_r 2 b (8 * (b / 8 + 1) - 1) ltac:(lia) Hb).
    pose proof (Z.div_pos b 8 B0 ltac:(lia)). 
    assert (0 < 2 ^ (8 * (b / 8 + 1) - 1)) by (apply Z.pow_pos_nonneg; lia). lia.
  - destruct (bitlen_bound x ltac:(lia)) as [B1 B0]. set (b := bitlen x) in *.
    assert (Hb : b <= 8 * (b / 8 + 1) - 1) by (pose proof (Z.div_mod b 8 ltac:(lia)); pose proof (Z.mod_pos_bound b 8 ltac:(lia)); lia).
    pose proof (Z.pow_le_mono_r 2 b (8 * (b / 8 + 1) - 1) ltac:(lia) Hb).
    pose proof (Z.div_pos b 8 B0 ltac:(lia)).
    assert (0 < 2 ^ (8 * (b / 8 + 1) - 1)) by (apply Z.pow_pos_nonneg; lia). lia.
Qed.

Theorem decode_encode_long x : decode_long (encode_long x) = x.
Proof.
  destruct (Z.eq_dec x 0) as [->|Hx]; [reflexivity|].
  destruct (nbytes_range x Hx) as [H1 H2]. unfold encode_long.
  set (n := Z.to_nat (nbytes x)). assert (E : Z.of_nat n = nbytes x) by (unfold n; lia).
  apply signed_roundtrip; [lia | rewrite E; exact H2].
Qed.

Lemma encode_long_length x : Z.of_nat (length (encode_long x)) = nbytes x.
Proof.
  unfold encode_long. rewrite le_bytes_length.
  destruct (Z.eq_dec x 0) as [->|Hx]; [reflexivity|]. pose proof (nbytes_range x Hx). lia.
Qed.

Theorem load_save_int x : nbytes x < 256 -> load_int (save_int x) = Some x.
Proof.
  intro Hn. unfold save_int.
  destruct ((0 <=? x) && (x <? 256)) eqn:A1.
  { reflexivity. }
  destruct ((0 <=? x) && (x <? 65536)) eqn:A2.
  { apply andb_prop in A2 as [L U]. apply Z.leb_le in L. apply Z.ltb_lt in U.
    cbn [le_bytes load_int OP_BININT2 le_value]. f_equal.
    pose proof (Z.div_mod x 256 ltac:(lia)). pose proof (Z.mod_pos_bound x 256 ltac:(lia)).
    assert (0 <= x / 256 < 256) by (split; [apply Z.div_pos; lia | apply Z.div_lt_upper_bound; lia]).
    rewrite (Z.mod_small (x / 256) 256) by lia. lia. }
  destruct ((-2147483648 <=? x) && (x <? 2147483648)) eqn:A3.
  { apply andb_prop in A3 as [L U]. apply Z.leb_le in L. apply Z.ltb_lt in U.
    pose proof (le_value_bytes 4 (x mod 4294967296) ltac:(change (256 ^ Z.of_nat 4) with 4294967296; apply Z.mod_pos_bound; lia)) as V.
    pose proof (le_bytes_length 4 (x mod 4294967296)) as Ln.
    destruct (le_bytes 4 (x mod 4294967296)) as [|b0 [|b1 [|b2 [|b3 [|? ?]]]]] eqn:EB; try discriminate Ln.
    cbn [load_int OP_BININT]. rewrite V. f_equal.
    destruct (Z_lt_ge_dec x 0) as [Neg|Pos].
    - assert (E : x mod 4294967296 = x + 4294967296) by (symmetry; apply Z.mod_unique with (-1); lia).
      rewrite E. destruct (Z.leb_spec 2147483648 (x + 4294967296)); lia.
    - rewrite Z.mod_small by lia. destruct (Z.leb_spec 2147483648 x); lia. }
  cbn [load_int OP_LONG1]. rewrite Z.eqb_refl, decode_encode_long. reflexivity.
Qed.

Lemma nbytes_128 t : - 2 ^ 127 <= t < 2 ^ 127 -> nbytes t < 256.
Proof.
  intro H. unfold nbytes. destruct (t =? 0); [lia|].
  assert (B : forall y, 0 <= y < 2 ^ 127 -> bitlen y / 8 + 1 < 256).
  { intros y Hy. unfold bitlen. destruct (Z.leb_spec y 0); [simpl; lia|].
    assert (Z.log2 y < 127) by (apply Z.log2_lt_pow2; lia). pose proof (Z.log2_nonneg y).
    assert (0 <= (Z.log2 y + 1) / 8 <= 16) by (split; [apply Z.div_pos; lia | apply Z.div_le_upper_bound; lia]). lia. }
  destruct (t <? 0) eqn:N; apply B; [apply Z.ltb_lt in N | apply Z.ltb_ge in N]; lia.
Qed.

Lemma load_save_int_128 t : in128 t = true -> load_int (save_int t) = Some t.
Proof.
  intros H. apply load_save_int. apply nbytes_128.
  unfold in128, MIN128, MAX128 in H. apply andb_prop in H as [H1 H2]. apply Z.leb_le in H1, H2.
  change (2 ^ 127) with 170141183460469231731687303715884105728. lia.
Qed.
