(* Proofs/C04Proofs.v — dispatch-level facts about the conversion tables (same type, tz rules). *)
From Coq Require Import ZArith List Lia Bool.
From NV Require Import Common.Py Common.Trans Spec.TimeSpec Gen.BintimeGen Model.Convert Corr.C04Spec Corr.C04Model.
Open Scope Z_scope.

Lemma same_type_td f v : conv_td f f v = Ok v.
Proof. destruct f; reflexivity. Qed.

Lemma same_type_dtm f v tz fold : conv_dtm f f v tz fold = Ok (v, tz, fold).
Proof. destruct f; reflexivity. Qed.

Lemma to_bintime_refuses_non_utc src v tz fold :
  src <> Bt -> is_utc tz = false -> conv_dtm src Bt v tz fold = Raise ValueError.
Proof. intros Hs Ht. destruct src; try congruence; unfold conv_dtm; rewrite Ht; reflexivity. Qed.

Lemma from_bintime_is_utc dst v tz fold r tz' fold' :
  dst <> Bt -> conv_dtm Bt dst v tz fold = Ok (r, tz', fold') -> tz' = 1 /\ fold' = 0.
Proof.
  intros Hd. destruct dst; try congruence; unfold conv_dtm;
    destruct (conv_dtm_value _ _ _); cbn [bind]; intro H; try discriminate; inversion H; auto.
Qed.

Lemma dt_ht_keep_tz src dst v tz fold r tz' fold' :
  src <> Bt -> dst <> Bt -> conv_dtm src dst v tz fold = Ok (r, tz', fold') -> tz' = tz /\ fold' = fold.
Proof.
  intros Hs Hd. destruct src, dst; try congruence; unfold conv_dtm;
    try (destruct (conv_dtm_value _ _ _); cbn [bind]); intro H; try discriminate; inversion H; auto.
Qed.
