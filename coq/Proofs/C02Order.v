(* Proofs/C02Order.v — the (whole seconds, fractional ticks) tuple carries the tick value without loss
   and in order: to_tuple is injective, and the lexicographic order of tuples is the order of ticks. *)
From Coq Require Import ZArith List Lia Bool.
From NV Require Import Common.Py Common.Trans Spec.TimeSpec Gen.BintimeGen Proofs.Bits Proofs.C02Proofs.
Open Scope Z_scope.

Lemma to_tuple_injective t u : td_to_tuple t = td_to_tuple u -> t = u.
Proof.
  rewrite !td_to_tuple_spec. unfold spec_to_tuple. intro H. injection H as Hw Hf.
  assert (T64 <> 0) as Hn by (unfold T64; lia).
  rewrite (Z.div_mod t T64 Hn), (Z.div_mod u T64 Hn), Hw, Hf. reflexivity.
Qed.

Definition tuple_ltb (p q : Z * Z) : bool :=
  (fst p <? fst q) || ((fst p =? fst q) && (snd p <? snd q)).

Lemma to_tuple_order t u : tuple_ltb (td_to_tuple t) (td_to_tuple u) = (t <? u).
Proof.
  rewrite !td_to_tuple_spec. unfold tuple_ltb, spec_to_tuple. cbn [fst snd].
  assert (T64 <> 0) as Hn by (unfold T64; lia).
  pose proof (Z.div_mod t T64 Hn) as Ht. pose proof (Z.div_mod u T64 Hn) as Hu.
  assert (0 <= t mod T64 < T64) as Bt by (apply Z.mod_pos_bound; unfold T64; lia).
  assert (0 <= u mod T64 < T64) as Bu by (apply Z.mod_pos_bound; unfold T64; lia).
  unfold T64 in *.
  set (tw := t / 18446744073709551616) in *. set (tf := t mod 18446744073709551616) in *.
  set (uw := u / 18446744073709551616) in *. set (uf := u mod 18446744073709551616) in *.
  destruct (Z.ltb_spec tw uw); destruct (Z.eqb_spec tw uw); destruct (Z.ltb_spec tf uf);
    destruct (Z.ltb_spec t u); cbn [orb andb]; try reflexivity; lia.
Qed.

Lemma to_tuple_eq_iff t u : (td_to_tuple t = td_to_tuple u) <-> t = u.
Proof. split; [apply to_tuple_injective | intros ->; reflexivity]. Qed.

(* from_tuple is monotone in the same sense on the tuples it accepts *)
Lemma from_tuple_order w1 f1 w2 f2 t1 t2 :
  td_from_tuple w1 f1 = Ok t1 -> td_from_tuple w2 f2 = Ok t2 ->
  (t1 <? t2) = tuple_ltb (w1, f1) (w2, f2).
Proof.
  intros H1 H2. rewrite <- to_tuple_order.
  rewrite (to_from_tuple _ _ _ H1), (to_from_tuple _ _ _ H2). reflexivity.
Qed.
