(* Proofs/C17Proofs.v — the array class (NumPy-based branches, mixins) refines the Python list spec. *)
From Coq Require Import ZArith List Lia Bool.
From NV Require Import Common.Py Spec.ListSpec Model.TimeArray Proofs.ListLemmas.
Open Scope Z_scope.

Lemma all_elems_map vs : all_elems (map VElem vs) = Some vs.
Proof.
  unfold all_elems. induction vs as [|v vs IH]; [reflexivity|].
  cbn [map fold_right]. rewrite IH. reflexivity.
Qed.

(* slice.indices with a positive step gives bounds inside [0, len] *)
Lemma slice_indices_pos a b c n s e k :
  0 <= n -> slice_indices a b c n = Ok (s, e, k) -> k <> 0 /\ (0 < k -> 0 <= s <= n /\ 0 <= e <= n).
Proof.
  intros Hn. unfold slice_indices.
  set (k0 := match c with Some k1 => k1 | None => 1 end).
  destruct (Z.eqb_spec k0 0) as [|Hk]; [discriminate|].
  intro H. inversion H; subst k. clear H. split; [exact Hk|]. intro Hpos.
  destruct (Z.ltb_spec k0 0); [lia|].
  split.
  - destruct a as [v|]; [destruct (Z.ltb_spec v 0); lia | lia].
  - destruct b as [v|]; [destruct (Z.ltb_spec v 0); lia | lia].
Qed.

Lemma range_len_1 s e : range_len s e 1 = Z.max 0 (e - s).
Proof.
  unfold range_len. cbn [Z.ltb Z.compare]. destruct (Z.ltb_spec s e).
  - rewrite Z.div_1_r. lia.
  - lia.
Qed.

Lemma range_len_nonneg s e k : 0 <= range_len s e k.
Proof.
  unfold range_len. destruct (Z.ltb_spec 0 k).
  - destruct (Z.ltb_spec s e); [|lia]. assert (0 <= (e - s - 1) / k) by (apply Z.div_pos; lia). lia.
  - destruct (Z.ltb_spec e s); [|lia].
    destruct (Z.eq_dec k 0) as [->|]; [cbn; rewrite Zdiv_0_r; lia|].
    assert (0 <= (s - e - 1) / - k) by (apply Z.div_pos; lia). lia.
Qed.

Lemma len_positions s e k : len (positions s e k) = range_len s e k.
Proof. unfold positions, len. rewrite range_from_length. rewrite Z2Nat.id by apply range_len_nonneg. reflexivity. Qed.

(* the three branches, on naturals *)
Lemma shrink_core (l vs : list Z) (s e : nat) :
  (s <= length l)%nat -> (e <= length l)%nat -> (s + length vs < e)%nat ->
  let l1 := firstn s l ++ vs ++ skipn (s + length vs) l in
  firstn (s + length vs) l1 ++ skipn e l1 = firstn s l ++ vs ++ skipn e l.
Proof.
  intros Hs He Hn l1. unfold l1.
  rewrite app_assoc.
  assert (L : length (firstn s l ++ vs) = (s + length vs)%nat) by (rewrite app_length, len_firstn by lia; reflexivity).
  rewrite firstn_app_l by (symmetry; exact L).
  rewrite skipn_app_ge by lia. rewrite L. rewrite skipn_skipn.
  replace (e - (s + length vs) + (s + length vs))%nat with e by lia.
  rewrite <- app_assoc. reflexivity.
Qed.

Lemma grow_core (l vs : list Z) (s e : nat) :
  (s <= length l)%nat -> (e <= length l)%nat -> (e - s < length vs)%nat ->
  let sel := (e - s)%nat in
  let l1 := firstn s l ++ firstn sel vs ++ skipn (s + sel) l in
  firstn (s + sel) l1 ++ skipn sel vs ++ skipn (s + sel) l1 = firstn s l ++ vs ++ skipn (Nat.max s e) l.
Proof.
  intros Hs He Hn sel l1. unfold l1.
  replace (firstn s l ++ firstn sel vs ++ skipn (s + sel) l)
    with ((firstn s l ++ firstn sel vs) ++ skipn (s + sel) l) by (rewrite <- app_assoc; reflexivity).
  assert (L : length (firstn s l ++ firstn sel vs) = (s + sel)%nat)
    by (rewrite app_length, !len_firstn by (unfold sel; lia); reflexivity).
  rewrite firstn_app_l by (symmetry; exact L).
  rewrite skipn_app_l by (symmetry; exact L).
  rewrite <- app_assoc. f_equal.
  rewrite app_assoc, firstn_skipn. f_equal. f_equal. unfold sel. lia.
Qed.

Lemma Z2Nat_add a b : 0 <= a -> 0 <= b -> Z.to_nat (a + b) = (Z.to_nat a + Z.to_nat b)%nat.
Proof. intros. lia. Qed.

(* the class's slice assignment = list slice assignment, for every slice and replacement length *)
Theorem setslice_refines l a b c vs : a_setslice_values l a b c vs = l_setslice l a b c vs.
Proof.
  unfold a_setslice_values, l_setslice.
  destruct (slice_indices a b c (len l)) as [[[s e] k]|err] eqn:ES; [|reflexivity]. cbn [bind].
  pose proof (slice_indices_pos a b c (len l) s e k (len_nonneg l) ES) as [Hk Hb].
  destruct (Z.eqb_spec k 1) as [->|Hk1].
  - (* step 1 *)
    destruct (Hb ltac:(lia)) as [Hs He]. cbn [negb andb].
    rewrite range_len_1.
    set (n := len vs). assert (Hn : n = Z.of_nat (length vs)) by reflexivity.
    unfold len in Hs, He.
    destruct (Z.ltb_spec n (Z.max 0 (e - s))) as [Hlt|Hge].
    + (* shrink *)
      unfold np_assign_range. replace (Z.max 0 (s + n - s)) with n by lia.
      fold n. rewrite Z.eqb_refl. cbn [bind]. unfold np_delete_range.
      destruct (Z.ltb_spec (s + n) e); [|lia]. f_equal.
      rewrite !Z2Nat_add by lia. replace (Z.to_nat n) with (length vs) by lia.
      pose proof (shrink_core l vs (Z.to_nat s) (Z.to_nat e) ltac:(lia) ltac:(lia) ltac:(lia)) as C.
      cbn zeta in C. rewrite C. f_equal. f_equal. f_equal. lia.
    + destruct (Z.ltb_spec (Z.max 0 (e - s)) n) as [Hgt|Hle].
      * (* grow *)
        unfold np_assign_range. replace (Z.max 0 (e - s)) with (Z.of_nat (Z.to_nat e - Z.to_nat s)) in * by lia.
        set (sel := (Z.to_nat e - Z.to_nat s)%nat) in *.
        rewrite Nat2Z.id.
        assert (Lf : len (firstn sel vs) = Z.of_nat sel) by (unfold len; rewrite len_firstn by lia; reflexivity).
        rewrite Lf, Z.eqb_refl. cbn [bind]. unfold np_insert. f_equal.
        rewrite !Z2Nat_add by lia. rewrite Nat2Z.id.
        pose proof (grow_core l vs (Z.to_nat s) (Z.to_nat e) ltac:(lia) ltac:(lia) ltac:(fold sel; lia)) as C.
        cbn zeta in C. fold sel in C. rewrite C. f_equal. f_equal. f_equal. lia.
      * (* same length *)
        unfold np_assign_strided. rewrite len_positions, range_len_1.
        assert (En : n = Z.max 0 (e - s)) by lia. fold n. rewrite <- En, Z.eqb_refl. f_equal.
        unfold positions. rewrite range_len_1, <- En.
        replace (Z.to_nat n) with (length vs) by lia.
        replace s with (Z.of_nat (Z.to_nat s)) at 1 by lia.
        rewrite set_positions_consecutive by lia.
        f_equal. f_equal. f_equal. lia.
  - (* extended slice: lengths must agree *)
    destruct (Z.eqb_spec k 1); [contradiction|]. cbn [negb andb].
    destruct (Z.eqb_spec (len vs) (range_len s e k)) as [E|NE]; cbn [negb].
    + rewrite E. rewrite !Z.ltb_irrefl. unfold np_assign_strided.
      rewrite len_positions, <- E, Z.eqb_refl. reflexivity.
    + reflexivity.
Qed.

Lemma insert_refines l i t : a_insert l (Some i) (VElem t) = Ok (l_insert l i t).
Proof.
  unfold a_insert, l_insert, np_insert. f_equal.
  pose proof (len_nonneg l) as Hn. set (n := len l) in *.
  assert (E : (if Z.min (Z.max i (- n)) n <? 0 then Z.min (Z.max i (- n)) n + n else Z.min (Z.max i (- n)) n)
              = (if i <? 0 then Z.max (i + n) 0 else Z.min i n)).
  { destruct (Z.ltb_spec (Z.min (Z.max i (- n)) n) 0); destruct (Z.ltb_spec i 0); lia. }
  rewrite E. reflexivity.
Qed.

Lemma append_refines l t : a_insert l (Some (len l)) (VElem t) = Ok (l ++ [t]).
Proof.
  rewrite insert_refines. f_equal. unfold l_insert.
  pose proof (len_nonneg l). destruct (Z.ltb_spec (len l) 0); [lia|].
  rewrite Z.min_id. unfold len. rewrite Nat2Z.id, firstn_all, skipn_all. reflexivity.
Qed.

Lemma pop_refines l i : a_pop l i = l_pop 0 l i.
Proof.
  unfold a_pop, l_pop, a_getitem_int, l_getitem, a_delitem, l_delitem.
  destruct (norm_index i (len l)); reflexivity.
Qed.

Lemma find_from_bound l v : forall i j, find_from Z.eqb l v i = Some j -> (i <= j < i + length l)%nat.
Proof.
  induction l as [|x l IH]; intros i j H; [discriminate|].
  cbn [find_from] in H. destruct (x =? v).
  - inversion H. cbn. lia.
  - apply IH in H. cbn. lia.
Qed.

Lemma norm_index_nat j n : (j < n)%nat -> norm_index (Z.of_nat j) (Z.of_nat n) = Ok j.
Proof.
  intro H. unfold norm_index.
  destruct (Z.ltb_spec (Z.of_nat j) 0); [lia|].
  destruct (Z.ltb_spec (Z.of_nat j) 0); [lia|]. cbn [orb].
  destruct (Z.leb_spec (Z.of_nat n) (Z.of_nat j)); [lia|]. rewrite Nat2Z.id. reflexivity.
Qed.

Lemma remove_refines l t :
  (match l_index l t with Ok i => a_delitem l (IInt i) | Raise e => Raise e end) = l_remove l t.
Proof.
  unfold l_index, l_remove. destruct (find_from Z.eqb l t 0) as [j|] eqn:E; [|reflexivity].
  apply find_from_bound in E. unfold a_delitem, l_delitem, len.
  rewrite norm_index_nat by lia. reflexivity.
Qed.

(* clear: pop() until the array is empty *)
Lemma pop_last_length l : l <> [] -> exists v l', a_pop l (-1) = Ok (v, l') /\ length l' = (length l - 1)%nat.
Proof.
  intro H. rewrite pop_refines. unfold l_pop, norm_index, len.
  assert (0 < length l)%nat by (destruct l; [contradiction| cbn; lia]).
  destruct (Z.ltb_spec (-1) 0); [|lia].
  destruct (Z.ltb_spec (-1 + Z.of_nat (length l)) 0); [lia|]. cbn [orb].
  destruct (Z.leb_spec (Z.of_nat (length l)) (-1 + Z.of_nat (length l))); [lia|]. cbn [bind].
  eexists; eexists; split; [reflexivity|].
  rewrite del_nth_split, app_length, firstn_length, skipn_length. lia.
Qed.

Lemma clear_refines : forall fuel l, (length l < fuel)%nat -> a_clear fuel l = [].
Proof.
  induction fuel as [|f IH]; intros l H; [lia|].
  cbn [a_clear]. destruct l as [|x l].
  - reflexivity.
  - destruct (pop_last_length (x :: l) ltac:(discriminate)) as (v & l' & E & L).
    rewrite E. apply IH. cbn [length] in *. lia.
Qed.

(* every operation except reverse(): the class computes what the list computes, fails where it fails,
   and leaves the content unchanged whenever it raises *)
Theorem step_refines l op : op <> OReverse -> step l op = spec_step l op.
Proof.
  intro Hop.
  destruct op as [i | i v | a b c vs | i | i v | v | vs | vs | i bad | v | | | v | v | | | other | v s0 e0 | k t]; cbn [step spec_step].
  - (* get *) destruct i; reflexivity.
  - (* set *) destruct i as [i| |]; destruct v; reflexivity.
  - (* setslice *)
    unfold a_setitem_slice. destruct vs as [items| | |]; try reflexivity.
    + destruct (all_elems items); [rewrite setslice_refines; reflexivity|reflexivity].
    + rewrite setslice_refines. reflexivity.
  - (* del *) destruct i; reflexivity.
  - (* insert *)
    destruct i as [i|]; destruct v as [t|]; try reflexivity. rewrite insert_refines. reflexivity.
  - (* append *) destruct v as [t|]; [rewrite append_refines; reflexivity|reflexivity].
  - (* extend *) unfold a_extend. destruct vs as [items| | |]; try reflexivity. destruct (all_elems items); reflexivity.
  - (* iadd *) unfold a_extend. destruct vs as [items| | |]; try reflexivity. destruct (all_elems items); reflexivity.
  - (* pop *) destruct bad; [reflexivity|]. rewrite pop_refines. reflexivity.
  - (* remove *)
    destruct v as [t|]; [|reflexivity]. rewrite <- remove_refines.
    destruct (l_index l t); reflexivity.
  - (* reverse *) contradiction.
  - (* clear *) rewrite clear_refines by lia. reflexivity.
  - (* index *) destruct v; reflexivity.
  - (* count *) destruct v; reflexivity.
  - reflexivity.
  - reflexivity.
  - (* == *) reflexivity.
  - (* index with bounds *) reflexivity.
  - (* iteration with an append under way *) reflexivity.
Qed.

(* C07 for the arrays: a raising call leaves the content exactly as it was *)
Theorem step_raise_unchanged l op e l' : step l op = (Raise e, l') -> l' = l.
Proof.
  destruct op; cbn [step]; intro H;
  repeat match goal with
  | H : (match ?x with _ => _ end) = _ |- _ => destruct x eqn:?
  | H : (if ?x then _ else _) = _ |- _ => destruct x eqn:?
  end; inversion H; subst; try reflexivity.
Qed.
