(* Proofs/ListLemmas.v — firstn/skipn/app facts used by the list-refinement proofs. *)
From Coq Require Import ZArith List Lia Bool.
From NV Require Import Common.Py Spec.ListSpec.
Open Scope Z_scope.

Lemma skipn_skipn {A} (a b : nat) (l : list A) : skipn a (skipn b l) = skipn (a + b) l.
Proof.
  revert l; induction b as [|b IH]; intro l.
  - rewrite Nat.add_0_r. reflexivity.
  - destruct l as [|x l]; [rewrite !skipn_nil; reflexivity|].
    rewrite Nat.add_succ_r. cbn [skipn]. apply IH.
Qed.

Lemma firstn_app_l {A} (n : nat) (l1 l2 : list A) : n = length l1 -> firstn n (l1 ++ l2) = l1.
Proof. intros ->. rewrite firstn_app, Nat.sub_diag, firstn_all. cbn. apply app_nil_r. Qed.

Lemma skipn_app_l {A} (n : nat) (l1 l2 : list A) : n = length l1 -> skipn n (l1 ++ l2) = l2.
Proof. intros ->. rewrite skipn_app, Nat.sub_diag, skipn_all. reflexivity. Qed.

Lemma skipn_app_ge {A} (n : nat) (l1 l2 : list A) : (length l1 <= n)%nat -> skipn n (l1 ++ l2) = skipn (n - length l1) l2.
Proof. intro H. rewrite skipn_app. rewrite (skipn_all2 l1) by lia. reflexivity. Qed.

Lemma len_app {A} (l1 l2 : list A) : len (l1 ++ l2) = len l1 + len l2.
Proof. unfold len. rewrite app_length. lia. Qed.
Lemma len_nonneg {A} (l : list A) : 0 <= len l.
Proof. unfold len. lia. Qed.
Lemma len_firstn {A} (n : nat) (l : list A) : (n <= length l)%nat -> length (firstn n l) = n.
Proof. intro H. rewrite firstn_length. lia. Qed.

(* set_nth / del_nth in terms of firstn / skipn *)
Lemma set_nth_split {A} (l : list A) (i : nat) (v : A) : (i < length l)%nat ->
  set_nth l i v = firstn i l ++ v :: skipn (S i) l.
Proof.
  revert i; induction l as [|x l IH]; intros i H; [cbn in H; lia|].
  destruct i as [|i]; [reflexivity|]. cbn [set_nth firstn skipn app]. f_equal. apply IH. cbn in H. lia.
Qed.
Lemma del_nth_split {A} (l : list A) (i : nat) : del_nth l i = firstn i l ++ skipn (S i) l.
Proof.
  revert i; induction l as [|x l IH]; intros i; [destruct i; reflexivity|].
  destruct i as [|i]; [reflexivity|]. cbn [del_nth firstn skipn app]. f_equal. apply IH.
Qed.
Lemma set_nth_length {A} (l : list A) i v : length (set_nth l i v) = length l.
Proof. revert i; induction l as [|x l IH]; intro i; [reflexivity|]. destruct i; cbn; [reflexivity|]. f_equal. apply IH. Qed.

(* assigning consecutive positions s, s+1, ... *)
Lemma range_from_length s k n : length (range_from s k n) = n.
Proof. revert s; induction n as [|n IH]; intro s; [reflexivity|]. cbn. f_equal. apply IH. Qed.

Lemma set_positions_consecutive (l : list Z) (vs : list Z) : forall (s : nat),
  (s + length vs <= length l)%nat ->
  set_positions l (range_from (Z.of_nat s) 1 (length vs)) vs = firstn s l ++ vs ++ skipn (s + length vs) l.
Proof.
  revert l. induction vs as [|v vs IH]; intros l s H.
  - cbn. rewrite Nat.add_0_r. symmetry. apply firstn_skipn.
  - cbn [length range_from set_positions]. rewrite Nat2Z.id.
    replace (Z.of_nat s + 1) with (Z.of_nat (S s)) by lia.
    cbn [length] in H.
    rewrite IH by (rewrite set_nth_length; lia).
    rewrite set_nth_split by lia.
    assert (E : firstn s l ++ v :: skipn (S s) l = (firstn s l ++ [v]) ++ skipn (S s) l)
      by (rewrite <- app_assoc; reflexivity).
    rewrite E.
    assert (L : length (firstn s l ++ [v]) = S s) by (rewrite app_length, len_firstn by lia; cbn; lia).
    rewrite firstn_app_l by (symmetry; exact L).
    rewrite skipn_app_ge by lia. rewrite L.
    replace (S s + length vs - S s)%nat with (length vs) by lia.
    rewrite skipn_skipn. rewrite <- app_assoc. cbn [app]. f_equal. f_equal. f_equal. f_equal. lia.
Qed.
