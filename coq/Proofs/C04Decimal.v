(* Proofs/C04Decimal.v — TimeDelta(x.precision_total_seconds()) == x, given what the decimal module
   guarantees for its two operations at 64 significant digits.
     q = Decimal(frac) / Decimal(2^64)      0 <= frac/2^64 < 1   =>  |q - frac/2^64|   <= 10^-64 / 2
     D = Decimal(whole) + q                 |whole + q| < 10^19  =>  |D - (whole + q)| <= 10^-45 / 2
   (correct rounding to 64 significant digits; the decimal module is outside /repo).  Rationals are
   numerator/denominator pairs over Z. *)
From Coq Require Import ZArith Lia.
From NV Require Import Common.Py Common.Trans Spec.TimeSpec Gen.BintimeGen Model.Convert Proofs.ConvertProofs.
Open Scope Z_scope.

Theorem precision_roundtrip t nq dq nD dD :
  in128 t = true -> 0 < dq -> 0 < dD ->
  (* the quotient: within half a unit of the 64th fractional digit *)
  2 * 10 ^ 64 * Z.abs (nq * T64 - (t mod T64) * dq) <= dq * T64 ->
  (* the sum: within half a unit of the 45th fractional digit *)
  2 * 10 ^ 45 * Z.abs (nD * dq - ((t / T64) * dq + nq) * dD) <= dD * dq ->
  ctor_rat nD dD = Ok t.
Proof.
  intros Hr Hdq HdD H1 H2. apply ctor_rat_roundtrip; [exact HdD|exact Hr|].
  set (w := t / T64) in *. set (fr := t mod T64) in *.
  assert (Ht : t = w * T64 + fr) by (unfold w, fr; rewrite Z.mul_comm; apply Z.div_mod; unfold T64; lia).
  set (X := nD * dq - (w * dq + nq) * dD) in *. set (Y := nq * T64 - fr * dq) in *.
  set (A := nD * T64 - t * dD).
  assert (EA : A * dq = T64 * X + dD * Y) by (unfold A, X, Y; rewrite Ht; ring).
  assert (T : T64 = 18446744073709551616) by reflexivity.
  assert (P45 : 10 ^ 45 = 1000000000000000000000000000000000000000000000) by reflexivity.
  assert (P64 : 10 ^ 64 = 10000000000000000000000000000000000000000000000000000000000000000) by reflexivity.
  (* |A| dq <= T64 |X| + dD |Y| *)
  assert (B : Z.abs A * dq <= T64 * Z.abs X + dD * Z.abs Y).
  { rewrite <- (Z.abs_eq dq) at 1 by lia. rewrite <- Z.abs_mul, EA.
    eapply Z.le_trans; [apply Z.abs_triangle|]. rewrite !Z.abs_mul, (Z.abs_eq T64), (Z.abs_eq dD) by (try lia; rewrite T; lia). lia. }
  (* scale by 2 * 10^64 and use the two hypotheses *)
  assert (C : 2 * 10 ^ 64 * (Z.abs A * dq) <= dD * dq * T64 * (10 ^ 19 + 1)).
  { replace (10 ^ 64) with (10 ^ 19 * 10 ^ 45) in * by reflexivity.
    assert (C1 : 2 * (10 ^ 19 * 10 ^ 45) * (T64 * Z.abs X) <= T64 * 10 ^ 19 * (dD * dq)) by (rewrite T in *; nia).
    assert (C2 : 2 * (10 ^ 19 * 10 ^ 45) * (dD * Z.abs Y) <= dD * (dq * T64)) by nia.
    nia. }
  (* divide by dq > 0 *)
  assert (D : 2 * 10 ^ 64 * Z.abs A <= dD * T64 * (10 ^ 19 + 1)).
  { apply Z.mul_le_mono_pos_r with (p := dq); [exact Hdq|]. lia. }
  fold A. rewrite T, P64 in D. change (10 ^ 19) with 10000000000000000000 in D. lia.
Qed.
