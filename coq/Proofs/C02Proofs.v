(* Proofs/C02Proofs.v — the generated tick functions against Spec/TimeSpec.v, for every integer. *)
From Coq Require Import ZArith List Lia Bool.
From NV Require Import Common.Py Common.Trans Spec.TimeSpec Gen.BintimeGen Model.Cvi Proofs.Bits.
Open Scope Z_scope.

(* normalise a goal about generated code: constants to literals, bit operations to div/mod *)
Ltac bt_norm :=
  autorewrite with pyconst in *;
  repeat rewrite ?shiftr64, ?shiftl64, ?land_mask64 in *.

Lemma in128_iff t : in128 t = true <-> MIN128 <= t <= MAX128.
Proof. unfold in128. rewrite andb_true_iff, !Z.leb_le. tauto. Qed.
Lemma in64s_iff t : in64s t = true <-> MIN64 <= t <= MAX64.
Proof. unfold in64s. rewrite andb_true_iff, !Z.leb_le. tauto. Qed.
Lemma in64u_iff t : in64u t = true <-> 0 <= t <= UMAX64.
Proof. unfold in64u. rewrite andb_true_iff, !Z.leb_le. tauto. Qed.

Lemma td_from_ticks_spec t : td_from_ticks t = spec_from_ticks t.
Proof.
  unfold td_from_ticks, spec_from_ticks, in128, MIN128, MAX128. bt_norm.
  destruct ((_ <=? t) && (t <=? _)); reflexivity.
Qed.

Lemma td_init_spec t : td_init t = spec_from_ticks t.
Proof.
  unfold td_init, spec_from_ticks, in128, MIN128, MAX128. bt_norm.
  destruct ((_ <=? t) && (t <=? _)); reflexivity.
Qed.

Lemma td_to_tuple_spec t : td_to_tuple t = spec_to_tuple t.
Proof. unfold td_to_tuple, spec_to_tuple. bt_norm. reflexivity. Qed.

Lemma to_tuple_decomp t :
  let '(w, f) := spec_to_tuple t in t = w * T64 + f /\ 0 <= f < T64.
Proof.
  unfold spec_to_tuple, T64. split.
  - pose proof (Z.div_mod t 18446744073709551616). lia.
  - apply Z.mod_pos_bound. lia.
Qed.

Lemma to_tuple_range t :
  in128 t = true -> MIN64 <= fst (spec_to_tuple t) <= MAX64.
Proof.
  rewrite in128_iff. unfold MIN128, MAX128, MIN64, MAX64, spec_to_tuple, T64. cbn [fst]. intros H.
  pose proof (Z.div_mod t 18446744073709551616).
  pose proof (Z.mod_pos_bound t 18446744073709551616). lia.
Qed.

Lemma td_from_tuple_spec w f : td_from_tuple w f = spec_from_tuple w f.
Proof.
  unfold td_from_tuple, spec_from_tuple, in64s, in64u, MIN64, MAX64, UMAX64, spec_of_tuple.
  autorewrite with pyconst.
  destruct (Z.leb_spec (-9223372036854775808) w); destruct (Z.leb_spec w 9223372036854775807);
    cbn [andb negb]; try reflexivity.
  destruct (Z.leb_spec 0 f); destruct (Z.leb_spec f 18446744073709551615);
    cbn [andb negb]; try reflexivity.
  rewrite lor64 by (unfold T64; lia).
  rewrite td_from_ticks_spec. unfold spec_from_ticks.
  assert (Hr : in128 (w * T64 + f) = true).
  { apply in128_iff. unfold MIN128, MAX128, T64. lia. }
  rewrite Hr. reflexivity.
Qed.

(* round trips *)
Lemma from_to_tuple t :
  in128 t = true -> let '(w, f) := td_to_tuple t in td_from_tuple w f = Ok t.
Proof.
  intro H. rewrite td_to_tuple_spec. pose proof (to_tuple_decomp t) as D.
  pose proof (to_tuple_range t H) as R. unfold spec_to_tuple in *. cbn [fst] in R.
  rewrite td_from_tuple_spec. unfold spec_from_tuple.
  destruct D as [D1 D2].
  assert (in64s (t / T64) = true) as -> by (apply in64s_iff; exact R).
  assert (in64u (t mod T64) = true) as -> by (apply in64u_iff; unfold UMAX64, T64 in *; lia).
  cbn [andb]. unfold spec_of_tuple. f_equal. lia.
Qed.

Lemma to_from_tuple w f t : td_from_tuple w f = Ok t -> td_to_tuple t = (w, f).
Proof.
  rewrite td_from_tuple_spec, td_to_tuple_spec. unfold spec_from_tuple, spec_to_tuple.
  destruct (in64s w && in64u f) eqn:E; [|discriminate].
  intro H. injection H as <-. apply andb_true_iff in E. destruct E as [_ E].
  apply in64u_iff in E. unfold spec_of_tuple, UMAX64, T64 in *.
  f_equal.
  - symmetry. apply (Z.div_unique _ _ _ f); lia.
  - symmetry. apply (Z.mod_unique _ _ w); lia.
Qed.

Lemma from_ticks_reject t : td_from_ticks t = Raise OverflowError <-> ~ (MIN128 <= t <= MAX128).
Proof.
  rewrite td_from_ticks_spec. unfold spec_from_ticks. rewrite <- in128_iff.
  destruct (in128 t); split; intro H.
  - discriminate.
  - exfalso; apply H; reflexivity.
  - discriminate.
  - reflexivity.
Qed.

Lemma from_ticks_accept t : td_from_ticks t = Ok t <-> MIN128 <= t <= MAX128.
Proof.
  rewrite td_from_ticks_spec. unfold spec_from_ticks. rewrite <- in128_iff.
  destruct (in128 t); split; intro H; try reflexivity; discriminate.
Qed.

Lemma from_ticks_total t : td_from_ticks t = Ok t \/ td_from_ticks t = Raise OverflowError.
Proof. rewrite td_from_ticks_spec. unfold spec_from_ticks. destruct (in128 t); auto. Qed.

Lemma from_tuple_reject w f :
  td_from_tuple w f = Raise OverflowError <-> ~ (MIN64 <= w <= MAX64 /\ 0 <= f <= UMAX64).
Proof.
  rewrite td_from_tuple_spec. unfold spec_from_tuple. rewrite <- in64s_iff, <- in64u_iff, <- andb_true_iff.
  destruct (in64s w && in64u f); split; intro H.
  - discriminate.
  - exfalso; apply H; reflexivity.
  - discriminate.
  - reflexivity.
Qed.

(* the CVI record *)

Lemma le_bytes_mod n v : le_bytes n (v mod 256 ^ Z.of_nat n) = le_bytes n v.
Proof.
  revert v. induction n as [|n IH]; intro v; [reflexivity|].
  cbn [le_bytes]. rewrite Nat2Z.inj_succ, Z.pow_succ_r by lia.
  assert (0 < 256 ^ Z.of_nat n) by (apply Z.pow_pos_nonneg; lia).
  rewrite Z.rem_mul_r by lia. f_equal.
  - rewrite Z.mul_comm, Z.mod_add by lia. apply Z.mod_mod. lia.
  - rewrite <- (IH (v / 256)). f_equal.
    rewrite Z.mul_comm, Z.div_add by lia.
    rewrite (Z.div_small (v mod 256) 256) by (apply Z.mod_pos_bound; lia). reflexivity.
Qed.

Lemma enc_elem_layout t : enc_elem t = spec_record t.
Proof.
  unfold enc_elem, spec_record. rewrite td_to_tuple_spec. unfold spec_to_tuple, tv_to_cvi.
  f_equal. symmetry. apply (le_bytes_mod 8).
Qed.

Lemma enc_elem_length t : length (enc_elem t) = 16%nat.
Proof. rewrite enc_elem_layout. unfold spec_record. rewrite app_length, !le_bytes_length. reflexivity. Qed.

Lemma dec_enc_elem t : in128 t = true -> dec_elem (enc_elem t) = Ok t.
Proof.
  intro H. rewrite enc_elem_layout. unfold dec_elem, spec_record, tv_from_cvi.
  rewrite firstn_app_exact, skipn_app_exact by apply le_bytes_length.
  pose proof (to_tuple_decomp t) as [D1 D2]. pose proof (to_tuple_range t H) as R.
  unfold spec_to_tuple in *. cbn [fst] in R.
  rewrite !le_val_le_bytes8 by (apply Z.mod_pos_bound; unfold T64; lia).
  rewrite signed64_mod by exact R.
  pose proof (from_to_tuple t H) as F. rewrite td_to_tuple_spec in F. unfold spec_to_tuple in F. exact F.
Qed.

Lemma spec_of_record_record t : in128 t = true -> spec_of_record (spec_record t) = t.
Proof.
  intro H. unfold spec_of_record, spec_record.
  rewrite firstn_app_exact, skipn_app_exact by apply le_bytes_length.
  pose proof (to_tuple_decomp t) as [D1 D2]. pose proof (to_tuple_range t H) as R.
  unfold spec_to_tuple in *. cbn [fst] in R.
  rewrite !le_val_le_bytes8 by (apply Z.mod_pos_bound; unfold T64; lia).
  rewrite signed64_mod by exact R. unfold spec_of_tuple. lia.
Qed.

Lemma array_roundtrip l :
  forallb in128 l = true -> arr_to_list (arr_of_list l) = map Ok l.
Proof.
  unfold arr_to_list, arr_of_list. induction l as [|t l IH]; intro H; [reflexivity|].
  cbn [forallb] in H. apply andb_true_iff in H. destruct H as [Ht Hl].
  cbn [map]. rewrite dec_enc_elem by exact Ht. rewrite IH by exact Hl. reflexivity.
Qed.

Lemma pickle_roundtrip t : in128 t = true -> td_unpickle t = Ok t.
Proof. intro H. unfold td_unpickle. rewrite td_from_ticks_spec. unfold spec_from_ticks. rewrite H. reflexivity. Qed.

(* DateTime delegates to TimeDelta for every entry path *)
Lemma dt_from_ticks_spec t : dt_from_ticks t = spec_from_ticks t.
Proof. unfold dt_from_ticks. rewrite td_from_ticks_spec. destruct (spec_from_ticks t); reflexivity. Qed.
Lemma dt_from_tuple_spec w f : dt_from_tuple w f = spec_from_tuple w f.
Proof. unfold dt_from_tuple. rewrite td_from_tuple_spec. destruct (spec_from_tuple w f); reflexivity. Qed.
Lemma dt_from_offset_spec t : dt_from_offset t = t.
Proof. reflexivity. Qed.
Lemma dt_pickle_roundtrip t : in128 t = true -> dt_unpickle t = Ok t.
Proof. intro H. unfold dt_unpickle. rewrite dt_from_ticks_spec. unfold spec_from_ticks. rewrite H. reflexivity. Qed.
