(* Proofs/CalendarSweep.v — the two complete finite sweeps (vm_compute) used by CalendarProofs.v *)
From Coq Require Import ZArith List Lia Bool.
From NV Require Import Model.Calendar.
Open Scope Z_scope.

(* bounded universal quantification over 0 <= k < n by structural recursion on a nat counter *)
(* the counter k is a binary integer incremented at each step (linear time under vm_compute) *)
Fixpoint all_from (n : nat) (k : Z) (P : Z -> bool) : bool :=
  match n with O => true | S n' => P k && all_from n' (k + 1) P end.
Definition all_below (n : nat) (P : Z -> bool) : bool := all_from n 0 P.

Lemma all_from_spec n P : forall k0, all_from n k0 P = true -> forall k, k0 <= k < k0 + Z.of_nat n -> P k = true.
Proof.
  induction n as [|n IH]; intros k0 H k Hk; [lia|].
  cbn [all_from] in H. apply andb_true_iff in H. destruct H as [H1 H2].
  destruct (Z.eq_dec k k0) as [->|Hne]; [exact H1|]. apply (IH (k0 + 1)); [exact H2|lia].
Qed.

Lemma all_below_spec n P : all_below n P = true -> forall k, 0 <= k < Z.of_nat n -> P k = true.
Proof. intros H k Hk. apply (all_from_spec n P 0 H). lia. Qed.

Definition era_ok (doe : Z) : bool :=
  let '(yoe, mp, d) := civil_of_doe doe in
  (0 <=? yoe) && (yoe <=? 399) && (0 <=? mp) && (mp <=? 11) && (1 <=? d) && (d <=? 31)
  && (doe_of yoe mp d =? doe)
  (* the day is valid for its month in the shifted year; leap day only in leap years *)
  && (let m := if mp <? 10 then mp + 3 else mp - 9 in
      let y := if m <=? 2 then yoe + 1 else yoe in
      d <=? days_in_month y m).

Lemma era_sweep : all_below (Z.to_nat ERA) era_ok = true.
Proof. vm_compute. reflexivity. Qed.

Definition date_ok (k : Z) : bool :=
  let y := k / 372 in let m := (k mod 372) / 31 + 1 in let d := k mod 31 + 1 in
  if valid_date y m d then
    let z := days_of_civil y m d in
    let '(y', m', d') := civil_of_days z in (y' =? y) && (m' =? m) && (d' =? d)
  else true.

Lemma dates_sweep : all_below (Z.to_nat (400 * 372)) date_ok = true.
Proof. vm_compute. reflexivity. Qed.

