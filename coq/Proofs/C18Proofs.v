(* Proofs/C18Proofs.v — every element of a Vector is always an instance of its value type. *)
From Coq Require Import ZArith List Lia Bool.
From NV Require Import Common.Py Spec.ListSpec Model.Vector Proofs.ListLemmas.
Open Scope Z_scope.

Lemma Forall_firstn {A} (P : A -> Prop) n l : Forall P l -> Forall P (firstn n l).
Proof. revert n. induction l as [|x l IH]; intros n H; destruct n; cbn; auto. inversion H; subst. constructor; auto. Qed.
Lemma Forall_skipn {A} (P : A -> Prop) n l : Forall P l -> Forall P (skipn n l).
Proof. revert n. induction l as [|x l IH]; intros n H; destruct n; cbn; auto. inversion H; subst. auto. Qed.
Lemma Forall_set_nth {A} (P : A -> Prop) l i v : Forall P l -> P v -> Forall P (set_nth l i v).
Proof.
  revert i. induction l as [|x l IH]; intros i H Hv; [constructor|].
  inversion H; subst. destruct i; cbn; constructor; auto.
Qed.
Lemma Forall_del_nth {A} (P : A -> Prop) l i : Forall P l -> Forall P (del_nth l i).
Proof.
  revert i. induction l as [|x l IH]; intros i H; [destruct i; constructor|].
  inversion H; subst. destruct i; cbn; auto.
Qed.
Lemma Forall_set_positions {A} (P : A -> Prop) ps : forall l vs, Forall P l -> Forall P vs -> Forall P (set_positions l ps vs).
Proof.
  induction ps as [|p ps IH]; intros l vs Hl Hv; [destruct vs; exact Hl|].
  destruct vs as [|v vs]; [exact Hl|]. cbn [set_positions]. inversion Hv; subst.
  apply IH; [apply Forall_set_nth; assumption | assumption].
Qed.
Lemma Forall_keep {A} (P : A -> Prop) ps : forall l i, Forall P l -> Forall P (keep_unselected l i ps).
Proof.
  induction l as [|x l IH]; intros i H; [constructor|]. inversion H; subst. cbn [keep_unselected].
  destruct (existsb _ ps); [apply IH; assumption| constructor; [assumption| apply IH; assumption]].
Qed.

Lemma forallb_Forall {A} (f : A -> bool) l : forallb f l = true -> Forall (fun v => f v = true) l.
Proof. induction l as [|x l IH]; cbn; intro H; [constructor|]. apply andb_true_iff in H. destruct H. constructor; auto. Qed.

Lemma setslice_typed (P : sval -> Prop) l a b c vs l' :
  Forall P l -> Forall P vs -> l_setslice l a b c vs = Ok l' -> Forall P l'.
Proof.
  intros Hl Hv. unfold l_setslice. destruct (slice_indices a b c (len l)) as [[[s e] k]|]; [|discriminate]. cbn [bind].
  destruct (k =? 1).
  - intro H. inversion H. subst. apply Forall_app. split; [apply Forall_firstn; assumption|].
    apply Forall_app. split; [assumption | apply Forall_skipn; assumption].
  - destruct (len vs =? range_len s e k); [|discriminate]. intro H. inversion H. subst.
    apply Forall_set_positions; assumption.
Qed.

Lemma swap_loop_typed (P : sval -> Prop) : forall todo l i,
  (2 * (i + todo) <= length l)%nat -> Forall P l -> Forall P (v_swap_loop l i todo).
Proof.
  induction todo as [|todo IH]; intros l i Hb Hl; [exact Hl|].
  cbn [v_swap_loop].
  assert (Hi : (i < length l)%nat) by lia.
  assert (Hj : (length l - i - 1 < length l)%nat) by lia.
  assert (Hn : forall j, (j < length l)%nat -> P (nth j l sdefault))
    by (intros j Hjl; rewrite Forall_forall in Hl; apply Hl; apply nth_In; exact Hjl).
  apply IH.
  - rewrite !set_nth_length. lia.
  - apply Forall_set_nth; [apply Forall_set_nth|]; auto.
Qed.

Lemma insert_typed s i v s' : typed s -> v_insert s i v = Ok s' -> typed s'.
Proof.
  unfold typed, v_insert. intros H. destruct v as [x|]; [|discriminate].
  destruct (instance_of (vt s) x) eqn:E; cbn [negb]; [|discriminate].
  destruct i as [i|]; [|discriminate]. intro R. inversion R. subst. cbn [vt elems].
  unfold l_insert. apply Forall_app. split; [apply Forall_firstn; exact H|].
  constructor; [exact E | apply Forall_skipn; exact H].
Qed.

Lemma insert_vt s i v s' : v_insert s i v = Ok s' -> vt s' = vt s.
Proof.
  unfold v_insert. destruct v as [x|]; [|discriminate]. destruct (negb _); [discriminate|].
  destruct i; [|discriminate]. intro R. inversion R. reflexivity.
Qed.

Lemma extend_typed : forall items s r s', typed s -> v_extend_items s items = (r, s') -> typed s' /\ vt s' = vt s.
Proof.
  induction items as [|x rest IH]; intros s r s' H E.
  - cbn in E. inversion E. subst. auto.
  - cbn [v_extend_items] in E.
    destruct (v_insert s (Some (len (elems s))) (One x)) as [s1|e] eqn:EI.
    + pose proof (insert_typed _ _ _ _ H EI) as H1. pose proof (insert_vt _ _ _ _ EI) as V1.
      destruct (IH s1 r s' H1 E) as [T V]. split; [exact T | congruence].
    + inversion E. subst. auto.
Qed.

(* the constructor keeps exactly the iterable's items, and fixes the value type by the first item
   (or by value_type for an empty vector) *)
Theorem init_spec values value_type s :
  v_init values value_type = Ok s ->
  exists items, values = ItItems items /\ elems s = items /\ typed s /\
    match items with x :: _ => type_of x = Some (vt s) | [] => value_type = Some (vt s) end.
Proof.
  unfold v_init. destruct values as [items| | |]; try discriminate.
  destruct items as [|x rest].
  - destruct value_type as [t|]; [|discriminate]. intro H. inversion H. subst.
    exists []. repeat split. constructor.
  - destruct (type_of x) as [t|] eqn:Et; [|discriminate].
    destruct (forallb _ (x :: rest)) eqn:Ef; [|discriminate]. intro H. inversion H. subst.
    exists (x :: rest). repeat split; [|exact Et].
    unfold typed. cbn [vt elems]. apply forallb_Forall in Ef.
    eapply Forall_impl; [|exact Ef]. intros v Hv. cbn in Hv. destruct (type_of v); [exact Hv|discriminate].
Qed.

(* a wrong-typed first argument of the constructor / wrong-typed item is refused *)
Theorem init_rejects x rest value_type :
  existsb (fun v => negb (match type_of x with Some t => instance_of t v | None => false end)) (x :: rest) = true ->
  v_init (ItItems (x :: rest)) value_type = Raise TypeError.
Proof.
  unfold v_init. destruct (type_of x) as [t|] eqn:Et; [|reflexivity]. intro H.
  destruct (forallb _ (x :: rest)) eqn:Ef; [|reflexivity]. exfalso.
  rewrite forallb_forall in Ef. apply existsb_exists in H. destruct H as [v [Hin Hv]].
  specialize (Ef v Hin). destruct (type_of v); [rewrite Ef in Hv; discriminate|discriminate].
Qed.

(* invariant: after any operation every element is an instance of the (unchanged) value type *)
Theorem step_typed s op r s' : typed s -> v_step s op = (r, s') -> typed s' /\ vt s' = vt s.
Proof.
  intros H E. unfold typed in *.
  destruct op as [i | i v | a b c vs | i | i v | v | vs | vs | i | v | | | v | v | |]; cbn [v_step] in E.
  - destruct i; inversion E; subst; auto.
  - destruct i as [i| |]; destruct v as [x|]; try (inversion E; subst; auto; fail).
    destruct (instance_of (vt s) x) eqn:Ex; [|inversion E; subst; auto].
    unfold l_setitem in E. destruct (norm_index i (len (elems s))); cbn [bind] in E; inversion E; subst; auto.
    cbn [vt elems]. split; [apply Forall_set_nth; assumption | reflexivity].
  - destruct vs as [items| | |]; try (inversion E; subst; auto; fail).
    + destruct (forallb (instance_of (vt s)) items) eqn:Ef; [|inversion E; subst; auto].
      destruct (l_setslice (elems s) a b c items) as [l'|] eqn:El; inversion E; subst; auto.
      cbn [vt elems]. split; [|reflexivity]. eapply setslice_typed; [exact H| |exact El]. apply forallb_Forall. exact Ef.
    + destruct (l_setslice (elems s) a b c (elems s)) as [l'|] eqn:El; inversion E; subst; auto.
      cbn [vt elems]. split; [|reflexivity]. eapply setslice_typed; [exact H|exact H|exact El].
  - destruct i as [i|a b c|]; try (inversion E; subst; auto; fail).
    + unfold l_delitem in E. destruct (norm_index i (len (elems s))); cbn [bind] in E; inversion E; subst; auto.
      cbn [vt elems]. split; [apply Forall_del_nth; assumption | reflexivity].
    + unfold l_delslice in E. destruct (slice_indices a b c (len (elems s))) as [[[s0 e0] k0]|]; cbn [bind] in E; inversion E; subst; auto.
      cbn [vt elems]. split; [apply Forall_keep; assumption | reflexivity].
  - destruct (v_insert s i v) as [s1|] eqn:EI; inversion E; subst; auto.
    split; [eapply insert_typed; eauto | eapply insert_vt; eauto].
  - destruct (v_insert s (Some (len (elems s))) v) as [s1|] eqn:EI; inversion E; subst; auto.
    split; [eapply insert_typed; eauto | eapply insert_vt; eauto].
  - destruct vs as [items| | |]; try (inversion E; subst; auto; fail).
    + destruct (v_extend_items s items) as [r0 s0] eqn:EX. inversion E; subst. eapply extend_typed; eauto.
    + destruct (v_extend_items s (elems s)) as [r0 s0] eqn:EX. inversion E; subst. eapply extend_typed; eauto.
  - destruct vs as [items| | |]; try (inversion E; subst; auto; fail).
    + destruct (v_extend_items s items) as [r0 s0] eqn:EX. inversion E; subst. eapply extend_typed; eauto.
    + destruct (v_extend_items s (elems s)) as [r0 s0] eqn:EX. inversion E; subst. eapply extend_typed; eauto.
  - unfold l_pop in E. destruct (norm_index _ (len (elems s))); cbn [bind] in E; inversion E; subst; auto.
    cbn [vt elems]. split; [apply Forall_del_nth; assumption | reflexivity].
  - destruct (find_py (elems s) v); inversion E; subst; auto.
    cbn [vt elems]. split; [apply Forall_del_nth; assumption | reflexivity].
  - assert (Es : s' = {| vt := vt s; elems := v_swap_loop (elems s) 0 (Nat.div (length (elems s)) 2) |}) by congruence.
    subst s'. cbn [vt elems]. split; [|reflexivity].
    apply swap_loop_typed; [|exact H]. cbn [Nat.add]. apply Nat.mul_div_le. lia.
  - inversion E; subst. cbn [vt elems]. split; [constructor|reflexivity].
  - inversion E; subst; auto.
  - inversion E; subst; auto.
  - inversion E; subst; auto.
  - inversion E; subst; auto.
Qed.

(* every reachable state is typed: induction over the whole history *)
Theorem history_typed : forall ops s, typed s ->
  typed (fold_left (fun st op => snd (v_step st op)) ops s).
Proof.
  induction ops as [|op ops IH]; intros s H; [exact H|].
  cbn [fold_left]. apply IH.
  destruct (v_step s op) as [r s'] eqn:E. cbn [snd]. eapply step_typed; eauto.
Qed.

(* a wrong-typed value is rejected with TypeError and nothing is stored *)
Theorem reject_wrong_type s x i :
  instance_of (vt s) x = false ->
  v_step s (VSet (XInt i) (One x)) = (Raise TypeError, s) /\
  v_step s (VInsert (Some i) (One x)) = (Raise TypeError, s) /\
  v_step s (VAppend (One x)) = (Raise TypeError, s) /\
  forall a b c items, In x items -> v_step s (VSetSlice a b c (ItItems items)) = (Raise TypeError, s).
Proof.
  intro H. cbn [v_step]. unfold v_insert. rewrite H. cbn [negb]. repeat split.
  intros a b c items Hin.
  destruct (forallb (instance_of (vt s)) items) eqn:Ef; [|reflexivity].
  rewrite forallb_forall in Ef. rewrite (Ef x Hin) in H. discriminate.
Qed.

(* C07 for Vector: a raising single-call operation stores nothing *)
Theorem vstep_raise_unchanged s op e s' : (forall vs, op <> VExtend vs /\ op <> VIadd vs) ->
  v_step s op = (Raise e, s') -> s' = s.
Proof.
  intro Hne. destruct op; cbn [v_step]; intro H;
  try (exfalso; destruct (Hne vs) as [A B]; congruence);
  repeat match goal with
  | H : (match ?x with _ => _ end) = _ |- _ => destruct x eqn:?
  | H : (if ?x then _ else _) = _ |- _ => destruct x eqn:?
  end; inversion H; subst; try reflexivity.
Qed.
