(* Proofs/TimingProofs.v — C20 (constructor table, flags, equality) and C08 (timestamps). *)
From Coq Require Import ZArith List Lia Bool.
From NV Require Import Common.Py Spec.TimingSpec Model.Timing.
Open Scope Z_scope.

(* ---- monotonic state machine = non-decreasing or non-increasing ---- *)
Lemma mono_inc prev l : mono_from Inc prev l = nondecr_from prev l.
Proof.
  revert prev. induction l as [|x l IH]; intro prev; [reflexivity|].
  cbn [mono_from nondecr_from]. unfold get_dir.
  destruct (Z.ltb_spec prev x); [rewrite IH; destruct (Z.leb_spec prev x); [reflexivity|lia]|].
  destruct (Z.ltb_spec x prev); [destruct (Z.leb_spec prev x); [lia|reflexivity]|].
  rewrite IH. destruct (Z.leb_spec prev x); [reflexivity|lia].
Qed.
Lemma mono_dec prev l : mono_from Dec prev l = nonincr_from prev l.
Proof.
  revert prev. induction l as [|x l IH]; intro prev; [reflexivity|].
  cbn [mono_from nonincr_from]. unfold get_dir.
  destruct (Z.ltb_spec prev x); [destruct (Z.leb_spec x prev); [lia|reflexivity]|].
  destruct (Z.ltb_spec x prev); [rewrite IH; destruct (Z.leb_spec x prev); [reflexivity|lia]|].
  rewrite IH. destruct (Z.leb_spec x prev); [reflexivity|lia].
Qed.
Lemma mono_unk prev l : mono_from Unk prev l = nondecr_from prev l || nonincr_from prev l.
Proof.
  revert prev. induction l as [|x l IH]; intro prev; [reflexivity|].
  cbn [mono_from nondecr_from nonincr_from]. unfold get_dir.
  destruct (Z.ltb_spec prev x).
  - rewrite mono_inc. destruct (Z.leb_spec prev x); [|lia]. destruct (Z.leb_spec x prev); [lia|].
    cbn [andb]. rewrite orb_false_r. reflexivity.
  - destruct (Z.ltb_spec x prev).
    + rewrite mono_dec. destruct (Z.leb_spec prev x); [lia|]. destruct (Z.leb_spec x prev); [|lia]. reflexivity.
    + rewrite IH. destruct (Z.leb_spec prev x); [|lia]. destruct (Z.leb_spec x prev); [|lia]. reflexivity.
Qed.
Theorem monotonic_iff l : monotonic_sm l = monotone l.
Proof. destruct l as [|x l]; [reflexivity|]. apply mono_unk. Qed.

(* ---- C20: accepted exactly by the mode table; rejected with TypeError or ValueError ---- *)
Lemma mode_cases mode ts off si tss :
  mode = 0 \/ mode = 1 \/ mode = 2 \/
  (timing_init mode ts off si tss = Raise ValueError /\ spec_accepts mode ts off si tss = false).
Proof.
  destruct mode as [|p|p]; [auto| |right; right; right; split; reflexivity].
  destruct p as [p|p|]; [right; right; right; split; reflexivity | | auto].
  destruct p as [p|p|]; [right; right; right; split; reflexivity | right; right; right; split; reflexivity | auto].
Qed.

Ltac iff_by_cases :=
  cbn; split; try (intros [? H]; discriminate); try discriminate;
  try (intros _; eexists; reflexivity); try reflexivity.

Theorem init_ok_iff mode ts off si tss :
  (exists t, timing_init mode ts off si tss = Ok t) <-> spec_accepts mode ts off si tss = true.
Proof.
  destruct (mode_cases mode ts off si tss) as [->|[->|[->|[H1 H2]]]].
  - destruct ts, off, si, tss; iff_by_cases.
  - destruct ts, off, si, tss; iff_by_cases.
  - unfold timing_init, spec_accepts.
    destruct ts, off, si; try solve [iff_by_cases].
    destruct tss as [|items|]; try solve [iff_by_cases].
    rewrite <- monotonic_iff.
    destruct (forallb is_dtm items); [|iff_by_cases].
    destruct (monotonic_sm _); iff_by_cases.
  - rewrite H1, H2. split; [intros [t H]; discriminate | discriminate].
Qed.

Theorem init_error_class mode ts off si tss e :
  timing_init mode ts off si tss = Raise e -> e = TypeError \/ e = ValueError.
Proof.
  destruct (mode_cases mode ts off si tss) as [->|[->|[->|[H1 H2]]]].
  - destruct ts, off, si, tss; cbn; intro H; inversion H; auto.
  - destruct ts, off, si, tss; cbn; intro H; inversion H; auto.
  - unfold timing_init.
    destruct ts, off, si; cbn; try (intro H; inversion H; auto; fail).
    destruct tss as [|items|]; try (intro H; inversion H; auto; fail).
    destruct (forallb is_dtm items); cbn; [|intro H; inversion H; auto].
    destruct (monotonic_sm _); cbn; intro H; inversion H; auto.
  - rewrite H1. intro H; inversion H; auto.
Qed.

(* flags report exactly which members were given; the mode is the one it was created with;
   members not allowed by the mode are absent *)
Theorem init_members mode ts off si tss t :
  timing_init mode ts off si tss = Ok t ->
  t_mode t = mode /\
  has (t_ts t) = is_dtm ts /\ has (t_off t) = is_td off /\ has (t_si t) = is_td si /\
  has (t_tss t) = match tss with TSeq _ => true | _ => false end /\
  (mode = 0 -> t_si t = None /\ t_tss t = None) /\
  (mode = 1 -> t_tss t = None /\ has (t_si t) = true) /\
  (mode = 2 -> t_ts t = None /\ t_off t = None /\ t_si t = None).
Proof.
  destruct (mode_cases mode ts off si tss) as [->|[->|[->|[H1 H2]]]].
  - destruct ts, off, si, tss; cbn; intro H; inversion H; subst; cbn; repeat split; auto; discriminate.
  - destruct ts, off, si, tss; cbn; intro H; inversion H; subst; cbn; repeat split; auto; discriminate.
  - unfold timing_init.
    destruct ts, off, si; cbn; try discriminate.
    destruct tss as [|items|]; try discriminate.
    destruct (forallb is_dtm items); cbn; [|discriminate].
    destruct (monotonic_sm _); cbn; [|discriminate].
    intro H; inversion H; subst; cbn; repeat split; auto; discriminate.
  - rewrite H1. discriminate.
Qed.

Theorem read_absent {A} (o : option A) : has o = false -> read o = Raise RuntimeError.
Proof. destruct o; [discriminate|reflexivity]. Qed.

Lemma opt_eqb_eq a b : opt_eqb a b = true <-> a = b.
Proof.
  destruct a, b; cbn; split; intro H; try discriminate; try reflexivity.
  - apply Z.eqb_eq in H. congruence.
  - inversion H. apply Z.eqb_refl.
Qed.

Theorem timing_eq_iff a b : timing_eqb a b = true <-> a = b.
Proof.
  unfold timing_eqb. destruct a as [ma tsa offa sia tssa], b as [mb tsb offb sib tssb]. cbn.
  rewrite !andb_true_iff, !opt_eqb_eq, Z.eqb_eq.
  split.
  - intros [[[[H1 H2] H3] H4] H5]. subst.
    destruct tssa as [x|], tssb as [y|]; try discriminate; [|reflexivity].
    apply (list_eqb_eq Z.eqb Z.eqb_eq) in H5. subst. reflexivity.
  - intro H. inversion H. subst. repeat split; try reflexivity.
    destruct tssb as [y|]; [|reflexivity]. apply (list_eqb_eq Z.eqb Z.eqb_eq). reflexivity.
Qed.

Theorem empty_has_no_members t : timing_init 0 ANone ANone ANone TNone = Ok t ->
  has (t_ts t) = false /\ has (t_off t) = false /\ has (t_si t) = false /\ has (t_tss t) = false.
Proof. cbn. intro H. inversion H. cbn. auto. Qed.

(* ---- C08 ---- *)
Lemma gen_rest_spec r si n : forall cur l,
  gen_rest r cur si n = Ok l -> l = map (fun k => cur + (Z.of_nat k + 1) * si) (seq 0 n).
Proof.
  induction n as [|n IH]; intros cur l H.
  - cbn in H. inversion H. reflexivity.
  - cbn [gen_rest] in H. unfold chk in H.
    destruct ((lo_dtm r <=? cur + si) && (cur + si <=? hi_dtm r)); [|discriminate]. cbn [bind] in H.
    destruct (gen_rest r (cur + si) si n) as [rest|] eqn:E; [|discriminate]. cbn [bind] in H.
    inversion H. subst l. rewrite (IH _ _ E). cbn [seq map]. f_equal; [lia|].
    rewrite <- seq_shift, map_map. apply map_ext. intro k. lia.
Qed.

Lemma gen_rest_length r si n : forall cur l, gen_rest r cur si n = Ok l -> length l = n.
Proof. intros cur l H. rewrite (gen_rest_spec _ _ _ _ _ H), map_length, seq_length. reflexivity. Qed.

(* exactly n timestamps, the k-th is timestamp + time_offset + (i + k) * sample_interval: no drift *)
Theorem regular_spec r ts off si i n l :
  gen_regular r ts off si i n = Ok l ->
  l = spec_regular (ts + match off with Some o => o | None => 0 end) si i (Z.of_nat n).
Proof.
  unfold gen_regular, spec_regular, chk. rewrite Nat2Z.id.
  destruct off as [o|].
  - destruct ((lo_dtm r <=? ts + o) && (ts + o <=? hi_dtm r)); [|discriminate]. cbn [bind].
    destruct ((lo_td r <=? i * si) && (i * si <=? hi_td r)); [|discriminate]. cbn [bind].
    destruct ((lo_dtm r <=? ts + o + i * si) && (ts + o + i * si <=? hi_dtm r)); [|discriminate]. cbn [bind].
    destruct n as [|n]; [intro H; inversion H; reflexivity|].
    destruct (gen_rest r (ts + o + i * si) si n) as [rest|] eqn:E; [|discriminate]. cbn [bind].
    intro H. inversion H. rewrite (gen_rest_spec _ _ _ _ _ E). cbn [seq map]. f_equal; [lia|].
    rewrite <- seq_shift, map_map. apply map_ext. intro k. lia.
  - cbn [bind].
    destruct ((lo_td r <=? i * si) && (i * si <=? hi_td r)); [|discriminate]. cbn [bind].
    destruct ((lo_dtm r <=? ts + i * si) && (ts + i * si <=? hi_dtm r)); [|discriminate]. cbn [bind].
    destruct n as [|n]; [intro H; inversion H; reflexivity|].
    destruct (gen_rest r (ts + i * si) si n) as [rest|] eqn:E; [|discriminate]. cbn [bind].
    intro H. inversion H. rewrite (gen_rest_spec _ _ _ _ _ E). cbn [seq map]. f_equal; [lia|].
    rewrite <- seq_shift, map_map. apply map_ext. intro k. lia.
Qed.

Theorem regular_length r ts off si i n l : gen_regular r ts off si i n = Ok l -> length l = n.
Proof.
  intro H. rewrite (regular_spec _ _ _ _ _ _ _ H). unfold spec_regular.
  rewrite map_length, seq_length, Nat2Z.id. reflexivity.
Qed.

(* irregular: exactly the stored timestamps i .. i+n-1, or ValueError; never fewer *)
Theorem irregular_spec r t l i n : t_mode t = 2 -> t_tss t = Some l ->
  get_timestamps r t i n = spec_irregular l i n.
Proof.
  intros Hm Ht. unfold get_timestamps, spec_irregular. rewrite Hm, Ht.
  destruct (i <? 0); [reflexivity|]. destruct (n <? 0); reflexivity.
Qed.

Theorem irregular_exact_count l i n r : spec_irregular l i n = Ok r -> length r = Z.to_nat n.
Proof.
  unfold spec_irregular.
  destruct (Z.ltb_spec i 0) as [|Hi]; [discriminate|]. destruct (Z.ltb_spec n 0) as [|Hn]; [discriminate|]. cbn [orb].
  destruct (Z.ltb_spec (Z.of_nat (length l)) (i + n)) as [|Hl]; [discriminate|].
  intro E. inversion E. rewrite firstn_length, skipn_length. lia.
Qed.

Theorem no_timestamp_information r t i n : 0 <= i -> 0 <= n ->
  t_mode t = 0 \/ (t_mode t = 1 /\ t_ts t = None) ->
  get_timestamps r t i n = Raise NoTimestampInformationError.
Proof.
  intros Hi Hn H. unfold get_timestamps.
  destruct (Z.ltb_spec i 0); [lia|]. destruct (Z.ltb_spec n 0); [lia|].
  destruct H as [->|[-> ->]]; reflexivity.
Qed.

Theorem negative_arguments r t i n : i < 0 \/ n < 0 -> get_timestamps r t i n = Raise ValueError.
Proof.
  intro H. unfold get_timestamps.
  destruct (Z.ltb_spec i 0); [reflexivity|]. destruct (Z.ltb_spec n 0); [reflexivity|lia].
Qed.
