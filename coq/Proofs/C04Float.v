From Coq Require Import ZArith List Lia Bool.
From NV Require Import Common.Py Model.Complex Model.Scaling Model.TotalSeconds Proofs.C11Proofs.
Open Scope Z_scope.

(* total_seconds() differs from the exact value t / 2^64 by at most half a quantum of each of its three
   roundings (whole seconds, fraction, sum); every quantity is scaled by 2^-s into the integers *)
Theorem total_seconds_err t mw qw mf qf ms qs :
  rnd b64 (FNum (t / T64') 0) = FNum mw qw ->
  rnd b64 (FNum (t mod T64') (-64)) = FNum mf qf ->
  total_seconds t = FNum ms qs ->
  forall s, s <= -64 -> s <= qw -> s <= qf -> s <= qs ->
    2 * Z.abs (ms * 2 ^ (qs - s) - t * 2 ^ (-64 - s)) <= 2 ^ (qw - s) + 2 ^ (qf - s) + 2 ^ (qs - s).
Proof.
  intros Hw Hf Ht s S1 S2 S3 S4. unfold total_seconds, fadd in Ht. rewrite Hw, Hf in Ht. cbn [fadd_exact] in Ht.
  set (e0 := Z.min qw qf) in *.
  pose proof (rnd_err0 _ _ _ _ _ Hw s ltac:(lia) S2) as E1.
  pose proof (rnd_err0 _ _ _ _ _ Hf s S1 S3) as E2.
  assert (S0 : s <= e0) by (unfold e0; lia).
  pose proof (rnd_err0 _ _ _ _ _ Ht s S0 S4) as E3.
  replace ((mw * 2 ^ (qw - e0) + mf * 2 ^ (qf - e0)) * 2 ^ (e0 - s)) with (mw * 2 ^ (qw - s) + mf * 2 ^ (qf - s)) in E3.
  2:{ replace (2 ^ (qw - s)) with (2 ^ (qw - e0) * 2 ^ (e0 - s)) by (rewrite <- Z.pow_add_r by (unfold e0; lia); f_equal; lia).
      replace (2 ^ (qf - s)) with (2 ^ (qf - e0) * 2 ^ (e0 - s)) by (rewrite <- Z.pow_add_r by (unfold e0; lia); f_equal; lia). ring. }
  (* t = w * 2^64 + fr, so t * 2^(-64-s) = w * 2^(0-s) + fr * 2^(-64-s) *)
  assert (D : t * 2 ^ (-64 - s) = (t / T64') * 2 ^ (0 - s) + (t mod T64') * 2 ^ (-64 - s)).
  { replace (2 ^ (0 - s)) with (T64' * 2 ^ (-64 - s)).
    - rewrite (Z.div_mod t T64') at 1 by (unfold T64'; lia). ring.
    - change T64' with (2 ^ 64). rewrite <- Z.pow_add_r by lia. f_equal. lia. }
  rewrite D. lia.
Qed.
