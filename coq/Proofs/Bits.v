(* Proofs/Bits.v — shift/mask facts that turn Python's bit operations into div/mod. *)
From Coq Require Import ZArith List Lia.
From NV Require Import Common.Py Spec.TimeSpec.
Open Scope Z_scope.

Lemma land_disjoint w f n : 0 <= n -> 0 <= f < 2 ^ n -> Z.land (w * 2 ^ n) f = 0.
Proof.
  intros Hn Hf. apply Z.bits_inj'. intros k Hk.
  rewrite Z.land_spec, Z.bits_0.
  destruct (Z.ltb_spec k n) as [Hlt|Hge].
  - rewrite Z.mul_pow2_bits_low by lia. reflexivity.
  - destruct (Z.eq_dec f 0) as [->|Hf0].
    + rewrite Z.bits_0. apply andb_false_r.
    + rewrite (Z.bits_above_log2 f k); [apply andb_false_r| lia |].
      assert (Z.log2 f < n) by (apply Z.log2_lt_pow2; lia). lia.
Qed.

Lemma lor_shift_add w f n : 0 <= n -> 0 <= f < 2 ^ n -> Z.lor (Z.shiftl w n) f = w * 2 ^ n + f.
Proof.
  intros Hn Hf. rewrite Z.shiftl_mul_pow2 by lia.
  pose proof (land_disjoint w f n Hn Hf) as Hd.
  rewrite <- Z.lxor_lor by exact Hd. symmetry. apply Z.add_nocarry_lxor. exact Hd.
Qed.

Lemma land_mask64 a : Z.land a 18446744073709551615 = a mod T64.
Proof. change 18446744073709551615 with (Z.ones 64). rewrite Z.land_ones by lia. reflexivity. Qed.

Lemma shiftr64 a : Z.shiftr a 64 = a / T64.
Proof. rewrite Z.shiftr_div_pow2 by lia. reflexivity. Qed.

Lemma shiftl64 a : Z.shiftl a 64 = a * T64.
Proof. rewrite Z.shiftl_mul_pow2 by lia. reflexivity. Qed.

Lemma lor64 w f : 0 <= f < T64 -> Z.lor (Z.shiftl w 64) f = w * T64 + f.
Proof. intros H. apply (lor_shift_add w f 64); [lia| exact H]. Qed.

(* little-endian byte strings *)
Lemma le_bytes_length n v : length (le_bytes n v) = n.
Proof. revert v; induction n as [|n IH]; intro v; simpl; [reflexivity| rewrite IH; reflexivity]. Qed.

Lemma le_val_le_bytes n v : le_val (le_bytes n v) = v mod 256 ^ Z.of_nat n.
Proof.
  revert v; induction n as [|n IH]; intro v.
  - simpl. rewrite Z.mod_1_r. reflexivity.
  - cbn [le_bytes le_val]. rewrite IH. rewrite Nat2Z.inj_succ, Z.pow_succ_r by lia.
    assert (0 < 256 ^ Z.of_nat n) by (apply Z.pow_pos_nonneg; lia).
    rewrite Z.rem_mul_r by lia. reflexivity.
Qed.

Lemma le_val_le_bytes8 v : 0 <= v < T64 -> le_val (le_bytes 8 v) = v.
Proof.
  intro H. rewrite le_val_le_bytes. change (256 ^ Z.of_nat 8) with T64. apply Z.mod_small. exact H.
Qed.

Lemma firstn_app_exact {A} (l1 l2 : list A) n : length l1 = n -> firstn n (l1 ++ l2) = l1.
Proof. intros <-. rewrite firstn_app, Nat.sub_diag, firstn_all. simpl. apply app_nil_r. Qed.

Lemma skipn_app_exact {A} (l1 l2 : list A) n : length l1 = n -> skipn n (l1 ++ l2) = l2.
Proof. intros <-. rewrite skipn_app, Nat.sub_diag, skipn_all. reflexivity. Qed.

Lemma signed64_mod w : MIN64 <= w <= MAX64 -> signed64 (w mod T64) = w.
Proof.
  unfold signed64, MIN64, MAX64, T64. intro H.
  destruct (Z.ltb_spec (w mod 18446744073709551616) 9223372036854775808) as [Hlt|Hge].
  - destruct (Z_lt_le_dec w 0).
    + exfalso. assert (w mod 18446744073709551616 = w + 18446744073709551616).
      { symmetry. apply (Z.mod_unique _ _ (-1)); lia. } lia.
    + apply Z.mod_small. lia.
  - destruct (Z_lt_le_dec w 0).
    + assert (w mod 18446744073709551616 = w + 18446744073709551616).
      { symmetry. apply (Z.mod_unique _ _ (-1)); lia. } lia.
    + exfalso. rewrite Z.mod_small in Hge by lia. lia.
Qed.
