(* Proofs/C17Reverse.v — the swap loop of DateTimeArray/TimeDeltaArray.reverse() computes List.rev *)
From Coq Require Import ZArith List Lia Bool.
From NV Require Import Common.Py Spec.ListSpec Model.TimeArray Proofs.ListLemmas.
Open Scope Z_scope.

Lemma nth_set_nth (l : list Z) : forall i j v, nth j (set_nth l i v) 0 = if Nat.eqb j i && Nat.ltb i (length l) then v else nth j l 0.
Proof.
  induction l as [|x l IH]; intros i j v.
  - cbn. destruct j; destruct i; cbn; try reflexivity; rewrite ?andb_false_r; reflexivity.
  - destruct i as [|i]; destruct j as [|j]; cbn [set_nth nth Nat.eqb length]; try reflexivity.
    rewrite IH. cbn [length]. reflexivity.
Qed.

(* after k swaps: positions < k and >= n-k hold the mirrored elements, the middle is untouched *)
Definition mirrored (l r : list Z) (k : nat) : Prop :=
  length r = length l /\
  forall j, (j < length l)%nat ->
    nth j r 0 = if Nat.ltb j k || Nat.leb (length l - k) j then nth (length l - 1 - j) l 0 else nth j l 0.

Lemma swap_step l r k : mirrored l r k -> (2 * (k + 1) <= length l)%nat ->
  mirrored l (set_nth (set_nth r k (nth (length r - k - 1) r 0)) (length r - k - 1) (nth k r 0)) (S k).
Proof.
  intros [L H] Hk. split; [rewrite !set_nth_length; exact L|]. rewrite L. set (n := length l) in *.
  intros j Hj. rewrite !nth_set_nth, !set_nth_length, L. fold n.
  assert (Xk : nth k r 0 = nth k l 0).
  { rewrite (H k) by lia. destruct (Nat.ltb_spec k k); [lia|]. destruct (Nat.leb_spec (n - k) k); [lia|]. reflexivity. }
  assert (Yk : nth (n - k - 1) r 0 = nth (n - k - 1) l 0).
  { rewrite (H (n - k - 1)%nat) by lia. destruct (Nat.ltb_spec (n - k - 1) k); [lia|]. destruct (Nat.leb_spec (n - k) (n - k - 1)); [lia|]. reflexivity. }
  rewrite Xk, Yk.
  destruct (Nat.eqb_spec j (n - k - 1)) as [E1|E1]; cbn [andb].
  - destruct (Nat.ltb_spec (n - k - 1) n); [|lia]. subst j.
    destruct (Nat.ltb_spec (n - k - 1) (S k)); destruct (Nat.leb_spec (n - S k) (n - k - 1)); cbn [orb]; try lia; f_equal; lia.
  - destruct (Nat.eqb_spec j k) as [E2|E2]; cbn [andb].
    + destruct (Nat.ltb_spec k n); [|lia]. subst j.
      destruct (Nat.ltb_spec k (S k)); [|lia]. cbn [orb]. f_equal. lia.
    + rewrite (H j Hj).
      destruct (Nat.ltb_spec j k); destruct (Nat.ltb_spec j (S k)); destruct (Nat.leb_spec (n - k) j); destruct (Nat.leb_spec (n - S k) j);
        cbn [orb]; try reflexivity; lia.
Qed.

Lemma swap_loop_mirrored l : forall todo r k, mirrored l r k -> (2 * (k + todo) <= length l)%nat ->
  mirrored l (swap_loop r k todo) (k + todo).
Proof.
  induction todo as [|t IH]; intros r k M Hk; cbn [swap_loop].
  - rewrite Nat.add_0_r. exact M.
  - replace (k + S t)%nat with (S k + t)%nat by lia. apply IH; [|lia]. apply swap_step; [exact M|lia].
Qed.

Theorem a_reverse_is_rev l : a_reverse l = rev l.
Proof.
  unfold a_reverse. set (h := Nat.div (length l) 2).
  assert (M0 : mirrored l l 0).
  { split; [reflexivity|]. intros j Hj. destruct (Nat.ltb_spec j 0); [lia|]. destruct (Nat.leb_spec (length l - 0) j); [lia|]. reflexivity. }
  assert (Hh : (2 * h <= length l)%nat) by (unfold h; pose proof (Nat.div_mod (length l) 2 ltac:(lia)); lia).
  assert (Hh2 : (length l <= 2 * h + 1)%nat).
  { unfold h. pose proof (Nat.div_mod (length l) 2 ltac:(lia)) as D. pose proof (Nat.mod_upper_bound (length l) 2 ltac:(lia)). lia. }
  destruct (swap_loop_mirrored l h l 0%nat M0 ltac:(lia)) as [L H]. cbn [Nat.add] in *.
  apply (nth_ext _ _ 0 0); [rewrite L, rev_length; reflexivity|].
  intros j Hj. rewrite L in Hj. rewrite (H j Hj). rewrite rev_nth by exact Hj.
  destruct (Nat.ltb_spec j h); destruct (Nat.leb_spec (length l - h) j); cbn [orb]; try (f_equal; lia).
Qed.
