From Coq Require Import ZArith List Lia Bool.
From NV Require Import Common.Py Spec.TimingSpec Spec.ListSpec Model.Timing Model.Waveform Model.Vector Model.Pickle
  Proofs.WfmProofs.
Open Scope Z_scope.

(* ---------- Timing ---------- *)
Lemma forallb_is_dtm l : forallb is_dtm (map ADatetime l) = true.
Proof. induction l; cbn; auto. Qed.
Lemma map_dtm_value l : map dtm_value (map ADatetime l) = l.
Proof. induction l as [|x l IH]; cbn; [reflexivity|]. rewrite IH. reflexivity. Qed.

Theorem timing_pickle_id t : tvalid t = true -> timing_pickle t = Ok t.
Proof.
  destruct t as [m ts off si tss]. unfold tvalid, timing_pickle. cbn [t_mode t_ts t_off t_si t_tss].
  destruct m as [|[p|[p|p|]|]|p]; try discriminate.
  - (* NONE *)
    destruct si; cbn [has negb andb]; [discriminate|]. destruct tss; cbn [has negb]; [discriminate|]. intros _.
    destruct ts; destruct off; reflexivity.
  - (* IRREGULAR *)
    destruct ts; destruct off; destruct si; cbn [has negb andb]; try discriminate.
    destruct tss as [l|]; [|cbn; discriminate]. intro H. cbn [timing_init arg_dtm arg_td unsupported bind].
    rewrite forallb_is_dtm, map_dtm_value, H. reflexivity.
  - (* REGULAR *)
    destruct si as [si|]; cbn [has negb andb]; [|discriminate]. destruct tss; cbn [has negb]; [discriminate|]. intros _.
    destruct ts; destruct off; reflexivity.
Qed.

(* every Timing the constructor accepts is of this form, so every constructed Timing pickles to itself *)
Theorem timing_init_valid mode ts off si tss t : timing_init mode ts off si tss = Ok t -> tvalid t = true.
Proof.
  unfold timing_init. destruct mode as [|[p|[p|p|]|]|p]; try discriminate.
  - destruct (is_dtm ts || is_none ts); cbn [negb]; [|discriminate].
    destruct (is_td off || is_none off); cbn [negb]; [|discriminate].
    destruct si; cbn; try discriminate. destruct tss; cbn; try discriminate. intro H. inversion H. reflexivity.
  - destruct ts; cbn; try discriminate. destruct off; cbn; try discriminate. destruct si; cbn; try discriminate.
    destruct tss as [|items|]; try discriminate.
    destruct (forallb is_dtm items); cbn [negb]; [|discriminate].
    destruct (monotonic_sm (map dtm_value items)) eqn:M; cbn [negb]; [|discriminate].
    intro H. inversion H. subst. unfold tvalid. cbn. exact M.
  - destruct (is_dtm ts || is_none ts); cbn [negb]; [|discriminate].
    destruct (is_td off || is_none off); cbn [negb]; [|discriminate].
    destruct si; cbn; try discriminate. destruct tss; cbn; try discriminate. intro H. inversion H. reflexivity.
Qed.

Lemma tvalid_wf t : tvalid t = true -> timing_wf t.
Proof.
  destruct t as [m ts off si tss]. unfold tvalid, timing_wf. cbn [t_mode t_ts t_off t_si t_tss].
  destruct m as [|[p|[p|p|]|]|p]; try discriminate.
  - destruct si; cbn [has negb andb]; [discriminate|]. destruct tss; cbn; [discriminate|]. intros _. discriminate.
  - destruct ts; destruct off; destruct si; cbn [has negb andb]; try discriminate. destruct tss; [|cbn; discriminate]. intro H. split; [reflexivity|exact H].
  - destruct si; cbn [has negb andb]; [|discriminate]. destruct tss; cbn; [discriminate|]. intros _. discriminate.
Qed.

(* ---------- waveforms ---------- *)
Definition same_obs (a b : obj) : Prop :=
  o_kind a = o_kind b /\ o_dtype a = o_dtype b /\ view a = view b /\ o_ncols a = o_ncols b /\ o_count a = o_count b /\
  o_timing a = o_timing b /\ o_scale a = o_scale b /\ o_props a = o_props b.

Lemma firstn_all_len {A} (l : list A) n : n = length l -> firstn n l = l.
Proof. intro H. subst. apply firstn_all. Qed.

Theorem wf_pickle_spec o : good o -> cols_ok o -> tvalid (o_timing o) = true ->
  exists o', wf_pickle o = Ok o' /\ same_obs o' o /\ o_start o' = 0%nat /\ cap o' = o_count o /\ o_resizable o' = true /\
             good o' /\ cols_ok o'.
Proof.
  intros G C TV. pose proof G as (G1 & G2 & G3 & G4).
  pose proof (view_length o G1) as VL.
  unfold wf_pickle. replace (if has_timing (o_kind o) then timing_pickle (o_timing o) else Ok (o_timing o)) with (Ok (o_timing o))
    by (destruct (has_timing (o_kind o)); [rewrite timing_pickle_id by exact TV|]; reflexivity).
  cbn [bind]. unfold from_array. cbn [a_ndim a_dtype a_rows a_ncols a_owns alen].
  assert (ND : (match o_kind o with KDigital => Nat.eqb 2 1 || Nat.eqb 2 2 | _ => Nat.eqb 1 1 end) = true) by (destruct (o_kind o); reflexivity).
  replace (match o_kind o with KDigital => Nat.eqb (match o_kind o with KDigital => 2 | _ => 1 end) 1 || Nat.eqb (match o_kind o with KDigital => 2 | _ => 1 end) 2
           | _ => Nat.eqb (match o_kind o with KDigital => 2 | _ => 1 end) 1 end)%nat with true by (destruct (o_kind o); reflexivity).
  replace (match o_kind o with KDigital => Ok tt | _ => Ok tt end) with (Ok tt) by (destruct (o_kind o); reflexivity).
  cbn [bind]. rewrite Z.eqb_refl. cbn [bind negb]. unfold alen. cbn [a_rows]. rewrite VL.
  assert (H0 : (Z.of_nat (o_count o) <? 0) = false) by (apply Z.ltb_ge; lia).
  unfold arg_uint at 1. rewrite ?H0. cbn [bind]. rewrite ?Z.eqb_refl. cbn [negb].
  change (arg_uint INone (Some 0)) with (Ok 0). cbn [bind]. rewrite H0.
  unfold arg_uint at 1. rewrite H0. cbn [bind]. rewrite Z.add_0_l, Z.ltb_irrefl.
  assert (NCOK : (match o_kind o with
     | KDigital => do nc <- arg_uint (match o_kind o with KDigital => IInt (Z.of_nat (o_ncols o)) | _ => INone end) (Some (Z.of_nat (o_ncols o)));
                   if nc =? Z.of_nat (o_ncols o) then Ok tt else Raise SignalCountMismatchError
     | _ => Ok tt end) = Ok tt).
  { destruct (o_kind o); try reflexivity. unfold arg_uint. destruct (Z.ltb_spec (Z.of_nat (o_ncols o)) 0); [lia|]. cbn [bind]. rewrite Z.eqb_refl. reflexivity. }
  rewrite NCOK. cbn [bind].
  assert (VT : (if has_timing (o_kind o) then validate_timing (o_timing o) (Z.to_nat (Z.of_nat (o_count o))) else Ok tt) = Ok tt).
  { destruct (has_timing (o_kind o)) eqn:HT; [|reflexivity]. unfold validate_timing. destruct (t_tss (o_timing o)) as [l|] eqn:El; [|reflexivity].
    rewrite Nat2Z.id. rewrite (G4 eq_refl l eq_refl). rewrite Nat.eqb_refl. reflexivity. }
  rewrite VT. cbn [bind].
  eexists. split; [reflexivity|].
  assert (V' : view (set_timing {| o_kind := o_kind o; o_dtype := o_dtype o; o_rows := view o; o_ncols := o_ncols o;
        o_start := Z.to_nat 0; o_count := Z.to_nat (Z.of_nat (o_count o)); o_resizable := true; o_timing := empty_timing;
        o_scale := o_scale o; o_props := o_props o |} (o_timing o)) = view o).
  { unfold view at 1. cbn [set_timing o_count o_start o_rows]. rewrite Nat2Z.id. cbn [Z.to_nat skipn]. apply firstn_all_len. symmetry. exact VL. }
  split; [|split; [|split; [|split; [|split]]]].
  - unfold same_obs. rewrite V'. cbn [set_timing o_kind o_dtype o_ncols o_count o_timing o_scale o_props]. rewrite Nat2Z.id. repeat split; reflexivity.
  - reflexivity.
  - unfold cap. cbn [set_timing o_rows]. exact VL.
  - reflexivity.
  - unfold good, cap. cbn [set_timing o_start o_count o_rows o_ncols o_timing o_kind]. rewrite Nat2Z.id, VL. cbn [Z.to_nat].
    split; [lia|]. split; [apply view_rows_wf; exact G2|]. split; [exact G3|exact G4].
  - exact C.
Qed.

(* equality ignores allocation slack: it is a function of the observable state only *)
Lemma list_eqb_refl {A} (eqb : A -> A -> bool) : (forall a, eqb a a = true) -> forall l, list_eqb eqb l l = true.
Proof. intros H l. induction l as [|x l IH]; cbn; [reflexivity|]. rewrite H, IH. reflexivity. Qed.
Lemma props_eqb_refl p : props_eqb p p = true.
Proof. unfold props_eqb. apply forallb_forall. intros k _. destruct (wp_get p k); [apply list_eqb_refl; apply Z.eqb_refl|reflexivity]. Qed.
Lemma opt_eqb_refl a : opt_eqb a a = true. Proof. destruct a; cbn; [apply Z.eqb_refl|reflexivity]. Qed.
Lemma timing_eqb_refl t : timing_eqb t t = true.
Proof. unfold timing_eqb. rewrite !opt_eqb_refl, Z.eqb_refl. destruct (t_tss t); cbn; [apply list_eqb_refl; apply Z.eqb_refl|reflexivity]. Qed.
Lemma kind_eqb_refl k : kind_eqb k k = true. Proof. destruct k; reflexivity. Qed.

Theorem wf_eqb_obs a b : same_obs a b -> wf_eqb a b = true.
Proof.
  intros (K & D & V & _ & _ & T & S & P). unfold wf_eqb. rewrite K, D, V, T, S, P.
  rewrite kind_eqb_refl, Z.eqb_refl, props_eqb_refl, timing_eqb_refl, Z.eqb_refl.
  rewrite (list_eqb_refl (list_eqb Z.eqb)) by (apply list_eqb_refl; apply Z.eqb_refl).
  destruct (has_timing (o_kind b)); destruct (has_scale (o_kind b)); reflexivity.
Qed.

(* and it only depends on the view: two objects whose buffers differ outside the window are equal *)
Theorem wf_eqb_slack a b : wf_eqb a b = true ->
  o_dtype a = o_dtype b /\ view a = view b /\ (has_scale (o_kind a) = true -> o_scale a = o_scale b).
Proof.
  unfold wf_eqb. intro H. repeat (apply andb_true_iff in H; destruct H as [H ?]).
  split; [apply Z.eqb_eq; assumption|]. split.
  - apply (list_eqb_eq (list_eqb Z.eqb)); [apply list_eqb_eq; apply Z.eqb_eq|assumption].
  - intro HS. match goal with X : (if has_scale _ then _ else _) = true |- _ => rewrite HS in X; apply Z.eqb_eq in X; exact X end.
Qed.

(* ---------- timing validity is an invariant of the pool ---------- *)
Definition pool_tv (p : pool) : Prop := Forall (fun o => tvalid (o_timing o) = true) p.
Definition op_tv (op : wop) : Prop :=
  match op with
  | PNew _ _ _ _ _ _ _ _ t _ _ => tvalid t = true
  | PFromArray _ _ _ _ _ _ _ _ t _ _ => tvalid t = true
  | PSetTiming _ (Some t) => tvalid t = true
  | _ => True
  end.

Lemma append_timestamps_tv t ts t' : tvalid t = true -> append_timestamps t ts = Ok t' -> tvalid t' = true.
Proof.
  intros V. unfold append_timestamps. destruct (t_mode t =? 2).
  - destruct ts as [|l|]; try discriminate. destruct l as [|x l]; [intro H; inversion H; subst; exact V|].
    destruct (t_tss t) as [a|]; [|discriminate]. destruct (monotonic_sm (a ++ x :: l)) eqn:M; [|discriminate].
    intro H. inversion H. subst. unfold tvalid. cbn. exact M.
  - destruct ts; try discriminate. intro H. inversion H. subst. exact V.
Qed.

Lemma append_timing_tv t other t' w : tvalid t = true -> tvalid other = true -> append_timing t other = Ok (t', w) -> tvalid t' = true.
Proof.
  intros V VO. unfold append_timing. destruct (t_mode t =? 2).
  - destruct (negb (t_mode other =? 2)); [discriminate|].
    destruct (t_tss t) as [a|]; [|discriminate]. destruct (t_tss other) as [b|]; [|discriminate].
    destruct a as [|x a]; [intro H; inversion H; subst; exact VO|].
    destruct b as [|y b]; [intro H; inversion H; subst; exact V|].
    destruct (monotonic_sm ((x :: a) ++ y :: b)) eqn:M; [|discriminate].
    intro H. inversion H. subst. unfold tvalid. cbn [t_mode t_ts t_off t_si t_tss has negb andb]. exact M.
  - destruct (t_mode other =? 2); [discriminate|]. intro H. inversion H. subst. exact V.
Qed.

Lemma merge_timings_tv : forall srcs t t' w, tvalid t = true -> Forall (fun s => tvalid (o_timing s) = true) srcs ->
  merge_timings t srcs = Ok (t', w) -> tvalid t' = true.
Proof.
  induction srcs as [|s rest IH]; intros t t' w V F; cbn [merge_timings].
  - intro H. inversion H. subst. exact V.
  - inversion F as [|? ? Fs Fr]; subst.
    destruct (append_timing t (o_timing s)) as [[t1 w1]|] eqn:E1; cbn [bind]; [|discriminate].
    destruct (merge_timings t1 rest) as [[t2 w2]|] eqn:E2; cbn [bind]; [|discriminate].
    intro H. inversion H. subst. eapply IH; [|exact Fr|exact E2]. exact (append_timing_tv _ _ _ _ V Fs E1).
Qed.

Ltac crush H :=
  repeat match type of H with
  | (match ?x with _ => _ end) = _ => destruct x eqn:?
  | (if ?x then _ else _) = _ => destruct x eqn:?
  | (let '(_, _) := ?x in _) = _ => destruct x eqn:?
  | bind ?x _ = _ => destruct x eqn:?; cbn [bind] in H
  end.

Lemma set_capacity_timing o v o' : set_capacity o v = Ok o' -> o_timing o' = o_timing o.
Proof. unfold set_capacity, resize_rows. intro H. crush H; try discriminate; inversion H; subst; reflexivity. Qed.
Lemma increase_capacity_timing o n o' : increase_capacity o n = Ok o' -> o_timing o' = o_timing o.
Proof. unfold increase_capacity. destruct (Nat.ltb _ _); [apply set_capacity_timing|]. intro H. inversion H. reflexivity. Qed.
Lemma load_data_timing o a c st sc o' : load_data o a c st sc = Ok o' -> o_timing o' = o_timing o.
Proof. unfold load_data. intro H. crush H; try discriminate; inversion H; subst; reflexivity. Qed.
Lemma set_sample_count_timing o v o' : set_sample_count o v = Ok o' -> o_timing o' = o_timing o.
Proof. unfold set_sample_count. intro H. crush H; try discriminate; inversion H; subst; reflexivity. Qed.

Lemma pget_tv p i : pool_tv p -> tvalid (o_timing (pget p i)) = true.
Proof.
  intro H. unfold pget. destruct (Nat.lt_ge_cases i (length p)) as [Hi|Hi].
  - unfold pool_tv in H. rewrite Forall_forall in H. apply H. apply nth_In. exact Hi.
  - rewrite nth_overflow by exact Hi. reflexivity.
Qed.
Lemma pool_set_tv p i o : pool_tv p -> tvalid (o_timing o) = true -> pool_tv (pool_set p i o).
Proof.
  intros H Ho. unfold pool_tv, pool_set in *. apply Forall_app. split; [apply Forall_firstn; exact H|].
  constructor; [exact Ho | apply Forall_skipn; exact H].
Qed.

Theorem pstep_tv p op p' r ws : pool_tv p -> op_tv op -> pstep p op = (p', r, ws) -> pool_tv p'.
Proof.
  intros G W. destruct op; cbn [pstep op_tv] in *.
  - destruct (new_obj _ _ _ _ _ _ _ _ _ _ _) as [o|] eqn:E; intro H; inversion H; subst; [|exact G].
    destruct (new_obj_good _ _ _ _ _ _ _ _ _ _ _ _ (tvalid_wf _ W) E) as (_ & _ & T & _).
    apply Forall_app. split; [exact G|]. constructor; [rewrite T; exact W|constructor].
  - destruct (from_array _ _ _ _ _ _ _ _ _ _ _) as [o|] eqn:E; intro H; inversion H; subst; [|exact G].
    assert (T : o_timing o = t).
    { unfold from_array in E. crush E; try discriminate; inversion E; reflexivity. }
    apply Forall_app. split; [exact G|]. constructor; [rewrite T; exact W|constructor].
  - destruct (load_data _ _ _ _ _) as [o'|] eqn:E; intro H; inversion H; subst; [|exact G].
    apply pool_set_tv; [exact G|]. rewrite (load_data_timing _ _ _ _ _ _ E). apply pget_tv. exact G.
  - destruct (append_array _ _ _) as [o'|] eqn:E; intro H; inversion H; subst; [|exact G].
    apply pool_set_tv; [exact G|]. pose proof (pget_tv p i G) as V.
    unfold append_array in E.
    destruct (negb (a_dtype a =? o_dtype (pget p i))); [discriminate|].
    destruct (match o_kind (pget p i) with KDigital => _ | _ => _ end) as [[]|]; cbn [bind] in E; [|discriminate].
    destruct (match o_kind (pget p i), ts with KSpectrum, _ => _ | _, _ => _ end) as [[]|]; cbn [bind] in E; [|discriminate].
    destruct (has_timing (o_kind (pget p i))).
    + destruct (append_timestamps _ _) as [t'|] eqn:AT; cbn [bind] in E; [|discriminate].
      destruct (increase_capacity _ _); cbn [bind] in E; [|discriminate]. inversion E. subst. cbn [o_timing].
      exact (append_timestamps_tv _ _ _ V AT).
    + cbn [bind] in E. destruct (increase_capacity _ _); cbn [bind] in E; [|discriminate]. inversion E. subst. cbn [o_timing]. exact V.
  - destruct ts_given; [intro H; inversion H; subst; exact G|].
    destruct (append_waveforms _ _) as [[o' w]|] eqn:E; intro H; inversion H; subst; [|exact G].
    apply pool_set_tv; [exact G|]. pose proof (pget_tv p i G) as V.
    assert (F : Forall (fun s => tvalid (o_timing s) = true) (map (pget p) srcs)).
    { rewrite Forall_map. apply Forall_forall. intros j _. apply pget_tv. exact G. }
    unfold append_waveforms in E.
    destruct (check_sources _ _); cbn [bind] in E; [|discriminate].
    destruct (has_timing (o_kind (pget p i))).
    + destruct (merge_timings _ _) as [[t' w2]|] eqn:M; cbn [bind] in E; [|discriminate].
      destruct (increase_capacity _ _); cbn [bind] in E; [|discriminate]. inversion E. subst. cbn [o_timing].
      eapply merge_timings_tv; eauto.
    + cbn [bind] in E. destruct (increase_capacity _ _); cbn [bind] in E; [|discriminate]. inversion E. subst. cbn [o_timing]. exact V.
  - destruct (set_capacity _ _) as [o'|] eqn:E; intro H; inversion H; subst; [|exact G].
    apply pool_set_tv; [exact G|]. rewrite (set_capacity_timing _ _ _ E). apply pget_tv. exact G.
  - destruct (set_sample_count _ _) as [o'|] eqn:E; intro H; inversion H; subst; [|exact G].
    apply pool_set_tv; [exact G|]. rewrite (set_sample_count_timing _ _ _ E). apply pget_tv. exact G.
  - destruct t as [t|]; cbn [assign_timing]; [|intro H; inversion H; subst; exact G].
    destruct (validate_timing _ _); cbn [bind]; intro H; inversion H; subst; [|exact G].
    apply pool_set_tv; [exact G|exact W].
  - destruct s as [s|]; intro H; inversion H; subst; [|exact G].
    apply pool_set_tv; [exact G|]. apply pget_tv. exact G.
  - intro H. inversion H. subst. apply pool_set_tv; [exact G|]. apply pget_tv. exact G.
  - intro H. inversion H. subst. exact G.
  - intro H. inversion H. subst. apply pool_set_tv; [exact G|]. cbn [repickle o_timing]. apply pget_tv. exact G.
Qed.

Fixpoint run_tv (ops : list wop) : Prop := match ops with [] => True | op :: rest => op_tv op /\ run_tv rest end.

Theorem history_tv : forall ops p, pool_tv p -> run_tv ops -> pool_tv (fold_left pnext ops p).
Proof.
  induction ops as [|op ops IH]; intros p G W; [exact G|]. cbn [fold_left]. destruct W as [W1 W2]. apply IH; [|exact W2].
  unfold pnext. destruct (pstep p op) as [[p' r] ws] eqn:E. cbn [fst]. eapply pstep_tv; eauto.
Qed.

(* every object of every reachable pool pickles to an independent value with the same observable state,
   no slack, and the copy compares equal *)
Theorem reachable_pickles ops : run_wf [] ops -> run_tv ops ->
  Forall (fun o => exists o', wf_pickle o = Ok o' /\ same_obs o' o /\ o_start o' = 0%nat /\ cap o' = o_count o /\ wf_eqb o' o = true)
         (fold_left pnext ops []).
Proof.
  intros W T. pose proof (history_good ops [] (Forall_nil _) W) as G. pose proof (history_tv ops [] (Forall_nil _) T) as V.
  unfold pool_good in G. unfold pool_tv in V. rewrite Forall_forall in *. intros o Ho.
  destruct (G o Ho) as [Go Co]. destruct (wf_pickle_spec o Go Co (V o Ho)) as (o' & P & S & St & Cp & _).
  exists o'. repeat split; try assumption; try apply S. apply wf_eqb_obs. exact S.
Qed.

(* ---------- Vector ---------- *)
Theorem v_pickle_id s : v_pickle s = Ok s.
Proof. destruct s. reflexivity. Qed.

(* re-deriving the value type from the first item is NOT the identity: an int vector holding a bool first *)
Theorem v_pickle_rederive_refuted : exists s, typed s /\ v_pickle_rederive s <> Ok s.
Proof.
  exists {| vt := TInt; elems := [SBool true; SInt 2] |}. split; [|vm_compute; discriminate].
  unfold typed. cbn. repeat constructor.
Qed.

(* ---------- independence of the copy, on the memory model of C12 ---------- *)
From NV Require Import Model.Alias Proofs.C12Proofs.

(* pickling / deep-copying the data of an object: the visible window is serialised and rebuilt in a
   freshly allocated array (ndarray.__reduce__ / __deepcopy__), then adopted by the constructor *)
Definition pickle_data (h : heap) (o : aobj) : heap * aobj :=
  let '(h', a) := alloc h (contents h (ao_view o)) (r_cols (ao_ref o)) in (h', mk_obj a true).

Theorem pickle_data_fresh h o h' c : pickle_data h o = (h', c) -> (r_buf (ao_ref o) < length h)%nat ->
  r_buf (ao_ref c) = length h /\ r_buf (ao_ref c) <> r_buf (ao_ref o) /\
  (forall b, (b < length h)%nat -> bufof h' b = bufof h b) /\
  ao_start c = 0%nat /\ ao_count c = ao_count o.
Proof.
  unfold pickle_data, alloc. intro H. inversion H. subst. clear H. intro L. cbn [mk_obj ao_ref ao_start ao_count r_buf r_rows].
  split; [reflexivity|]. split; [lia|]. split.
  - intros b Hb. unfold bufof. apply app_nth1. exact Hb.
  - split; [reflexivity|]. unfold contents. rewrite map_length, seq_length. reflexivity.
Qed.

(* hence (C12 isolation, applied with the original's array as "source" and the copy as "object"):
   after ANY interleaving of writes to the original's array and writes / appends on the copy, the
   original's memory is what the writes to the original alone made it, and the copy's memory and
   geometry are what the operations on the copy alone made them *)
Theorem pickled_copy_independent h o h' c ops : pickle_data h o = (h', c) -> (r_buf (ao_ref o) < length h)%nat ->
  agree (r_buf (ao_ref o)) (fst (arun (ao_ref o) (h', c) ops)) (fst (run_side src_only (ao_ref o) (h', c) ops)) /\
  agree (r_buf (ao_ref c)) (fst (arun (ao_ref o) (h', c) ops)) (fst (run_side obj_side (ao_ref o) (h', c) ops)) /\
  snd (arun (ao_ref o) (h', c) ops) = snd (run_side obj_side (ao_ref o) (h', c) ops).
Proof.
  intros P L. destruct (pickle_data_fresh _ _ _ _ P L) as (F & D & _).
  assert (D' : r_buf (ao_ref o) <> r_buf (ao_ref c)) by (intro E; apply D; symmetry; exact E).
  split; [apply isolation_source; [exact D'|reflexivity]|].
  apply isolation_object; [exact D'|reflexivity].
Qed.
