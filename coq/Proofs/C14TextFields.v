(* Proofs/C14TextFields.v — the texts of the regenerated field functions identify them. *)
From Coq Require Import ZArith List Bool Lia.
From NV Require Import Common.Py Common.Trans Spec.TimeSpec Gen.BintimeGen Model.Calendar Model.Convert
  Model.DateTimeFields Proofs.CalendarProofs Proofs.C14Proofs Model.Text Proofs.C14Text.
Import ListNotations.
Open Scope Z_scope.

Lemma valid_date_ranges y m d : valid_date y m d = true -> 1 <= m <= 12 /\ 1 <= d <= 31.
Proof.
  unfold valid_date. intros H. apply andb_prop in H as [H Hd]. apply andb_prop in H as [H Hd1].
  apply andb_prop in H as [Hm1 Hm2]. apply Z.leb_le in Hm1, Hm2, Hd1, Hd.
  assert (days_in_month y m <= 31).
  { unfold days_in_month. destruct m as [|p|p]; try lia. repeat (destruct p as [p|p|]; try lia); destruct (is_leap y); lia. }
  lia.
Qed.

Lemma td_text_identifies t : in128 t = true ->
  let '(d, h, m, s, f) := td_str_parts t in parse_td (render_td d h m s f) = Some (d, h, m, s, f).
Proof.
  intros Ht. pose proof (td_str_parts_spec t) as S. destruct (td_str_parts t) as [[[[d h] m] s] f].
  destruct S as (Hh & Hm & Hs & Hf & Hc).
  apply parse_td_render; try lia.
  - unfold in128, MIN128, MAX128 in Ht. apply andb_prop in Ht as [H1 H2]. apply Z.leb_le in H1, H2.
    unfold AS, T64 in *. lia.
  - unfold AS in Hf. lia.
Qed.

Lemma dt_text_identifies t :
  let '(y, mo, d) := dt_ymd t in
  0 <= y < 10000 ->
  parse_dt (render_dt y mo d (dt_hour t) (dt_minute t) (dt_second t) (dt_microsecond t) (dt_femtosecond t) (dt_yoctosecond t))
  = Some (y, mo, d, dt_hour t, dt_minute t, dt_second t, dt_microsecond t, dt_femtosecond t, dt_yoctosecond t).
Proof.
  pose proof (dt_fields_spec t) as F. destruct (dt_ymd t) as [[y mo] d]. destruct F as [V _].
  intros Hy. apply valid_date_ranges in V.
  destruct (dt_hms_spec t) as (Hh & Hmi & Hs & _ & Eus & Efs & Eys).
  destruct (td_fields_spec t) as (_ & Hus & Hfs & Hys & _).
  rewrite Eus, Efs, Eys. apply parse_dt_render; lia.
Qed.
