(* Proofs/C10Complete.v — the converse direction of C10 for NONE/REGULAR receivers: when the documented
   conditions hold, append(waveforms) MUST succeed, and its warnings are exactly the scale-mode and
   sample-interval mismatches, source by source. *)
From Coq Require Import ZArith List Lia Bool.
From NV Require Import Common.Py Spec.TimingSpec Model.Timing Model.Waveform Proofs.WfmProofs.
Open Scope Z_scope.

Definition src_compatible (o s : obj) : Prop :=
  o_dtype s = o_dtype o /\ (o_kind o = KDigital -> o_ncols s = o_ncols o).

Definition scale_warnings (o : obj) (srcs : list obj) : list warning :=
  flat_map (fun s => if has_scale (o_kind o) && negb (o_scale s =? o_scale o) then [WScaling] else []) srcs.
Definition timing_warnings (t : timing) (srcs : list obj) : list warning :=
  flat_map (fun s => if opt_z_eqb (t_si t) (t_si (o_timing s)) then [] else [WTiming]) srcs.

Lemma check_sources_complete o : forall srcs, Forall (src_compatible o) srcs -> check_sources o srcs = Ok (scale_warnings o srcs).
Proof.
  induction srcs as [|s srcs IH]; intro H; [reflexivity|]. inversion H as [|? ? [Hd Hn] Hr]; subst.
  cbn [check_sources scale_warnings flat_map]. rewrite Hd, Z.eqb_refl. cbn [negb].
  assert (K : kind_eqb (o_kind o) KDigital && negb (Nat.eqb (o_ncols s) (o_ncols o)) = false).
  { destruct (o_kind o) eqn:E; cbn; try reflexivity. rewrite (Hn eq_refl), Nat.eqb_refl. reflexivity. }
  rewrite K, (IH Hr). cbn [bind]. reflexivity.
Qed.

Lemma merge_timings_complete : forall srcs t, t_mode t <> 2 -> Forall (fun s => t_mode (o_timing s) <> 2) srcs ->
  merge_timings t srcs = Ok (t, timing_warnings t srcs).
Proof.
  induction srcs as [|s srcs IH]; intros t Ht H; [reflexivity|]. inversion H as [|? ? Hs Hr]; subst.
  cbn [merge_timings timing_warnings flat_map]. unfold append_timing.
  destruct (Z.eqb_spec (t_mode t) 2); [contradiction|]. destruct (Z.eqb_spec (t_mode (o_timing s)) 2); [contradiction|].
  cbn [bind]. rewrite (IH t Ht Hr). cbn [bind]. reflexivity.
Qed.

Lemma increase_capacity_complete o amount : (o_resizable o = true \/ (o_start o + o_count o + amount <= cap o)%nat) ->
  exists o1, increase_capacity o amount = Ok o1.
Proof.
  intro H. unfold increase_capacity. destruct (Nat.ltb_spec (cap o) (o_start o + o_count o + amount)) as [Hlt|Hge]; [|eauto].
  destruct H as [R|R]; [|lia]. unfold set_capacity, arg_uint. cbn [bind].
  destruct (Z.ltb_spec (Z.of_nat (o_start o + o_count o + amount)) 0); [lia|]. cbn [bind].
  destruct (Z.ltb_spec (Z.of_nat (o_start o + o_count o + amount)) (Z.of_nat (o_start o + o_count o))); [lia|].
  destruct (Z.eqb_spec (Z.of_nat (o_start o + o_count o + amount)) (Z.of_nat (cap o))); [eauto|].
  unfold resize_rows. rewrite R. cbn [negb bind]. eauto.
Qed.

(* NONE / REGULAR receiver (or a spectrum): compatible sources with NONE/REGULAR timing and a buffer
   that can hold or grow to the total => success, with exactly these warnings *)
Theorem append_waveforms_complete o srcs :
  Forall (src_compatible o) srcs ->
  (has_timing (o_kind o) = true -> t_mode (o_timing o) <> 2 /\ Forall (fun s => t_mode (o_timing s) <> 2) srcs) ->
  (o_resizable o = true \/ (o_start o + o_count o + fold_left (fun n s => (n + o_count s)%nat) srcs 0%nat <= cap o)%nat) ->
  exists o', append_waveforms o srcs =
    Ok (o', scale_warnings o srcs ++ (if has_timing (o_kind o) then timing_warnings (o_timing o) srcs else [])).
Proof.
  intros Hc Ht Hr. unfold append_waveforms. rewrite (check_sources_complete o srcs Hc). cbn [bind].
  destruct (has_timing (o_kind o)) eqn:HT.
  - destruct (Ht eq_refl) as [T1 T2]. rewrite (merge_timings_complete srcs _ T1 T2). cbn [bind].
    destruct (increase_capacity_complete o _ Hr) as [o1 E]. rewrite E. cbn [bind]. eauto.
  - cbn [bind]. destruct (increase_capacity_complete o _ Hr) as [o1 E]. rewrite E. cbn [bind]. eauto.
Qed.
