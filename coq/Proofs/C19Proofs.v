From Coq Require Import ZArith List Lia Bool.
From NV Require Import Common.Py Model.Scalar.
Open Scope Z_scope.

(* the attribute and the dictionary entry are two views of one value under any write sequence *)
Lemma p_get_del_same p k : p_get (p_del p k) k = None.
Proof. induction p as [|[k' v] p IH]; [reflexivity|]. cbn. destruct (Z.eqb_spec k k'); [exact IH|]. cbn. destruct (Z.eqb_spec k k'); [contradiction|exact IH]. Qed.
Lemma p_get_del_other p k k' : k <> k' -> p_get (p_del p k') k = p_get p k.
Proof.
  intro H. induction p as [|[k2 v] p IH]; [reflexivity|]. cbn.
  destruct (Z.eqb_spec k' k2).
  - subst. destruct (Z.eqb_spec k k2); [contradiction|exact IH].
  - cbn. destruct (Z.eqb_spec k k2); [reflexivity|exact IH].
Qed.
Lemma p_get_set_same p k v : p_get (p_set p k v) k = Some v.
Proof. unfold p_set. cbn. rewrite Z.eqb_refl. reflexivity. Qed.
Lemma p_get_set_other p k k' v : k <> k' -> p_get (p_set p k' v) k = p_get p k.
Proof. intro H. unfold p_set. cbn. destruct (Z.eqb_spec k k'); [contradiction|]. apply p_get_del_other. exact H. Qed.

(* writing through the attribute is visible in the dictionary, and vice versa; other keys untouched *)
Theorem attr_write_visible p k v p' : attr_set p k v = Ok p' ->
  p_get p' k = Some v /\ attr_get p' k = v /\ forall k', k' <> k -> p_get p' k' = p_get p k'.
Proof.
  unfold attr_set. destruct v as [s|]; [|discriminate]. intro H. inversion H. subst.
  repeat split; [apply p_get_set_same | unfold attr_get; rewrite p_get_set_same; reflexivity |].
  intros k' Hk. apply p_get_set_other. exact Hk.
Qed.
Theorem dict_write_visible p k v : attr_get (p_set p k v) k = v /\ forall k', k' <> k -> attr_get (p_set p k v) k' = attr_get p k'.
Proof.
  unfold attr_get. split; [rewrite p_get_set_same; reflexivity|].
  intros k' Hk. rewrite p_get_set_other by exact Hk. reflexivity.
Qed.
Theorem dict_delete_visible p k : attr_get (p_del p k) k = PStr 0.
Proof. unfold attr_get. rewrite p_get_del_same. reflexivity. Qed.
Theorem attr_rejects_non_str p k : attr_set p k PNonStr = Raise TypeError.
Proof. reflexivity. Qed.
(* under any history, the attribute always reads what the dictionary holds (or "" when absent) *)
Theorem units_view_any_history : forall ops p k,
  let p' := fold_left (fun st op => snd (u_step st op)) ops p in
  attr_get p' k = match p_get p' k with Some v => v | None => PStr 0 end.
Proof. intros. reflexivity. Qed.

(* constructor: a non-empty units argument that differs from an entry already present raises ValueError *)
Theorem ctor_conflict u ext k v : p_get ext k = Some v -> u <> 0 -> v <> PStr u ->
  ctor_units (PStr u) ext k = Raise ValueError.
Proof.
  intros H Hu Hv. unfold ctor_units. rewrite H.
  destruct (Z.eqb_spec u 0); [contradiction|]. cbn [negb andb].
  destruct v as [w|]; [|reflexivity]. destruct (Z.eqb_spec u w); [subst; contradiction|reflexivity].
Qed.
Theorem ctor_sets_units u ext k : p_get ext k = None ->
  exists p, ctor_units (PStr u) ext k = Ok p /\ attr_get p k = PStr u.
Proof.
  intro H. unfold ctor_units. rewrite H. eexists. split; [reflexivity|].
  unfold attr_get. rewrite p_get_set_same. reflexivity.
Qed.
Theorem ctor_units_type ext k : ctor_units PNonStr ext k = Raise TypeError.
Proof. reflexivity. Qed.

(* Scalar ordering: values compared when both numeric or both str with identical units; ValueError for
   different units, TypeError for numeric vs str (the units check comes first when both apply) *)
Theorem cmp_table op v1 u1 v2 u2 :
  (u1 <> u2 -> scalar_cmp op v1 u1 v2 u2 = Raise ValueError) /\
  (u1 = u2 -> forall a b, v1 = VNum a -> v2 = VStr b -> scalar_cmp op v1 u1 v2 u2 = Raise TypeError) /\
  (u1 = u2 -> forall a b, v1 = VStr a -> v2 = VNum b -> scalar_cmp op v1 u1 v2 u2 = Raise TypeError) /\
  (u1 = u2 -> forall a b, v1 = VNum a -> v2 = VNum b -> exists r, scalar_cmp op v1 u1 v2 u2 = Ok r) /\
  (u1 = u2 -> forall a b, v1 = VStr a -> v2 = VStr b -> exists r, scalar_cmp op v1 u1 v2 u2 = Ok r).
Proof.
  unfold scalar_cmp. repeat split.
  - intro H. destruct (Z.eqb_spec u1 u2); [contradiction|reflexivity].
  - intros -> a b -> ->. rewrite Z.eqb_refl. reflexivity.
  - intros -> a b -> ->. rewrite Z.eqb_refl. reflexivity.
  - intros -> a b -> ->. rewrite Z.eqb_refl. eexists. reflexivity.
  - intros -> a b -> ->. rewrite Z.eqb_refl. eexists. reflexivity.
Qed.

Lemma cmp_fin_antisym m1 e1 m2 e2 : cmp_fin m2 e2 m1 e1 = CompOpp (cmp_fin m1 e1 m2 e2).
Proof. unfold cmp_fin. rewrite (Z.min_comm e2 e1). apply Z.compare_antisym. Qed.

(* on finite numbers the four operators are one total order: a <= b  <->  not (b < a), etc. *)
Theorem cmp_consistent m1 e1 m2 e2 u :
  let a := VNum (Fin m1 e1) in let b := VNum (Fin m2 e2) in
  scalar_cmp OLe a u b u = Ok (negb (num_lt (Fin m2 e2) (Fin m1 e1))) /\
  scalar_cmp OGe a u b u = Ok (negb (num_lt (Fin m1 e1) (Fin m2 e2))) /\
  scalar_cmp OGt a u b u = Ok (num_lt (Fin m2 e2) (Fin m1 e1)) /\
  (num_lt (Fin m1 e1) (Fin m2 e2) = true \/ num_eq (Fin m1 e1) (Fin m2 e2) = true \/ num_lt (Fin m2 e2) (Fin m1 e1) = true).
Proof.
  cbn zeta. unfold scalar_cmp. rewrite Z.eqb_refl. cbn [negb num_lt num_eq].
  rewrite (cmp_fin_antisym m1 e1 m2 e2).
  destruct (cmp_fin m1 e1 m2 e2); cbn; auto 6.
Qed.

Theorem eq_iff v1 u1 v2 u2 : scalar_eq v1 u1 v2 u2 = true ->
  u1 = u2 /\ match v1, v2 with VNum a, VNum b => num_eq a b = true | VStr a, VStr b => a = b | _, _ => False end.
Proof.
  unfold scalar_eq. rewrite andb_true_iff, Z.eqb_eq. intros [H ->]. split; [reflexivity|].
  destruct v1, v2; try discriminate; [exact H|]. apply (list_eqb_eq Z.eqb Z.eqb_eq). exact H.
Qed.

Theorem only_scalars_accepted v : (exists r, scalar_init v = Ok r) <-> v <> VOtherType.
Proof. destruct v; cbn; split; try (intros _; discriminate); try (intros _; eexists; reflexivity); [intros [r H]; discriminate | intro H; contradiction]. Qed.

(* XYData: construction succeeds iff both axes are 1-D, of equal length and of one supported dtype *)
Theorem xy_ok_iff x y :
  xy_init x y = Ok tt <->
  (a_ndim x = 1 /\ a_ndim y = 1 /\ a_len x = a_len y /\ a_dtype x = a_dtype y /\ a_supported x = true).
Proof.
  unfold xy_init.
  destruct (Z.eqb_spec (a_dtype x) (a_dtype y)); cbn [negb]; [|split; [discriminate|intros (_ & _ & _ & H & _); contradiction]].
  destruct (Z.eqb_spec (a_ndim x) 1); cbn [negb]; [|split; [discriminate|intros (H & _); contradiction]].
  destruct (Z.eqb_spec (a_ndim y) 1); cbn [negb]; [|split; [discriminate|intros (_ & H & _); contradiction]].
  destruct (Z.eqb_spec (a_len x) (a_len y)); cbn [negb]; [|split; [discriminate|intros (_ & _ & H & _); contradiction]].
  destruct (a_supported x); cbn [negb]; split; auto; try discriminate. intros (_ & _ & _ & _ & H). discriminate.
Qed.
Theorem xy_error_class x y e : xy_init x y = Raise e -> e = TypeError \/ e = ValueError.
Proof.
  unfold xy_init. repeat (match goal with |- context [if ?c then _ else _] => destruct c end); intro H; inversion H; auto.
Qed.
