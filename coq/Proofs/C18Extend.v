(* Proofs/C18Extend.v — extend / += characterised exactly: the vector ends up with its old items
   followed by the longest well-typed prefix of the argument, and the call succeeds iff that prefix
   is the whole argument (TypeError otherwise). *)
From Coq Require Import ZArith List Lia Bool.
From NV Require Import Common.Py Spec.ListSpec Model.Vector Proofs.C18Proofs.
Import ListNotations.
Open Scope Z_scope.

Fixpoint typed_prefix (t : vty) (items : list sval) : list sval :=
  match items with
  | [] => []
  | x :: rest => if instance_of t x then x :: typed_prefix t rest else []
  end.

Lemma l_insert_end {A} (l : list A) (x : A) : l_insert l (len l) x = l ++ [x].
Proof.
  unfold l_insert, len. destruct (Z.ltb_spec (Z.of_nat (length l)) 0); [lia|].
  rewrite Z.min_id, Nat2Z.id, firstn_all, skipn_all. reflexivity.
Qed.

Lemma extend_exact : forall items s,
  v_extend_items s items =
    (if forallb (instance_of (vt s)) items
     then Ok {| vt := vt s; elems := elems s ++ items |} else Raise TypeError,
     {| vt := vt s; elems := elems s ++ typed_prefix (vt s) items |}).
Proof.
  induction items as [|x rest IH]; intros [t l].
  - cbn [v_extend_items forallb typed_prefix vt elems]. rewrite app_nil_r. reflexivity.
  - cbn [v_extend_items forallb typed_prefix]. unfold v_insert. cbn [vt elems].
    destruct (instance_of t x) eqn:E; cbn [negb andb].
    + rewrite IH. cbn [vt elems]. rewrite l_insert_end, <- !app_assoc. reflexivity.
    + rewrite app_nil_r. reflexivity.
Qed.

Lemma typed_prefix_all t items : forallb (instance_of t) items = true -> typed_prefix t items = items.
Proof.
  induction items as [|x rest IH]; [reflexivity|]. cbn [forallb typed_prefix].
  destruct (instance_of t x); [|discriminate]. cbn [andb]. intro H. rewrite IH by exact H. reflexivity.
Qed.

(* the kept prefix is a prefix, every kept item has the value type, and the first dropped item does not *)
Lemma typed_prefix_spec t items :
  exists rest, items = typed_prefix t items ++ rest /\
    Forall (fun v => instance_of t v = true) (typed_prefix t items) /\
    match rest with [] => True | y :: _ => instance_of t y = false end.
Proof.
  induction items as [|x xs IH].
  - exists []. repeat split. constructor.
  - cbn [typed_prefix]. destruct (instance_of t x) eqn:E.
    + destruct IH as (rest & H1 & H2 & H3). exists rest. repeat split.
      * cbn [app]. f_equal. exact H1.
      * constructor; assumption.
      * exact H3.
    + exists (x :: xs). repeat split; [constructor | exact E].
Qed.

(* the same at the level of one operation of the history model: extend and += *)
Theorem step_extend_exact s items :
  let kept := {| vt := vt s; elems := elems s ++ typed_prefix (vt s) items |} in
  v_step s (VExtend (ItItems items)) =
    (if forallb (instance_of (vt s)) items then Ok RNone else Raise TypeError, kept) /\
  v_step s (VIadd (ItItems items)) = v_step s (VExtend (ItItems items)).
Proof.
  cbn zeta. split; [|reflexivity].
  unfold v_step. rewrite extend_exact.
  destruct (forallb (instance_of (vt s)) items); reflexivity.
Qed.

(* a well-typed argument is appended whole and in order; nothing else changes *)
Corollary step_extend_ok s items :
  forallb (instance_of (vt s)) items = true ->
  v_step s (VExtend (ItItems items)) = (Ok RNone, {| vt := vt s; elems := elems s ++ items |}).
Proof.
  intro H. destruct (step_extend_exact s items) as [-> _]. rewrite H, typed_prefix_all by exact H. reflexivity.
Qed.

(* v.extend(v) / v += v doubles a typed vector *)
Lemma typed_forallb s : typed s -> forallb (instance_of (vt s)) (elems s) = true.
Proof. unfold typed. intro H. apply forallb_forall. rewrite Forall_forall in H. exact H. Qed.

Corollary step_extend_self s : typed s ->
  v_step s (VExtend ItSelf) = (Ok RNone, {| vt := vt s; elems := elems s ++ elems s |}).
Proof.
  intro H. unfold v_step. rewrite extend_exact, (typed_forallb s H), typed_prefix_all by exact (typed_forallb s H).
  reflexivity.
Qed.
