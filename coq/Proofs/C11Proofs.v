From Coq Require Import ZArith List Lia Bool.
From NV Require Import Common.Py Model.Complex Model.Waveform Model.Scaling Proofs.WfmProofs.
Open Scope Z_scope.

(* ---------- structure: dtype, window, length, element-by-element ---------- *)
Lemma arg_uint_ok' a d z : arg_uint a d = Ok z -> 0 <= z.
Proof. apply arg_uint_ok. Qed.

Theorem window_spec {A} (l : list A) start sc w : window l start sc = Ok w ->
  exists s c, arg_uint start (Some 0) = Ok s /\ arg_uint sc (Some (Z.of_nat (length l) - s)) = Ok c /\
    0 <= s /\ 0 <= c /\ s + c <= Z.of_nat (length l) /\
    w = firstn (Z.to_nat c) (skipn (Z.to_nat s) l) /\ length w = Z.to_nat c.
Proof.
  unfold window. destruct (arg_uint start (Some 0)) as [s|] eqn:E1; cbn [bind]; [|discriminate].
  destruct (Z.ltb_spec (Z.of_nat (length l)) s) as [|Hs]; [discriminate|].
  destruct (arg_uint sc (Some (Z.of_nat (length l) - s))) as [c|] eqn:E2; cbn [bind]; [|discriminate].
  destruct (Z.ltb_spec (Z.of_nat (length l)) (s + c)) as [|Hc]; [discriminate|].
  intro H. inversion H. pose proof (arg_uint_ok _ _ _ E1). pose proof (arg_uint_ok _ _ _ E2).
  exists s, c. repeat split; try assumption; try reflexivity.
  rewrite firstn_length, skipn_length. lia.
Qed.

Lemma arg_uint_raise a d e : arg_uint a d = Raise e -> e = TypeError \/ e = ValueError.
Proof.
  unfold arg_uint. destruct a as [|z|]; [destruct d as [z|]| |]; try (intro H; inversion H; auto; fail);
  destruct (z <? 0); intro H; inversion H; auto.
Qed.

Theorem window_rejects {A} (l : list A) start sc e : window l start sc = Raise e -> e = TypeError \/ e = ValueError.
Proof.
  unfold window. destruct (arg_uint start (Some 0)) as [s|e1] eqn:E1; cbn [bind].
  - destruct (_ <? s); [intro H; inversion H; auto|].
    destruct (arg_uint sc _) as [c|e2] eqn:E2; cbn [bind].
    + destruct (_ <? s + c); intro H; inversion H; auto.
    + intro H. inversion H. subst. eapply arg_uint_raise; eauto.
  - intro H. inversion H. subst. eapply arg_uint_raise; eauto.
Qed.

(* window outside the waveform raises ValueError *)
Theorem window_outside {A} (l : list A) s c : 0 <= s -> 0 <= c -> Z.of_nat (length l) < s + c ->
  window l (IInt s) (IInt c) = Raise ValueError.
Proof.
  intros Hs Hc H. unfold window, arg_uint. destruct (Z.ltb_spec s 0); [lia|]. cbn [bind].
  destruct (Z.ltb_spec (Z.of_nat (length l)) s); [reflexivity|].
  destruct (Z.ltb_spec c 0); [lia|]. cbn [bind]. destruct (Z.ltb_spec (Z.of_nat (length l)) (s + c)); [reflexivity|lia].
Qed.

(* get_raw_data of a pool object is this window of its visible samples *)
Theorem get_data_window o start sc : (o_start o + o_count o <= cap o)%nat -> get_data o start sc = window (view o) start sc.
Proof. intro G. unfold get_data, window. rewrite (view_length o G). reflexivity. Qed.

Lemma nth_firstn_lt' {A} (l : list A) d : forall n k, (k < n)%nat -> nth k (firstn n l) d = nth k l d.
Proof.
  induction l as [|x l IH]; intros n k H; [rewrite firstn_nil; reflexivity|].
  destruct n; [lia|]. destruct k; [reflexivity|]. cbn. apply IH. lia.
Qed.
Lemma nth_skipn' {A} (l : list A) d : forall n k, nth k (skipn n l) d = nth (n + k) l d.
Proof.
  induction l as [|x l IH]; intros n k; [rewrite skipn_nil; destruct k; destruct n; reflexivity|].
  destruct n; [reflexivity|]. cbn. apply IH.
Qed.

Theorem get_scaled_spec raw s d start sc tag out : get_scaled raw s d start sc = Ok (tag, out) ->
  exists f st c, fmt_of d = Ok (tag, f) /\ 0 <= st /\ 0 <= c /\ st + c <= Z.of_nat (length raw) /\
    arg_uint start (Some 0) = Ok st /\ arg_uint sc (Some (Z.of_nat (length raw) - st)) = Ok c /\
    out = map (scale_elem f s) (firstn (Z.to_nat c) (skipn (Z.to_nat st) raw)) /\ length out = Z.to_nat c /\
    (* the k-th element is the scaled raw[start+k] *)
    forall k, (k < Z.to_nat c)%nat -> nth k out (FNan, FNan) = scale_elem f s (nth (Z.to_nat st + k) raw (FNan, FNan)).
Proof.
  unfold get_scaled. destruct (fmt_of d) as [[t f]|] eqn:Ef; cbn [bind]; [|discriminate].
  destruct (window raw start sc) as [w|] eqn:Ew; cbn [bind]; [|discriminate].
  intro H. inversion H. subst tag out. clear H. cbn [fst snd].
  destruct (window_spec _ _ _ _ Ew) as (st & c & A1 & A2 & A3 & A4 & A5 & A6 & A7).
  exists f, st, c. repeat split; try assumption.
  - subst w. reflexivity.
  - rewrite map_length. exact A7.
  - intros k Hk. assert (Hk' : (k < length w)%nat) by lia.
    rewrite (nth_indep _ _ (scale_elem f s (FNan, FNan))) by (rewrite map_length; exact Hk').
    rewrite map_nth. f_equal. subst w. rewrite nth_firstn_lt' by exact Hk. apply nth_skipn'.
Qed.

(* scaled_data is get_scaled_data() over the whole waveform *)
Theorem scaled_data_whole raw s : scaled_data raw s = Ok (64, map (scale_elem b64 s) raw).
Proof.
  unfold scaled_data, get_scaled. cbn [fmt_of bind fst snd]. unfold window, arg_uint.
  cbn [bind]. change (0 <? 0) with false. cbn iota. cbn [bind].
  destruct (Z.ltb_spec (Z.of_nat (length raw)) 0); [lia|]. cbn [bind].
  rewrite Z.sub_0_r. destruct (Z.ltb_spec (Z.of_nat (length raw)) 0); [lia|]. cbn [bind].
  rewrite Z.add_0_l, Z.ltb_irrefl. rewrite Nat2Z.id. cbn [Z.to_nat skipn]. rewrite firstn_all. reflexivity.
Qed.

Theorem bad_dtype_rejected raw s start sc : get_scaled raw s RBad start sc = Raise TypeError.
Proof. reflexivity. Qed.

(* NO_SCALING: the k-th element is raw converted to the requested precision, nothing else *)
Theorem no_scaling_elem f x : scale_elem f SNone x = (rnd f (fst x), rnd f (snd x)).
Proof. reflexivity. Qed.

(* ---------- floating point: round-to-nearest-even error ---------- *)
Lemma pow2_pos k : 0 < 2 ^ k \/ k < 0.
Proof. destruct (Z.lt_ge_cases k 0); [right; assumption|left; apply Z.pow_pos_nonneg; lia]. Qed.

Lemma rne_shift_err a k : 0 <= a -> 0 < k -> 2 * Z.abs (rne_shift a k * 2 ^ k - a) <= 2 ^ k.
Proof.
  intros Ha Hk. unfold rne_shift. set (d := 2 ^ k). assert (Hd : 0 < d) by (apply Z.pow_pos_nonneg; lia).
  pose proof (Z.div_mod a d ltac:(lia)) as DM. pose proof (Z.mod_pos_bound a d Hd) as MB.
  set (q := a / d) in *. set (r := a mod d) in *.
  destruct (Z.ltb_spec (2 * r) d); [lia|]. destruct (Z.ltb_spec d (2 * r)); [lia|].
  destruct (Z.even q); lia.
Qed.

Lemma rne_shift_nonneg a k : 0 <= a -> 0 < k -> 0 <= rne_shift a k.
Proof.
  intros Ha Hk. unfold rne_shift. assert (Hd : 0 < 2 ^ k) by (apply Z.pow_pos_nonneg; lia).
  pose proof (Z.div_pos a (2 ^ k) Ha Hd). destruct (_ <? _); [lia|]. destruct (_ <? _); [lia|]. destruct (Z.even _); lia.
Qed.

(* the quantum (unit in the last place) rnd uses for a finite non-zero value *)
Definition quantum (f : fmt) (m e : Z) : Z := Z.max (e + Z.log2 (Z.abs m) - (prec f - 1)) (qmin f).

(* values are compared after scaling by 2^-s for any s below every exponent involved, so that
   everything is an integer: |rnd x - x| <= quantum/2 *)
Lemma rnd_unfold f m e : m <> 0 ->
  rnd f (FNum m e) =
    let a := Z.abs m in
    let q := Z.max (e + Z.log2 a - (prec f - 1)) (qmin f) in
    let M := if q <=? e then a * 2 ^ (e - q) else rne_shift a (q - e) in
    if (0 <=? q) && (2 ^ (emax f) <=? M * 2 ^ q) then FInf (m <? 0) else FNum (Z.sgn m * M) q.
Proof. destruct m; [contradiction|reflexivity|reflexivity]. Qed.

Lemma abs_sgn_mul m x : m <> 0 -> Z.abs (Z.sgn m * x) = Z.abs x.
Proof. intro H. rewrite Z.abs_mul. destruct m; [contradiction| |]; cbn [Z.sgn Z.abs]; lia. Qed.

Theorem rnd_err f m e m' q' : m <> 0 -> rnd f (FNum m e) = FNum m' q' ->
  q' = quantum f m e /\ forall s, s <= e -> s <= q' -> 2 * Z.abs (m' * 2 ^ (q' - s) - m * 2 ^ (e - s)) <= 2 ^ (q' - s).
Proof.
  intros Hm. rewrite (rnd_unfold f m e Hm). cbv zeta.
  set (a := Z.abs m). set (q := Z.max (e + Z.log2 a - (prec f - 1)) (qmin f)).
  set (M := if q <=? e then a * 2 ^ (e - q) else rne_shift a (q - e)).
  destruct ((0 <=? q) && (2 ^ emax f <=? M * 2 ^ q)); [discriminate|].
  intro H. inversion H. subst m' q'. split; [reflexivity|]. intros s Hs Hq.
  assert (Ha : 0 < a) by (unfold a; lia).
  assert (Hma : m = Z.sgn m * a) by (unfold a; destruct m; cbn [Z.sgn Z.abs]; lia).
  unfold M. destruct (Z.leb_spec q e) as [Hqe|Hqe].
  - replace (2 ^ (e - s)) with (2 ^ (e - q) * 2 ^ (q - s)) by (rewrite <- Z.pow_add_r by lia; f_equal; lia).
    assert (0 < 2 ^ (q - s)) by (apply Z.pow_pos_nonneg; lia).
    replace (m * (2 ^ (e - q) * 2 ^ (q - s))) with (Z.sgn m * a * (2 ^ (e - q) * 2 ^ (q - s))) by (rewrite <- Hma; reflexivity).
    replace (Z.sgn m * (a * 2 ^ (e - q)) * 2 ^ (q - s) - Z.sgn m * a * (2 ^ (e - q) * 2 ^ (q - s))) with 0 by ring. cbn. lia.
  - replace (2 ^ (q - s)) with (2 ^ (q - e) * 2 ^ (e - s)) by (rewrite <- Z.pow_add_r by lia; f_equal; lia).
    pose proof (rne_shift_err a (q - e) ltac:(lia) ltac:(lia)) as E.
    assert (HS : 0 < 2 ^ (e - s)) by (apply Z.pow_pos_nonneg; lia).
    set (D := 2 ^ (q - e)) in *. set (S := 2 ^ (e - s)) in *. set (R := rne_shift a (q - e)) in *.
    replace (m * S) with (Z.sgn m * a * S) by (rewrite <- Hma; reflexivity).
    replace (Z.sgn m * R * (D * S) - Z.sgn m * a * S) with (Z.sgn m * ((R * D - a) * S)) by ring.
    rewrite abs_sgn_mul by exact Hm. rewrite Z.abs_mul, (Z.abs_eq S) by lia. nia.
Qed.

(* the same bound without the side condition (a zero rounds to zero exactly) *)
Theorem rnd_err0 f m e m' q' : rnd f (FNum m e) = FNum m' q' ->
  forall s, s <= e -> s <= q' -> 2 * Z.abs (m' * 2 ^ (q' - s) - m * 2 ^ (e - s)) <= 2 ^ (q' - s).
Proof.
  destruct (Z.eq_dec m 0) as [Hz|Hz].
  - subst m. cbn [rnd]. intro H. inversion H. subst. intros s _ Hs. cbn [Z.mul]. rewrite Z.sub_0_r. cbn [Z.abs Z.mul].
    assert (0 < 2 ^ (0 - s)) by (apply Z.pow_pos_nonneg; lia). lia.
  - intro H. apply (rnd_err f m e m' q' Hz H).
Qed.

(* a value that fits the precision (|m| < 2^prec, exponent not below the smallest quantum) is
   converted exactly: e.g. every int8/int16 sample in float32, every int32 sample in float64 *)
Theorem rnd_exact f m e m' q' : m <> 0 -> Z.abs m < 2 ^ prec f -> 0 < prec f -> qmin f <= e ->
  rnd f (FNum m e) = FNum m' q' -> q' <= e /\ forall s, s <= q' -> m' * 2 ^ (q' - s) = m * 2 ^ (e - s).
Proof.
  intros Hm Hlt Hp Hq. rewrite (rnd_unfold f m e Hm). cbv zeta.
  set (a := Z.abs m) in *. set (q := Z.max (e + Z.log2 a - (prec f - 1)) (qmin f)).
  assert (Ha : 0 < a) by (unfold a; lia).
  assert (HL : Z.log2 a < prec f) by (apply Z.log2_lt_pow2; assumption).
  assert (Hqe : q <= e) by (unfold q; lia).
  destruct (Z.leb_spec q e) as [_|]; [|lia].
  destruct ((0 <=? q) && _); [discriminate|]. intro H. inversion H. subst m' q'. split; [exact Hqe|]. intros s Hs.
  assert (Hma : m = Z.sgn m * a) by (unfold a; destruct m; cbn [Z.sgn Z.abs]; lia).
  replace (2 ^ (e - s)) with (2 ^ (e - q) * 2 ^ (q - s)) by (rewrite <- Z.pow_add_r by lia; f_equal; lia).
  rewrite Hma at 2. ring.
Qed.

(* LinearScaleMode on a real sample, all values finite: the result is within half a quantum of the
   product plus half a quantum of the sum of x*g + o, where x, g, o are the operands in the array's
   precision (x = converted raw sample, g = gain, o = offset) *)
Theorem lin_err f mx ex mg eg mo eo m1 q1 m2 q2 :
  rnd f (FNum (mx * mg) (ex + eg)) = FNum m1 q1 ->
  rnd f (fadd_exact (FNum m1 q1) (FNum mo eo)) = FNum m2 q2 ->
  forall s, s <= ex + eg -> s <= eo -> s <= q1 -> s <= q2 ->
    2 * Z.abs (m2 * 2 ^ (q2 - s) - (mx * mg * 2 ^ (ex + eg - s) + mo * 2 ^ (eo - s))) <= 2 ^ (q1 - s) + 2 ^ (q2 - s).
Proof.
  intros HP HR s S1 S2 S3 S4. cbn [fadd_exact] in HR. set (e0 := Z.min q1 eo) in *.
  pose proof (rnd_err0 _ _ _ _ _ HP s S1 S3) as E1.
  assert (S0 : s <= e0) by (unfold e0; lia).
  pose proof (rnd_err0 _ _ _ _ _ HR s S0 S4) as E2.
  replace ((m1 * 2 ^ (q1 - e0) + mo * 2 ^ (eo - e0)) * 2 ^ (e0 - s)) with (m1 * 2 ^ (q1 - s) + mo * 2 ^ (eo - s)) in E2.
  - lia.
  - replace (2 ^ (q1 - s)) with (2 ^ (q1 - e0) * 2 ^ (e0 - s)) by (rewrite <- Z.pow_add_r by (unfold e0; lia); f_equal; lia).
    replace (2 ^ (eo - s)) with (2 ^ (eo - e0) * 2 ^ (e0 - s)) by (rewrite <- Z.pow_add_r by (unfold e0; lia); f_equal; lia).
    ring.
Qed.

(* tie to the model function: lin_real is exactly those two roundings *)
Theorem lin_real_unfold f g o x : lin_real f g o x = rnd f (fadd_exact (rnd f (fmul_exact x (rnd f (rnd b64 g)))) (rnd f (rnd b64 o))).
Proof. reflexivity. Qed.
