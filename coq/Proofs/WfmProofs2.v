(* Proofs/WfmProofs2.v — C09 / C10 consequences of the pool invariant. *)
From Coq Require Import ZArith List Lia Bool.
From NV Require Import Common.Py Spec.TimingSpec Model.Timing Model.Waveform Proofs.WfmProofs Proofs.TimingProofs.
Open Scope Z_scope.

Definition irregular_ok (o : obj) : Prop :=
  has_timing (o_kind o) = true -> forall l, t_tss (o_timing o) = Some l -> length l = o_count o /\ monotone l = true.

Lemma irregular_reachable : forall ops p, pool_good p -> run_wf p ops ->
  Forall irregular_ok (fold_left pnext ops p).
Proof.
  intros ops p G W. pose proof (history_good ops p G W) as H. unfold pool_good in H.
  eapply Forall_impl; [|exact H]. intros o [Go Co] HT l Hl.
  destruct (good_meaning o Go Co) as (_ & _ & _ & K). destruct (K HT l Hl) as [K1 K2].
  split; [exact K1|]. rewrite <- monotonic_iff. exact K2.
Qed.

Lemma irregular_count_mismatch_rejected : forall o t l, t_tss t = Some l -> length l <> o_count o ->
  assign_timing o (Some t) = Raise IrregularTimestampCountMismatchError.
Proof.
  intros o t l Hl Hn. unfold assign_timing, validate_timing. rewrite Hl.
  destruct (Nat.eqb_spec (length l) (o_count o)); [contradiction|reflexivity].
Qed.

Lemma irregular_sample_count_rejected : forall o l n, has_timing (o_kind o) = true -> t_tss (o_timing o) = Some l ->
  0 <= n -> Z.of_nat (o_start o) + n <= Z.of_nat (cap o) -> length l <> Z.to_nat n ->
  set_sample_count o (IInt n) = Raise IrregularTimestampCountMismatchError.
Proof.
  intros o l n HT Hl Hn Hc Hne. unfold set_sample_count. cbn [arg_uint].
  destruct (Z.ltb_spec n 0); [lia|]. cbn [bind]. destruct (Z.ltb_spec (Z.of_nat (cap o)) (Z.of_nat (o_start o) + n)); [lia|].
  rewrite HT. unfold validate_timing. rewrite Hl. destruct (Nat.eqb_spec (length l) (Z.to_nat n)); [contradiction|reflexivity].
Qed.

Lemma irregular_get_all_timestamps : forall r o l, good o -> has_timing (o_kind o) = true -> t_tss (o_timing o) = Some l ->
  get_timestamps r (o_timing o) 0 (Z.of_nat (o_count o)) = Ok l.
Proof.
  intros r o l (G1 & G2 & G3 & G4) HT Hl. pose proof (G4 HT l Hl) as L.
  unfold timing_wf in G3. rewrite Hl in G3. destruct G3 as [M _].
  unfold get_timestamps. rewrite M, Hl. cbn [Z.ltb Z.compare].
  destruct (Z.ltb_spec (Z.of_nat (o_count o)) 0); [lia|].
  destruct (Z.ltb_spec (Z.of_nat (length l)) (0 + Z.of_nat (o_count o))); [lia|].
  rewrite Nat2Z.id. cbn [Z.to_nat skipn]. rewrite <- L, firstn_all. reflexivity.
Qed.

Lemma array_timestamps_rule : forall t,
  (t_mode t = 2 -> append_timestamps t TsNone = Raise TimingMismatchError) /\
  (t_mode t <> 2 -> append_timestamps t TsNone = Ok t /\ forall l, append_timestamps t (TsList l) = Raise ValueError).
Proof.
  intro t. unfold append_timestamps. split.
  - intros ->. reflexivity.
  - intro H. destruct (Z.eqb_spec (t_mode t) 2); [contradiction|]. split; [reflexivity|intro l; reflexivity].
Qed.
