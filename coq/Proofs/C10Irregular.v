(* Proofs/C10Irregular.v — the converse direction of C10 for IRREGULAR receivers: compatible IRREGULAR sources whose
   timestamps, put after the receiver's, keep the whole sequence monotonic MUST be accepted, without a timing warning,
   and the receiver ends up with exactly the concatenated timestamps. *)
From Coq Require Import ZArith List Lia Bool.
From NV Require Import Common.Py Spec.TimingSpec Model.Timing Model.Waveform Proofs.TimingProofs Proofs.WfmProofs Proofs.C10Complete.
Import ListNotations.
Open Scope Z_scope.

Definition stss (s : obj) : list Z := match t_tss (o_timing s) with Some l => l | None => [] end.
Definition irregular_src (s : obj) : Prop := t_mode (o_timing s) = 2 /\ exists b, t_tss (o_timing s) = Some b.

Lemma nondecr_prefix l1 : forall p l2, nondecr_from p (l1 ++ l2) = true -> nondecr_from p l1 = true.
Proof.
  induction l1 as [|x l1 IH]; intros p l2 H; [reflexivity|]. cbn [app nondecr_from] in *.
  apply andb_prop in H as [H1 H2]. rewrite H1, (IH _ _ H2). reflexivity.
Qed.
Lemma nonincr_prefix l1 : forall p l2, nonincr_from p (l1 ++ l2) = true -> nonincr_from p l1 = true.
Proof.
  induction l1 as [|x l1 IH]; intros p l2 H; [reflexivity|]. cbn [app nonincr_from] in *.
  apply andb_prop in H as [H1 H2]. rewrite H1, (IH _ _ H2). reflexivity.
Qed.
Lemma monotone_prefix l1 l2 : monotone (l1 ++ l2) = true -> monotone l1 = true.
Proof.
  destruct l1 as [|x l1]; [reflexivity|]. cbn [app monotone]. intro H. apply orb_prop in H as [H|H].
  - rewrite (nondecr_prefix _ _ _ H). reflexivity.
  - rewrite (nonincr_prefix _ _ _ H). apply orb_true_r.
Qed.

Lemma merge_timings_irregular : forall srcs t a,
  t_mode t = 2 -> t_tss t = Some a -> Forall irregular_src srcs ->
  monotone (a ++ flat_map stss srcs) = true ->
  exists t', merge_timings t srcs = Ok (t', []) /\ t_mode t' = 2 /\ t_tss t' = Some (a ++ flat_map stss srcs).
Proof.
  induction srcs as [|s srcs IH]; intros t a Hm Ha Hs Hmono.
  - exists t. cbn [merge_timings flat_map]. rewrite app_nil_r. auto.
  - inversion Hs as [|? ? [Sm [b Sb]] Hr]; subst. cbn [merge_timings flat_map] in *.
    assert (Es : stss s = b) by (unfold stss; rewrite Sb; reflexivity). rewrite Es in *.
    unfold append_timing. rewrite Hm, Sm. cbn [Z.eqb Pos.eqb negb]. rewrite Ha, Sb.
    destruct a as [|x a].
    + (* an empty receiver adopts the source's timing *)
      cbn [bind]. destruct (IH (o_timing s) b Sm Sb Hr Hmono) as (t' & E & M & T).
      exists t'. rewrite E. cbn [bind app]. auto.
    + destruct b as [|y b].
      * cbn [bind]. cbn [app] in Hmono. destruct (IH t (x :: a) Hm Ha Hr Hmono) as (t' & E & M & T).
        exists t'. rewrite E. cbn [bind app]. auto.
      * assert (P : monotonic_sm ((x :: a) ++ y :: b) = true).
        { rewrite monotonic_iff. apply (monotone_prefix _ (flat_map stss srcs)). rewrite <- app_assoc. exact Hmono. }
        rewrite P. cbn [bind].
        set (t1 := {| t_mode := 2; t_ts := None; t_off := None; t_si := None; t_tss := Some ((x :: a) ++ y :: b) |}).
        destruct (IH t1 ((x :: a) ++ y :: b) eq_refl eq_refl Hr) as (t' & E & M & T).
        { rewrite <- app_assoc. exact Hmono. }
        exists t'. rewrite E. cbn [bind app]. rewrite T, <- app_assoc. auto.
Qed.

Theorem append_waveforms_irregular_complete o srcs a :
  Forall (src_compatible o) srcs -> has_timing (o_kind o) = true ->
  t_mode (o_timing o) = 2 -> t_tss (o_timing o) = Some a -> Forall irregular_src srcs ->
  monotone (a ++ flat_map stss srcs) = true ->
  (o_resizable o = true \/ (o_start o + o_count o + fold_left (fun n s => (n + o_count s)%nat) srcs 0%nat <= cap o)%nat) ->
  exists o', append_waveforms o srcs = Ok (o', scale_warnings o srcs)
             /\ t_mode (o_timing o') = 2 /\ t_tss (o_timing o') = Some (a ++ flat_map stss srcs).
Proof.
  intros Hc HT Hm Ha Hs Hmono Hr. unfold append_waveforms. rewrite (check_sources_complete o srcs Hc). cbn [bind]. rewrite HT.
  destruct (merge_timings_irregular srcs _ a Hm Ha Hs Hmono) as (t' & E & M & T). rewrite E. cbn [bind].
  destruct (increase_capacity_complete o _ Hr) as [o1 E1]. rewrite E1. cbn [bind].
  eexists. split; [rewrite app_nil_r; reflexivity|]. cbn [o_timing]. auto.
Qed.

(* ... and when the concatenation is NOT monotonic the append is refused with ValueError (nothing else can happen) *)
Lemma merge_timings_irregular_reject : forall srcs t a,
  t_mode t = 2 -> t_tss t = Some a -> monotone a = true -> Forall irregular_src srcs ->
  Forall (fun s => monotone (stss s) = true) srcs ->
  monotone (a ++ flat_map stss srcs) = false ->
  merge_timings t srcs = Raise ValueError.
Proof.
  induction srcs as [|s srcs IH]; intros t a Hm Ha Hwa Hs Hws Hmono.
  - cbn [flat_map] in Hmono. rewrite app_nil_r in Hmono. congruence.
  - inversion Hs as [|? ? [Sm [b Sb]] Hr]; subst. inversion Hws as [|? ? Wb Wr]; subst. cbn [merge_timings flat_map] in *.
    assert (Es : stss s = b) by (unfold stss; rewrite Sb; reflexivity). rewrite Es in *.
    unfold append_timing. rewrite Hm, Sm. cbn [Z.eqb Pos.eqb negb]. rewrite Ha, Sb.
    destruct a as [|x a].
    + cbn [bind]. rewrite (IH (o_timing s) b Sm Sb Wb Hr Wr Hmono). reflexivity.
    + destruct b as [|y b].
      * cbn [bind]. cbn [app] in Hmono. rewrite (IH t (x :: a) Hm Ha Hwa Hr Wr Hmono). reflexivity.
      * destruct (monotonic_sm ((x :: a) ++ y :: b)) eqn:P; [|reflexivity]. cbn [bind].
        set (t1 := {| t_mode := 2; t_ts := None; t_off := None; t_si := None; t_tss := Some ((x :: a) ++ y :: b) |}).
        rewrite (IH t1 ((x :: a) ++ y :: b) eq_refl eq_refl); [reflexivity | rewrite <- monotonic_iff; exact P | exact Hr | exact Wr |].
        rewrite <- app_assoc. exact Hmono.
Qed.

Theorem append_waveforms_irregular_reject o srcs a :
  Forall (src_compatible o) srcs -> has_timing (o_kind o) = true ->
  t_mode (o_timing o) = 2 -> t_tss (o_timing o) = Some a -> monotone a = true -> Forall irregular_src srcs ->
  Forall (fun s => monotone (stss s) = true) srcs ->
  monotone (a ++ flat_map stss srcs) = false ->
  append_waveforms o srcs = Raise ValueError.
Proof.
  intros Hc HT Hm Ha Hwa Hs Hws Hmono. unfold append_waveforms. rewrite (check_sources_complete o srcs Hc). cbn [bind]. rewrite HT.
  rewrite (merge_timings_irregular_reject srcs _ a Hm Ha Hwa Hs Hws Hmono). reflexivity.
Qed.
