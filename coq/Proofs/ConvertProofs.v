(* Proofs/ConvertProofs.v — error bounds, exactness, identities and monotonicity of the conversions. *)
From Coq Require Import ZArith List Lia Bool.
From NV Require Import Common.Py Common.Trans Spec.TimeSpec Gen.BintimeGen Model.Convert Proofs.Bits Proofs.C02Proofs.
Open Scope Z_scope.

Lemma Ok_inj {A} (a b : A) : Ok a = Ok b -> a = b.
Proof. congruence. Qed.

Lemma rne_div_bound a b : 0 < b -> 2 * Z.abs (rne_div a b * b - a) <= b.
Proof.
  intro Hb. unfold rne_div.
  pose proof (Z.div_mod a b ltac:(lia)) as D. pose proof (Z.mod_pos_bound a b Hb) as M.
  set (q := a / b) in *. set (r := a mod b) in *.
  destruct (Z.ltb_spec (2 * r) b); [lia|].
  destruct (Z.ltb_spec b (2 * r)); [lia|].
  destruct (Z.even q); lia.
Qed.

Lemma rne_div_exact a b k : 0 < b -> a = k * b -> rne_div a b = k.
Proof.
  intros Hb ->. unfold rne_div. rewrite Z.div_mul by lia. rewrite Z.mod_mul by lia.
  destruct (Z.ltb_spec (2 * 0) b); [reflexivity|lia].
Qed.

(* if x is within (strictly) half a unit of an integer t, rounding gives t *)
Lemma rne_div_near a b t : 0 < b -> 2 * Z.abs (a - t * b) < b -> rne_div a b = t.
Proof.
  intros Hb H. pose proof (rne_div_bound a b Hb) as R.
  set (x := rne_div a b) in *. nia.
Qed.

Lemma rne_div_mono a a' b : 0 < b -> a <= a' -> rne_div a b <= rne_div a' b.
Proof.
  intros Hb Hle. unfold rne_div.
  pose proof (Z.div_mod a b ltac:(lia)) as D. pose proof (Z.mod_pos_bound a b Hb) as M.
  pose proof (Z.div_mod a' b ltac:(lia)) as D'. pose proof (Z.mod_pos_bound a' b Hb) as M'.
  pose proof (Z.div_le_mono a a' b Hb Hle) as Q.
  set (q := a / b) in *. set (r := a mod b) in *. set (q' := a' / b) in *. set (r' := a' mod b) in *.
  destruct (Z.eq_dec q q') as [E|NE].
  - subst q'. rewrite <- E in *. assert (r <= r') by nia.
    destruct (Z.ltb_spec (2 * r) b); destruct (Z.ltb_spec (2 * r') b); try lia;
    destruct (Z.ltb_spec b (2 * r)); destruct (Z.ltb_spec b (2 * r')); try lia;
    destruct (Z.even q); lia.
  - assert (q + 1 <= q') by lia.
    destruct (Z.ltb_spec (2 * r) b); destruct (Z.ltb_spec (2 * r') b);
    destruct (Z.ltb_spec b (2 * r)); destruct (Z.ltb_spec b (2 * r'));
    destruct (Z.even q); destruct (Z.even q'); lia.
Qed.

(* whole*2^64 + rne(frac*2^64/den) is the nearest tick of n/den: |ticks*den - n*2^64| <= den/2 *)
Lemma rat_to_ticks_bound n den : 0 < den -> 2 * Z.abs (rat_to_ticks n den * den - n * T64) <= den.
Proof.
  intro Hd. unfold rat_to_ticks.
  pose proof (Z.quot_rem' n den) as QR.
  pose proof (rne_div_bound (Z.rem n den * T64) den Hd) as R.
  set (w := Z.quot n den) in *. set (fr := Z.rem n den) in *. set (x := rne_div (fr * T64) den) in *.
  replace ((w * T64 + x) * den - n * T64) with (x * den - fr * T64) by (rewrite QR; ring).
  exact R.
Qed.

Lemma rat_to_ticks_near n den t : 0 < den -> 2 * Z.abs (n * T64 - t * den) < den -> rat_to_ticks n den = t.
Proof.
  intros Hd H. unfold rat_to_ticks.
  pose proof (Z.quot_rem' n den) as QR.
  set (w := Z.quot n den) in *. set (fr := Z.rem n den) in *.
  rewrite (rne_div_near (fr * T64) den (t - w * T64) Hd); [ring|].
  replace (fr * T64 - (t - w * T64) * den) with (n * T64 - t * den) by (rewrite QR; ring). exact H.
Qed.

Lemma rat_to_ticks_exact n den t : 0 < den -> n * T64 = t * den -> rat_to_ticks n den = t.
Proof. intros Hd H. apply rat_to_ticks_near; [exact Hd|]. rewrite H. rewrite Z.sub_diag. simpl. lia. Qed.

Ltac bt_norm :=
  autorewrite with pyconst in *;
  repeat rewrite ?shiftr64, ?shiftl64, ?land_mask64 in *.

Lemma td_to_dt_spec t : td_to_dt t = (t / T64, (US * (t mod T64)) / T64).
Proof. unfold td_to_dt. bt_norm. reflexivity. Qed.
Lemma td_to_ht_spec t : td_to_ht t = (t / T64, (YS * (t mod T64)) / T64).
Proof. unfold td_to_ht. bt_norm. reflexivity. Qed.
Lemma td_to_ticks_dt_spec d s u : td_to_ticks_dt d s u = (d * 86400) * T64 + s * T64 + (u * T64) / US.
Proof. unfold td_to_ticks_dt. bt_norm. reflexivity. Qed.
Lemma td_to_ticks_int_spec n : td_to_ticks_int n = n * T64.
Proof. unfold td_to_ticks_int. bt_norm. reflexivity. Qed.

(* bintime -> datetime: floor to the microsecond, error in [0, 1 us) *)
Lemma bt_to_dt_bound t r : bt_to_dt_td t = Ok r -> 0 <= t * US - r * T64 < T64.
Proof.
  unfold bt_to_dt_td. rewrite td_to_dt_spec. destruct (in_dt_td _); [|discriminate].
  intro H. apply Ok_inj in H. subst r. unfold US, T64.
  pose proof (Z.div_mod t 18446744073709551616 ltac:(lia)).
  pose proof (Z.mod_pos_bound t 18446744073709551616 ltac:(lia)).
  pose proof (Z.div_mod (1000000 * (t mod 18446744073709551616)) 18446744073709551616 ltac:(lia)).
  pose proof (Z.mod_pos_bound (1000000 * (t mod 18446744073709551616)) 18446744073709551616 ltac:(lia)).
  lia.
Qed.

(* bintime -> hightime: floor to the yoctosecond, error in [0, 1 ys) *)
Lemma bt_to_ht_bound t r : bt_to_ht_td t = Ok r -> 0 <= t * YS - r * T64 < T64.
Proof.
  unfold bt_to_ht_td. rewrite td_to_ht_spec. destruct (in_ht_td _); [|discriminate].
  intro H. apply Ok_inj in H. subst r. unfold YS, T64.
  pose proof (Z.div_mod t 18446744073709551616 ltac:(lia)).
  pose proof (Z.mod_pos_bound t 18446744073709551616 ltac:(lia)).
  pose proof (Z.div_mod (1000000000000000000000000 * (t mod 18446744073709551616)) 18446744073709551616 ltac:(lia)).
  pose proof (Z.mod_pos_bound (1000000000000000000000000 * (t mod 18446744073709551616)) 18446744073709551616 ltac:(lia)).
  lia.
Qed.

Lemma td_init_ok t r : td_init t = Ok r -> r = t /\ in128 t = true.
Proof.
  rewrite td_init_spec. unfold spec_from_ticks. destruct (in128 t) eqn:E; [|discriminate].
  intro H. apply Ok_inj in H. subst r. auto.
Qed.

(* datetime -> bintime: floor to the tick, error in [0, 1 tick); exact when representable *)
Lemma dt_to_bt_value us : 
  td_to_ticks_dt (us / (86400 * US)) ((us mod (86400 * US)) / US) ((us mod (86400 * US)) mod US) = (us * T64) / US.
Proof.
  rewrite td_to_ticks_dt_spec. unfold US, T64.
  pose proof (Z.div_mod us (86400 * 1000000) ltac:(lia)) as D1.
  pose proof (Z.mod_pos_bound us (86400 * 1000000) ltac:(lia)) as M1.
  set (d := us / (86400 * 1000000)) in *. set (rest := us mod (86400 * 1000000)) in *.
  pose proof (Z.div_mod rest 1000000 ltac:(lia)) as D2.
  pose proof (Z.mod_pos_bound rest 1000000 ltac:(lia)) as M2.
  set (s := rest / 1000000) in *. set (u := rest mod 1000000) in *.
  assert (E : us * 18446744073709551616 = (d * 86400 + s) * 18446744073709551616 * 1000000 + u * 18446744073709551616) by lia.
  rewrite E. rewrite Z.div_add_l by lia. lia.
Qed.

Lemma dt_to_bt_bound us r : dt_to_bt_td us = Ok r -> 0 <= us * T64 - r * US < US.
Proof.
  unfold dt_to_bt_td. intro H. apply td_init_ok in H. destruct H as [-> _].
  rewrite dt_to_bt_value. unfold US.
  pose proof (Z.div_mod (us * T64) 1000000 ltac:(lia)). pose proof (Z.mod_pos_bound (us * T64) 1000000 ltac:(lia)). lia.
Qed.

Lemma dt_to_bt_exact us r k : dt_to_bt_td us = Ok r -> us * T64 = k * US -> r = k.
Proof.
  unfold dt_to_bt_td. intros H E. apply td_init_ok in H. destruct H as [-> _].
  rewrite dt_to_bt_value, E. apply Z.div_mul. unfold US. lia.
Qed.

(* hightime -> bintime: nearest tick (error <= 1/2 tick), exact when representable *)
Lemma ht_to_bt_bound ys r : ht_to_bt_td ys = Ok r -> 2 * Z.abs (r * YS - ys * T64) <= YS.
Proof.
  unfold ht_to_bt_td. intro H. apply td_init_ok in H. destruct H as [-> _].
  apply rat_to_ticks_bound. unfold YS. lia.
Qed.
Lemma ht_to_bt_exact ys r k : ht_to_bt_td ys = Ok r -> ys * T64 = k * YS -> r = k.
Proof.
  unfold ht_to_bt_td. intros H E. apply td_init_ok in H. destruct H as [-> _].
  apply rat_to_ticks_exact; [unfold YS; lia | exact E].
Qed.

(* hightime -> datetime floors to the microsecond; datetime -> hightime is exact *)
Lemma ht_to_dt_bound ys r : ht_to_dt_td ys = Ok r -> 0 <= ys - r * YS_PER_US < YS_PER_US.
Proof.
  unfold ht_to_dt_td. intro H. apply Ok_inj in H. subst r. unfold YS_PER_US.
  pose proof (Z.div_mod ys 1000000000000000000 ltac:(lia)). pose proof (Z.mod_pos_bound ys 1000000000000000000 ltac:(lia)). lia.
Qed.
Lemma dt_ht_dt_id us : (do y <- dt_to_ht_td us; ht_to_dt_td y) = Ok us.
Proof. unfold dt_to_ht_td, ht_to_dt_td. cbn [bind]. f_equal. apply Z.div_mul. unfold YS_PER_US. lia. Qed.

(* bintime -> hightime -> bintime is the identity: the floor error (< 2^64/10^24 of a tick) is far
   below the half tick that rounding absorbs *)
Lemma bt_ht_bt_id t ys : in128 t = true -> bt_to_ht_td t = Ok ys -> ht_to_bt_td ys = Ok t.
Proof.
  intros Hr H. pose proof (bt_to_ht_bound t ys H) as B.
  unfold ht_to_bt_td. rewrite (rat_to_ticks_near ys YS t).
  - rewrite td_init_spec. unfold spec_from_ticks. rewrite Hr. reflexivity.
  - unfold YS. lia.
  - unfold YS, T64 in *. lia.
Qed.

(* monotonicity *)
Lemma div_mono a b c : 0 < c -> a <= b -> a / c <= b / c.
Proof. intros. apply Z.div_le_mono; lia. Qed.

Lemma bt_to_dt_value t : fst (td_to_dt t) * US + snd (td_to_dt t) = (t * US) / T64.
Proof.
  rewrite td_to_dt_spec. cbn [fst snd]. unfold US, T64.
  pose proof (Z.div_mod t 18446744073709551616 ltac:(lia)) as D.
  pose proof (Z.mod_pos_bound t 18446744073709551616 ltac:(lia)) as M.
  set (w := t / 18446744073709551616) in *. set (f := t mod 18446744073709551616) in *.
  replace (t * 1000000) with (w * 1000000 * 18446744073709551616 + 1000000 * f) by lia.
  rewrite Z.div_add_l by lia. lia.
Qed.
Lemma bt_to_ht_value t : fst (td_to_ht t) * YS + snd (td_to_ht t) = (t * YS) / T64.
Proof.
  rewrite td_to_ht_spec. cbn [fst snd]. unfold YS, T64.
  pose proof (Z.div_mod t 18446744073709551616 ltac:(lia)) as D.
  pose proof (Z.mod_pos_bound t 18446744073709551616 ltac:(lia)) as M.
  set (w := t / 18446744073709551616) in *. set (f := t mod 18446744073709551616) in *.
  replace (t * 1000000000000000000000000) with (w * 1000000000000000000000000 * 18446744073709551616 + 1000000000000000000000000 * f) by lia.
  rewrite Z.div_add_l by lia. lia.
Qed.

Lemma bt_to_dt_mono a b ra rb : a <= b -> bt_to_dt_td a = Ok ra -> bt_to_dt_td b = Ok rb -> ra <= rb.
Proof.
  unfold bt_to_dt_td. intros Hle Ha Hb.
  pose proof (bt_to_dt_value a) as Va. pose proof (bt_to_dt_value b) as Vb.
  destruct (td_to_dt a) as [wa ua]. destruct (td_to_dt b) as [wb ub]. cbn [fst snd] in *.
  destruct (in_dt_td _); [|discriminate]. destruct (in_dt_td _); [|discriminate].
  apply Ok_inj in Ha, Hb. subst ra rb. rewrite Va, Vb.
  apply div_mono; unfold T64, US; lia.
Qed.
Lemma bt_to_ht_mono a b ra rb : a <= b -> bt_to_ht_td a = Ok ra -> bt_to_ht_td b = Ok rb -> ra <= rb.
Proof.
  unfold bt_to_ht_td. intros Hle Ha Hb.
  pose proof (bt_to_ht_value a) as Va. pose proof (bt_to_ht_value b) as Vb.
  destruct (td_to_ht a) as [wa ua]. destruct (td_to_ht b) as [wb ub]. cbn [fst snd] in *.
  destruct (in_ht_td _); [|discriminate]. destruct (in_ht_td _); [|discriminate].
  apply Ok_inj in Ha, Hb. subst ra rb. rewrite Va, Vb.
  apply div_mono; unfold T64, YS; lia.
Qed.
Lemma dt_to_bt_mono a b ra rb : a <= b -> dt_to_bt_td a = Ok ra -> dt_to_bt_td b = Ok rb -> ra <= rb.
Proof.
  unfold dt_to_bt_td. intros Hle Ha Hb. apply td_init_ok in Ha, Hb. destruct Ha as [-> _]. destruct Hb as [-> _].
  rewrite !dt_to_bt_value. apply div_mono; unfold US, T64; lia.
Qed.

Lemma rat_to_ticks_value n den : 0 < den -> rat_to_ticks n den = Z.quot n den * T64 + rne_div (Z.rem n den * T64) den.
Proof. reflexivity. Qed.

(* the nearest-tick function equals one global rounding:  whole*2^64 + rne(frac*2^64/den) = rne(n*2^64/den) *)
Lemma rne_div_shift a b k : 0 < b -> Z.even k = true -> rne_div (a + k * b) b = rne_div a b + k.
Proof.
  intros Hb Hk. unfold rne_div. rewrite Z.div_add by lia. rewrite Z.mod_add by lia.
  destruct (2 * (a mod b) <? b); [reflexivity|]. destruct (b <? 2 * (a mod b)); [lia|].
  rewrite Z.even_add, Hk. destruct (Z.even (a / b)); cbn [Bool.eqb]; lia.
Qed.
Lemma even_T64 w : Z.even (w * T64) = true.
Proof. rewrite Z.even_mul. unfold T64. cbn. apply orb_true_r. Qed.
Lemma rat_to_ticks_global n den : 0 < den -> rat_to_ticks n den = rne_div (n * T64) den.
Proof.
  intro Hd. unfold rat_to_ticks. pose proof (Z.quot_rem' n den) as QR.
  set (w := Z.quot n den) in *. set (fr := Z.rem n den) in *.
  replace (n * T64) with (fr * T64 + (w * T64) * den) by (rewrite QR; ring).
  rewrite rne_div_shift by (try exact Hd; apply even_T64). ring.
Qed.
Lemma rat_to_ticks_mono n n' den : 0 < den -> n <= n' -> rat_to_ticks n den <= rat_to_ticks n' den.
Proof.
  intros Hd Hle. rewrite !rat_to_ticks_global by exact Hd. apply rne_div_mono; [exact Hd|]. unfold T64. nia.
Qed.
Lemma ht_to_bt_mono a b ra rb : a <= b -> ht_to_bt_td a = Ok ra -> ht_to_bt_td b = Ok rb -> ra <= rb.
Proof.
  unfold ht_to_bt_td. intros Hle Ha Hb. apply td_init_ok in Ha, Hb. destruct Ha as [-> _]. destruct Hb as [-> _].
  apply rat_to_ticks_mono; [unfold YS; lia | exact Hle].
Qed.

(* constructors *)
Lemma ctor_int_spec n : ctor_int n = spec_from_ticks (n * T64).
Proof. unfold ctor_int. rewrite td_init_spec, td_to_ticks_int_spec. reflexivity. Qed.
Lemma ctor_rat_nearest n den r : 0 < den -> ctor_rat n den = Ok r -> 2 * Z.abs (r * den - n * T64) <= den.
Proof. intros Hd H. unfold ctor_rat in H. apply td_init_ok in H. destruct H as [-> _]. apply rat_to_ticks_bound. exact Hd. Qed.
Lemma ctor_rat_exact n den r k : 0 < den -> ctor_rat n den = Ok r -> n * T64 = k * den -> r = k.
Proof. intros Hd H E. unfold ctor_rat in H. apply td_init_ok in H. destruct H as [-> _]. apply rat_to_ticks_exact; assumption. Qed.
(* TimeDelta(x.precision_total_seconds()) == x for any decimal approximation within 1/4 tick *)
Lemma ctor_rat_roundtrip n den t : 0 < den -> in128 t = true -> 4 * Z.abs (n * T64 - t * den) < den -> ctor_rat n den = Ok t.
Proof.
  intros Hd Hr H. unfold ctor_rat. rewrite (rat_to_ticks_near n den t Hd) by lia.
  rewrite td_init_spec. unfold spec_from_ticks. rewrite Hr. reflexivity.
Qed.
Lemma overflow_only_out_of_range t : td_init t = Raise OverflowError <-> ~ (MIN128 <= t <= MAX128).
Proof.
  rewrite td_init_spec. unfold spec_from_ticks. rewrite <- in128_iff.
  destruct (in128 t); split; intro H.
  - discriminate.
  - exfalso; apply H; reflexivity.
  - discriminate.
  - reflexivity.
Qed.
