(* Proofs/C03Algebra.v — algebraic laws of the generated TimeDelta/DateTime operators that follow
   from "every operator is the integer operation on ticks, or OverflowError": commutativity,
   associativity when no intermediate result leaves the range, negation, the Python-level
   recomposition (a//b)*b + a%b == a, and the one place where that expression can raise. *)
From Coq Require Import ZArith List Lia Bool.
From NV Require Import Common.Py Common.Trans Spec.TimeSpec Gen.BintimeGen Proofs.Bits Proofs.C02Proofs
  Proofs.C03Proofs.
Open Scope Z_scope.

Lemma sft_ok t s : spec_from_ticks t = Ok s -> s = t /\ in128 t = true.
Proof.
  unfold spec_from_ticks. destruct (in128 t) eqn:E; [|discriminate].
  intro H. injection H as <-. split; reflexivity.
Qed.

Lemma td_add_comm a b : td_add a b = td_add b a.
Proof. rewrite !td_add_spec. f_equal; lia. Qed.

Lemma td_add_assoc a b c ab bc :
  td_add a b = Ok ab -> td_add b c = Ok bc -> td_add ab c = td_add a bc.
Proof.
  rewrite !td_add_spec. intros H1 H2.
  apply sft_ok in H1 as [-> _]. apply sft_ok in H2 as [-> _]. f_equal; lia.
Qed.

Lemma td_add_zero a : in128 a = true -> td_add a 0 = Ok a /\ td_add 0 a = Ok a.
Proof.
  intro H. rewrite !td_add_spec. unfold spec_from_ticks.
  replace (a + 0) with a by lia. replace (0 + a) with a by lia. rewrite H. split; reflexivity.
Qed.

Lemma td_neg_involutive a na : in128 a = true -> td_neg a = Ok na -> td_neg na = Ok a.
Proof.
  intros Ha. rewrite !td_neg_spec. intro H. apply sft_ok in H as [-> _].
  unfold spec_from_ticks. replace (- - a) with a by lia. rewrite Ha. reflexivity.
Qed.

(* the only value whose negation (and abs) does not exist *)
Lemma td_neg_overflow_iff a : in128 a = true -> (td_neg a = Raise OverflowError <-> a = MIN128).
Proof.
  intro Ha. rewrite td_neg_spec. unfold spec_from_ticks.
  destruct (in128 (- a)) eqn:E.
  - split; [discriminate|]. intros ->. vm_compute in E. discriminate.
  - split; [intros _|reflexivity].
    apply in128_iff in Ha. unfold MIN128, MAX128 in *.
    destruct (Z.eq_dec a (-170141183460469231731687303715884105728)) as [->|Hn]; [reflexivity|].
    assert (in128 (- a) = true) as E'. { apply in128_iff. unfold MIN128, MAX128. lia. }
    congruence.
Qed.

Lemma td_sub_as_add_neg a b nb : td_neg b = Ok nb -> td_sub a b = td_add a nb.
Proof.
  rewrite td_neg_spec, td_sub_spec, td_add_spec. intro H. apply sft_ok in H as [-> _].
  f_equal; lia.
Qed.

Lemma td_sub_self a : td_sub a a = Ok 0.
Proof. rewrite td_sub_spec. replace (a - a) with 0 by lia. reflexivity. Qed.

Lemma td_mul_int_distr a b n ab pa pb :
  td_add a b = Ok ab -> td_mul_int a n = Ok pa -> td_mul_int b n = Ok pb ->
  td_mul_int ab n = td_add pa pb.
Proof.
  rewrite !td_add_spec, !td_mul_int_spec. intros H1 H2 H3.
  apply sft_ok in H1 as [-> _]. apply sft_ok in H2 as [-> _]. apply sft_ok in H3 as [-> _].
  f_equal; lia.
Qed.

Lemma td_mul_int_one_zero a : in128 a = true -> td_mul_int a 1 = Ok a /\ td_mul_int a 0 = Ok 0.
Proof.
  intro H. rewrite !td_mul_int_spec. unfold spec_from_ticks.
  replace (a * 1) with a by lia. replace (a * 0) with 0 by lia. rewrite H. split; reflexivity.
Qed.

(* the Python expression (a // b) * b + a % b, evaluated with the generated operators, gives back a
   whenever the product is representable *)
Lemma td_divmod_recompose a b q r p :
  in128 a = true -> in128 b = true -> b <> 0 ->
  td_divmod a b = Ok (q, r) -> td_mul_int b q = Ok p -> td_add p r = Ok a.
Proof.
  intros Ha Hb Hn Hd Hp. rewrite (td_divmod_ok a b Hb Hn) in Hd. injection Hd as <- <-.
  rewrite td_mul_int_spec in Hp. apply sft_ok in Hp as [-> _].
  rewrite td_add_spec. unfold spec_from_ticks.
  destruct (divmod_identity a b Hn) as [Hid _].
  replace (b * (a / b) + a mod b) with a by lia. rewrite Ha. reflexivity.
Qed.

(* ... and the product is representable unless a is within |b| of an end of the range (the
   lower end for b > 0, the upper end for b < 0) *)
Lemma td_divmod_product_in_range a b :
  in128 a = true -> in128 b = true -> b <> 0 ->
  MIN128 + Z.abs b <= a <= MAX128 - Z.abs b ->
  td_mul_int b (a / b) = Ok (b * (a / b)).
Proof.
  intros Ha Hb Hn Hlo. rewrite td_mul_int_spec. unfold spec_from_ticks.
  assert (in128 (b * (a / b)) = true) as ->; [|reflexivity].
  apply in128_iff. apply in128_iff in Ha. apply in128_iff in Hb.
  destruct (divmod_identity a b Hn) as [Hid Hr]. unfold MIN128, MAX128 in *. lia.
Qed.

(* the intermediate product can leave the range although a, b and the final sum are inside it:
   the expression raises OverflowError there, it never wraps *)
Lemma td_divmod_product_overflow_witness :
  in128 MIN128 = true /\ in128 3 = true /\
  td_divmod MIN128 3 = Ok (-56713727820156410577229101238628035243, 1) /\
  td_mul_int 3 (-56713727820156410577229101238628035243) = Raise OverflowError.
Proof. repeat split; vm_compute; reflexivity. Qed.

Lemma td_mod_sign a b r : in128 b = true -> b <> 0 -> td_mod a b = Ok r ->
  (0 < b -> 0 <= r < b) /\ (b < 0 -> b < r <= 0).
Proof.
  intros Hb Hn. rewrite td_mod_spec. unfold spec_mod.
  destruct (Z.eqb_spec b 0); [contradiction|]. intro H. apply sft_ok in H as [-> _].
  destruct (divmod_identity a b Hn) as [_ Hr]. split; intro; lia.
Qed.

Lemma td_floordiv_floor a b q : 0 < b -> td_floordiv_td a b = Ok q -> q * b <= a < (q + 1) * b.
Proof.
  intros Hb. rewrite td_floordiv_td_spec. unfold spec_floordiv.
  destruct (Z.eqb_spec b 0); [lia|]. intro H. injection H as <-.
  assert (b <> 0) as Hn by lia. destruct (divmod_identity a b Hn) as [Hid Hr]. lia.
Qed.

(* order is compatible with addition when nothing overflows *)
Lemma td_add_monotone a b c ac bc :
  td_add a c = Ok ac -> td_add b c = Ok bc -> td_lt ac bc = td_lt a b /\ td_eq ac bc = td_eq a b.
Proof.
  rewrite !td_add_spec. intros H1 H2. apply sft_ok in H1 as [-> _]. apply sft_ok in H2 as [-> _].
  destruct (compare_spec a b) as (-> & _ & -> & _). destruct (compare_spec (a + c) (b + c)) as (-> & _ & -> & _).
  split.
  - destruct (Z.ltb_spec (a + c) (b + c)); destruct (Z.ltb_spec a b); try reflexivity; lia.
  - destruct (Z.eqb_spec (a + c) (b + c)); destruct (Z.eqb_spec a b); try reflexivity; lia.
Qed.

(* DateTime: (t + d1) + d2 = t + (d1 + d2); (t1 - t2) is antisymmetric *)
Lemma dt_add_add t d1 d2 s d12 :
  dt_add_td t d1 = Ok s -> td_add d1 d2 = Ok d12 -> dt_add_td s d2 = dt_add_td t d12.
Proof.
  destruct (dt_ops_spec t d1) as (-> & _). destruct (dt_ops_spec s d2) as (-> & _).
  destruct (dt_ops_spec t d12) as (-> & _). rewrite td_add_spec.
  intros H1 H2. apply sft_ok in H1 as [-> _]. apply sft_ok in H2 as [-> _]. f_equal; lia.
Qed.

Lemma dt_sub_antisym a b d : dt_sub_dt a b = Ok d -> dt_sub_dt b a = td_neg d.
Proof.
  destruct (dt_ops_spec a b) as (_ & _ & -> & _). destruct (dt_ops_spec b a) as (_ & _ & -> & _).
  rewrite td_neg_spec. intro H. apply sft_ok in H as [-> _]. f_equal; lia.
Qed.
