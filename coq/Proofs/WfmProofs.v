(* Proofs/WfmProofs.v — invariants and list refinement of the waveform pool model. *)
From Coq Require Import ZArith List Lia Bool.
From NV Require Import Common.Py Spec.TimingSpec Model.Timing Model.Waveform Proofs.ListLemmas.
Open Scope Z_scope.

(* ---------- well-formedness ---------- *)
Definition rows_wf (nc : nat) (rows : list row) : Prop := Forall (fun r => length r = nc) rows.
Definition timing_wf (t : timing) : Prop :=
  match t_tss t with Some l => t_mode t = 2 /\ monotonic_sm l = true | None => t_mode t <> 2 end.
Definition arr_wf (a : arr) : Prop := rows_wf (a_ncols a) (a_rows a).

(* the invariant of C01 (geometry) and C09 (irregular timing) *)
Definition good (o : obj) : Prop :=
  (o_start o + o_count o <= cap o)%nat /\ rows_wf (o_ncols o) (o_rows o) /\ timing_wf (o_timing o) /\
  (has_timing (o_kind o) = true -> forall l, t_tss (o_timing o) = Some l -> length l = o_count o).
(* ndarray arguments as the harness builds them: every row has a_ncols columns; 1-D arrays have one column *)
Definition arr_ok (k : wkind) (a : arr) : Prop :=
  rows_wf (a_ncols a) (a_rows a) /\ (k <> KDigital -> a_ncols a = 1%nat) /\ (a_ndim a = 1%nat -> a_ncols a = 1%nat).
Definition cols_ok (o : obj) : Prop := o_kind o <> KDigital -> o_ncols o = 1%nat.

Lemma view_length o : (o_start o + o_count o <= cap o)%nat -> length (view o) = o_count o.
Proof. intro H. unfold view, cap in *. rewrite firstn_length, skipn_length. lia. Qed.

Lemma Forall_firstn {A} (P : A -> Prop) n l : Forall P l -> Forall P (firstn n l).
Proof. revert n. induction l as [|x l IH]; intros n H; destruct n; cbn; auto. inversion H; subst. constructor; auto. Qed.
Lemma Forall_skipn {A} (P : A -> Prop) n l : Forall P l -> Forall P (skipn n l).
Proof. revert n. induction l as [|x l IH]; intros n H; destruct n; cbn; auto. inversion H; subst. auto. Qed.
Lemma Forall_repeat {A} (P : A -> Prop) x n : P x -> Forall P (repeat x n).
Proof. intro H. induction n; cbn; constructor; auto. Qed.

Lemma view_rows_wf o : rows_wf (o_ncols o) (o_rows o) -> rows_wf (o_ncols o) (view o).
Proof. unfold rows_wf, view. intro H. apply Forall_firstn. apply Forall_skipn. exact H. Qed.

Lemma zero_row_length n : length (zero_row n) = n.
Proof. apply repeat_length. Qed.

(* ---------- arg_uint ---------- *)
Lemma arg_uint_ok a d z : arg_uint a d = Ok z -> 0 <= z.
Proof.
  unfold arg_uint.
  destruct (match a with INone => match d with Some dv => Ok dv | None => Raise TypeError end | IInt x => Ok x | IBad => Raise TypeError end) as [v|e];
    [|discriminate].
  destruct (Z.ltb_spec v 0) as [Hlt|Hge]; [discriminate|]. intro E. inversion E. lia.
Qed.

(* ---------- resize / capacity ---------- *)
Lemma resize_rows_spec o n rows : resize_rows o n = Ok rows ->
  o_resizable o = true /\ length rows = n /\ firstn (Nat.min n (cap o)) rows = firstn (Nat.min n (cap o)) (o_rows o) /\
  (rows_wf (o_ncols o) (o_rows o) -> rows_wf (o_ncols o) rows).
Proof.
  unfold resize_rows. destruct (o_resizable o); cbn [negb]; [|discriminate]. intro H. inversion H. subst. clear H.
  unfold cap. repeat split.
  - rewrite app_length, firstn_length, repeat_length. lia.
  - destruct (Nat.le_ge_cases n (length (o_rows o))) as [Hle|Hge].
    + rewrite Nat.min_l by exact Hle. replace (n - length (o_rows o))%nat with 0%nat by lia. cbn [repeat].
      rewrite app_nil_r, firstn_firstn, Nat.min_id. reflexivity.
    + rewrite Nat.min_r by exact Hge.
      replace (firstn n (o_rows o)) with (o_rows o) by (symmetry; apply firstn_all2; exact Hge).
      rewrite firstn_app_l by reflexivity. rewrite firstn_all. reflexivity.
  - intro W. unfold rows_wf in *. apply Forall_app. split; [apply Forall_firstn; exact W|].
    apply Forall_repeat. apply zero_row_length.
Qed.

Lemma with_rows_fields o rows :
  o_kind (with_rows o rows) = o_kind o /\ o_dtype (with_rows o rows) = o_dtype o /\ o_ncols (with_rows o rows) = o_ncols o /\
  o_start (with_rows o rows) = o_start o /\ o_count (with_rows o rows) = o_count o /\ o_timing (with_rows o rows) = o_timing o /\
  o_scale (with_rows o rows) = o_scale o /\ o_props (with_rows o rows) = o_props o /\ o_rows (with_rows o rows) = rows /\
  o_resizable (with_rows o rows) = o_resizable o.
Proof. repeat split. Qed.

(* the view does not depend on rows beyond start+count *)
Lemma view_prefix o rows' : (o_start o + o_count o <= cap o)%nat ->
  firstn (o_start o + o_count o) rows' = firstn (o_start o + o_count o) (o_rows o) ->
  firstn (o_count o) (skipn (o_start o) rows') = view o.
Proof.
  intros Hc H. unfold view. rewrite !firstn_skipn_comm. rewrite H. reflexivity.
Qed.

Lemma firstn_le_eq {A} (n m : nat) (l1 l2 : list A) : (n <= m)%nat -> firstn m l1 = firstn m l2 -> firstn n l1 = firstn n l2.
Proof. intros Hle H. rewrite <- (Nat.min_l n m Hle), <- !firstn_firstn, H. reflexivity. Qed.

Theorem set_capacity_spec o v o' : good o -> set_capacity o v = Ok o' ->
  good o' /\ view o' = view o /\ o_count o' = o_count o /\ o_start o' = o_start o /\ o_timing o' = o_timing o /\
  o_props o' = o_props o /\ o_scale o' = o_scale o /\ o_kind o' = o_kind o /\ o_dtype o' = o_dtype o /\ o_ncols o' = o_ncols o /\
  firstn (o_start o + o_count o) (o_rows o') = firstn (o_start o + o_count o) (o_rows o) /\
  (exists n, arg_uint v None = Ok n /\ Z.of_nat (cap o') = n).
Proof.
  intros (G1 & G2 & G3 & G4). unfold set_capacity.
  destruct (arg_uint v None) as [n|] eqn:En; cbn [bind]; [|discriminate].
  pose proof (arg_uint_ok _ _ _ En) as Hn.
  destruct (Z.ltb_spec n (Z.of_nat (o_start o + o_count o))) as [Hlt|Hge]; [discriminate|].
  destruct (Z.eqb_spec n (Z.of_nat (cap o))) as [Heq|Hne].
  - intro Hres. inversion Hres. subst o'. unfold good. repeat split; auto. exists n. split; [reflexivity|lia].
  - destruct (resize_rows o (Z.to_nat n)) as [rows|] eqn:Er; cbn [bind]; [|discriminate].
    intro Hres. inversion Hres. subst o'.
    destruct (resize_rows_spec _ _ _ Er) as (R1 & R2 & R3 & R4).
    assert (Hp : firstn (o_start o + o_count o) rows = firstn (o_start o + o_count o) (o_rows o))
      by (apply (firstn_le_eq _ (Nat.min (Z.to_nat n) (cap o))); [lia|exact R3]).
    assert (Hv : view (with_rows o rows) = view o)
      by (unfold view at 1; cbn [with_rows o_count o_start o_rows]; apply view_prefix; [exact G1|exact Hp]).
    assert (Hg : good (with_rows o rows)).
    { unfold good. cbn [with_rows o_rows o_ncols o_start o_count o_timing o_kind]. unfold cap. cbn [with_rows o_rows].
      repeat split; auto; try lia. }
    split; [exact Hg|]. split; [exact Hv|]. repeat split; auto.
    exists n. split; [reflexivity|]. unfold cap. cbn [with_rows o_rows]. lia.
Qed.

Theorem increase_capacity_spec o amount o' : good o -> increase_capacity o amount = Ok o' ->
  good o' /\ view o' = view o /\ o_count o' = o_count o /\ o_start o' = o_start o /\ o_timing o' = o_timing o /\
  o_props o' = o_props o /\ o_scale o' = o_scale o /\ o_kind o' = o_kind o /\ o_dtype o' = o_dtype o /\ o_ncols o' = o_ncols o /\
  (o_start o + o_count o + amount <= cap o')%nat /\
  firstn (o_start o + o_count o) (o_rows o') = firstn (o_start o + o_count o) (o_rows o).
Proof.
  intros G. unfold increase_capacity.
  destruct (Nat.ltb_spec (cap o) (o_start o + o_count o + amount)) as [Hlt|Hge].
  - intro Hres. destruct (set_capacity_spec _ _ _ G Hres) as (A & B & C & D & E & F & F2 & K & DT & NC & P & (n & En & Hn)).
    cbn in En. destruct (Z.ltb_spec (Z.of_nat (o_start o + o_count o + amount)) 0) as [Hneg|Hpos]; [lia|]. inversion En. subst n.
    split; [exact A|]. repeat split; auto; lia.
  - intro Hres. inversion Hres. subst o'. split; [exact G|]. repeat split; auto; lia.
Qed.

(* ---------- assign_rows ---------- *)
Lemma assign_rows_length rows off src : (off + length src <= length rows)%nat -> length (assign_rows rows off src) = length rows.
Proof. intro H. unfold assign_rows. rewrite !app_length, firstn_length, skipn_length. lia. Qed.
Lemma assign_rows_wf nc rows off src : rows_wf nc rows -> rows_wf nc src -> rows_wf nc (assign_rows rows off src).
Proof.
  intros A B. unfold assign_rows, rows_wf in *. apply Forall_app. split; [apply Forall_firstn; exact A|].
  apply Forall_app. split; [exact B | apply Forall_skipn; exact A].
Qed.
(* the window [off, off+len src) of the result is src, what precedes it is unchanged *)
Lemma assign_rows_window rows off src : (off + length src <= length rows)%nat ->
  firstn (length src) (skipn off (assign_rows rows off src)) = src /\
  firstn off (assign_rows rows off src) = firstn off rows.
Proof.
  intro H. unfold assign_rows. split.
  - rewrite skipn_app_l by (rewrite firstn_length; lia). rewrite firstn_app_l by reflexivity. reflexivity.
  - rewrite firstn_app_l by (rewrite firstn_length; lia). reflexivity.
Qed.

Lemma view_of_fields k dt rows nc st c rz t s p :
  view {| o_kind := k; o_dtype := dt; o_rows := rows; o_ncols := nc; o_start := st; o_count := c; o_resizable := rz;
          o_timing := t; o_scale := s; o_props := p |} = firstn c (skipn st rows).
Proof. reflexivity. Qed.

(* view after writing src right behind the old samples and extending the count *)
Lemma view_extend rows st c src : (st + c + length src <= length rows)%nat ->
  firstn (c + length src) (skipn st (assign_rows rows (st + c) src)) = firstn c (skipn st rows) ++ src.
Proof.
  intro H. unfold assign_rows.
  assert (L : length (firstn (st + c) rows) = (st + c)%nat) by (rewrite firstn_length; lia).
  rewrite skipn_app, L. replace (st - (st + c))%nat with 0%nat by lia. cbn [skipn].
  rewrite firstn_app, skipn_length, L.
  replace (c + length src - (st + c - st))%nat with (length src) by lia.
  rewrite firstn_app_l by reflexivity.
  rewrite firstn_all2 by (rewrite skipn_length, L; lia).
  f_equal. rewrite <- firstn_skipn_comm. replace (st + c - st)%nat with c by lia. reflexivity.
Qed.

(* ---------- timing steps ---------- *)
Lemma empty_timing_wf : timing_wf empty_timing.
Proof. unfold timing_wf, empty_timing. cbn. discriminate. Qed.

Lemma append_timestamps_spec t ts t' n : timing_wf t -> append_timestamps t ts = Ok t' ->
  (match ts with TsList l => length l = n | _ => True end) ->
  timing_wf t' /\
  (forall l, t_tss t = Some l -> exists l', t_tss t' = Some l' /\ (match ts with TsList x => l' = l ++ x | _ => l' = l end)) /\
  (t_tss t = None -> t' = t).
Proof.
  intros W. unfold append_timestamps, timing_wf in *.
  destruct (Z.eqb_spec (t_mode t) 2) as [Hm|Hm].
  - destruct ts as [|l|]; try discriminate.
    destruct l as [|x l].
    + intro E. inversion E. subst t'. intros _. split; [exact W|]. split.
      * intros l0 Hl. exists l0. split; [exact Hl| rewrite app_nil_r; reflexivity].
      * intros _. reflexivity.
    + destruct (t_tss t) as [a0|] eqn:Et; [|discriminate].
      destruct (monotonic_sm (a0 ++ x :: l)) eqn:Em; [|discriminate].
      intro E. inversion E. subst t'. cbn [t_tss t_mode]. intros _. split; [split; [reflexivity|exact Em]|]. split.
      * intros l0 Hl. inversion Hl. subst l0. eexists. split; reflexivity.
      * discriminate.
  - destruct ts; try discriminate. intro E. inversion E. subst t'. intros _. split; [exact W|]. split.
    + intros l Hl. exists l. split; [exact Hl|reflexivity].
    + intros _. reflexivity.
Qed.

Lemma append_timing_spec t other t' ws : timing_wf t -> timing_wf other -> append_timing t other = Ok (t', ws) ->
  timing_wf t' /\
  (t_mode t <> 2 -> t' = t /\ t_mode other <> 2) /\
  (t_mode t = 2 -> t_mode other = 2 /\
     forall a b, t_tss t = Some a -> t_tss other = Some b -> t_tss t' = Some (a ++ b) /\ t_mode t' = 2).
Proof.
  intros W Wo. unfold append_timing.
  destruct (Z.eqb_spec (t_mode t) 2) as [Hm|Hm].
  - destruct (Z.eqb_spec (t_mode other) 2) as [Ho|Ho]; cbn [negb]; [|discriminate].
    unfold timing_wf in W, Wo.
    destruct (t_tss t) as [a|] eqn:Ea; [|contradiction].
    destruct (t_tss other) as [b|] eqn:Eb; [|contradiction].
    destruct a as [|x a].
    + intro E. inversion E. subst t' ws. split; [unfold timing_wf; rewrite Eb; exact Wo|]. split; [intro C; contradiction|].
      intros _. split; [exact Ho|]. intros a0 b0 Ha Hb. inversion Ha. inversion Hb. subst. cbn [app]. split; [exact Eb|exact Ho].
    + destruct b as [|y b].
      * intro E. inversion E. subst t' ws. split; [unfold timing_wf; rewrite Ea; exact W|]. split; [intro C; contradiction|].
        intros _. split; [exact Ho|]. intros a0 b0 Ha Hb. inversion Ha. inversion Hb. subst. rewrite app_nil_r. split; [exact Ea|exact Hm].
      * destruct (monotonic_sm ((x :: a) ++ y :: b)) eqn:Em; [|discriminate].
        intro E. inversion E. subst t' ws. split; [unfold timing_wf; cbn [t_tss t_mode]; auto|]. split; [intro C; contradiction|].
        intros _. split; [exact Ho|]. intros a0 b0 Ha Hb. inversion Ha. inversion Hb. subst. cbn [t_tss t_mode]. auto.
  - destruct (Z.eqb_spec (t_mode other) 2) as [Ho|Ho]; [discriminate|].
    intro E. inversion E. subst t'. split; [exact W|]. split; [intros _; auto|]. intro C. contradiction.
Qed.

Lemma nd_cols_ok o a : cols_ok o -> arr_ok (o_kind o) a ->
  (match o_kind o with
   | KDigital => if Nat.eqb (a_ndim a) 1 || Nat.eqb (a_ndim a) 2 then (if Nat.eqb (a_ncols a) (o_ncols o) then Ok tt else Raise SignalCountMismatchError) else Raise ValueError
   | _ => if Nat.eqb (a_ndim a) 1 then Ok tt else Raise ValueError end) = Ok tt -> a_ncols a = o_ncols o.
Proof.
  intros CO (A1 & A2 & A3) Hu. unfold cols_ok in CO. destruct (o_kind o) eqn:K.
  1-3: (destruct (Nat.eqb_spec (a_ndim a) 1) as [E1|]; [|discriminate]; rewrite (A3 E1); symmetry; apply CO; discriminate).
  destruct (Nat.eqb (a_ndim a) 1 || Nat.eqb (a_ndim a) 2); [|discriminate].
  destruct (Nat.eqb_spec (a_ncols a) (o_ncols o)); [assumption|discriminate].
Qed.

(* ---------- append(array, timestamps) ---------- *)
Theorem append_array_spec o a ts o' : good o -> cols_ok o -> arr_ok (o_kind o) a -> append_array o a ts = Ok o' ->
  good o' /\ cols_ok o' /\ view o' = view o ++ a_rows a /\ o_count o' = (o_count o + alen a)%nat /\
  o_start o' = o_start o /\ o_props o' = o_props o /\ o_scale o' = o_scale o /\ o_kind o' = o_kind o /\
  o_dtype o' = o_dtype o /\ o_ncols o' = o_ncols o.
Proof.
  intros G CO (A1 & A2 & A3). pose proof G as (G1 & G2 & G3 & G4). unfold append_array.
  destruct (a_dtype a =? o_dtype o); cbn [negb]; [|discriminate].
  match goal with |- (do _ <- ?c; _) = _ -> _ => destruct c as [[]|] eqn:Ec; cbn [bind]; [|discriminate] end.
  pose proof (nd_cols_ok o a CO (conj A1 (conj A2 A3)) Ec) as Hcols.
  match goal with |- (do _ <- ?c; _) = _ -> _ => destruct c as [[]|] eqn:Ets; cbn [bind]; [|discriminate] end.
  destruct (if has_timing (o_kind o) then append_timestamps (o_timing o) ts else Ok (o_timing o)) as [t'|] eqn:Et; cbn [bind]; [|discriminate].
  destruct (increase_capacity o (alen a)) as [o1|] eqn:Ei; cbn [bind]; [|discriminate].
  destruct (increase_capacity_spec _ _ _ G Ei) as (I1 & I2 & I3 & I4 & I5 & I6 & I7 & I8 & I9 & I10 & I11 & I12).
  intro Hres. inversion Hres. subst o'. clear Hres.
  cbn [o_kind o_dtype o_ncols o_start o_count o_props o_scale].
  assert (Hlen : length (assign_rows (o_rows o1) (o_start o + o_count o) (a_rows a)) = length (o_rows o1))
    by (apply assign_rows_length; unfold cap, alen in *; lia).
  assert (Hview : firstn (o_count o + alen a) (skipn (o_start o) (assign_rows (o_rows o1) (o_start o + o_count o) (a_rows a))) = view o ++ a_rows a).
  { unfold alen. rewrite view_extend by (unfold cap, alen in *; lia). f_equal.
    rewrite firstn_skipn_comm, I12, <- firstn_skipn_comm. reflexivity. }
  split; [|split; [exact CO|split; [exact Hview| repeat split]]].
  unfold good. cbn [o_start o_count o_rows o_ncols o_timing o_kind]. unfold cap. cbn [o_rows].
  destruct I1 as (J1 & J2 & J3 & J4).
  split; [rewrite Hlen; unfold cap in I11; lia|].
  split; [apply assign_rows_wf; [rewrite <- I10; exact J2 | rewrite <- Hcols; exact A1]|].
  (* timing *)
  destruct (has_timing (o_kind o)) eqn:HT.
  - assert (Hl : match ts with TsList l => length l = alen a | _ => True end).
    { destruct ts as [|l|]; auto. destruct (o_kind o); try discriminate;
        cbn in Ets; destruct (Nat.eqb_spec (length l) (alen a)); try discriminate; assumption. }
    destruct (append_timestamps_spec _ _ _ (alen a) G3 Et Hl) as (W' & S1 & S2).
    split; [exact W'|]. intros _ l Hl'.
    destruct (t_tss (o_timing o)) as [l0|] eqn:E0.
    + destruct (S1 l0 eq_refl) as (l1 & E1 & E2). rewrite E1 in Hl'. inversion Hl'. subst l1.
      pose proof (G4 eq_refl l0 eq_refl) as L0.
      destruct ts as [|x|]; subst l; [| rewrite app_length; lia |].
      * (* TsNone on an irregular receiver is rejected, so this cannot be reached with mode 2; with mode <> 2 tss is None *)
        unfold timing_wf in G3. rewrite E0 in G3. destruct G3 as [M _].
        unfold append_timestamps in Et. rewrite M in Et. cbn in Et. discriminate.
      * unfold timing_wf in G3. rewrite E0 in G3. destruct G3 as [M _].
        unfold append_timestamps in Et. rewrite M in Et. cbn in Et. discriminate.
    + rewrite (S2 eq_refl) in Hl'. rewrite E0 in Hl'. discriminate.
  - inversion Et. subst t'. split; [exact G3|]. intro C. discriminate.
Qed.

(* ---------- load_data ---------- *)
Lemma window_wf nc rows s c : rows_wf nc rows -> rows_wf nc (firstn c (skipn s rows)).
Proof. intro H. apply Forall_firstn. apply Forall_skipn. exact H. Qed.

Theorem load_data_spec o a copy start sc o' : good o -> cols_ok o -> arr_ok (o_kind o) a -> load_data o a copy start sc = Ok o' ->
  exists s c, arg_uint start (Some 0) = Ok s /\ arg_uint sc (Some (Z.of_nat (alen a) - s)) = Ok c /\ s + c <= Z.of_nat (alen a) /\
  good o' /\ cols_ok o' /\ view o' = firstn (Z.to_nat c) (skipn (Z.to_nat s) (a_rows a)) /\ o_count o' = Z.to_nat c /\
  o_timing o' = o_timing o /\ o_props o' = o_props o /\ o_scale o' = o_scale o /\ o_kind o' = o_kind o /\ o_dtype o' = o_dtype o /\
  o_ncols o' = o_ncols o.
Proof.
  intros G CO (A1 & A2 & A3). pose proof G as (G1 & G2 & G3 & G4). unfold load_data.
  destruct (a_dtype a =? o_dtype o); cbn [negb]; [|discriminate].
  match goal with |- (do _ <- ?c; _) = _ -> _ => destruct c as [[]|] eqn:End; cbn [bind]; [|discriminate] end.
  destruct (arg_uint start (Some 0)) as [s|] eqn:Es; cbn [bind]; [|discriminate].
  pose proof (arg_uint_ok _ _ _ Es) as Hs.
  destruct (Z.ltb_spec (Z.of_nat (alen a)) s) as [|Hs2]; [discriminate|].
  destruct (arg_uint sc (Some (Z.of_nat (alen a) - s))) as [c|] eqn:Ecn; cbn [bind]; [|discriminate].
  pose proof (arg_uint_ok _ _ _ Ecn) as Hc.
  destruct (Z.ltb_spec (Z.of_nat (alen a)) (s + c)) as [|Hc2]; [discriminate|].
  match goal with |- (do _ <- ?c0; _) = _ -> _ => destruct c0 as [[]|] eqn:Etim; cbn [bind]; [|discriminate] end.
  match goal with |- (do _ <- ?c0; _) = _ -> _ => destruct c0 as [[]|] eqn:Esig; cbn [bind]; [|discriminate] end.
  (* the array has the receiver's column count *)
  assert (Hcols : a_ncols a = o_ncols o).
  { unfold cols_ok in CO. destruct (o_kind o) eqn:K.
    1-3: (destruct (Nat.eqb_spec (a_ndim a) 1) as [E1|]; [|discriminate]; rewrite (A3 E1); symmetry; apply CO; discriminate).
    destruct (Nat.eqb_spec (a_ncols a) (o_ncols o)); [assumption|discriminate]. }
  set (src := firstn (Z.to_nat c) (skipn (Z.to_nat s) (a_rows a))).
  assert (Lsrc : length src = Z.to_nat c) by (unfold src; rewrite firstn_length, skipn_length; unfold alen in *; lia).
  assert (Wsrc : rows_wf (o_ncols o) src) by (unfold src; rewrite <- Hcols; apply window_wf; exact A1).
  (* the timing invariant for the new count *)
  assert (Htim : has_timing (o_kind o) = true -> forall l, t_tss (o_timing o) = Some l -> length l = Z.to_nat c).
  { intros HT l Hl. rewrite HT, Hl in Etim. destruct (Z.eqb_spec (Z.of_nat (length l)) c); [lia|discriminate]. }
  destruct copy.
  - destruct (if Z.of_nat (cap o) <? c then set_capacity o (IInt c) else Ok o) as [o1|] eqn:E1; cbn [bind]; [|discriminate].
    assert (H1 : good o1 /\ o_ncols o1 = o_ncols o /\ (Z.to_nat c <= cap o1)%nat).
    { destruct (Z.ltb_spec (Z.of_nat (cap o)) c).
      - destruct (set_capacity_spec _ _ _ G E1) as (B1 & _ & _ & _ & _ & _ & _ & _ & _ & B10 & _ & (n & En & Hn)).
        cbn in En. destruct (Z.ltb_spec c 0); [lia|]. inversion En. subst n. split; [exact B1|]. split; [exact B10|lia].
      - inversion E1. subst o1. split; [exact G|]. split; [reflexivity|lia]. }
    destruct H1 as ((K1 & K2 & K3 & K4) & K5 & K6).
    intro Hres. inversion Hres. subst o'. clear Hres.
    exists s, c. split; [first [reflexivity|assumption]|]. split; [first [reflexivity|assumption]|]. split; [lia|].
    cbn [o_kind o_dtype o_ncols o_start o_count o_props o_scale o_timing].
    assert (Hw : assign_rows (o_rows o1) 0 src = src ++ skipn (length src) (o_rows o1)) by reflexivity.
    split; [|split; [exact CO|]]; [|split; [|repeat split]].
    + unfold good. cbn [o_start o_count o_rows o_ncols o_timing o_kind]. unfold cap. cbn [o_rows].
      rewrite assign_rows_length by (unfold cap in K6; lia).
      split; [unfold cap in K6; lia|]. split; [apply assign_rows_wf; [rewrite <- K5; exact K2|exact Wsrc]|].
      split; [exact G3|exact Htim].
    + rewrite view_of_fields. cbn [skipn]. fold src. rewrite Hw, <- Lsrc. rewrite firstn_app_l by reflexivity. reflexivity.
  - intro Hres. inversion Hres. subst o'. clear Hres.
    exists s, c. split; [first [reflexivity|assumption]|]. split; [first [reflexivity|assumption]|]. split; [lia|].
    cbn [o_kind o_dtype o_ncols o_start o_count o_props o_scale o_timing].
    split; [|split; [exact CO|]]; [|split; [|repeat split]].
    + unfold good. cbn [o_start o_count o_rows o_ncols o_timing o_kind]. unfold cap. cbn [o_rows].
      split; [unfold alen in *; lia|]. split; [rewrite <- Hcols; exact A1|]. split; [exact G3|exact Htim].
    + rewrite view_of_fields. reflexivity.
Qed.

(* ---------- sample_count / timing / scale setters, view writes ---------- *)
Theorem set_sample_count_spec o v o' : good o -> set_sample_count o v = Ok o' ->
  exists n, arg_uint v None = Ok n /\ good o' /\ o_count o' = Z.to_nat n /\
  view o' = firstn (Z.to_nat n) (skipn (o_start o) (o_rows o)) /\
  (Z.to_nat n <= o_count o -> view o' = firstn (Z.to_nat n) (view o))%nat /\
  (o_count o <= Z.to_nat n -> firstn (o_count o) (view o') = view o)%nat /\
  o_timing o' = o_timing o /\ o_props o' = o_props o /\ o_scale o' = o_scale o /\ o_start o' = o_start o /\ o_rows o' = o_rows o.
Proof.
  intros (G1 & G2 & G3 & G4). unfold set_sample_count.
  destruct (arg_uint v None) as [n|] eqn:En; cbn [bind]; [|discriminate].
  pose proof (arg_uint_ok _ _ _ En) as Hn.
  destruct (Z.ltb_spec (Z.of_nat (cap o)) (Z.of_nat (o_start o) + n)) as [|Hcap]; [discriminate|].
  match goal with |- (do _ <- ?c0; _) = _ -> _ => destruct c0 as [[]|] eqn:Etim; cbn [bind]; [|discriminate] end.
  intro Hres. inversion Hres. subst o'. clear Hres. exists n. split; [first [reflexivity|assumption]|].
  cbn [set_count o_count o_start o_rows o_timing o_props o_scale].
  split; [|repeat split].
  - unfold good, cap. cbn [set_count o_start o_count o_rows o_ncols o_timing o_kind].
    split; [unfold cap in Hcap; lia|]. split; [exact G2|]. split; [exact G3|].
    intros HT l Hl. rewrite HT in Etim. unfold validate_timing in Etim. rewrite Hl in Etim.
    destruct (Nat.eqb_spec (length l) (Z.to_nat n)); [assumption|discriminate].
  - intro Hle. unfold view. rewrite firstn_firstn. rewrite Nat.min_l by exact Hle. reflexivity.
  - intro Hle. unfold view. cbn [set_count o_count o_start o_rows]. rewrite firstn_firstn. rewrite Nat.min_l by exact Hle. reflexivity.
Qed.

Theorem assign_timing_spec o t o' : good o -> timing_wf t -> assign_timing o (Some t) = Ok o' ->
  good o' /\ view o' = view o /\ o_timing o' = t /\ o_count o' = o_count o /\ o_props o' = o_props o.
Proof.
  intros (G1 & G2 & G3 & G4) W. unfold assign_timing.
  destruct (validate_timing t (o_count o)) as [[]|] eqn:Ev; cbn [bind]; [|discriminate].
  intro Hres. inversion Hres. subst o'. repeat split; auto.
  intros _ l Hl. cbn [set_timing o_timing o_count] in *. unfold validate_timing in Ev. rewrite Hl in Ev.
  destruct (Nat.eqb_spec (length l) (o_count o)); [assumption|discriminate].
Qed.
Theorem assign_timing_rejects o : assign_timing o None = Raise TypeError.
Proof. reflexivity. Qed.

(* ---------- get_raw_data / get_data ---------- *)
Theorem get_data_spec o start sc l : get_data o start sc = Ok l ->
  exists s c, arg_uint start (Some 0) = Ok s /\ arg_uint sc (Some (Z.of_nat (o_count o) - s)) = Ok c /\
  s + c <= Z.of_nat (o_count o) /\ l = firstn (Z.to_nat c) (skipn (Z.to_nat s) (view o)).
Proof.
  unfold get_data.
  destruct (arg_uint start (Some 0)) as [s|] eqn:Es; cbn [bind]; [|discriminate].
  destruct (Z.ltb_spec (Z.of_nat (o_count o)) s); [discriminate|].
  destruct (arg_uint sc (Some (Z.of_nat (o_count o) - s))) as [c|] eqn:Ec; cbn [bind]; [|discriminate].
  destruct (Z.ltb_spec (Z.of_nat (o_count o)) (s + c)); [discriminate|].
  intro Hres. inversion Hres. exists s, c. repeat split; auto.
Qed.
Theorem get_data_error o start sc e : get_data o start sc = Raise e -> e = TypeError \/ e = ValueError.
Proof.
  unfold get_data, arg_uint.
  destruct start as [|x|]; destruct sc as [|y|]; cbn;
    repeat (match goal with |- context [if ?c then _ else _] => destruct c; cbn end); intro H; inversion H; auto.
Qed.

(* ---------- extended properties merge ---------- *)
Lemma wp_get_app p q k : wp_get (p ++ q) k = match wp_get p k with Some v => Some v | None => wp_get q k end.
Proof. induction p as [|[k' v] p IH]; [reflexivity|]. cbn. destruct (k =? k'); [reflexivity|exact IH]. Qed.

Lemma wp_merge_get : forall other p k,
  wp_get (wp_merge p other) k = match wp_get p k with Some v => Some v | None => wp_get other k end.
Proof.
  induction other as [|[k' v'] other IH]; intros p k.
  - cbn. destruct (wp_get p k); reflexivity.
  - cbn [wp_merge]. rewrite IH. cbn [wp_get].
    destruct (wp_get p k') as [w|] eqn:Ek'.
    + destruct (wp_get p k) as [u|] eqn:Ek; [reflexivity|].
      destruct (Z.eqb_spec k k') as [->|]; [rewrite Ek' in Ek; discriminate|reflexivity].
    + rewrite wp_get_app. cbn [wp_get]. destruct (wp_get p k) as [u|] eqn:Ek; [reflexivity|].
      destruct (Z.eqb_spec k k'); reflexivity.
Qed.

Fixpoint first_with (srcs : list obj) (k : Z) : option (list Z) :=
  match srcs with [] => None | s :: r => match wp_get (o_props s) k with Some v => Some v | None => first_with r k end end.

(* existing values are never overwritten; a missing key is taken from the earliest source that has it *)
Theorem merged_props_get : forall srcs p k,
  wp_get (fold_left (fun q s => wp_merge q (o_props s)) srcs p) k
  = match wp_get p k with Some v => Some v | None => first_with srcs k end.
Proof.
  induction srcs as [|s srcs IH]; intros p k.
  - cbn. destruct (wp_get p k); reflexivity.
  - cbn [fold_left first_with]. rewrite IH, wp_merge_get. destruct (wp_get p k); [reflexivity|].
    destruct (wp_get (o_props s) k); reflexivity.
Qed.

(* ---------- append(waveform(s)) ---------- *)
Lemma check_sources_spec o : forall srcs ws, check_sources o srcs = Ok ws ->
  Forall (fun s => o_dtype s = o_dtype o /\ (o_kind o = KDigital -> o_ncols s = o_ncols o)) srcs.
Proof.
  induction srcs as [|s srcs IH]; intros ws H; [constructor|].
  cbn [check_sources] in H.
  destruct (Z.eqb_spec (o_dtype s) (o_dtype o)) as [Ed|]; cbn [negb] in H; [|discriminate].
  destruct (kind_eqb (o_kind o) KDigital && negb (Nat.eqb (o_ncols s) (o_ncols o))) eqn:Ek; [discriminate|].
  destruct (check_sources o srcs) as [w2|] eqn:E2; cbn [bind] in H; [|discriminate].
  constructor; [|eapply IH; reflexivity]. split; [exact Ed|].
  intro K. rewrite K in Ek. cbn in Ek. destruct (Nat.eqb_spec (o_ncols s) (o_ncols o)); [assumption|discriminate].
Qed.

Definition sum_counts (srcs : list obj) : nat := fold_left (fun n s => (n + o_count s)%nat) srcs 0%nat.
Lemma fold_counts srcs : forall n, fold_left (fun n s => (n + o_count s)%nat) srcs n = (n + sum_counts srcs)%nat.
Proof.
  unfold sum_counts. induction srcs as [|s srcs IH]; intro n; [cbn; lia|].
  cbn [fold_left]. rewrite IH, (IH (0 + o_count s)%nat). lia.
Qed.
Lemma flat_view_length srcs : Forall good srcs -> length (flat_map view srcs) = sum_counts srcs.
Proof.
  induction srcs as [|s srcs IH]; intro H; [reflexivity|]. inversion H as [|? ? Hs Hr]; subst.
  cbn [flat_map]. rewrite app_length, IH by exact Hr. destruct Hs as (G1 & _).
  rewrite view_length by exact G1.
  change (sum_counts (s :: srcs)) with (fold_left (fun n s0 => (n + o_count s0)%nat) srcs (0 + o_count s)%nat).
  rewrite fold_counts. lia.
Qed.

Definition all_tss (srcs : list obj) : list Z :=
  flat_map (fun s => match t_tss (o_timing s) with Some l => l | None => [] end) srcs.

Lemma merge_timings_spec : forall srcs t t' ws, timing_wf t -> Forall good srcs -> Forall (fun s => has_timing (o_kind s) = true) srcs ->
  merge_timings t srcs = Ok (t', ws) ->
  timing_wf t' /\
  (t_mode t <> 2 -> t' = t /\ Forall (fun s => t_mode (o_timing s) <> 2) srcs) /\
  (t_mode t = 2 -> t_mode t' = 2 /\ Forall (fun s => t_mode (o_timing s) = 2) srcs /\
     forall a, t_tss t = Some a -> t_tss t' = Some (a ++ all_tss srcs) /\ length (all_tss srcs) = sum_counts srcs).
Proof.
  induction srcs as [|s srcs IH]; intros t t' ws W Gs Hs H.
  - cbn in H. inversion H. subst. split; [exact W|]. split; [intros _; split; [reflexivity|constructor]|].
    intro M. split; [exact M|]. split; [constructor|]. intros a Ha. cbn. rewrite app_nil_r. split; [exact Ha|reflexivity].
  - cbn [merge_timings] in H. inversion Gs as [|? ? Gs1 Gs2]; subst. inversion Hs as [|? ? Hs1 Hs2]; subst.
    destruct (append_timing t (o_timing s)) as [[t1 w1]|] eqn:E1; cbn [bind] in H; [|discriminate].
    destruct (merge_timings t1 srcs) as [[t2 w2]|] eqn:E2; cbn [bind] in H; [|discriminate].
    inversion H. subst t' ws. clear H.
    pose proof Gs1 as (_ & _ & Ws & Ls).
    destruct (append_timing_spec _ _ _ _ W Ws E1) as (W1 & N1 & I1).
    destruct (IH _ _ _ W1 Gs2 Hs2 E2) as (W2 & N2 & I2).
    split; [exact W2|]. split.
    + intro M. destruct (N1 M) as [-> Mo]. destruct (N2 M) as [-> Fo]. split; [reflexivity|]. constructor; assumption.
    + intro M. destruct (I1 M) as [Mo I1']. 
      unfold timing_wf in W, Ws. destruct (t_tss t) as [a|] eqn:Ea; [|contradiction].
      destruct (t_tss (o_timing s)) as [b|] eqn:Eb; [|contradiction].
      destruct (I1' a b eq_refl eq_refl) as [T1 M1].
      destruct (I2 M1) as (M2 & F2 & I2').
      split; [exact M2|]. split; [constructor; assumption|].
      intros a0 Ha0. inversion Ha0. subst a0.
      destruct (I2' _ T1) as [T2 L2]. cbn [all_tss flat_map]. rewrite Eb. fold (all_tss srcs).
      split; [rewrite T2, app_assoc; reflexivity|].
      rewrite app_length, L2. rewrite (Ls Hs1 b eq_refl).
      change (sum_counts (s :: srcs)) with (fold_left (fun n s0 => (n + o_count s0)%nat) srcs (0 + o_count s)%nat).
      rewrite fold_counts. lia.
Qed.

Lemma flat_view_wf nc srcs : Forall (fun s => rows_wf nc (o_rows s) /\ o_ncols s = nc) srcs -> rows_wf nc (flat_map view srcs).
Proof.
  induction srcs as [|s srcs IH]; intro H; [constructor|]. inversion H as [|? ? [Hs Hn] Hr]; subst.
  cbn [flat_map]. unfold rows_wf in *. apply Forall_app. split; [|apply IH; exact Hr].
  apply Forall_firstn. apply Forall_skipn. exact Hs.
Qed.

Theorem append_waveforms_spec o srcs o' ws : good o -> cols_ok o -> Forall good srcs -> Forall cols_ok srcs ->
  Forall (fun s => o_kind s = o_kind o) srcs -> append_waveforms o srcs = Ok (o', ws) ->
  good o' /\ cols_ok o' /\
  (* samples: appended in order, nothing lost or invented *)
  view o' = view o ++ flat_map view srcs /\ o_count o' = (o_count o + sum_counts srcs)%nat /\
  (* dtypes (and digital signal counts) matched *)
  Forall (fun s => o_dtype s = o_dtype o /\ (o_kind o = KDigital -> o_ncols s = o_ncols o)) srcs /\
  (* timing: NONE/REGULAR receivers keep their timing, IRREGULAR receivers get the concatenated timestamps *)
  (has_timing (o_kind o) = true -> t_mode (o_timing o) <> 2 ->
     o_timing o' = o_timing o /\ Forall (fun s => t_mode (o_timing s) <> 2) srcs) /\
  (has_timing (o_kind o) = true -> t_mode (o_timing o) = 2 ->
     Forall (fun s => t_mode (o_timing s) = 2) srcs /\
     forall a, t_tss (o_timing o) = Some a -> t_tss (o_timing o') = Some (a ++ all_tss srcs)) /\
  (* properties: only missing keys are added, earlier sources win *)
  (forall k, wp_get (o_props o') k = match wp_get (o_props o) k with Some v => Some v | None => first_with srcs k end) /\
  o_scale o' = o_scale o /\ o_kind o' = o_kind o /\ o_dtype o' = o_dtype o /\ o_ncols o' = o_ncols o /\ o_start o' = o_start o.
Proof.
  intros G CO Gs COs Ks. pose proof G as (G1 & G2 & G3 & G4). unfold append_waveforms.
  destruct (check_sources o srcs) as [w1|] eqn:Ec; cbn [bind]; [|discriminate].
  pose proof (check_sources_spec _ _ _ Ec) as Hsrc.
  destruct (if has_timing (o_kind o) then merge_timings (o_timing o) srcs else Ok (o_timing o, [])) as [[t' w2]|] eqn:Et; cbn [bind]; [|discriminate].
  fold (sum_counts srcs).
  destruct (increase_capacity o (sum_counts srcs)) as [o1|] eqn:Ei; cbn [bind]; [|discriminate].
  destruct (increase_capacity_spec _ _ _ G Ei) as (I1 & I2 & I3 & I4 & I5 & I6 & I7 & I8 & I9 & I10 & I11 & I12).
  intro Hres. inversion Hres. subst o' ws. clear Hres.
  cbn [o_kind o_dtype o_ncols o_start o_count o_props o_scale o_timing].
  pose proof (flat_view_length _ Gs) as Lf.
  assert (Wf : rows_wf (o_ncols o) (flat_map view srcs)).
  { apply flat_view_wf. rewrite Forall_forall in *. intros s Hs.
    destruct (Gs s Hs) as (_ & S2 & _). destruct (Hsrc s Hs) as [_ Hn].
    assert (o_ncols s = o_ncols o).
    { pose proof (Ks s Hs) as Kse. pose proof (COs s Hs) as Cs. unfold cols_ok in Cs, CO.
      destruct (o_kind o) eqn:K.
      1-3: (rewrite Cs by (rewrite Kse; discriminate); symmetry; apply CO; discriminate).
      apply Hn; reflexivity. }
    split; [rewrite <- H; exact S2|exact H]. }
  assert (Hview : firstn (o_count o + sum_counts srcs) (skipn (o_start o) (assign_rows (o_rows o1) (o_start o + o_count o) (flat_map view srcs)))
                  = view o ++ flat_map view srcs).
  { rewrite <- Lf. rewrite view_extend by (unfold cap in *; lia). f_equal.
    rewrite firstn_skipn_comm, I12, <- firstn_skipn_comm. reflexivity. }
  destruct I1 as (J1 & J2 & J3 & J4).
  (* timing facts *)
  assert (HT : timing_wf t' /\
     (has_timing (o_kind o) = true -> t_mode (o_timing o) <> 2 -> t' = o_timing o /\ Forall (fun s => t_mode (o_timing s) <> 2) srcs) /\
     (has_timing (o_kind o) = true -> t_mode (o_timing o) = 2 ->
        Forall (fun s => t_mode (o_timing s) = 2) srcs /\
        forall a, t_tss (o_timing o) = Some a -> t_tss t' = Some (a ++ all_tss srcs) /\ length (all_tss srcs) = sum_counts srcs) /\
     (has_timing (o_kind o) = false -> t' = o_timing o)).
  { destruct (has_timing (o_kind o)) eqn:HTk.
    - assert (Hh : Forall (fun s => has_timing (o_kind s) = true) srcs)
        by (rewrite Forall_forall in *; intros s Hs; rewrite (Ks s Hs); exact HTk).
      destruct (merge_timings_spec _ _ _ _ G3 Gs Hh Et) as (W' & N' & I').
      split; [exact W'|]. split; [intros _ M; exact (N' M)|]. split; [|intro C; discriminate].
      intros _ M. destruct (I' M) as (_ & F & R). split; [exact F|exact R].
    - inversion Et. subst t' w2. split; [exact G3|]. split; [intro C; discriminate|]. split; [intro C; discriminate|reflexivity]. }
  destruct HT as (W' & HN & HI & HF).
  split.
  { unfold good. cbn [o_start o_count o_rows o_ncols o_timing o_kind]. unfold cap. cbn [o_rows].
    rewrite assign_rows_length by (unfold cap in *; lia).
    split; [unfold cap in I11; lia|]. split; [apply assign_rows_wf; [rewrite <- I10; exact J2|exact Wf]|]. split; [exact W'|].
    intros HTk l Hl.
    destruct (Z.eq_dec (t_mode (o_timing o)) 2) as [M|M].
    - destruct (HI HTk M) as [_ R]. unfold timing_wf in G3.
      destruct (t_tss (o_timing o)) as [a|] eqn:Ea; [|contradiction].
      destruct (R a eq_refl) as [T L]. rewrite T in Hl. inversion Hl. subst l.
      rewrite app_length, L. first [rewrite (G4 HTk a Ea) | rewrite (G4 HTk a eq_refl)]. reflexivity.
    - destruct (HN HTk M) as [-> _]. unfold timing_wf in G3.
      destruct (t_tss (o_timing o)) as [a|] eqn:Ea; [destruct G3; contradiction|discriminate]. }
  split; [exact CO|]. split; [exact Hview|]. split; [reflexivity|]. split; [exact Hsrc|].
  split; [exact HN|].
  split; [intros HTk M; destruct (HI HTk M) as [F R]; split; [exact F|]; intros a Ha; exact (proj1 (R a Ha))|].
  split; [intro k; apply merged_props_get|]. repeat split.
Qed.

(* appending succeeds only if the stated conditions hold (the other direction is the spec oracle of the correspondence) *)
Theorem append_rejects_mode_mismatch t other : timing_wf t -> timing_wf other ->
  Bool.eqb (t_mode t =? 2) (t_mode other =? 2) = false -> append_timing t other = Raise TimingMismatchError.
Proof.
  intros _ _ H. unfold append_timing.
  destruct (t_mode t =? 2); destruct (t_mode other =? 2); cbn in *; try discriminate; reflexivity.
Qed.

(* ---------- construction ---------- *)
Theorem new_obj_good k dt ok sc st ca nc fill t s p o :
  timing_wf t -> new_obj k dt ok sc st ca nc fill t s p = Ok o -> good o /\ cols_ok o /\ o_timing o = t /\ o_props o = p.
Proof.
  intros W. unfold new_obj.
  destruct (arg_uint st (Some 0)) as [start|] eqn:E1; cbn [bind]; [|discriminate].
  destruct (arg_uint sc (Some 0)) as [cnt|] eqn:E2; cbn [bind]; [|discriminate].
  destruct (match k with KDigital => arg_uint nc (Some 1) | _ => Ok 1 end) as [ncols|] eqn:E3; cbn [bind]; [|discriminate].
  destruct (arg_uint ca (Some cnt)) as [capa|] eqn:E4; cbn [bind]; [|discriminate].
  pose proof (arg_uint_ok _ _ _ E1). pose proof (arg_uint_ok _ _ _ E2). pose proof (arg_uint_ok _ _ _ E4).
  destruct ok; cbn [negb]; [|discriminate].
  destruct (Z.ltb_spec capa start) as [|Hc1]; [discriminate|].
  destruct (Z.ltb_spec capa (start + cnt)) as [|Hc2]; [discriminate|].
  match goal with |- (do _ <- ?c0; _) = _ -> _ => destruct c0 as [[]|] eqn:Ev; cbn [bind]; [|discriminate] end.
  intro Hres. inversion Hres. subst o. clear Hres. cbn [set_timing o_timing o_props].
  split; [|split; [|split; reflexivity]].
  - unfold good, cap. cbn [set_timing o_start o_count o_rows o_ncols o_timing o_kind].
    rewrite repeat_length. split; [lia|]. split; [apply Forall_repeat; apply repeat_length|]. split; [exact W|].
    intros HT l Hl. rewrite HT in Ev. unfold validate_timing in Ev. rewrite Hl in Ev.
    destruct (Nat.eqb_spec (length l) (Z.to_nat cnt)); [assumption|discriminate].
  - unfold cols_ok. cbn [set_timing o_kind o_ncols]. intro Hk. destruct k; try contradiction; inversion E3; reflexivity.
Qed.

(* ---------- C07: a rejected call changes nothing ---------- *)
Theorem pstep_raise_unchanged p op p' e ws : pstep p op = (p', Raise e, ws) -> p' = p.
Proof.
  destruct op; cbn [pstep]; intro H;
  repeat match goal with
  | H : (match ?x with _ => _ end) = _ |- _ => destruct x eqn:?
  | H : (if ?x then _ else _) = _ |- _ => destruct x eqn:?
  | H : (let '(_, _) := ?x in _) = _ |- _ => destruct x eqn:?
  end; inversion H; subst; try reflexivity.
Qed.

Theorem from_array_good k a dr ok st sc ca nc t s p o :
  arr_ok k a -> timing_wf t -> from_array k a dr ok st sc ca nc t s p = Ok o -> good o /\ cols_ok o /\ o_timing o = t /\ o_props o = p /\
  exists s0 c0, view o = firstn c0 (skipn s0 (a_rows a)) /\ o_count o = c0 /\ o_start o = s0.
Proof.
  intros (A1 & A2 & A3) W. unfold from_array.
  match goal with |- (do _ <- ?c0; _) = _ -> _ => destruct c0 as [[]|] eqn:E0; cbn [bind]; [|discriminate] end.
  match goal with |- (do _ <- ?c0; _) = _ -> _ => destruct c0 as [[]|] eqn:E00; cbn [bind]; [|discriminate] end.
  destruct ok; cbn [negb]; [|discriminate].
  match goal with |- (do _ <- ?c0; _) = _ -> _ => destruct c0 as [[]|] eqn:E01; cbn [bind]; [|discriminate] end.
  destruct (arg_uint ca (Some (Z.of_nat (alen a)))) as [capa|] eqn:E1; cbn [bind]; [|discriminate].
  destruct (Z.eqb_spec capa (Z.of_nat (alen a))) as [Hcap|]; cbn [negb]; [|discriminate].
  destruct (arg_uint st (Some 0)) as [start|] eqn:E2; cbn [bind]; [|discriminate].
  destruct (Z.ltb_spec capa start) as [|Hs]; [discriminate|].
  destruct (arg_uint sc (Some (Z.of_nat (alen a) - start))) as [cnt|] eqn:E3; cbn [bind]; [|discriminate].
  destruct (Z.ltb_spec (Z.of_nat (alen a)) (start + cnt)) as [|Hc]; [discriminate|].
  pose proof (arg_uint_ok _ _ _ E2). pose proof (arg_uint_ok _ _ _ E3).
  match goal with |- (do _ <- ?c0; _) = _ -> _ => destruct c0 as [[]|] eqn:E4; cbn [bind]; [|discriminate] end.
  match goal with |- (do _ <- ?c0; _) = _ -> _ => destruct c0 as [[]|] eqn:Ev; cbn [bind]; [|discriminate] end.
  intro Hres. inversion Hres. subst o. clear Hres. cbn [set_timing o_timing o_props].
  split; [|split; [|split; [reflexivity|split; [reflexivity|]]]].
  - unfold good, cap. cbn [set_timing o_start o_count o_rows o_ncols o_timing o_kind]. unfold alen in *.
    split; [lia|]. split; [exact A1|]. split; [exact W|].
    intros HT l Hl. rewrite HT in Ev. unfold validate_timing in Ev. rewrite Hl in Ev.
    destruct (Nat.eqb_spec (length l) (Z.to_nat cnt)); [assumption|discriminate].
  - unfold cols_ok. cbn [set_timing o_kind o_ncols]. exact A2.
  - exists (Z.to_nat start), (Z.to_nat cnt). repeat split.
Qed.

(* a pickled copy satisfies the invariant, shows the same samples, and has neither offset nor slack *)
Lemma repickle_good o : good o -> good (repickle o).
Proof.
  intros (A & B & C & D). unfold good, repickle, cap in *. cbn [o_start o_count o_rows o_ncols o_timing o_kind].
  repeat split.
  - rewrite firstn_length, skipn_length. lia.
  - apply Forall_firstn, Forall_skipn. exact B.
  - exact C.
  - exact D.
Qed.

Lemma repickle_view o : (o_start o + o_count o <= cap o)%nat -> view (repickle o) = view o /\ cap (repickle o) = o_count o.
Proof.
  intro H. unfold view, repickle, cap in *. cbn [o_start o_count o_rows]. cbn [skipn].
  split; [apply firstn_all2; rewrite firstn_length, skipn_length; lia | rewrite firstn_length, skipn_length; lia].
Qed.

Lemma repickle_spec o : good o ->
  good (repickle o) /\ view (repickle o) = view o /\ o_timing (repickle o) = o_timing o /\ o_count (repickle o) = o_count o
  /\ o_props (repickle o) = o_props o /\ o_start (repickle o) = 0%nat /\ cap (repickle o) = o_count o.
Proof.
  intro G. pose proof G as (A & _). destruct (repickle_view o A) as [V C].
  split; [apply repickle_good; exact G|]. split; [exact V|]. split; [reflexivity|]. split; [reflexivity|].
  split; [reflexivity|]. split; [reflexivity|exact C].
Qed.

(* ---------- the pool ---------- *)
Definition pool_good (p : pool) : Prop := Forall (fun o => good o /\ cols_ok o) p.

Definition op_wf (p : pool) (op : wop) : Prop :=
  match op with
  | PNew _ _ _ _ _ _ _ _ t _ _ => timing_wf t
  | PFromArray k a _ _ _ _ _ _ t _ _ => arr_ok k a /\ timing_wf t
  | PLoad i a _ _ _ => (i < length p)%nat /\ arr_ok (o_kind (pget p i)) a
  | PAppendArr i a _ => (i < length p)%nat /\ arr_ok (o_kind (pget p i)) a
  | PAppendWfm i srcs _ => (i < length p)%nat /\ Forall (fun j => (j < length p)%nat /\ o_kind (pget p j) = o_kind (pget p i)) srcs
  | PSetTiming i (Some t) => (i < length p)%nat /\ timing_wf t
  | PSetCap i _ | PSetCount i _ | PSetTiming i None | PSetScale i _ | PGet i _ _ | PRepickle i => (i < length p)%nat
  | PWrite i r c _ => (i < length p)%nat /\ (r < o_count (pget p i))%nat /\ (c < o_ncols (pget p i))%nat
  end.

Lemma pget_good p i : pool_good p -> (i < length p)%nat -> good (pget p i) /\ cols_ok (pget p i).
Proof. intros H Hi. unfold pool_good in H. rewrite Forall_forall in H. apply H. unfold pget. apply nth_In. exact Hi. Qed.

Lemma pool_set_good p i o : pool_good p -> good o /\ cols_ok o -> pool_good (pool_set p i o).
Proof.
  intros H Ho. unfold pool_good, pool_set in *. apply Forall_app. split; [apply Forall_firstn; exact H|].
  constructor; [exact Ho | apply Forall_skipn; exact H].
Qed.

Lemma write_view_good o r c v : good o -> (r < o_count o)%nat -> (c < o_ncols o)%nat -> good (write_view o r c v).
Proof.
  intros (G1 & G2 & G3 & G4) Hr Hc. unfold write_view, good, cap.
  cbn [with_rows o_start o_count o_rows o_ncols o_timing o_kind].
  assert (Hi : (o_start o + r < length (o_rows o))%nat) by (unfold cap in G1; lia).
  split; [rewrite app_length, firstn_length; cbn [length]; rewrite skipn_length; unfold cap in G1; lia|].
  split; [|split; assumption].
  unfold rows_wf in *. apply Forall_app. split; [apply Forall_firstn; exact G2|].
  constructor; [|apply Forall_skipn; exact G2].
  assert (Hlen : length (nth (o_start o + r) (o_rows o) []) = o_ncols o)
    by (rewrite Forall_forall in G2; apply G2; apply nth_In; exact Hi).
  rewrite app_length, firstn_length. cbn [length]. rewrite skipn_length. lia.
Qed.

(* C01 + C09 for every call: the invariant is preserved by every operation, whatever its arguments *)
Theorem pstep_good p op p' r ws : pool_good p -> op_wf p op -> pstep p op = (p', r, ws) -> pool_good p'.
Proof.
  intros G W. destruct op; cbn [pstep op_wf] in *.
  - destruct (new_obj _ _ _ _ _ _ _ _ _ _ _) as [o|] eqn:E; intro H; inversion H; subst; [|exact G].
    destruct (new_obj_good _ _ _ _ _ _ _ _ _ _ _ _ W E) as (A & B & _).
    unfold pool_good. apply Forall_app. split; [exact G|]. constructor; [split; assumption|constructor].
  - destruct W as [Wa Wt]. destruct (from_array _ _ _ _ _ _ _ _ _ _ _) as [o|] eqn:E; intro H; inversion H; subst; [|exact G].
    destruct (from_array_good _ _ _ _ _ _ _ _ _ _ _ _ Wa Wt E) as (A & B & _).
    unfold pool_good. apply Forall_app. split; [exact G|]. constructor; [split; assumption|constructor].
  - destruct W as [Wi Wa]. destruct (pget_good _ _ G Wi) as [Go Co].
    destruct (load_data _ _ _ _ _) as [o'|] eqn:E; intro H; inversion H; subst; [|exact G].
    destruct (load_data_spec _ _ _ _ _ _ Go Co Wa E) as (s & c & _ & _ & _ & A & B & _).
    apply pool_set_good; [exact G|split; assumption].
  - destruct W as [Wi Wa]. destruct (pget_good _ _ G Wi) as [Go Co].
    destruct (append_array _ _ _) as [o'|] eqn:E; intro H; inversion H; subst; [|exact G].
    destruct (append_array_spec _ _ _ _ Go Co Wa E) as (A & B & _).
    apply pool_set_good; [exact G|split; assumption].
  - destruct W as [Wi Ws]. destruct (pget_good _ _ G Wi) as [Go Co].
    destruct ts_given; [intro H; inversion H; subst; exact G|].
    destruct (append_waveforms _ _) as [[o' w]|] eqn:E; intro H; inversion H; subst; [|exact G].
    assert (S1 : Forall good (map (pget p) srcs) /\ Forall cols_ok (map (pget p) srcs) /\
                 Forall (fun s => o_kind s = o_kind (pget p i)) (map (pget p) srcs)).
    { rewrite !Forall_map. rewrite Forall_forall in Ws. repeat split; rewrite Forall_forall; intros j Hj;
        destruct (Ws j Hj) as [Lj Kj]; destruct (pget_good _ _ G Lj); assumption. }
    destruct S1 as (S1 & S2 & S3).
    destruct (append_waveforms_spec _ _ _ _ Go Co S1 S2 S3 E) as (A & B & _).
    apply pool_set_good; [exact G|split; assumption].
  - destruct (pget_good _ _ G W) as [Go Co].
    destruct (set_capacity _ _) as [o'|] eqn:E; intro H; inversion H; subst; [|exact G].
    destruct (set_capacity_spec _ _ _ Go E) as (A & _ & _ & _ & _ & _ & _ & K & _ & NC & _).
    apply pool_set_good; [exact G|]. split; [exact A|]. unfold cols_ok in *. rewrite K, NC. exact Co.
  - destruct (pget_good _ _ G W) as [Go Co].
    destruct (set_sample_count _ _) as [o'|] eqn:E; intro H; inversion H; subst; [|exact G].
    destruct (set_sample_count_spec _ _ _ Go E) as (n & _ & A & _).
    apply pool_set_good; [exact G|]. split; [exact A|].
    unfold set_sample_count in E. destruct (arg_uint v None); cbn [bind] in E; [|discriminate].
    destruct (_ <? _); [discriminate|]. destruct (if has_timing _ then _ else _); cbn [bind] in E; [|discriminate].
    inversion E. exact Co.
  - destruct t as [t|].
    + destruct W as [Wi Wt]. destruct (pget_good _ _ G Wi) as [Go Co].
      destruct (assign_timing _ _) as [o'|] eqn:E; intro H; inversion H; subst; [|exact G].
      destruct (assign_timing_spec _ _ _ Go Wt E) as (A & _).
      apply pool_set_good; [exact G|]. split; [exact A|].
      unfold assign_timing in E. destruct (validate_timing _ _); cbn [bind] in E; [|discriminate]. inversion E. exact Co.
    + intro H. inversion H. subst. exact G.
  - destruct (pget_good _ _ G W) as [Go Co]. destruct s as [s|]; intro H; inversion H; subst; [|exact G].
    apply pool_set_good; [exact G|]. split; [exact Go|exact Co].
  - destruct W as (Wi & Wr & Wc). destruct (pget_good _ _ G Wi) as [Go Co]. intro H. inversion H. subst.
    apply pool_set_good; [exact G|]. split; [apply write_view_good; assumption|exact Co].
  - intro H. inversion H. subst. exact G.
  - destruct (pget_good _ _ G W) as [Go Co]. intro H. inversion H. subst.
    apply pool_set_good; [exact G|]. split; [apply repickle_good; exact Go|exact Co].
Qed.

(* ---------- histories ---------- *)
Definition pnext (p : pool) (op : wop) : pool := fst (fst (pstep p op)).
Fixpoint run_wf (p : pool) (ops : list wop) : Prop :=
  match ops with [] => True | op :: rest => op_wf p op /\ run_wf (pnext p op) rest end.

Theorem history_good : forall ops p, pool_good p -> run_wf p ops -> pool_good (fold_left pnext ops p).
Proof.
  induction ops as [|op ops IH]; intros p G W; [exact G|].
  cbn [fold_left]. destruct W as [W1 W2]. apply IH; [|exact W2].
  unfold pnext. destruct (pstep p op) as [[p' r] ws] eqn:E. cbn [fst]. eapply pstep_good; eauto.
Qed.

(* what the invariant means for every object of a reachable pool *)
Theorem good_meaning o : good o -> cols_ok o ->
  (o_start o + o_count o <= cap o)%nat /\ length (view o) = o_count o /\
  Forall (fun r => length r = o_ncols o) (view o) /\
  (has_timing (o_kind o) = true -> forall l, t_tss (o_timing o) = Some l -> length l = o_count o /\ monotonic_sm l = true).
Proof.
  intros (G1 & G2 & G3 & G4) _. split; [exact G1|]. split; [apply view_length; exact G1|]. split; [apply view_rows_wf; exact G2|].
  intros HT l Hl. split; [apply (G4 HT l Hl)|]. unfold timing_wf in G3. rewrite Hl in G3. apply G3.
Qed.

(* other objects of the pool (sources, objects sharing a Timing) are untouched by an operation on object i *)
Lemma pget_pool_set_other : forall p i o j, (i < length p)%nat -> j <> i -> pget (pool_set p i o) j = pget p j.
Proof.
  unfold pget, pool_set. induction p as [|x p IH]; intros i o j Hi Hj; [cbn in Hi; lia|].
  destruct i as [|i].
  - destruct j as [|j]; [contradiction|]. reflexivity.
  - destruct j as [|j]; [reflexivity|]. cbn [firstn skipn app nth]. apply IH; [cbn in Hi; lia|lia].
Qed.
