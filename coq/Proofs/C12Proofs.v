From Coq Require Import ZArith List Lia Bool.
From NV Require Import Common.Py Model.Alias.
Open Scope nat_scope.

Lemma upd_length {A} (l : list A) i v : length (upd l i v) = length l.
Proof.
  unfold upd. destruct (Nat.ltb_spec i (length l)); [|reflexivity].
  rewrite app_length, firstn_length. cbn [length]. rewrite skipn_length. lia.
Qed.
Lemma nth_upd_same {A} (l : list A) i v d : i < length l -> nth i (upd l i v) d = v.
Proof.
  intro H. unfold upd. destruct (Nat.ltb_spec i (length l)); [|lia].
  rewrite app_nth2; rewrite firstn_length; [|lia]. replace (i - Nat.min i (length l)) with 0 by lia. reflexivity.
Qed.
Lemma nth_firstn_lt2 {A} (l : list A) d : forall n k, k < n -> nth k (firstn n l) d = nth k l d.
Proof.
  induction l as [|x l IH]; intros n k H; [rewrite firstn_nil; reflexivity|].
  destruct n; [lia|]. destruct k; [reflexivity|]. cbn. apply IH. lia.
Qed.
Lemma nth_skipn2 {A} (l : list A) d : forall n k, nth k (skipn n l) d = nth (n + k) l d.
Proof.
  induction l as [|x l IH]; intros n k; [rewrite skipn_nil; destruct k; destruct n; reflexivity|].
  destruct n; [reflexivity|]. cbn. apply IH.
Qed.
Lemma nth_upd_other {A} (l : list A) i j v d : i <> j -> nth j (upd l i v) d = nth j l d.
Proof.
  intro H. unfold upd. destruct (Nat.ltb_spec i (length l)) as [Hi|]; [|reflexivity].
  destruct (Nat.lt_ge_cases j i) as [Hj|Hj].
  - rewrite app_nth1 by (rewrite firstn_length; lia). apply nth_firstn_lt2. exact Hj.
  - rewrite app_nth2 by (rewrite firstn_length; lia). rewrite firstn_length. replace (Nat.min i (length l)) with i by lia.
    destruct (j - i) as [|k] eqn:E; [lia|]. cbn [nth]. rewrite nth_skipn2. f_equal. lia.
Qed.

(* ---------- the two facts everything rests on ---------- *)
(* frame: a write through one buffer is invisible through any reference into another buffer *)
Theorem frame h a b r c v r' c' : r_buf a <> r_buf b -> hread (hwrite h a r c v) b r' c' = hread h b r' c'.
Proof.
  intro H. unfold hread, hwrite, bufof. rewrite nth_upd_other by exact H. reflexivity.
Qed.

(* a write through a reference is read back through any reference addressing the same cell *)
Theorem write_read h a b r c v r' c' : r_buf a = r_buf b -> addr a r c = addr b r' c' ->
  r_buf a < length h -> addr a r c < length (bufof h (r_buf a)) -> hread (hwrite h a r c v) b r' c' = v.
Proof.
  intros Hb Ha L1 L2. unfold hread, hwrite. rewrite <- Hb, <- Ha. unfold bufof at 1.
  rewrite nth_upd_same by exact L1. apply nth_upd_same. exact L2.
Qed.

(* ... and every other cell of that buffer keeps its value *)
Theorem write_other h a b r c v r' c' : addr a r c <> addr b r' c' -> hread (hwrite h a r c v) b r' c' = hread h b r' c'.
Proof.
  intro Ha. unfold hread, hwrite. destruct (Nat.eq_dec (r_buf a) (r_buf b)) as [E|E].
  - rewrite <- E. unfold bufof at 1. destruct (Nat.lt_ge_cases (r_buf a) (length h)) as [L|L].
    + rewrite nth_upd_same by exact L. apply nth_upd_other. exact Ha.
    + unfold upd at 1. destruct (Nat.ltb_spec (r_buf a) (length h)); [lia|]. reflexivity.
  - unfold bufof. rewrite nth_upd_other by exact E. reflexivity.
Qed.

Lemma hwrite_length h a r c v : length (hwrite h a r c v) = length h.
Proof. unfold hwrite. apply upd_length. Qed.
Lemma hwrite_buf_other h a r c v b : b <> r_buf a -> bufof (hwrite h a r c v) b = bufof h b.
Proof. intro H. unfold hwrite, bufof. apply nth_upd_other. auto. Qed.

Lemma contents_ext h h' a : (forall r c, hread h' a r c = hread h a r c) -> contents h' a = contents h a.
Proof. intro H. unfold contents. apply map_ext. intro r. apply map_ext. intro c. apply H. Qed.

(* views address the cells of their parent *)
Theorem subrows_cell h a s n r c : hread h (subrows a s n) r c = hread h a (s + r) c.
Proof. unfold hread, addr, subrows. cbn. f_equal. lia. Qed.
Theorem rowof_cell h a i r : hread h (rowof a i) r 0 = hread h a i r.
Proof. unfold hread, addr, rowof. cbn. f_equal. lia. Qed.
Theorem colof_cell h a c r : hread h (colof a c) r 0 = hread h a r c.
Proof. unfold hread, addr, colof. cbn. f_equal. lia. Qed.

(* ---------- allocation is fresh ---------- *)
Lemma alloc_fresh h vals cols h' a : alloc h vals cols = (h', a) ->
  r_buf a = length h /\ length h' = S (length h) /\ (forall b, b < length h -> bufof h' b = bufof h b).
Proof.
  unfold alloc. intro H. inversion H. subst. cbn. split; [reflexivity|]. split; [rewrite app_length; cbn; lia|].
  intros b Hb. unfold bufof. apply app_nth1. exact Hb.
Qed.

Lemma write_rows_other : forall rows h a r0 b, b <> r_buf a -> bufof (write_rows h a r0 rows) b = bufof h b.
Proof.
  induction rows as [|row rest IH]; intros h a r0 b Hb; cbn [write_rows]; [reflexivity|].
  rewrite IH by exact Hb.
  generalize (combine (seq 0 (length row)) row). intro l. revert h. induction l as [|[c v] l IHl]; intro h; cbn [fold_left]; [reflexivity|].
  rewrite IHl. cbn [fst snd]. apply hwrite_buf_other. exact Hb.
Qed.
Lemma write_rows_length : forall rows h a r0, length (write_rows h a r0 rows) = length h.
Proof.
  induction rows as [|row rest IH]; intros h a r0; cbn [write_rows]; [reflexivity|]. rewrite IH.
  generalize (combine (seq 0 (length row)) row). intro l. revert h. induction l as [|[c v] l IHl]; intro h; cbn [fold_left]; [reflexivity|].
  rewrite IHl. apply hwrite_length.
Qed.

(* ---------- no hidden copies: copy=False never allocates; it returns the caller's cells or raises ---------- *)
Definition is_view_of (a : aref) (s : source) (p : path) : Prop :=
  match s, p with
  | SRef b, PFrom2dRow i => a = rowof b i
  | SRef b, _ => a = b
  | SList _ _, _ => False
  end.

Theorem no_hidden_copy p h s cast h' a : p <> PPort -> p <> PCtor -> build p h s cast false = Ok (h', a) ->
  h' = h /\ is_view_of a s p /\ cast = false.
Proof.
  intros NP NC. destruct p; try contradiction; cbn [build asarray]; destruct s as [b|vals cols]; cbn [asarray];
    try discriminate; destruct cast; try discriminate; intro H; inversion H; subst; repeat split.
Qed.

(* a request that could only be met by copying raises ValueError *)
Theorem impossible_no_copy_raises h a vals cols :
  build PFrom1d h (SRef a) true false = Raise ValueError /\
  build PFrom1d h (SList vals cols) false false = Raise ValueError /\
  (forall i, build (PFrom2dRow i) h (SRef a) true false = Raise ValueError) /\
  build PLines h (SList vals cols) false false = Raise ValueError.
Proof. repeat split. Qed.

(* the raw constructors adopt the array (always shared) *)
Theorem ctor_shares h a h' a' : build PCtor h (SRef a) false true = Ok (h', a') \/ build PCtor h (SRef a) false false = Ok (h', a') -> h' = h /\ a' = a.
Proof. cbn. intros [H|H]; inversion H; auto. Qed.

(* ---------- copy=True (and from_port): the result lives in a fresh buffer ---------- *)
Definition src_buf_ok (h : heap) (s : source) : Prop := match s with SRef a => r_buf a < length h | SList _ _ => True end.

Theorem copy_is_fresh p h s cast h' a : p <> PCtor -> build p h s cast true = Ok (h', a) ->
  r_buf a = length h /\ length h' = S (length h) /\ (forall b, b < length h -> bufof h' b = bufof h b).
Proof.
  intros NC. destruct p; try contradiction; cbn [build asarray]; destruct s as [b|vals cols]; cbn [asarray];
    try (destruct cast; try discriminate); intro H; inversion H; subst; cbn [r_buf];
    (split; [reflexivity|]; split; [rewrite app_length; cbn; lia|]; intros bb Hb; unfold bufof; apply app_nth1; exact Hb).
Qed.
Theorem port_is_fresh h s cast copy h' a : build PPort h s cast copy = Ok (h', a) -> r_buf a = length h.
Proof. destruct s; cbn; intro H; inversion H; reflexivity. Qed.

(* ---------- isolation over every later history ---------- *)
(* with the object in a buffer other than the source's, no sequence of writes / appends on either
   side is visible on the other side *)
Definition obj_side (op : aop) : bool := match op with WSrc _ _ _ => false | _ => true end.

Lemma astep_ref src h o op : r_buf (ao_ref (snd (astep src (h, o) op))) = r_buf (ao_ref o).
Proof. destruct op; cbn [astep snd]; try reflexivity. destruct (ao_start o + ao_count o <? r_rows (ao_ref o)); reflexivity. Qed.

Theorem isolated_step src h o op b :
  (obj_side op = true -> b <> r_buf (ao_ref o)) -> (obj_side op = false -> b <> r_buf src) ->
  bufof (fst (astep src (h, o) op)) b = bufof h b.
Proof.
  intros H1 H2. destruct op; cbn [astep fst obj_side] in *.
  - apply hwrite_buf_other. apply H2. reflexivity.
  - apply hwrite_buf_other. cbn. apply H1. reflexivity.
  - destruct (Nat.ltb _ _); cbn [fst]; [|reflexivity]. apply write_rows_other. apply H1. reflexivity.
Qed.

Fixpoint arun (src : aref) (st : heap * aobj) (ops : list aop) : heap * aobj :=
  match ops with [] => st | op :: rest => arun src (astep src st op) rest end.

(* what each side would see if the other side did nothing at all *)
Definition src_only (op : aop) : bool := negb (obj_side op).
Fixpoint run_side (keep : aop -> bool) (src : aref) (st : heap * aobj) (ops : list aop) : heap * aobj :=
  match ops with
  | [] => st
  | op :: rest => run_side keep src (if keep op then astep src st op else st) rest
  end.

Lemma hwrite_own h a r c v : bufof (hwrite h a r c v) (r_buf a) = upd (bufof h (r_buf a)) (addr a r c) v.
Proof.
  unfold hwrite, bufof. destruct (Nat.lt_ge_cases (r_buf a) (length h)) as [L|L].
  - apply nth_upd_same. exact L.
  - unfold upd at 1. destruct (Nat.ltb_spec (r_buf a) (length h)); [lia|].
    rewrite (nth_overflow h) by exact L. unfold upd. destruct (Nat.ltb_spec (addr a r c) (length (@nil Z))) as [X|X]; [cbn in X; lia|reflexivity].
Qed.

Definition agree (b : nat) (h1 h2 : heap) : Prop := bufof h1 b = bufof h2 b.

Lemma hwrite_agree h1 h2 a r c v : agree (r_buf a) h1 h2 -> agree (r_buf a) (hwrite h1 a r c v) (hwrite h2 a r c v).
Proof. unfold agree. intro H. rewrite !hwrite_own, H. reflexivity. Qed.

Lemma write_rows_agree : forall rows h1 h2 a r0, agree (r_buf a) h1 h2 -> agree (r_buf a) (write_rows h1 a r0 rows) (write_rows h2 a r0 rows).
Proof.
  induction rows as [|row rest IH]; intros h1 h2 a r0 H; cbn [write_rows]; [exact H|]. apply IH.
  generalize (combine (seq 0 (length row)) row). intro l. revert h1 h2 H.
  induction l as [|[c v] l IHl]; intros h1 h2 H; cbn [fold_left]; [exact H|]. apply IHl. cbn [fst snd]. apply hwrite_agree. exact H.
Qed.

(* one step, seen from the source's buffer and from the object's buffer *)
Lemma step_src_side src h1 h2 o o' op : r_buf src <> r_buf (ao_ref o) -> agree (r_buf src) h1 h2 ->
  agree (r_buf src) (fst (astep src (h1, o) op)) (fst (if src_only op then astep src (h2, o') op else (h2, o'))).
Proof.
  intros D A. destruct op; cbn [src_only obj_side negb astep fst].
  - apply hwrite_agree. exact A.
  - unfold agree. rewrite hwrite_buf_other by (cbn; exact D). exact A.
  - destruct (Nat.ltb _ _); cbn [fst]; [|exact A]. unfold agree. rewrite write_rows_other by exact D. exact A.
Qed.

Lemma step_obj_side src h1 h2 o op : r_buf src <> r_buf (ao_ref o) -> agree (r_buf (ao_ref o)) h1 h2 ->
  agree (r_buf (ao_ref o)) (fst (astep src (h1, o) op)) (fst (if obj_side op then astep src (h2, o) op else (h2, o))) /\
  snd (astep src (h1, o) op) = snd (if obj_side op then astep src (h2, o) op else (h2, o)).
Proof.
  intros D A. destruct op; cbn [obj_side astep fst snd].
  - split; [|reflexivity]. unfold agree. rewrite hwrite_buf_other by (intro E; apply D; symmetry; exact E). exact A.
  - split; [|reflexivity]. apply (hwrite_agree h1 h2 (ao_view o)). exact A.
  - destruct (Nat.ltb _ _); cbn [fst snd]; [|split; [exact A|reflexivity]]. split; [|reflexivity]. apply write_rows_agree. exact A.
Qed.

(* C12, copy=True: for EVERY later interleaving of writes and appends on both sides, the source's
   memory is what the caller's own writes made it, and the object's memory and geometry are what
   the object-side operations made them *)
Theorem isolation_source : forall ops src h1 h2 o o', r_buf src <> r_buf (ao_ref o) -> agree (r_buf src) h1 h2 ->
  agree (r_buf src) (fst (arun src (h1, o) ops)) (fst (run_side src_only src (h2, o') ops)).
Proof.
  induction ops as [|op ops IH]; intros src h1 h2 o o' D A; [exact A|]. cbn [arun run_side].
  pose proof (step_src_side src h1 h2 o o' op D A) as S.
  destruct (astep src (h1, o) op) as [h1' o1] eqn:E1.
  assert (R : r_buf (ao_ref o1) = r_buf (ao_ref o)) by (pose proof (astep_ref src h1 o op) as X; rewrite E1 in X; exact X).
  destruct (if src_only op then astep src (h2, o') op else (h2, o')) as [h2' o2] eqn:E2.
  cbn [fst] in S. apply IH; [rewrite R; exact D|exact S].
Qed.

Theorem isolation_object : forall ops src h1 h2 o, r_buf src <> r_buf (ao_ref o) -> agree (r_buf (ao_ref o)) h1 h2 ->
  agree (r_buf (ao_ref o)) (fst (arun src (h1, o) ops)) (fst (run_side obj_side src (h2, o) ops)) /\
  snd (arun src (h1, o) ops) = snd (run_side obj_side src (h2, o) ops).
Proof.
  induction ops as [|op ops IH]; intros src h1 h2 o D A; [split; [exact A|reflexivity]|]. cbn [arun run_side].
  destruct (step_obj_side src h1 h2 o op D A) as [S1 S2].
  destruct (astep src (h1, o) op) as [h1' o1] eqn:E1.
  assert (R : r_buf (ao_ref o1) = r_buf (ao_ref o)) by (pose proof (astep_ref src h1 o op) as X; rewrite E1 in X; exact X).
  destruct (if obj_side op then astep src (h2, o) op else (h2, o)) as [h2' o2] eqn:E2.
  cbn [fst snd] in S1, S2. subst o2. rewrite <- R. apply IH; [rewrite R; exact D|rewrite R; exact S1].
Qed.

(* reads only depend on the buffer *)
Lemma hread_agree h1 h2 a r c : agree (r_buf a) h1 h2 -> hread h1 a r c = hread h2 a r c.
Proof. unfold agree, hread. intro H. rewrite H. reflexivity. Qed.

(* C12, copy=False: the object's view IS the source's cells, at every later moment *)
Theorem sharing h a s n r c : hread h (ao_view {| ao_ref := a; ao_start := s; ao_count := n; ao_owns := false |}) r c = hread h a (s + r) c.
Proof. apply subrows_cell. Qed.

(* so a source write lands in the view and a view write lands in the source *)
Theorem shared_write_visible h a s n r c v :
  r_buf a < length h -> addr a (s + r) c < length (bufof h (r_buf a)) ->
  hread (hwrite h a (s + r) c v) (subrows a s n) r c = v /\
  hread (hwrite h (subrows a s n) r c v) a (s + r) c = v.
Proof.
  intros L1 L2. split; apply write_read; cbn [subrows r_buf]; try reflexivity; try exact L1;
    unfold addr, subrows in *; cbn in *; try lia.
Qed.

(* an in-capacity append on a sharing object lands in the caller's memory *)
Theorem shared_append_lands h a s n v : s + n < r_rows a -> r_cols a = 1 ->
  r_buf a < length h -> addr a (s + n) 0 < length (bufof h (r_buf a)) ->
  let st := astep a (h, {| ao_ref := a; ao_start := s; ao_count := n; ao_owns := false |}) (AppendIn [v]) in
  hread (fst st) a (s + n) 0 = v /\ ao_count (snd st) = S n.
Proof.
  intros Hc Hcols L1 L2. cbn [astep ao_start ao_count ao_ref]. destruct (Nat.ltb_spec (s + n) (r_rows a)); [|lia].
  cbn [fst snd ao_count write_rows length seq combine fold_left]. split; [|reflexivity].
  apply write_read; try reflexivity; assumption.
Qed.
