(* Proofs/CalendarProofs.v — the calendar functions are mutually inverse on EVERY day:
   a complete sweep of one 400-year era (146097 days, vm_compute) lifted by periodicity. *)
From Coq Require Import ZArith List Lia Bool.
From NV Require Import Model.Calendar Proofs.CalendarSweep.
Open Scope Z_scope.

Lemma era_ok_all doe : 0 <= doe < ERA -> era_ok doe = true.
Proof.
  intro H. apply (all_below_spec (Z.to_nat ERA) era_ok era_sweep).
  rewrite Z2Nat.id by (unfold ERA; lia). exact H.
Qed.

Lemma days_in_month_le y m : days_in_month y m <= 31.
Proof.
  unfold days_in_month. destruct (is_leap y);
    repeat (match goal with |- context [match ?x with _ => _ end] => destruct x end); lia.
Qed.

Lemma is_leap_shift y k : is_leap (y + k * 400) = is_leap y.
Proof.
  unfold is_leap.
  replace ((y + k * 400) mod 4) with (y mod 4) by (rewrite <- (Z.mod_add y (k * 100) 4) by lia; f_equal; lia).
  replace ((y + k * 400) mod 100) with (y mod 100) by (rewrite <- (Z.mod_add y (k * 4) 100) by lia; f_equal; lia).
  replace ((y + k * 400) mod 400) with (y mod 400) by (rewrite <- (Z.mod_add y k 400) by lia; f_equal).
  reflexivity.
Qed.

Lemma days_in_month_shift y m k : days_in_month (y + k * 400) m = days_in_month y m.
Proof. unfold days_in_month. rewrite is_leap_shift. reflexivity. Qed.

Theorem days_of_civil_of_days z :
  let '(y, m, d) := civil_of_days z in days_of_civil y m d = z /\ valid_date y m d = true.
Proof.
  unfold civil_of_days.
  set (era := z / ERA). set (doe := z - era * ERA).
  assert (Hdoe : 0 <= doe < ERA).
  { unfold doe, era, ERA. pose proof (Z.div_mod z 146097). pose proof (Z.mod_pos_bound z 146097). lia. }
  pose proof (era_ok_all doe Hdoe) as Hok. unfold era_ok in Hok.
  destruct (civil_of_doe doe) as [[yoe mp] d].
  apply andb_true_iff in Hok; destruct Hok as [Hok Hdim].
  apply andb_true_iff in Hok; destruct Hok as [Hok Hdoe_eq].
  apply andb_true_iff in Hok; destruct Hok as [Hok Hd31].
  apply andb_true_iff in Hok; destruct Hok as [Hok Hd1].
  apply andb_true_iff in Hok; destruct Hok as [Hok Hmp11].
  apply andb_true_iff in Hok; destruct Hok as [Hok Hmp0].
  apply andb_true_iff in Hok; destruct Hok as [Hyoe0 Hyoe399].
  apply Z.leb_le in Hdim, Hd31, Hd1, Hmp11, Hmp0, Hyoe0, Hyoe399. apply Z.eqb_eq in Hdoe_eq.
  rename Hdim into Hok.
  set (m := if mp <? 10 then mp + 3 else mp - 9) in *.
  assert (Hm : 1 <= m <= 12) by (unfold m; destruct (Z.ltb_spec mp 10); lia).
  assert (Hmp : (if 2 <? m then m - 3 else m + 9) = mp).
  { unfold m. destruct (Z.ltb_spec mp 10); [destruct (Z.ltb_spec 2 (mp + 3)); lia | destruct (Z.ltb_spec 2 (mp - 9)); lia]. }
  split.
  - unfold days_of_civil. fold m.
    assert (Hy : (if m <=? 2 then (if m <=? 2 then yoe + era * 400 + 1 else yoe + era * 400) - 1
                  else (if m <=? 2 then yoe + era * 400 + 1 else yoe + era * 400)) = yoe + era * 400)
      by (destruct (m <=? 2); lia).
    rewrite Hy, Hmp.
    assert (Hera : (yoe + era * 400) / 400 = era) by (rewrite Z.div_add by lia; rewrite Z.div_small by lia; lia).
    rewrite Hera. replace (yoe + era * 400 - era * 400) with yoe by lia.
    rewrite Hdoe_eq. unfold doe. lia.
  - unfold valid_date.
    assert (Hdm : d <= days_in_month (if m <=? 2 then yoe + era * 400 + 1 else yoe + era * 400) m).
    { destruct (m <=? 2).
      - replace (yoe + era * 400 + 1) with (yoe + 1 + era * 400) by lia. rewrite days_in_month_shift. exact Hok.
      - rewrite days_in_month_shift. exact Hok. }
    repeat (apply andb_true_iff; split); apply Z.leb_le; lia.
Qed.

(* the other direction, for every valid date: sweep over the 400 x 12 x 31 candidate dates of one cycle *)
Lemma days_of_civil_shift y m d k : days_of_civil (y + k * 400) m d = days_of_civil y m d + k * ERA.
Proof.
  unfold days_of_civil.
  set (y1 := if m <=? 2 then y - 1 else y).
  assert (Hy : (if m <=? 2 then y + k * 400 - 1 else y + k * 400) = y1 + k * 400) by (unfold y1; destruct (m <=? 2); lia).
  rewrite Hy. rewrite Z.div_add by lia.
  replace (y1 + k * 400 - (y1 / 400 + k) * 400) with (y1 - y1 / 400 * 400) by lia. lia.
Qed.

Lemma civil_of_days_shift z k :
  civil_of_days (z + k * ERA) = let '(y, m, d) := civil_of_days z in (y + k * 400, m, d).
Proof.
  unfold civil_of_days, ERA. rewrite Z.div_add by lia.
  replace (z + k * 146097 - (z / 146097 + k) * 146097) with (z - z / 146097 * 146097) by lia.
  destruct (civil_of_doe _) as [[yoe mp] d].
  destruct ((if mp <? 10 then mp + 3 else mp - 9) <=? 2); f_equal; f_equal; lia.
Qed.

Theorem civil_of_days_of_civil y m d :
  valid_date y m d = true -> civil_of_days (days_of_civil y m d) = (y, m, d).
Proof.
  intro Hv.
  set (k := y / 400). set (y0 := y mod 400).
  assert (Hy : y = y0 + k * 400) by (unfold y0, k; pose proof (Z.div_mod y 400); lia).
  assert (Hy0 : 0 <= y0 < 400) by (unfold y0; apply Z.mod_pos_bound; lia).
  assert (Hv0 : valid_date y0 m d = true).
  { unfold valid_date in *. rewrite Hy in Hv. rewrite days_in_month_shift in Hv. exact Hv. }
  rewrite Hy, days_of_civil_shift, civil_of_days_shift.
  unfold valid_date in Hv0.
  apply andb_true_iff in Hv0; destruct Hv0 as [Hv0 Hdm].
  apply andb_true_iff in Hv0; destruct Hv0 as [Hv0 Hd1].
  apply andb_true_iff in Hv0; destruct Hv0 as [Hm1 Hm12].
  apply Z.leb_le in Hdm, Hd1, Hm1, Hm12.
  assert (Hd31 : d <= 31).
  { pose proof (days_in_month_le y0 m). lia. }
  set (idx := y0 * 372 + (m - 1) * 31 + (d - 1)).
  assert (Hidx : 0 <= idx < Z.of_nat (Z.to_nat (400 * 372))) by (rewrite Z2Nat.id by lia; unfold idx; lia).
  pose proof (all_below_spec _ _ dates_sweep idx Hidx) as Hs. unfold date_ok in Hs.
  assert (E1 : idx / 372 = y0) by (unfold idx; symmetry; apply (Z.div_unique _ _ _ ((m - 1) * 31 + (d - 1))); lia).
  assert (E2 : idx mod 372 = (m - 1) * 31 + (d - 1)) by (unfold idx; symmetry; apply (Z.mod_unique _ _ y0); lia).
  assert (E3 : idx mod 31 = d - 1) by (unfold idx; symmetry; apply (Z.mod_unique _ _ (y0 * 12 + (m - 1))); lia).
  rewrite E1, E2, E3 in Hs.
  assert (E4 : ((m - 1) * 31 + (d - 1)) / 31 + 1 = m) by (rewrite Z.div_add_l by lia; rewrite Z.div_small by lia; lia).
  rewrite E4 in Hs. replace (d - 1 + 1) with d in Hs by lia.
  assert (Hv1 : valid_date y0 m d = true)
    by (unfold valid_date; repeat (apply andb_true_iff; split); apply Z.leb_le; lia).
  rewrite Hv1 in Hs.
  destruct (civil_of_days (days_of_civil y0 m d)) as [[y' m'] d'].
  apply andb_true_iff in Hs; destruct Hs as [Hs Ed].
  apply andb_true_iff in Hs; destruct Hs as [Ey Em].
  apply Z.eqb_eq in Ey, Em, Ed. subst y' m' d'. reflexivity.
Qed.
