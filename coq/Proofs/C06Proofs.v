(* Proofs/C06Proofs.v — the regenerated mask loop yields exactly the set bits of the mask, and the
   unpacked row holds, in data column order, the bits the property names. *)
From Coq Require Import ZArith List Lia Bool String.
From NV Require Import Common.Py Common.Trans Spec.PortSpec Gen.PortGen Model.Port.
Open Scope Z_scope.

(* ---- bits_asc: characterisation ---- *)
Lemma bits_asc_zero n b : bits_asc n 0 b = [].
Proof.
  revert b. induction n as [|n IH]; intro b; [reflexivity|].
  cbn [bits_asc]. rewrite Z.bits_0, Z.shiftr_0_l. apply IH.
Qed.

Lemma bits_asc_range n : forall m b p, In p (bits_asc n m b) -> b <= p < b + Z.of_nat n.
Proof.
  induction n as [|n IH]; intros m b p H; [destruct H|].
  cbn [bits_asc] in H. apply in_app_or in H. destruct H as [H|H].
  - destruct (Z.testbit m 0); [destruct H as [<-|[]]; lia | destruct H].
  - apply IH in H. lia.
Qed.

(* p is listed iff it is a set bit of m in the window: the list is THE list of set bits *)
Lemma bits_asc_in n : forall m b p, 0 <= m ->
  In p (bits_asc n m b) <-> (b <= p < b + Z.of_nat n /\ Z.testbit m (p - b) = true).
Proof.
  induction n as [|n IH]; intros m b p Hm.
  - cbn. split; [tauto| intros [H _]; lia].
  - cbn [bits_asc]. rewrite in_app_iff.
    assert (Hs : 0 <= Z.shiftr m 1) by (apply Z.shiftr_nonneg; exact Hm).
    rewrite (IH (Z.shiftr m 1) (b + 1) p Hs). split.
    + intros [H|[H1 H2]].
      * destruct (Z.testbit m 0) eqn:E; [|destruct H]. destruct H as [<-|[]].
        split; [lia|]. rewrite Z.sub_diag. exact E.
      * split; [lia|]. rewrite Z.shiftr_spec in H2 by lia. replace (p - (b + 1) + 1) with (p - b) in H2 by lia. exact H2.
    + intros [H1 H2]. destruct (Z.eq_dec p b) as [->|Hne].
      * left. rewrite Z.sub_diag in H2. rewrite H2. left. reflexivity.
      * right. split; [lia|]. rewrite Z.shiftr_spec by lia. replace (p - (b + 1) + 1) with (p - b) by lia. exact H2.
Qed.

(* strictly ascending *)
Fixpoint ascending_from (lo : Z) (l : list Z) : Prop :=
  match l with [] => True | x :: l' => lo <= x /\ ascending_from (x + 1) l' end.
Lemma ascending_weaken l : forall lo lo', lo' <= lo -> ascending_from lo l -> ascending_from lo' l.
Proof. destruct l as [|x l]; intros lo lo' H A; [exact I|]. cbn in *. destruct A. split; [lia|assumption]. Qed.
Lemma bits_asc_ascending n : forall m b, ascending_from b (bits_asc n m b).
Proof.
  induction n as [|n IH]; intros m b; [exact I|].
  cbn [bits_asc]. destruct (Z.testbit m 0); cbn [app].
  - split; [lia| apply IH].
  - apply (ascending_weaken _ (b + 1)); [lia| apply IH].
Qed.

Lemma bits_asc_extend n k : forall m b, 0 <= m < 2 ^ Z.of_nat n -> bits_asc (n + k) m b = bits_asc n m b.
Proof.
  induction n as [|n IH]; intros m b H.
  - cbn in H. assert (m = 0) by lia. subst. cbn [Nat.add]. rewrite bits_asc_zero. reflexivity.
  - cbn [Nat.add bits_asc]. f_equal. apply IH.
    rewrite Z.shiftr_div_pow2 by lia. rewrite Nat2Z.inj_succ, Z.pow_succ_r in H by lia.
    change (2 ^ 1) with 2. split; [apply Z.div_pos; lia| apply Z.div_lt_upper_bound; lia].
Qed.

Lemma bits_asc_ones n : forall b, bits_asc n (Z.ones (Z.of_nat n)) b = map (fun k => b + Z.of_nat k) (seq 0 n).
Proof.
  induction n as [|n IH]; intro b; [reflexivity|].
  cbn [bits_asc]. rewrite Z.ones_spec_low by lia. cbn [app seq map]. f_equal; [lia|].
  assert (E : Z.shiftr (Z.ones (Z.of_nat (S n))) 1 = Z.ones (Z.of_nat n)).
  { rewrite Z.shiftr_div_pow2 by lia. rewrite Z.ones_div_pow2 by lia. f_equal. lia. }
  rewrite E, IH. rewrite <- seq_shift, map_map. apply map_ext. intro k. lia.
Qed.

(* ---- the regenerated loop ---- *)
Definition col_of (big : bool) (w p : Z) : Z := if big then w - 1 - p else p.

Lemma land1 m : Z.land m 1 = Z.b2z (Z.testbit m 0).
Proof. change 1 with (Z.ones 1). rewrite Z.land_ones by lia. rewrite Z.bit0_mod. reflexivity. Qed.

Lemma loop_spec big w : forall fuel n m b acc, (n < fuel)%nat -> 0 <= m < 2 ^ Z.of_nat n ->
  exists b', port_mask_to_columns_loop fuel w (order_str big) b m acc
             = Ok (b', 0, acc ++ map (col_of big w) (bits_asc n m b)).
Proof.
  induction fuel as [|f IH]; intros n m b acc Hn Hm; [lia|].
  cbn [port_mask_to_columns_loop].
  destruct (Z.eqb_spec m 0) as [->|Hne]; cbn [negb].
  - exists b. rewrite bits_asc_zero. cbn. rewrite app_nil_r. reflexivity.
  - destruct n as [|n]; [cbn in Hm; lia|].
    assert (Hs : 0 <= Z.shiftr m 1 < 2 ^ Z.of_nat n).
    { rewrite Z.shiftr_div_pow2 by lia. rewrite Nat2Z.inj_succ, Z.pow_succ_r in Hm by lia.
      change (2 ^ 1) with 2. split; [apply Z.div_pos; lia| apply Z.div_lt_upper_bound; lia]. }
    cbn [bits_asc]. rewrite land1.
    destruct (Z.testbit m 0); cbn [Z.b2z Z.eqb negb app].
    + destruct big; cbn [order_str String.eqb Ascii.eqb Bool.eqb andb].
      * destruct (IH n (Z.shiftr m 1) (b + 1) (acc ++ [col_of true w b]) ltac:(lia) Hs) as [b' E].
        cbn [col_of order_str] in E. rewrite E. exists b'. cbn [map col_of]. rewrite <- app_assoc. reflexivity.
      * destruct (IH n (Z.shiftr m 1) (b + 1) (acc ++ [col_of false w b]) ltac:(lia) Hs) as [b' E].
        cbn [col_of order_str] in E. rewrite E. exists b'. cbn [map col_of]. rewrite <- app_assoc. reflexivity.
    + destruct (IH n (Z.shiftr m 1) (b + 1) acc ltac:(lia) Hs) as [b' E].
      exists b'. rewrite <- E. destruct big; reflexivity.
Qed.

Lemma bitlen_bound m : 0 < m -> m < 2 ^ Z.of_nat (Z.to_nat (Z.log2 m + 1)).
Proof.
  intro H. rewrite Z2Nat.id by (pose proof (Z.log2_nonneg m); lia).
  replace (Z.log2 m + 1) with (Z.succ (Z.log2 m)) by lia. apply Z.log2_spec. exact H.
Qed.

(* the columns selected for a mask that fits the port: the set mask bits, in data-column order *)
Theorem columns_spec big (W : nat) mask : 0 <= mask < 2 ^ Z.of_nat W ->
  port_mask_to_columns mask (Z.of_nat W) (order_str big)
  = Ok (if big then rev (map (col_of true (Z.of_nat W)) (bits_asc W mask 0)) else bits_asc W mask 0).
Proof.
  intro H. unfold port_mask_to_columns.
  destruct (Z.ltb_spec mask 0); [lia|].
  unfold py_shift. destruct (Z.ltb_spec (Z.of_nat W) 0); [lia|]. cbn [bind].
  assert (E0 : Z.shiftr mask (Z.of_nat W) = 0) by (rewrite Z.shiftr_div_pow2 by lia; apply Z.div_small; lia).
  rewrite E0. cbn [Z.eqb negb].
  destruct (Z.eq_dec mask 0) as [->|Hne].
  - cbn [port_mask_to_columns_loop Z.eqb negb bind]. rewrite bits_asc_zero.
    destruct big; reflexivity.
  - set (n := Z.to_nat (Z.log2 mask + 1)).
    assert (Hn : 0 <= mask < 2 ^ Z.of_nat n) by (split; [lia| apply bitlen_bound; lia]).
    destruct (loop_spec big (Z.of_nat W) (S n) n mask 0 [] ltac:(lia) Hn) as [b' E].
    fold n. rewrite E. cbn [bind app].
    assert (Hle : (n <= W)%nat).
    { unfold n. destruct (Nat.le_gt_cases (Z.to_nat (Z.log2 mask + 1)) W) as [|Hgt]; [assumption|exfalso].
      assert (Z.of_nat W <= Z.log2 mask) by lia.
      assert (2 ^ Z.of_nat W <= 2 ^ Z.log2 mask) by (apply Z.pow_le_mono_r; lia).
      pose proof (Z.log2_spec mask ltac:(lia)). lia. }
    assert (Eb : bits_asc W mask 0 = bits_asc n mask 0).
    { replace W with (n + (W - n))%nat by lia. apply bits_asc_extend. exact Hn. }
    rewrite Eb. destruct big; cbn [order_str String.eqb Ascii.eqb Bool.eqb andb]; [reflexivity|].
    unfold col_of. rewrite map_id. reflexivity.
Qed.

(* masks with bits beyond the port width, and negative masks, are rejected *)
Theorem wide_mask_rejected big (W : nat) mask : 2 ^ Z.of_nat W <= mask ->
  port_mask_to_columns mask (Z.of_nat W) (order_str big) = Raise ValueError.
Proof.
  intro H. unfold port_mask_to_columns.
  assert (0 < 2 ^ Z.of_nat W) by (apply Z.pow_pos_nonneg; lia).
  destruct (Z.ltb_spec mask 0); [lia|].
  unfold py_shift. destruct (Z.ltb_spec (Z.of_nat W) 0); [lia|]. cbn [bind].
  assert (0 < Z.shiftr mask (Z.of_nat W)).
  { rewrite Z.shiftr_div_pow2 by lia. apply Z.div_str_pos. lia. }
  destruct (Z.eqb_spec (Z.shiftr mask (Z.of_nat W)) 0); [lia|]. reflexivity.
Qed.
Theorem negative_mask_rejected big w mask : mask < 0 -> port_mask_to_columns mask w (order_str big) = Raise ValueError.
Proof. intro H. unfold port_mask_to_columns. destruct (Z.ltb_spec mask 0); [reflexivity|lia]. Qed.

Lemma bit_mask_ones (W : nat) : port_bit_mask (Z.of_nat W) = Ok (Z.ones (Z.of_nat W)).
Proof.
  unfold port_bit_mask, py_shift. destruct (Z.ltb_spec (Z.of_nat W) 0); [lia|]. cbn [bind].
  unfold Z.ones. rewrite Z.sub_1_r. reflexivity.
Qed.

Lemma nth_full_row big W v k : (k < W)%nat ->
  nth k (full_row big W v) false = Z.testbit v (if big then Z.of_nat W - 1 - Z.of_nat k else Z.of_nat k).
Proof.
  intro H. unfold full_row.
  rewrite (nth_indep _ false (Z.testbit v (if big then Z.of_nat W - 1 - Z.of_nat 0 else Z.of_nat 0)))
    by (rewrite map_length, seq_length; exact H).
  rewrite (map_nth (fun c => Z.testbit v (if big then Z.of_nat W - 1 - Z.of_nat c else Z.of_nat c)) (seq 0 W) 0%nat k).
  rewrite seq_nth by exact H. reflexivity.
Qed.

Lemma rev_seq W : rev (seq 0 W) = map (fun c => (W - 1 - c)%nat) (seq 0 W).
Proof.
  induction W as [|W IH]; [reflexivity|].
  rewrite seq_S at 1. rewrite rev_app_distr. cbn [rev app Nat.add]. rewrite IH.
  cbn [seq map]. f_equal; [lia|]. rewrite <- seq_shift, map_map. apply map_ext. intro c. lia.
Qed.

(* the row of one sample: data column c holds the bit the property names, for every value, every
   mask that fits the port and both bit orders *)
Theorem row_spec big (W : nat) mask v : 0 <= mask < 2 ^ Z.of_nat W ->
  line_row big W mask v = Ok (spec_row big W mask v).
Proof.
  intro H. unfold line_row, spec_row. rewrite bit_mask_ones. cbn [bind].
  destruct (Z.eqb_spec mask (Z.ones (Z.of_nat W))) as [->|Hne].
  - (* shortcut for the full mask *)
    f_equal. rewrite bits_asc_ones. unfold full_row. destruct big.
    + replace (rev (map (fun k : nat => 0 + Z.of_nat k) (seq 0 W))) with (map (fun k : nat => 0 + Z.of_nat k) (rev (seq 0 W)))
        by apply map_rev.
      rewrite rev_seq, !map_map. apply map_ext_in. intros c Hc. apply in_seq in Hc. f_equal. lia.
    + rewrite map_map. apply map_ext. intro k. f_equal.
  - rewrite (columns_spec big W mask H). cbn [bind]. f_equal.
    destruct big; cbv iota.
    + rewrite <- map_rev, !map_map.
      apply map_ext_in. intros p Hp. apply in_rev in Hp. apply bits_asc_range in Hp.
      cbn [col_of]. rewrite nth_full_row by lia. f_equal. lia.
    + apply map_ext_in. intros p Hp. apply bits_asc_range in Hp.
      rewrite nth_full_row by lia. f_equal. lia.
Qed.

(* signal i (= data column signal_count-1-i) holds the i-th LOWEST set mask bit for 'big' and the
   i-th HIGHEST for 'little' *)
Theorem signal_spec (W : nat) mask v i :
  let bits := bits_asc W mask 0 in
  (i < length bits)%nat ->
  signal_of_row false (spec_row true W mask v) i = Z.testbit v (nth i bits 0) /\
  signal_of_row false (spec_row false W mask v) i = Z.testbit v (nth (length bits - 1 - i) bits 0).
Proof.
  intros bits Hi. unfold signal_of_row, spec_row. fold bits. rewrite !map_length, rev_length. split.
  - rewrite (nth_indep _ false (Z.testbit v 0)) by (rewrite map_length, rev_length; lia).
    rewrite map_nth. f_equal. rewrite rev_nth by lia. f_equal. lia.
  - rewrite (nth_indep _ false (Z.testbit v 0)) by (rewrite map_length; lia).
    rewrite map_nth. reflexivity.
Qed.

Theorem signal_count_spec big (W : nat) mask v : length (spec_row big W mask v) = length (bits_asc W mask 0).
Proof. unfold spec_row. rewrite map_length. destruct big; [apply rev_length|reflexivity]. Qed.

(* from_port on an array of width W: one row per sample, each row as the property says; the result
   depends only on the integer sample values *)
Theorem from_port_array big (W : nat) mask values :
  0 <= mask < 2 ^ Z.of_nat W -> forallb (in_width W) values = true ->
  from_port true W (Some mask) big values = Ok (map (spec_row big W mask) values).
Proof.
  intros Hm Hv. unfold from_port. cbn [negb andb]. rewrite bit_mask_ones. cbn [bind].
  destruct (Z.ltb_spec mask 0); [lia|]. rewrite Nat2Z.id, Hv. cbn [negb].
  rewrite row_spec by exact Hm. cbn [bind].
  clear Hv. induction values as [|v vs IH]; [reflexivity|].
  rewrite row_spec by exact Hm. cbn [bind]. rewrite IH. reflexivity.
Qed.

Theorem from_port_bad_mask big (W : nat) mask values :
  mask < 0 \/ 2 ^ Z.of_nat W <= mask -> exists e, from_port true W (Some mask) big values = Raise e /\ (e = ValueError \/ e = OverflowError).
Proof.
  intros H. unfold from_port. cbn [negb andb]. rewrite bit_mask_ones. cbn [bind].
  destruct (Z.ltb_spec mask 0); [exists ValueError; auto|].
  destruct H as [H|H]; [lia|]. rewrite Nat2Z.id.
  destruct (forallb (in_width W) values); cbn [negb]; [|exists OverflowError; auto].
  unfold line_row at 1. rewrite bit_mask_ones. cbn [bind].
  assert (Hne : mask <> Z.ones (Z.of_nat W)) by (rewrite Z.ones_equiv; lia).
  destruct (Z.eqb_spec mask (Z.ones (Z.of_nat W))); [contradiction|].
  rewrite wide_mask_rejected by exact H. cbn [bind]. exists ValueError; auto.
Qed.
