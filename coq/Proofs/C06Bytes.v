(* Proofs/C06Bytes.v — the byte-level pipeline (native bytes, byteswap, view(uint8), unpackbits) computes exactly the
   value-level row of Model/Port.v, for every width and value; a non-native array normalises to the same bytes. *)
From Coq Require Import ZArith List Bool Lia.
From NV Require Import Common.Py Model.PortBytes Model.Port.
Import ListNotations.
Open Scope Z_scope.

Local Notation row_spec := full_row.

Lemma le_bytes_length k : forall v, length (le_bytes k v) = k.
Proof. induction k; intros; simpl; auto. Qed.

Lemma le_value_bytes k : forall v, 0 <= v < 256 ^ Z.of_nat k -> le_value (le_bytes k v) = v.
Proof.
  induction k as [|k IH]; intros v H.
  - change (256 ^ Z.of_nat 0) with 1 in H. simpl. lia.
  - rewrite Nat2Z.inj_succ, Z.pow_succ_r in H by lia. cbn [le_bytes le_value].
    rewrite IH by (split; [apply Z.div_pos; lia | apply Z.div_lt_upper_bound; lia]).
    pose proof (Z.div_mod v 256 ltac:(lia)). lia.
Qed.

Lemma normalise_be_ok k v : 0 <= v < 256 ^ Z.of_nat k -> normalise_be k (be_bytes k v) = le_bytes k v.
Proof. intros H. unfold normalise_be, be_value, be_bytes. rewrite rev_involutive, le_value_bytes by exact H. reflexivity. Qed.

Lemma testbit_low v c : 0 <= c < 8 -> Z.testbit (v mod 256) c = Z.testbit v c.
Proof. intros H. change 256 with (2 ^ 8). apply Z.mod_pow2_bits_low. lia. Qed.
Lemma testbit_high v c : 0 <= c -> Z.testbit (v / 256) c = Z.testbit v (c + 8).
Proof. intros H. change 256 with (2 ^ 8). rewrite Z.div_pow2_bits by lia. reflexivity. Qed.

Lemma little_row k : forall v, flat_map unpack_little (le_bytes k v) = row_spec false (8 * k) v.
Proof.
  induction k as [|k IH]; intros v; [reflexivity|].
  cbn [le_bytes flat_map]. rewrite IH. unfold row_spec, unpack_little.
  replace (8 * S k)%nat with (8 + 8 * k)%nat by lia. rewrite seq_app, map_app. f_equal.
  - apply map_ext_in. intros j Hj. apply in_seq in Hj. apply testbit_low. lia.
  - cbn [Nat.add]. rewrite <- seq_shift. rewrite <- seq_shift, <- seq_shift, <- seq_shift, <- seq_shift, <- seq_shift, <- seq_shift, <- seq_shift.
    rewrite !map_map. apply map_ext. intros c. rewrite testbit_high by lia. f_equal. lia.
Qed.

Lemma seq_add_map a n : seq a n = map (fun j => (a + j)%nat) (seq 0 n).
Proof.
  revert a; induction n as [|n IH]; intros a; [reflexivity|].
  cbn [seq map]. f_equal; [lia|]. rewrite (IH (S a)), <- seq_shift, map_map. apply map_ext. intros; lia.
Qed.

Lemma big_row k : forall v, flat_map unpack_big (rev (le_bytes k v)) = row_spec true (8 * k) v.
Proof.
  induction k as [|k IH]; intros v; [reflexivity|].
  cbn [le_bytes rev]. rewrite flat_map_app, IH. cbn [flat_map]. rewrite app_nil_r.
  unfold row_spec, unpack_big.
  replace (8 * S k)%nat with (8 * k + 8)%nat by lia. rewrite seq_app, map_app. f_equal.
  - apply map_ext_in. intros c Hc. apply in_seq in Hc. rewrite testbit_high by lia. f_equal. lia.
  - cbn [Nat.add]. rewrite (seq_add_map (8 * k) 8), map_map. apply map_ext_in. intros j Hj. apply in_seq in Hj.
    rewrite testbit_low by lia. f_equal. lia.
Qed.

Theorem pipeline_row_spec big k v : pipeline_row big k v = row_spec big (8 * k) v.
Proof. unfold pipeline_row. destruct big; [apply big_row | apply little_row]. Qed.
