(* Proofs/C03Proofs.v — the generated operators are the integer operations on ticks. *)
From Coq Require Import ZArith List Lia Bool.
From NV Require Import Common.Py Common.Trans Spec.TimeSpec Gen.BintimeGen Proofs.Bits Proofs.C02Proofs.
Open Scope Z_scope.

Lemma td_add_spec a b : td_add a b = spec_from_ticks (a + b).
Proof. unfold td_add. apply td_from_ticks_spec. Qed.
Lemma td_sub_spec a b : td_sub a b = spec_from_ticks (a - b).
Proof. unfold td_sub. apply td_from_ticks_spec. Qed.
Lemma td_rsub_spec a b : td_rsub a b = spec_from_ticks (b - a).
Proof. unfold td_rsub. apply td_from_ticks_spec. Qed.
Lemma td_neg_spec a : td_neg a = spec_from_ticks (- a).
Proof. unfold td_neg. apply td_from_ticks_spec. Qed.
Lemma td_pos_spec a : td_pos a = a.
Proof. reflexivity. Qed.
Lemma td_mul_int_spec a n : td_mul_int a n = spec_from_ticks (a * n).
Proof. unfold td_mul_int. apply td_from_ticks_spec. Qed.

Lemma bind_ok {A} (r : res A) : (do x <- r; Ok x) = r.
Proof. destruct r; reflexivity. Qed.

Lemma td_abs_spec a : in128 a = true -> td_abs a = spec_from_ticks (Z.abs a).
Proof.
  intro H. unfold td_abs. destruct (Z.ltb_spec a 0).
  - rewrite ?bind_ok, td_neg_spec. f_equal. lia.
  - unfold spec_from_ticks. rewrite Z.abs_eq by lia. rewrite H. reflexivity.
Qed.

Lemma td_floordiv_td_spec a b : td_floordiv_td a b = spec_floordiv a b.
Proof. reflexivity. Qed.

Lemma td_mod_spec a b : td_mod a b = spec_mod a b.
Proof.
  unfold td_mod, spec_mod, py_mod. destruct (b =? 0); [reflexivity|].
  cbn [bind]. apply td_from_ticks_spec.
Qed.

Lemma td_floordiv_int_spec a n :
  td_floordiv_int a n = if n =? 0 then Raise ZeroDivisionError else spec_from_ticks (a / n).
Proof.
  unfold td_floordiv_int, py_floordiv. destruct (n =? 0); [reflexivity|].
  cbn [bind]. apply td_from_ticks_spec.
Qed.

Lemma td_divmod_spec a b :
  td_divmod a b = (do q <- spec_floordiv a b; do r <- spec_mod a b; Ok (q, r)).
Proof. unfold td_divmod. rewrite td_floordiv_td_spec, td_mod_spec. reflexivity. Qed.

(* floor semantics: a == (a//b)*b + a%b, remainder has the sign of the divisor *)
Lemma divmod_identity a b : b <> 0 ->
  a = (a / b) * b + a mod b /\ (0 <= a mod b < b \/ b < a mod b <= 0).
Proof.
  intro Hb. split.
  - pose proof (Z.div_mod a b Hb). lia.
  - destruct (Z_lt_le_dec 0 b).
    + left. apply Z.mod_pos_bound. lia.
    + right. apply Z.mod_neg_bound. lia.
Qed.

Lemma mod_in_range a b : in128 b = true -> b <> 0 -> in128 (a mod b) = true.
Proof.
  rewrite !in128_iff. unfold MIN128, MAX128. intros Hb Hn.
  destruct (divmod_identity a b Hn) as [_ [H|H]]; lia.
Qed.

Lemma td_divmod_ok a b : in128 b = true -> b <> 0 ->
  td_divmod a b = Ok (a / b, a mod b).
Proof.
  intros Hb Hn. rewrite td_divmod_spec. unfold spec_floordiv, spec_mod.
  destruct (Z.eqb_spec b 0); [contradiction|]. cbn [bind].
  unfold spec_from_ticks. rewrite (mod_in_range a b Hb Hn). reflexivity.
Qed.

Lemma zero_division a :
  td_floordiv_td a 0 = Raise ZeroDivisionError /\ td_mod a 0 = Raise ZeroDivisionError /\
  td_divmod a 0 = Raise ZeroDivisionError /\ td_floordiv_int a 0 = Raise ZeroDivisionError.
Proof. repeat split; reflexivity. Qed.

Lemma add_sub_cancel t d s : td_add t d = Ok s -> in128 d = true -> td_sub s t = Ok d.
Proof.
  rewrite td_add_spec, td_sub_spec. unfold spec_from_ticks.
  destruct (in128 (t + d)); [|discriminate]. intro H. injection H as <-.
  intro Hd. replace (t + d - t) with d by lia. rewrite Hd. reflexivity.
Qed.

Lemma overflow_iff (f : Z -> Z -> Z) a b :
  spec_binop f a b = Raise OverflowError <-> ~ (MIN128 <= f a b <= MAX128).
Proof.
  unfold spec_binop, spec_from_ticks. rewrite <- in128_iff.
  destruct (in128 (f a b)); split; intro H.
  - discriminate.
  - exfalso; apply H; reflexivity.
  - discriminate.
  - reflexivity.
Qed.

Lemma compare_spec a b :
  td_lt a b = (a <? b) /\ td_le a b = (a <=? b) /\ td_eq a b = (a =? b) /\
  td_gt a b = (b <? a) /\ td_ge a b = (b <=? a).
Proof.
  unfold td_lt, td_le, td_eq, td_gt, td_ge. repeat split.
  - apply Z.gtb_ltb.
  - apply Z.geb_leb.
Qed.

Lemma trichotomy a b :
  (td_lt a b = true /\ td_eq a b = false /\ td_gt a b = false) \/
  (td_lt a b = false /\ td_eq a b = true /\ td_gt a b = false) \/
  (td_lt a b = false /\ td_eq a b = false /\ td_gt a b = true).
Proof.
  destruct (compare_spec a b) as (-> & _ & -> & -> & _).
  destruct (Z.ltb_spec a b); destruct (Z.eqb_spec a b); destruct (Z.ltb_spec b a); try lia; auto.
Qed.

Lemma hash_bool a b :
  td_hash a = py_hash a /\ (a = b -> td_hash a = td_hash b) /\ td_bool a = negb (a =? 0).
Proof. repeat split. intros ->. reflexivity. Qed.

(* DateTime arithmetic delegates to the offsets *)
Lemma dt_ops_spec t d :
  dt_add_td t d = spec_from_ticks (t + d) /\ dt_sub_td t d = spec_from_ticks (t - d) /\
  dt_sub_dt t d = spec_from_ticks (t - d) /\ dt_rsub_dt t d = spec_from_ticks (d - t).
Proof.
  unfold dt_add_td, dt_sub_td, dt_sub_dt, dt_rsub_dt, dt_from_offset.
  rewrite !td_add_spec, !td_sub_spec.
  repeat split; destruct (spec_from_ticks _); reflexivity.
Qed.

Lemma dt_compare_spec a b :
  dt_lt a b = (a <? b) /\ dt_le a b = (a <=? b) /\ dt_eq a b = (a =? b) /\
  dt_gt a b = (b <? a) /\ dt_ge a b = (b <=? a) /\ dt_hash a = py_hash a.
Proof.
  unfold dt_lt, dt_le, dt_eq, dt_gt, dt_ge, dt_hash.
  destruct (compare_spec a b) as (-> & -> & -> & -> & ->). repeat split.
Qed.

Lemma dt_add_sub_cancel t d s : dt_add_td t d = Ok s -> in128 d = true -> dt_sub_dt s t = Ok d.
Proof.
  destruct (dt_ops_spec t d) as (-> & _). destruct (dt_ops_spec s t) as (_ & _ & -> & _).
  unfold spec_from_ticks. destruct (in128 (t + d)); [|discriminate]. intro H. injection H as <-.
  intro Hd. replace (t + d - t) with d by lia. rewrite Hd. reflexivity.
Qed.
