(* Spec/TimeSpec.v — what properties C02/C03/C14 say about NI-BTF values, stated on plain
   integers.  Short on purpose; depends on nothing generated. *)
From NV Require Import Common.Py.
Open Scope Z_scope.

Definition T64 : Z := 18446744073709551616.            (* 2^64 ticks per second *)
Definition MAX128 : Z := 170141183460469231731687303715884105727.   (* 2^127-1 *)
Definition MIN128 : Z := -170141183460469231731687303715884105728.  (* -2^127 *)
Definition MAX64 : Z := 9223372036854775807.
Definition MIN64 : Z := -9223372036854775808.
Definition UMAX64 : Z := 18446744073709551615.

Definition in128 (t : Z) : bool := (MIN128 <=? t) && (t <=? MAX128).
Definition in64s (w : Z) : bool := (MIN64 <=? w) && (w <=? MAX64).
Definition in64u (f : Z) : bool := (0 <=? f) && (f <=? UMAX64).

(* ticks <-> (whole_seconds, fractional_seconds): floor and mod, exactly as the statement *)
Definition spec_to_tuple (t : Z) : Z * Z := (t / T64, t mod T64).
Definition spec_of_tuple (w f : Z) : Z := w * T64 + f.

(* every entry path: the value or OverflowError, never wrapped / clamped / truncated *)
Definition spec_from_ticks (t : Z) : res Z := if in128 t then Ok t else Raise OverflowError.
Definition spec_from_tuple (w f : Z) : res Z :=
  if in64s w && in64u f then Ok (spec_of_tuple w f) else Raise OverflowError.

(* little-endian bytes of the low n bytes of v (two's complement for negative v) *)
Fixpoint le_bytes (n : nat) (v : Z) : list Z :=
  match n with O => [] | S n => (v mod 256) :: le_bytes n (v / 256) end.
Fixpoint le_val (bs : list Z) : Z :=
  match bs with [] => 0 | b :: bs => b + 256 * le_val bs end.
Definition signed64 (u : Z) : Z := if u <? 9223372036854775808 then u else u - T64.

(* the 16-byte CVIAbsoluteTime / CVITimeInterval record: uint64 lsb = fraction at offset 0,
   int64 msb = whole seconds at offset 8 *)
Definition spec_record (t : Z) : list Z := le_bytes 8 (t mod T64) ++ le_bytes 8 ((t / T64) mod T64).
Definition spec_of_record (bs : list Z) : Z :=
  spec_of_tuple (signed64 (le_val (skipn 8 bs))) (le_val (firstn 8 bs)).

(* integer arithmetic of C03 *)
Definition spec_binop (f : Z -> Z -> Z) (a b : Z) : res Z := spec_from_ticks (f a b).
Definition spec_floordiv (a b : Z) : res Z := if b =? 0 then Raise ZeroDivisionError else Ok (a / b).
Definition spec_mod (a b : Z) : res Z :=
  if b =? 0 then Raise ZeroDivisionError else spec_from_ticks (a mod b).
