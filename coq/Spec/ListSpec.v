(* Spec/ListSpec.v — Python list semantics (the spec of C17/C18), on Coq lists of integers
   (an element is identified by its tick count / value id).  Every function is run against real
   CPython lists by the three-way correspondence. *)
From NV Require Import Common.Py.
From Coq Require Import Lia.
Open Scope Z_scope.

Definition len {A} (l : list A) : Z := Z.of_nat (length l).

(* slice.indices(len): (start, stop, step) normalised; ValueError for step 0 *)
Definition slice_indices (start stop step : option Z) (n : Z) : res (Z * Z * Z) :=
  let k := match step with Some k => k | None => 1 end in
  if k =? 0 then Raise ValueError else
  let lower := if k <? 0 then -1 else 0 in
  let upper := if k <? 0 then n - 1 else n in
  let norm v := if v <? 0 then Z.max (v + n) lower else Z.min v upper in
  let s := match start with Some v => norm v | None => if k <? 0 then upper else lower end in
  let e := match stop with Some v => norm v | None => if k <? 0 then lower else upper end in
  Ok (s, e, k).

(* len(range(s, e, k)) *)
Definition range_len (s e k : Z) : Z :=
  if 0 <? k then (if s <? e then (e - s - 1) / k + 1 else 0)
  else (if e <? s then (s - e - 1) / (- k) + 1 else 0).

(* the positions range(s, e, k) as naturals (they are within [0, len) for normalised slices) *)
Fixpoint range_from (s k : Z) (n : nat) : list nat :=
  match n with O => [] | S n' => Z.to_nat s :: range_from (s + k) k n' end.
Definition positions (s e k : Z) : list nat := range_from s k (Z.to_nat (range_len s e k)).

Fixpoint set_nth {A} (l : list A) (i : nat) (v : A) : list A :=
  match l, i with
  | [], _ => []
  | _ :: l', O => v :: l'
  | x :: l', S i' => x :: set_nth l' i' v
  end.
Fixpoint del_nth {A} (l : list A) (i : nat) : list A :=
  match l, i with
  | [], _ => []
  | _ :: l', O => l'
  | x :: l', S i' => x :: del_nth l' i'
  end.

(* integer index: negative counts from the end; IndexError outside *)
Definition norm_index (i n : Z) : res nat :=
  let j := if i <? 0 then i + n else i in
  if (j <? 0) || (n <=? j) then Raise IndexError else Ok (Z.to_nat j).

Section Ops.
Context {A : Type} (d : A).

Definition l_getitem (l : list A) (i : Z) : res A := do j <- norm_index i (len l); Ok (nth j l d).
Definition l_getslice (l : list A) (start stop step : option Z) : res (list A) :=
  do (s, e, k) <- slice_indices start stop step (len l);
  Ok (map (fun p => nth p l d) (positions s e k)).
Definition l_setitem (l : list A) (i : Z) (v : A) : res (list A) :=
  do j <- norm_index i (len l); Ok (set_nth l j v).

Fixpoint set_positions (l : list A) (ps : list nat) (vs : list A) : list A :=
  match ps, vs with
  | p :: ps', v :: vs' => set_positions (set_nth l p v) ps' vs'
  | _, _ => l
  end.

(* l[start:stop:step] = vs *)
Definition l_setslice (l : list A) (start stop step : option Z) (vs : list A) : res (list A) :=
  do (s, e, k) <- slice_indices start stop step (len l);
  if k =? 1 then
    Ok (firstn (Z.to_nat s) l ++ vs ++ skipn (Z.to_nat (Z.max s e)) l)
  else if len vs =? range_len s e k then Ok (set_positions l (positions s e k) vs)
  else Raise ValueError.

Definition l_delitem (l : list A) (i : Z) : res (list A) := do j <- norm_index i (len l); Ok (del_nth l j).

(* delete a set of positions: keep the elements whose index is not selected *)
Fixpoint keep_unselected (l : list A) (i : nat) (ps : list nat) : list A :=
  match l with
  | [] => []
  | x :: l' => if existsb (Nat.eqb i) ps then keep_unselected l' (S i) ps else x :: keep_unselected l' (S i) ps
  end.
Definition l_delslice (l : list A) (start stop step : option Z) : res (list A) :=
  do (s, e, k) <- slice_indices start stop step (len l);
  Ok (keep_unselected l 0 (positions s e k)).

(* list.insert clamps the index *)
Definition l_insert (l : list A) (i : Z) (v : A) : list A :=
  let n := len l in
  let j := if i <? 0 then Z.max (i + n) 0 else Z.min i n in
  firstn (Z.to_nat j) l ++ v :: skipn (Z.to_nat j) l.

Definition l_pop (l : list A) (i : Z) : res (A * list A) :=
  do j <- norm_index i (len l); Ok (nth j l d, del_nth l j).
End Ops.

(* operations that compare elements *)
Fixpoint find_from (eqb : Z -> Z -> bool) (l : list Z) (v : Z) (i : nat) : option nat :=
  match l with [] => None | x :: l' => if eqb x v then Some i else find_from eqb l' v (S i) end.
Definition l_index (l : list Z) (v : Z) : res Z :=
  match find_from Z.eqb l v 0 with Some i => Ok (Z.of_nat i) | None => Raise ValueError end.
Definition l_remove (l : list Z) (v : Z) : res (list Z) :=
  match find_from Z.eqb l v 0 with Some i => Ok (del_nth l i) | None => Raise ValueError end.
Definition l_count (l : list Z) (v : Z) : Z := len (filter (Z.eqb v) l).
