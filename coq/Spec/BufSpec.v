(* Spec/BufSpec.v — what properties C01, C07, C09, C10 say about one observed step of a waveform pool,
   stated on the PLAIN LIST of samples each object shows (its view) — no capacity growth policy, no
   check order.  spec_step_ok pre op result warnings post decides whether an observed step is allowed. *)
From NV Require Import Common.Py Spec.TimingSpec Model.Timing Model.Waveform.
From Coq Require Import Lia.
Open Scope Z_scope.

Definition row_eqb := list_eqb Z.eqb.
Definition rows_eqb := list_eqb row_eqb.
Definition oz_eqb (a b : option Z) : bool :=
  match a, b with Some x, Some y => x =? y | None, None => true | _, _ => false end.
Definition timing_same (a b : timing) : bool :=
  (t_mode a =? t_mode b) && oz_eqb (t_ts a) (t_ts b) && oz_eqb (t_off a) (t_off b) && oz_eqb (t_si a) (t_si b)
  && match t_tss a, t_tss b with Some x, Some y => list_eqb Z.eqb x y | None, None => true | _, _ => false end.
Fixpoint props_sub (a b : wprops) : bool :=     (* every entry of a is in b with the same value *)
  match a with
  | [] => true
  | (k, v) :: a' => match wp_get b k with Some v' => list_eqb Z.eqb v v' | None => false end && props_sub a' b
  end.
Definition props_same (a b : wprops) : bool := props_sub a b && props_sub b a.

(* C01: geometry invariant of one object *)
Definition obj_inv (o : obj) : bool :=
  Nat.leb (o_start o + o_count o) (cap o)
  && Nat.eqb (length (view o)) (o_count o)
  && forallb (fun r => Nat.eqb (length r) (o_ncols o)) (o_rows o)
  (* C09: irregular timing carries one monotonic timestamp per sample *)
  && match t_tss (o_timing o) with
     | Some l => (negb (has_timing (o_kind o))) || (Nat.eqb (length l) (o_count o) && monotone l)
     | None => true
     end.

(* C07: the observable state of an object is unchanged *)
Definition obj_unchanged (a b : obj) : bool :=
  kind_eqb (o_kind a) (o_kind b) && (o_dtype a =? o_dtype b) && rows_eqb (view a) (view b)
  && Nat.eqb (o_ncols a) (o_ncols b) && Nat.eqb (o_start a) (o_start b) && Nat.eqb (o_count a) (o_count b)
  && Nat.eqb (cap a) (cap b) && timing_same (o_timing a) (o_timing b) && (o_scale a =? o_scale b)
  && props_same (o_props a) (o_props b).
Fixpoint pool_unchanged (p q : pool) : bool :=
  match p, q with
  | [], [] => true
  | a :: p', b :: q' => obj_unchanged a b && pool_unchanged p' q'
  | _, _ => false
  end.
(* every object except index i is unchanged *)
Fixpoint others_unchanged (i : nat) (p q : pool) : bool :=
  match p, q with
  | [], [] => true
  | a :: p', b :: q' => (match i with O => true | _ => obj_unchanged a b end) && others_unchanged (pred i) p' q'
                        && (match i with O => pool_unchanged p' q' | _ => true end)
  | _, _ => false
  end.

(* what stays the same across a successful mutation of the samples *)
Definition meta_same (a b : obj) : bool :=
  kind_eqb (o_kind a) (o_kind b) && (o_dtype a =? o_dtype b) && Nat.eqb (o_ncols a) (o_ncols b) && (o_scale a =? o_scale b).

Definition bad_uint (a : iarg) (allow_none : bool) : list exn :=
  match a with
  | INone => if allow_none then [] else [TypeError]
  | IBad => [TypeError]
  | IInt z => if z <? 0 then [ValueError] else []
  end.
Definition uint_or (a : iarg) (d : Z) : Z := match a with IInt z => z | _ => d end.
Definition isa_any (e : exn) (l : list exn) : bool := existsb (exn_isa e) l.

Definition nd_ok (k : wkind) (a : arr) : bool :=
  match k with KDigital => Nat.eqb (a_ndim a) 1 || Nat.eqb (a_ndim a) 2 | _ => Nat.eqb (a_ndim a) 1 end.

(* modes compatible: NONE/REGULAR receivers take NONE/REGULAR sources, IRREGULAR takes IRREGULAR *)
Definition modes_compatible (t : timing) (srcs : list obj) : bool :=
  forallb (fun s => Bool.eqb (t_mode t =? 2) (t_mode (o_timing s) =? 2)) srcs.
Definition all_tss (t : timing) (srcs : list obj) : list Z :=
  (match t_tss t with Some l => l | None => [] end)
  ++ flat_map (fun s => match t_tss (o_timing s) with Some l => l | None => [] end) srcs.

(* the extended properties after appending sources: receiver's entries unchanged, missing keys taken
   from the earliest source that has them, nothing else *)
Fixpoint first_with (srcs : list obj) (k : Z) : option (list Z) :=
  match srcs with [] => None | s :: r => match wp_get (o_props s) k with Some v => Some v | None => first_with r k end end.
Definition merged_props_ok (pre : obj) (srcs : list obj) (post : obj) : bool :=
  props_sub (o_props pre) (o_props post)
  && forallb (fun kv => match wp_get (o_props pre) (fst kv) with
                        | Some v => list_eqb Z.eqb v (snd kv)
                        | None => match first_with srcs (fst kv) with Some v => list_eqb Z.eqb v (snd kv) | None => false end
                        end) (o_props post)
  && forallb (fun s => forallb (fun kv => match wp_get (o_props post) (fst kv) with Some _ => true | None => false end) (o_props s)) srcs.

Definition warn_has (w : warning) (l : list warning) : bool :=
  existsb (fun x => match x, w with WTiming, WTiming | WScaling, WScaling => true | _, _ => false end) l.

Definition spec_step_ok (pre : pool) (op : wop) (r : res wout) (ws : list warning) (post : pool) : bool :=
  forallb obj_inv post &&
  match op with
  | PNew _ _ _ _ _ _ _ _ _ _ _ | PFromArray _ _ _ _ _ _ _ _ _ _ _ =>
      (* construction: the model decides acceptance (checked on the model side); here: a failed construction
         adds nothing, a successful one adds exactly one object and leaves the others alone *)
      match r with
      | Raise _ => pool_unchanged pre post
      | Ok _ => Nat.eqb (length post) (S (length pre)) && pool_unchanged pre (firstn (length pre) post)
                (* the new object may grow its buffer exactly when it owns it: always for a freshly
                   allocated one, and for an adopted array iff that array owns its memory *)
                && Bool.eqb (o_resizable (pget post (length pre)))
                            (match op with PFromArray _ a _ _ _ _ _ _ _ _ _ => a_owns a | _ => true end)
      end
  | PLoad i a copy start sc =>
      let o := pget pre i in let o' := pget post i in
      let n := Z.of_nat (alen a) in
      let s := uint_or start 0 in let c := uint_or sc (n - s) in
      let reasons :=
        (if a_dtype a =? o_dtype o then [] else [DatatypeMismatchError]) ++ (if nd_ok (o_kind o) a then [] else [ValueError])
        ++ bad_uint start true ++ bad_uint sc true ++ (if (n <? s) || (n <? s + c) then [ValueError] else [])
        ++ (match t_tss (o_timing o) with Some l => if has_timing (o_kind o) && negb (Z.of_nat (length l) =? c) then [IrregularTimestampCountMismatchError] else [] | None => [] end)
        ++ (if kind_eqb (o_kind o) KDigital && negb (Nat.eqb (a_ncols a) (o_ncols o)) then [SignalCountMismatchError] else [])
        ++ (if copy && (Z.of_nat (cap o) <? c) && negb (o_resizable o) then [ValueError] else []) in
      match r with
      | Raise e => isa_any e reasons && pool_unchanged pre post
      | Ok _ => match reasons with [] =>
                  others_unchanged i pre post && meta_same o o'
                  && rows_eqb (view o') (firstn (Z.to_nat c) (skipn (Z.to_nat s) (a_rows a)))
                  && timing_same (o_timing o) (o_timing o') && props_same (o_props o) (o_props o')
                | _ => false end
      end
  | PAppendArr i a ts =>
      let o := pget pre i in let o' := pget post i in
      let irregular := has_timing (o_kind o) && (t_mode (o_timing o) =? 2) in
      let reasons :=
        (if a_dtype a =? o_dtype o then [] else [DatatypeMismatchError]) ++ (if nd_ok (o_kind o) a then [] else [ValueError])
        ++ (if kind_eqb (o_kind o) KDigital && negb (Nat.eqb (a_ncols a) (o_ncols o)) then [SignalCountMismatchError] else [])
        ++ (match ts with
            | TsNone => if irregular then [TimingMismatchError] else []
            | TsWrongType => if irregular then [TypeError; ValueError] else [ValueError]
            | TsList l =>
                (if Nat.eqb (length l) (alen a) then [] else [IrregularTimestampCountMismatchError])
                ++ (if irregular then (if monotone (all_tss (o_timing o) []  ++ l) then [] else [ValueError]) else [ValueError])
            end)
        ++ (if Nat.ltb (cap o) (o_start o + o_count o + alen a) && negb (o_resizable o) then [ValueError] else []) in
      match r with
      | Raise e => isa_any e reasons && pool_unchanged pre post
      | Ok _ => match reasons with [] =>
                  others_unchanged i pre post && meta_same o o'
                  && rows_eqb (view o') (view o ++ a_rows a)
                  && props_same (o_props o) (o_props o')
                  && (if irregular
                      then match ts, t_tss (o_timing o), t_tss (o_timing o') with
                           | TsList l, Some a0, Some b0 => list_eqb Z.eqb b0 (a0 ++ l) | _, _, _ => false end
                      else timing_same (o_timing o) (o_timing o'))
                | _ => false end
      end
  | PAppendWfm i srcs ts_given =>
      let o := pget pre i in let o' := pget post i in
      let ss := map (pget pre) srcs in
      let ht := has_timing (o_kind o) in
      let total := fold_left (fun n s => (n + o_count s)%nat) ss 0%nat in
      let reasons :=
        (if ts_given then [ValueError] else [])
        ++ (if forallb (fun s => o_dtype s =? o_dtype o) ss then [] else [DatatypeMismatchError])
        ++ (if kind_eqb (o_kind o) KDigital && negb (forallb (fun s => Nat.eqb (o_ncols s) (o_ncols o)) ss) then [SignalCountMismatchError] else [])
        ++ (if ht && negb (modes_compatible (o_timing o) ss) then [TimingMismatchError] else [])
        ++ (if ht && (t_mode (o_timing o) =? 2) && negb (monotone (all_tss (o_timing o) (filter (fun s => t_mode (o_timing s) =? 2) ss))) then [ValueError] else [])
        ++ (if Nat.ltb (cap o) (o_start o + o_count o + total) && negb (o_resizable o) then [ValueError] else []) in
      match r with
      | Raise e => isa_any e reasons && pool_unchanged pre post
      | Ok _ => match reasons with [] =>
                  others_unchanged i pre post && meta_same o o'
                  && rows_eqb (view o') (view o ++ flat_map view ss)
                  && merged_props_ok o ss o'
                  && (if ht && (t_mode (o_timing o) =? 2)
                      then match t_tss (o_timing o') with Some b0 => list_eqb Z.eqb b0 (all_tss (o_timing o) ss) && (t_mode (o_timing o') =? 2) | None => false end
                      else timing_same (o_timing o) (o_timing o'))
                  (* a differing sample interval / scale mode only warns *)
                  && Bool.eqb (warn_has WTiming ws) (ht && negb (t_mode (o_timing o) =? 2) && negb (forallb (fun s => oz_eqb (t_si (o_timing o)) (t_si (o_timing s))) ss))
                  && Bool.eqb (warn_has WScaling ws) (has_scale (o_kind o) && negb (forallb (fun s => o_scale s =? o_scale o) ss))
                | _ => false end
      end
  | PSetCap i v =>
      let o := pget pre i in let o' := pget post i in
      let c := uint_or v 0 in
      let reasons := bad_uint v false ++ (if c <? Z.of_nat (o_start o + o_count o) then [ValueError] else [])
                     ++ (if negb (c =? Z.of_nat (cap o)) && negb (o_resizable o) then [ValueError] else []) in
      match r with
      | Raise e => isa_any e reasons && pool_unchanged pre post
      | Ok _ => match reasons with [] =>
                  others_unchanged i pre post && meta_same o o' && rows_eqb (view o') (view o) && Nat.eqb (o_count o') (o_count o)
                  && (Z.of_nat (cap o') =? c) && timing_same (o_timing o) (o_timing o') && props_same (o_props o) (o_props o')
                | _ => false end
      end
  | PSetCount i v =>
      let o := pget pre i in let o' := pget post i in
      let c := uint_or v 0 in
      let reasons := bad_uint v false ++ (if Z.of_nat (cap o) <? Z.of_nat (o_start o) + c then [ValueError] else [])
                     ++ (match t_tss (o_timing o) with Some l => if has_timing (o_kind o) && negb (Z.of_nat (length l) =? c) then [IrregularTimestampCountMismatchError] else [] | None => [] end) in
      match r with
      | Raise e => isa_any e reasons && pool_unchanged pre post
      | Ok _ => match reasons with [] =>
                  others_unchanged i pre post && meta_same o o' && (Z.of_nat (o_count o') =? c)
                  (* shrinking keeps the first samples; growing keeps all old samples first *)
                  && rows_eqb (firstn (Nat.min (o_count o) (o_count o')) (view o')) (firstn (Nat.min (o_count o) (o_count o')) (view o))
                  && timing_same (o_timing o) (o_timing o') && props_same (o_props o) (o_props o')
                | _ => false end
      end
  | PSetTiming i t =>
      let o := pget pre i in let o' := pget post i in
      match t, r with
      | None, Raise e => exn_isa e TypeError && pool_unchanged pre post
      | Some t, Raise e =>
          (match t_tss t with Some l => negb (Nat.eqb (length l) (o_count o)) | None => false end)
          && exn_isa e IrregularTimestampCountMismatchError && pool_unchanged pre post
      | Some t, Ok _ =>
          (match t_tss t with Some l => Nat.eqb (length l) (o_count o) | None => true end)
          && others_unchanged i pre post && meta_same o o' && rows_eqb (view o') (view o) && timing_same t (o_timing o')
          && props_same (o_props o) (o_props o')
      | None, Ok _ => false
      end
  | PSetScale i s =>
      let o := pget pre i in let o' := pget post i in
      match s, r with
      | None, Raise e => exn_isa e TypeError && pool_unchanged pre post
      | Some s, Ok _ => others_unchanged i pre post && rows_eqb (view o') (view o) && (o_scale o' =? s) && timing_same (o_timing o) (o_timing o')
      | _, _ => false
      end
  | PWrite i rr c v =>
      let o := pget pre i in let o' := pget post i in
      match r with
      | Ok _ => others_unchanged i pre post && meta_same o o' && Nat.eqb (o_count o') (o_count o)
                && rows_eqb (view o') (view (write_view o rr c v)) && timing_same (o_timing o) (o_timing o')
      | Raise _ => false
      end
  | PGet i start sc =>
      let o := pget pre i in
      let s := uint_or start 0 in let c := uint_or sc (Z.of_nat (o_count o) - s) in
      let reasons := bad_uint start true ++ bad_uint sc true
                     ++ (if (Z.of_nat (o_count o) <? s) || (Z.of_nat (o_count o) <? s + c) then [ValueError] else []) in
      pool_unchanged pre post &&
      match r with
      | Raise e => isa_any e reasons
      | Ok (WRows l) => match reasons with [] => rows_eqb l (firstn (Z.to_nat c) (skipn (Z.to_nat s) (view o))) | _ => false end
      | Ok WNone => false
      end
  | PRepickle i =>
      (* a pickled / deep copy: the same samples, timing, scale and properties, in a buffer of its own that has neither
         offset nor slack and can grow; nothing else in the pool changes *)
      let o := pget pre i in let o' := pget post i in
      match r with
      | Ok _ => others_unchanged i pre post && meta_same o o' && Nat.eqb (o_count o') (o_count o) && rows_eqb (view o') (view o)
                && timing_same (o_timing o) (o_timing o') && props_same (o_props o) (o_props o')
                && Nat.eqb (o_start o') 0 && Nat.eqb (cap o') (o_count o) && o_resizable o'
      | Raise _ => false
      end
  end.
