(* Spec/TimingSpec.v — what C20 and C08 say about Timing, on abstract members.
   A member value is (family, exact integer in the family's unit); what matters for C20 is only
   its kind; for C08 its exact value. *)
From NV Require Import Common.Py.
Open Scope Z_scope.

(* kinds of a constructor argument *)
Inductive arg :=
| ANone                      (* None / not given *)
| ADatetime (v : Z)          (* a datetime of one of the three families *)
| ATimedelta (v : Z)         (* a timedelta of one of the three families *)
| AWrong.                    (* anything else: int, str, float, ... *)

Inductive tss_arg :=
| TNone
| TSeq (items : list arg)    (* a list/tuple of items *)
| TNotSeq.                   (* not a sequence (int, generator, ...) *)

(* sample-interval modes: 0 NONE, 1 REGULAR, 2 IRREGULAR, anything else is not a mode *)

Definition is_dtm (a : arg) : bool := match a with ADatetime _ => true | _ => false end.
Definition is_td (a : arg) : bool := match a with ATimedelta _ => true | _ => false end.
Definition is_none (a : arg) : bool := match a with ANone => true | _ => false end.
Definition dtm_value (a : arg) : Z := match a with ADatetime v => v | _ => 0 end.

Fixpoint nondecr_from (prev : Z) (l : list Z) : bool :=
  match l with [] => true | x :: l' => (prev <=? x) && nondecr_from x l' end.
Fixpoint nonincr_from (prev : Z) (l : list Z) : bool :=
  match l with [] => true | x :: l' => (x <=? prev) && nonincr_from x l' end.
Definition monotone (l : list Z) : bool :=
  match l with [] => true | x :: l' => nondecr_from x l' || nonincr_from x l' end.

(* the table of C20: which argument combinations a mode allows *)
Definition spec_accepts (mode : Z) (ts off si : arg) (tss : tss_arg) : bool :=
  match mode with
  | 0 => (is_none ts || is_dtm ts) && (is_none off || is_td off) && is_none si
         && match tss with TNone => true | _ => false end
  | 1 => (is_none ts || is_dtm ts) && (is_none off || is_td off) && is_td si
         && match tss with TNone => true | _ => false end
  | 2 => is_none ts && is_none off && is_none si
         && match tss with
            | TSeq items => forallb is_dtm items && monotone (map dtm_value items)
            | _ => false end
  | _ => false
  end.

(* C08: the requested window of an irregular timing, or ValueError *)
Definition spec_irregular (l : list Z) (i n : Z) : res (list Z) :=
  if (i <? 0) || (n <? 0) then Raise ValueError
  else if Z.of_nat (length l) <? i + n then Raise ValueError
  else Ok (firstn (Z.to_nat n) (skipn (Z.to_nat i) l)).

(* C08: the k-th regular timestamp is start + (i + k) * interval, exactly *)
Definition spec_regular (start si i n : Z) : list Z :=
  map (fun k => start + (i + Z.of_nat k) * si) (seq 0 (Z.to_nat n)).
