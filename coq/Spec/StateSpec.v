(* Spec/StateSpec.v — what C16 says: failures are exactly the incompatible positions of the window. *)
From NV Require Import Common.Py.
From Coq Require Import String Ascii.
Open Scope Z_scope.

(* NI's digital state compatibility table (the documented one; rows/columns 0 1 Z L H X T V):
   1 = compatible.  It is symmetric, reflexive, and X (COMPARE_UNKNOWN) is compatible with all. *)
Definition ni_table : list (list Z) :=
  [[1;0;0;1;0;1;0;1];
   [0;1;0;0;1;1;0;1];
   [0;0;1;0;0;1;1;0];
   [1;0;0;1;0;1;0;0];
   [0;1;0;0;1;1;0;0];
   [1;1;1;1;1;1;1;1];
   [0;0;1;0;0;1;1;0];
   [1;1;0;0;0;1;0;1]].
Definition compatible (a b : Z) : bool :=
  negb (nth (Z.to_nat b) (nth (Z.to_nat a) ni_table []) 0 =? 0).
Definition is_state (s : Z) : bool := (0 <=? s) && (s <=? 7).

(* a digital waveform: a buffer of rows, the window [st, st+cnt) of it is the data *)
Record dwf := { buf : list (list Z); st : nat; cnt : nat; ncol : nat }.
Definition data (w : dwf) : list (list Z) := firstn (cnt w) (skipn (st w) (buf w)).
Definition cell (w : dwf) (i c : nat) : Z := nth c (nth i (data w) []) (-1).

Definition failure := (Z * Z * Z * Z * Z)%type.   (* sample, expected sample, signal, actual, expected *)
Definition failure_eqb (x y : failure) : bool :=
  let '(a1, a2, a3, a4, a5) := x in let '(b1, b2, b3, b4, b5) := y in
  (a1 =? b1) && (a2 =? b2) && (a3 =? b3) && (a4 =? b4) && (a5 =? b5).

(* an argument that may be None (default), negative (ValueError) *)
Definition arg_uint (a : option Z) (default : Z) : res Z :=
  let v := match a with None => default | Some v => v end in
  if v <? 0 then Raise ValueError else Ok v.   (* the default is validated too, as arg_to_uint does *)

(* positions of the window in sample-major, column-minor order *)
Definition positions (n ncols : nat) : list (nat * nat) :=
  flat_map (fun i => map (fun c => (i, c)) (seq 0 ncols)) (seq 0 n).

Definition spec_test (a e : dwf) (start estart count : option Z) : res (list failure) :=
  do s <- arg_uint start 0;
  do es <- arg_uint estart 0;
  do n <- arg_uint count (Z.of_nat (cnt a) - s);
  if negb (Nat.eqb (ncol a) (ncol e)) then Raise ValueError
  else if (Z.of_nat (cnt a) <? s + n) || (Z.of_nat (cnt e) <? es + n) then Raise ValueError
  else
    let pos := positions (Z.to_nat n) (ncol a) in
    let val p := (cell a (Z.to_nat s + fst p) (snd p), cell e (Z.to_nat es + fst p) (snd p)) in
    if negb (forallb (fun p => is_state (fst (val p)) && is_state (snd (val p))) pos) then Raise ValueError
    else Ok (flat_map (fun p =>
           let '(x, y) := val p in
           if compatible x y then []
           else [(s + Z.of_nat (fst p), es + Z.of_nat (fst p), Z.of_nat (ncol a) - 1 - Z.of_nat (snd p), x, y)]) pos).

Definition spec_chars : string := "01ZLHXTV".
