(* Spec/PortSpec.v — what C06 says: one signal per set mask bit.
   bits_asc n m b: the positions (offset b) of the set bits among the lowest n bits of m, ascending. *)
From NV Require Import Common.Py.

Open Scope Z_scope.

Fixpoint bits_asc (n : nat) (m b : Z) : list Z :=
  match n with
  | O => []
  | S n' => (if Z.testbit m 0 then [b] else []) ++ bits_asc n' (Z.shiftr m 1) (b + 1)
  end.

(* data row of one sample v for a port of width w:
   'big'   : data column c holds the c-th HIGHEST set mask bit  (signal i = column n-1-i = i-th lowest)
   'little': data column c holds the c-th LOWEST set mask bit   (signal i = column n-1-i = i-th highest) *)
Definition spec_row (big : bool) (w : nat) (mask v : Z) : list bool :=
  let bits := bits_asc w mask 0 in
  map (Z.testbit v) (if big then rev bits else bits).

(* signal i of a row: data column signal_count-1-i *)
Definition signal_of_row {A} (d : A) (row : list A) (i : nat) : A := nth (List.length row - 1 - i) row d.

Definition in_width (w : nat) (x : Z) : bool := (0 <=? x) && (x <? 2 ^ Z.of_nat w).
