From NV Require Import Common.Py Model.Names.
Open Scope Z_scope.

Definition str_eqb : str -> str -> bool := list_eqb Z.eqb.
Definition ostr_eqb (a b : option str) : bool :=
  match a, b with Some x, Some y => str_eqb x y | None, None => true | _, _ => false end.
Definition nout_eqb (a b : nout) : bool :=
  match a, b with NNone, NNone => true | NName x, NName y => str_eqb x y | NIndex x, NIndex y => x =? y | _, _ => false end.
Definition rnout_eqb (a b : res nout) : bool :=
  match a, b with Ok x, Ok y => nout_eqb x y | Raise x, Raise y => exn_isa x y | _, _ => false end.

Record nobs := { no_pre : option str; no_op : nop; no_res : res nout; no_post : option str }.

Inductive c15case :=
| NHist (n : nat) (steps : list nobs)
| NParse (s : str) (out : list str)        (* [x.strip() for x in s.split(",")] *)
| NJoin (l : list str) (out : str)         (* ", ".join(l) *)
| NWsSet (l : list Z).                     (* every code point c < 0x110000 that "x".join-free str.strip() removes: (chr(c) + "a" + chr(c)).strip() == "a" *)

Definition cleanb (v : str) : bool := forallb (fun c => negb (c =? COMMA)) v && str_eqb (strip v) v.
Definition names_at (n : nat) (p : option str) : list str := pad n (parse (match p with Some s => s | None => [] end)).
Definition col_of (n : nat) (i : Z) : res nat := sig_col {| n_cols := n; n_prop := None; n_cache := None |} i.

(* the property-strength oracle: stateless in the cache — every read is judged against the property
   value the implementation holds at that moment *)
Definition nobs_spec_ok (n : nat) (o : nobs) : bool :=
  match no_op o with
  | NRead i =>
      ostr_eqb (no_pre o) (no_post o) &&
      match col_of n i with
      | Ok c => rnout_eqb (no_res o) (Ok (NName (nth c (names_at n (no_pre o)) [])))
      | Raise e => rnout_eqb (no_res o) (Raise e)
      end
  | NWrite i v =>
      match col_of n i with
      | Ok c =>
          rnout_eqb (no_res o) (Ok NNone) &&
          (negb (cleanb v) ||
           list_eqb str_eqb (names_at n (no_post o)) (set_nth_s (names_at n (no_pre o)) c v))
      | Raise e => rnout_eqb (no_res o) (Raise e) && ostr_eqb (no_pre o) (no_post o)
      end
  | NWriteBad i =>
      ostr_eqb (no_pre o) (no_post o) &&
      match col_of n i with
      | Ok _ => rnout_eqb (no_res o) (Raise TypeError)
      | Raise e => rnout_eqb (no_res o) (Raise e)
      end
  | NLookup name =>
      ostr_eqb (no_pre o) (no_post o) &&
      match no_res o with
      | Ok (NIndex k) => (0 <=? k) && (k <? Z.of_nat n) &&
                         str_eqb (nth (Z.to_nat (Z.of_nat n - 1 - k)) (names_at n (no_pre o)) []) name
      | Ok _ => false
      | Raise e => exn_isa e IndexError
      end
  | _ => true
  end.

Definition c15_spec_ok (c : c15case) : bool :=
  match c with
  | NHist n steps => forallb (nobs_spec_ok n) steps
  | NParse s out => list_eqb str_eqb (parse s) out
  | NJoin l out => str_eqb (join l) out
  | NWsSet l =>
      (* the model's whitespace predicate agrees with Python's on the whole code space *)
      snd (Pos.iter (fun st : Z * bool => let (c, ok) := st in (c + 1, ok && Bool.eqb (is_ws c) (existsb (Z.eqb c) l))) (0, true) 1114112)
  end.
