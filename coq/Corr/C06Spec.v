From NV Require Import Common.Py Spec.PortSpec Model.PortBytes.
Open Scope Z_scope.

(* DigitalWaveform.from_port / from_ports: rows of the data array, as 0/1 *)
Inductive c06case :=
| FromPort (is_array : bool) (w_array : Z)            (* ndarray input of this bit width (any byte order / stride), or a Python sequence *)
           (mask : option Z) (big : bool) (values : list Z)
           (start count : option Z)                   (* start_index / sample_count *)
           (out : res (list (list Z)))                (* data rows; the element type is checked by the harness *)
           (signals_ok : bool)                        (* signals[i].data == data[:, n-1-i] for every i, dtype as requested *)
| PortDtype (mask : Z) (out : res Z)                 (* get_port_dtype(mask).itemsize * 8 *)
| PortMem (k : nat) (big : bool) (v : Z)             (* one value of a k-byte port, full mask: *)
          (mem_le mem_be : list Z)                    (* the bytes NumPy holds for it in a '<' and in a '>' array *)
          (row_le row_be : list Z)                    (* port_to_line_data's row for either array *)
| PortsShort (nrows nmasks : Z) (raised : bool).      (* from_ports over nrows ports given nmasks masks: one waveform per port, so too few masks cannot be served *)

Definition width_of_mask (m : Z) : option nat :=
  if (0 <=? m) && (m <? 256) then Some 8%nat else if (0 <=? m) && (m <? 65536) then Some 16%nat
  else if (0 <=? m) && (m <? 4294967296) then Some 32%nat else None.

Definition row_z (r : list bool) : list Z := map (fun b : bool => if b then 1 else 0) r.

Definition window {A} (l : list A) (start count : option Z) : option (list A) :=
  let n := Z.of_nat (length l) in
  let s := match start with Some s => s | None => 0 end in
  let c := match count with Some c => c | None => n - s end in
  if (s <? 0) || (c <? 0) || (n <? s + c) then None
  else Some (firstn (Z.to_nat c) (skipn (Z.to_nat s) l)).

Definition c06_spec_ok (c : c06case) : bool :=
  match c with
  | FromPort is_array w_array mask big values start count out signals_ok =>
      let mres : option Z :=    (* the effective mask, None = must be rejected *)
        match mask with
        | Some m => Some m
        | None => if is_array then Some (2 ^ w_array - 1) else None
        end in
      match mres with
      | None => match out with Raise e => exn_isa e ValueError | _ => false end
      | Some m =>
          let wopt := if is_array then Some (Z.to_nat w_array) else width_of_mask m in
          match wopt with
          | None => match out with Raise e => exn_isa e ValueError | _ => false end    (* negative or > 32-bit mask *)
          | Some w =>
              if negb (in_width w m) then                                  (* bits beyond the port width: rejected *)
                match out with Raise e => exn_isa e ValueError | _ => false end
              else if negb (forallb (in_width w) values) then
                match out with Raise _ => true | _ => false end            (* a sample that is not a w-bit port value *)
              else match window (map (fun v => row_z (spec_row big w m v)) values) start count, out with
                   | Some rows, Ok got => list_eqb (list_eqb Z.eqb) got rows && signals_ok
                   | None, Raise e => exn_isa e ValueError
                   | _, _ => false
                   end
          end
      end
  | PortMem k big v mem_le mem_be row_le row_be =>
      (* the memory is what the byte model says, and both arrays unpack to the byte pipeline's row *)
      list_eqb Z.eqb mem_le (le_bytes k v) && list_eqb Z.eqb mem_be (be_bytes k v)
      && list_eqb Z.eqb row_le (row_z (pipeline_row big k v))
      && list_eqb Z.eqb row_be (row_z (pipeline_row big k (be_value mem_be)))
  | PortsShort nrows nmasks raised => if nmasks <? nrows then raised else true
  | PortDtype mask out =>
      match width_of_mask mask, out with
      | Some w, Ok b => b =? Z.of_nat w
      | None, Raise e => exn_isa e ValueError
      | _, _ => false
      end
  end.
