From NV Require Import Common.Py Spec.TimingSpec.
Open Scope Z_scope.

(* what the implementation reported about a constructed Timing *)
Record report := {
  r_mode : Z; r_has_ts : bool; r_has_start : bool; r_has_off : bool; r_has_si : bool; r_n_tss : Z;  (* -1: no list *)
  r_read_ts : bool; r_read_start : bool; r_read_off : bool; r_read_si : bool;   (* true: read returned a value; false: RuntimeError *)
  r_frozen : bool                      (* every public member assignment raised AttributeError *)
}.

Inductive c20case :=
| Init (mode : Z) (ts off si : arg) (tss : tss_arg) (out : res report)
| EqCase (m1 : Z) (a1 b1 c1 : option Z) (l1 : option (list Z)) (m2 : Z) (a2 b2 c2 : option Z) (l2 : option (list Z)) (eq ne : bool)
| Empty (rep : report).

Definition report_ok (mode : Z) (ts off si : arg) (tss : tss_arg) (r : report) : bool :=
  (r_mode r =? mode)
  && Bool.eqb (r_has_ts r) (is_dtm ts) && Bool.eqb (r_has_start r) (is_dtm ts)
  && Bool.eqb (r_has_off r) (is_td off) && Bool.eqb (r_has_si r) (is_td si)
  && (r_n_tss r =? match tss with TSeq items => Z.of_nat (length items) | _ => -1 end)
  && Bool.eqb (r_read_ts r) (is_dtm ts) && Bool.eqb (r_read_start r) (is_dtm ts)
  && Bool.eqb (r_read_off r) (is_td off) && Bool.eqb (r_read_si r) (is_td si)
  && r_frozen r.

Definition o_eqb (a b : option Z) : bool :=
  match a, b with Some x, Some y => x =? y | None, None => true | _, _ => false end.
Definition ol_eqb (a b : option (list Z)) : bool :=
  match a, b with Some x, Some y => list_eqb Z.eqb x y | None, None => true | _, _ => false end.

Definition c20_spec_ok (c : c20case) : bool :=
  match c with
  | Init mode ts off si tss out =>
      match out with
      | Ok r => spec_accepts mode ts off si tss && report_ok mode ts off si tss r
      | Raise e => negb (spec_accepts mode ts off si tss) && (exn_isa e TypeError || exn_isa e ValueError)
      end
  | EqCase m1 a1 b1 c1 l1 m2 a2 b2 c2 l2 eq ne =>
      let same := (m1 =? m2) && o_eqb a1 a2 && o_eqb b1 b2 && o_eqb c1 c2 && ol_eqb l1 l2 in
      Bool.eqb eq same && Bool.eqb ne (negb same)
  | Empty r => report_ok 0 ANone ANone ANone TNone r
  end.
