From NV Require Import Common.Py Spec.TimingSpec.
Open Scope Z_scope.

(* a Timing of one family, members as exact integers in the family's unit *)
Inductive c08case :=
| GetTs (lo_td hi_td lo_dtm hi_dtm : Z)                 (* ranges of the family's timedelta / datetime types *)
        (mode : Z) (ts off si : option Z) (tss : option (list Z))
        (i n : option Z)                                 (* None: an argument that is not an integer *)
        (out : res (list Z))
| StartTime (lo_dtm hi_dtm : Z) (ts off : option Z) (out : res Z)
| Irregular (l : list Z) (out : res unit)               (* Timing.create_with_irregular_interval(l) *)
| IrregularBad (out : res unit).                       (* ... of a sequence holding a non-datetime element, in any order *)

Definition inr (lo hi v : Z) : bool := (lo <=? v) && (v <=? hi).

Definition c08_spec_ok (c : c08case) : bool :=
  match c with
  | GetTs lo_td hi_td lo_dtm hi_dtm mode ts off si tss i n out =>
      match i, n with
      | Some i, Some n =>
          if (i <? 0) || (n <? 0) then match out with Raise e => exn_isa e ValueError | _ => false end
          else match mode, ts, si, tss with
          | 1, Some t0, Some d, _ =>
              let start := t0 + match off with Some o => o | None => 0 end in
              let want := spec_regular start d i n in
              match out with
              | Ok l => list_eqb Z.eqb l want
              | Raise OverflowError =>   (* only if some value that must be computed does not fit the family's types *)
                  negb (inr lo_dtm hi_dtm start && inr lo_td hi_td (i * d) && forallb (inr lo_dtm hi_dtm) (start + i * d :: want))
              | Raise _ => false
              end
          | 2, _, _, Some l => res_eqb (list_eqb Z.eqb) out (spec_irregular l i n)
          | _, _, _, _ => match out with Raise NoTimestampInformationError => true | _ => false end
          end
      | _, _ => match out with Raise TypeError => true | _ => false end
      end
  | StartTime lo hi ts off out =>
      match ts with
      | None => match out with Raise RuntimeError => true | _ => false end
      | Some t0 => let v := t0 + match off with Some o => o | None => 0 end in
                   match out with Ok r => r =? v | Raise OverflowError => negb (inr lo hi v) | Raise _ => false end
      end
  | Irregular l out =>
      match out with
      | Ok _ => monotone l
      | Raise e => negb (monotone l) && exn_isa e ValueError
      end
  | IrregularBad out => match out with Raise e => exn_isa e TypeError | Ok _ => false end
  end.
