From NV Require Import Common.Py Spec.TimeSpec Model.Complex.
Open Scope Z_scope.

(* dtypes: 0 ComplexInt32, 1 complex64, 2 complex128, 3 anything else *)
Inductive cvalue := CInts (l : list (Z * Z)) | CFloats (l : list (fpart * fpart)).

Inductive c05case :=
| Convert (src dst : Z) (shape : list Z) (input : cvalue) (out : res (list Z * cvalue)) (* result shape, elements in logical order *)
| Layout (l : list (Z * Z)) (bytes : list Z) (itemsize : Z)       (* ndarray.tobytes() of a ComplexInt32 array *)
| Sweep (kind : Z) (checked mismatches : Z).                     (* exhaustive int16 sweeps done by the harness *)

Definition pair_eqb (a b : Z * Z) : bool := (fst a =? fst b) && (snd a =? snd b).
Definition fpair_eqb (a b : fpart * fpart) : bool := fpart_eqb (fst a) (fst b) && fpart_eqb (snd a) (snd b).

Definition part_in_range (f : fpart) : bool :=      (* -32769 < value < 32768 *)
  match f with
  | FNum m e => if 0 <=? e then (-32769 <? m * 2 ^ e) && (m * 2 ^ e <? 32768)
                else (-32769 * 2 ^ (- e) <? m) && (m <? 32768 * 2 ^ (- e))
  | _ => false
  end.

Definition spec_convert (src dst : Z) (input : cvalue) : option cvalue :=   (* None: outside what the property specifies *)
  match src, dst, input with
  | 0, 0, CInts l => Some (CInts l)
  | 0, (1 | 2), CInts l => Some (CFloats (map (fun p => (FNum (fst p) 0, FNum (snd p) 0)) l))
  | (1 | 2), 0, CFloats l =>
      if forallb (fun p => part_in_range (fst p) && part_in_range (snd p)) l
      then Some (CInts (map (fun p => (match trunc_fpart (fst p) with Some z => z | None => 0 end,
                                       match trunc_fpart (snd p) with Some z => z | None => 0 end)) l))
      else None
  | 1, 1, CFloats l | 2, 2, CFloats l | 1, 2, CFloats l => Some (CFloats l)
  | 2, 1, CFloats l => Some (CFloats (map (fun p => (round_b32 (fst p), round_b32 (snd p))) l))
  | _, _, _ => None
  end.

Definition cvalue_eqb (a b : cvalue) : bool :=
  match a, b with
  | CInts x, CInts y => list_eqb pair_eqb x y
  | CFloats x, CFloats y => list_eqb fpair_eqb x y
  | _, _ => false
  end.

Definition c05_spec_ok (c : c05case) : bool :=
  match c with
  | Convert src dst shape input out =>
      if (dst <? 0) || (2 <? dst) then match out with Raise e => exn_isa e TypeError | _ => false end
      else match spec_convert src dst input, out with
           | Some want, Ok (shape', got) => list_eqb Z.eqb shape shape' && cvalue_eqb got want
           | None, _ => true                      (* parts outside the int16 range: not specified *)
           | Some _, Raise _ => false
           end
  | Layout l bytes itemsize => (itemsize =? 4) && list_eqb Z.eqb bytes (concat (map enc_ci32 l))
  | Sweep _ checked mismatches => (0 <? checked) && (mismatches =? 0)
  end.
