From NV Require Import Common.Py Spec.TimingSpec Model.Timing Corr.C08Spec.
Open Scope Z_scope.

Definition c08_model_ok (c : c08case) : bool :=
  match c with
  | GetTs lo_td hi_td lo_dtm hi_dtm mode ts off si tss i n out =>
      match i, n with
      | Some i, Some n =>
          let r := {| Timing.lo_td := lo_td; Timing.hi_td := hi_td; Timing.lo_dtm := lo_dtm; Timing.hi_dtm := hi_dtm |} in
          let t := {| t_mode := mode; t_ts := ts; t_off := off; t_si := si; t_tss := tss |} in
          match out, get_timestamps r t i n with
          | Ok l, Ok l' => list_eqb Z.eqb l l'
          | Raise e, Raise e' => exn_isa e e'
          | _, _ => false
          end
      | _, _ => match out with Raise TypeError => true | _ => false end
      end
  | StartTime lo hi ts off out =>
      let r := {| Timing.lo_td := 0; Timing.hi_td := 0; Timing.lo_dtm := lo; Timing.hi_dtm := hi |} in
      let t := {| t_mode := 0; t_ts := ts; t_off := off; t_si := None; t_tss := None |} in
      match out, start_time r t with
      | Ok a, Ok b => a =? b | Raise e, Raise e' => exn_isa e e' | _, _ => false end
  | Irregular l out =>
      match out with
      | Ok _ => monotonic_sm l
      | Raise e => negb (monotonic_sm l) && exn_isa e ValueError
      end
  | IrregularBad out =>
      (* timing_init: the element-type check comes before the monotonicity check *)
      match out, timing_init 2 ANone ANone ANone (TSeq [AWrong]) with
      | Raise e, Raise e' => exn_isa e e'
      | _, _ => false
      end
  end.
