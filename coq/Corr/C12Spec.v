From NV Require Import Common.Py Model.Alias.
From Coq Require Import Lia.
Open Scope nat_scope.

Definition mat := list (list Z).
Definition mat_eqb (a b : mat) : bool := list_eqb (list_eqb Z.eqb) a b.
Definition mset (m : mat) (r c : nat) (v : Z) : mat :=
  if Nat.ltb r (length m) then upd m r (upd (nth r m []) c v) else m.

Inductive skind := KOwn | KView (pad : nat) | KRowStrided | KColStrided | KList.
Record c12obs := { ob_op : aop; ob_src : mat; ob_obj : mat }.      (* contents of both sides after the op *)

Inductive c12case :=
| AHist (p : path) (kind : skind) (src0 : mat) (cols : nat) (cast copy : bool)
        (preload : option nat)            (* Some cap: an existing object of that capacity receives load_data(src, copy=) *)
        (count : nat)                     (* sample_count requested at construction (spare rows = capacity) *)
        (res : res bool)                  (* Ok shares_memory | the exception *)
        (obj0 : mat) (steps : list c12obs)
| AFlag (expected observed : bool).       (* extended-properties / timestamps sharing rules *)

(* ---- the property-strength oracle: two matrices and an optional link ---- *)
(* link: object row r, column c is source cell (map r c) *)
Inductive link := LNone | LRows (s0 : nat) | LRowOf2d (i : nat).
Definition src_cell (l : link) (r c : nat) : option (nat * nat) :=
  match l with LNone => None | LRows s0 => Some (s0 + r, c) | LRowOf2d i => Some (i, r) end.
Definition obj_cell (l : link) (count : nat) (r c : nat) : option (nat * nat) :=     (* inverse *)
  match l with
  | LNone => None
  | LRows s0 => if Nat.leb s0 r && Nat.ltb r (s0 + count) then Some (r - s0, c) else None
  | LRowOf2d i => if Nat.eqb r i && Nat.ltb c count then Some (c, 0) else None
  end.

Definition honours_copy (p : path) : bool := match p with PCtor | PPort => false | _ => true end.
Definition expected_outcome (p : path) (kind : skind) (cast copy : bool) (preload : option nat) : res link :=
  let is_list := match kind with KList => true | _ => false end in
  match preload with
  | Some _ => if is_list || cast then Raise TypeError else Ok (if copy then LNone else LRows 0)
  | None =>
    match p with
    | PPort => Ok LNone
    | PCtor => if is_list || cast then Raise TypeError else Ok (LRows 0)
    | PLines => if cast && negb is_list then Raise TypeError
                else if copy then Ok LNone else if is_list then Raise ValueError else Ok (LRows 0)
    | PFrom1d => if copy then Ok LNone else if is_list || cast then Raise ValueError else Ok (LRows 0)
    | PFrom2dRow i => if copy then Ok LNone else if is_list || cast then Raise ValueError else Ok (LRowOf2d i)
    end
  end.

Fixpoint spec_steps (l : link) (S O : mat) (steps : list c12obs) : bool :=
  match steps with
  | [] => true
  | st :: rest =>
      let '(S', O') :=
        match ob_op st with
        | WSrc r c v => (mset S r c v, match obj_cell l (length O) r c with Some (r', c') => mset O r' c' v | None => O end)
        | WObj r c v => (match src_cell l r c with Some (r', c') => mset S r' c' v | None => S end, mset O r c v)
        | AppendIn row =>
            (match l with
             | LNone => S
             | _ => fold_left (fun m cv => match src_cell l (length O) (fst cv) with Some (r', c') => mset m r' c' (snd cv) | None => m end)
                              (combine (seq 0 (length row)) row) S
             end, O ++ [row])
        end in
      (match ob_src st with [] => true | _ => mat_eqb (ob_src st) S' end) && mat_eqb (ob_obj st) O' && spec_steps l S' O' rest
  end.

Definition c12_spec_ok (c : c12case) : bool :=
  match c with
  | AFlag e o => Bool.eqb e o
  | AHist p kind src0 cols cast copy preload count res obj0 steps =>
      match expected_outcome p kind cast copy preload, res with
      | Raise e, Raise e' => exn_isa e' e
      | Ok l, Ok shares =>
          Bool.eqb shares (match l with LNone => false | _ => true end) && spec_steps l src0 obj0 steps
      | _, _ => false
      end
  end.
