From NV Require Import Common.Py Model.Complex Model.Waveform Model.Scaling.
Open Scope Z_scope.

Record c11case := C11 {
  c_raw : list celem;            (* the visible raw samples, exact *)
  c_scale : smode;               (* gain / offset exactly as given to LinearScaleMode *)
  c_req : dreq; c_start : iarg; c_sc : iarg;
  c_res : res (Z * list celem);  (* result: 32/64 (0 = a dtype of the wrong kind) and the values *)
  c_flags : list bool            (* raw bytes unchanged; an identical second call returns identical bits;
                                    scaled_data = get_scaled_data() *)
}.

Definition is_fin (x : fpart) : bool := match x with FNum _ _ => true | _ => false end.
Definition mag (x : fpart) : option Z :=           (* floor(log2 |x|) of a finite non-zero value *)
  match x with FNum m e => if m =? 0 then None else Some (e + Z.log2 (Z.abs m)) | _ => None end.
Definition omax (a b : option Z) : option Z :=
  match a, b with Some x, Some y => Some (Z.max x y) | Some x, None | None, Some x => Some x | None, None => None end.
Definition le_pow2 (m e k : Z) : bool := if e <=? k then Z.abs m <=? 2 ^ (k - e) else Z.abs m * 2 ^ (e - k) <=? 1.

(* |y - exact| <= 4 ulps of the requested precision at the magnitude of the larger term *)
Definition close (f : fmt) (t1 t2 : fpart) (y : fpart) : bool :=
  if negb (is_fin t1 && is_fin t2) then true else
  match omax (mag t1) (mag t2) with
  | None => fpart_eqb y (FNum 0 0)
  | Some E =>
      if emax f - 2 <=? E then true else
      let qt := Z.max (E - (prec f - 1)) (qmin f) in
      match fadd_exact y (fneg (fadd_exact t1 t2)) with
      | FNum md ed => le_pow2 md ed (qt + 2)
      | _ => false
      end
  end.

(* operands the requested precision can hold as normal numbers (or exactly): the "few ulps" statement
   presupposes them; a gain of 1e300 or a sample of 1e-300 in a float32 request is outside it *)
Definition fits (f : fmt) (v : fpart) : bool :=
  match v with
  | FNum m e =>
      if m =? 0 then true else
      match rnd f v with
      | FNum _ _ => fpart_eqb (rnd f v) v || (qmin f + prec f - 1 <=? e + Z.log2 (Z.abs m))
      | _ => false
      end
  | _ => false
  end.

Definition elem_spec_ok (f : fmt) (s : smode) (x y : celem) : bool :=
  match s with
  | SNone => fpart_eqb (fst y) (rnd f (fst x)) && fpart_eqb (snd y) (rnd f (snd x))
  | SLinear g o =>
      (* the gain/offset the scale mode holds are float(given) *)
      let g := rnd b64 g in let o := rnd b64 o in
      if negb (fits f g && fits f o && fits f (fst x) && fits f (snd x)) then true else
      close f (fmul_exact (fst x) g) o (fst y) && close f (fmul_exact (snd x) g) (FNum 0 0) (snd y)
  end.

Fixpoint forall2b {A B} (p : A -> B -> bool) (l : list A) (m : list B) : bool :=
  match l, m with [], [] => true | a :: l', b :: m' => p a b && forall2b p l' m' | _, _ => false end.

Definition c11_check (elem_ok : fmt -> smode -> celem -> celem -> bool) (c : c11case) : bool :=
  forallb (fun b => b) (c_flags c) &&
  match fmt_of (c_req c) with
  | Raise e => match c_res c with Raise e' => exn_isa e' e | Ok _ => false end
  | Ok (tag, f) =>
      match window (c_raw c) (c_start c) (c_sc c), c_res c with
      | Raise e, Raise e' => exn_isa e' e
      | Ok w, Ok (tag', out) => (tag =? tag') && forall2b (elem_ok f (c_scale c)) w out
      | _, _ => false
      end
  end.

Definition c11_spec_ok (c : c11case) : bool := c11_check elem_spec_ok c.
