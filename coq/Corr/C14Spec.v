(* Corr/C14Spec.v — correspondence cases and property-strength oracle for C14 (no generated code). *)
From Coq Require Import List.
From NV Require Import Common.Py Spec.TimeSpec Model.Calendar Model.Text.
Open Scope Z_scope.

Definition fields9 := (Z * Z * Z * Z * Z * Z * Z * Z * Z)%type.   (* y mo d h mi s us fs ys *)

Inductive c14case :=
| TdFields (t days secs us fs ys : Z)
| TdStr (t d h m s f : Z) (text : list Z)        (* str(TimeDelta) as character codes, and the fields the harness read in it; f = fraction scaled to 18 digits *)
| DtFields (t : Z) (f : fields9) (tz_utc : bool)
| DtFromFields (f : fields9) (out : res Z)        (* DateTime(y, mo, ..., tzinfo=utc).ticks *)
| DtRepr (t : Z) (out : res Z)                    (* eval(repr(DateTime.from_ticks(t))).ticks *)
| DtStr (t : Z) (f : fields9) (text : list Z)    (* str(DateTime) as character codes, and the fields the harness read in it *)
| Ordinal (ord y m d : Z).                        (* datetime.date.fromordinal(ord) — ties Model/Calendar.v to Python *)

Definition YS' : Z := 1000000000000000000000000.
Definition AS' : Z := 1000000000000000000.
Definition rng (lo x hi : Z) : bool := (lo <=? x) && (x <? hi).

Definition td_fields_ok (t days secs us fs ys : Z) : bool :=
  rng 0 secs 86400 && rng 0 us 1000000 && rng 0 fs 1000000000 && rng 0 ys 1000000000
  && (days * 86400 + secs =? t / T64)
  && (us * AS' + fs * 1000000000 + ys =? (YS' * (t mod T64)) / T64).

Definition fields_ys (f : fields9) : Z :=
  let '(y, mo, d, h, mi, s, us, fs, ys) := f in
  ((days_of_civil y mo d - EPOCH_1904) * 86400 + h * 3600 + mi * 60 + s) * YS' + us * AS' + fs * 1000000000 + ys.

Definition dt_fields_ok (t : Z) (f : fields9) : bool :=
  let '(y, mo, d, h, mi, s, us, fs, ys) := f in
  valid_date y mo d && rng 0 h 24 && rng 0 mi 60 && rng 0 s 60
  && rng 0 us 1000000 && rng 0 fs 1000000000 && rng 0 ys 1000000000
  && (fields_ys f =? (t / T64) * YS' + (YS' * (t mod T64)) / T64).

(* the tick value nearest to N yoctoseconds: what the constructor must return for exact fields *)
Definition nearest_tick_ok (n r : Z) : bool := 2 * Z.abs (r * YS' - n * T64) <=? YS'.

Definition c14_spec_ok (c : c14case) : bool :=
  match c with
  | TdFields t days secs us fs ys => td_fields_ok t days secs us fs ys
  | TdStr t d h m s f text =>
      (* the text is, character for character, the rendering of in-range parts ... *)
      list_eqb text (render_td d h m s f) && rng 0 h 24 && rng 0 m 60 && rng 0 s 60 && rng 0 f AS'
      (* within 1e-18 s of the exact value *)
      && (Z.abs (((((d * 24 + h) * 60 + m) * 60 + s) * AS' + f) * T64 - AS' * t) <=? T64)
  | DtFields t f tz => tz && dt_fields_ok t f
  | DtFromFields f out => match out with Ok r => nearest_tick_ok (fields_ys f) r | Raise _ => false end
  | DtRepr t out => match out with Ok r => r =? t | Raise _ => false end
  | DtStr t f text =>
      let '(y, mo, d, h, mi, s, us, fs, ys) := f in
      list_eqb text (render_dt y mo d h mi s us fs ys) && dt_fields_ok t f
  | Ordinal ord y m d =>
      let '(y', m', d') := civil_of_days (ord - ORD_SHIFT) in (y =? y') && (m =? m') && (d =? d')
  end.
