From NV Require Import Common.Py Model.Alias Corr.C12Spec.
Open Scope nat_scope.

(* the caller's array, laid out in memory according to its kind *)
Definition mk_source (kind : skind) (vals : mat) (cols : nat) : heap * source :=
  let rows := length vals in
  match kind with
  | KOwn => ([concat vals], SRef {| r_buf := 0; r_off := 0; r_rs := cols; r_cs := 1; r_rows := rows; r_cols := cols |})
  | KView pad => ([repeat 77%Z (pad * cols) ++ concat vals ++ repeat 88%Z (pad * cols)],
                  SRef {| r_buf := 0; r_off := pad * cols; r_rs := cols; r_cs := 1; r_rows := rows; r_cols := cols |})
  | KRowStrided => ([concat (map (fun row => row ++ repeat 55%Z cols) vals)],
                    SRef {| r_buf := 0; r_off := 0; r_rs := 2 * cols; r_cs := 1; r_rows := rows; r_cols := cols |})
  | KColStrided => ([concat (map (fun row => flat_map (fun v => [v; 66%Z]) row) vals)],
                    SRef {| r_buf := 0; r_off := 0; r_rs := 2 * cols; r_cs := 2; r_rows := rows; r_cols := cols |})
  | KList => ([], SList vals cols)
  end.

Fixpoint model_steps (src : option aref) (st : heap * aobj) (steps : list c12obs) : bool :=
  match steps with
  | [] => true
  | s :: rest =>
      let st' := match src with
                 | Some a => astep a st (ob_op s)
                 | None => astep (ao_ref (snd st)) st (match ob_op s with WSrc _ _ _ => AppendIn [] | o => o end)
                 end in
      (match src, ob_src s with Some a, _ :: _ => mat_eqb (ob_src s) (contents (fst st') a) | _, _ => true end)
      && mat_eqb (ob_obj s) (contents (fst st') (ao_view (snd st')))
      && model_steps src st' rest
  end.

Definition c12_model_ok (c : c12case) : bool :=
  match c with
  | AFlag e o => Bool.eqb e o
  | AHist p kind src0 cols cast copy preload count out obj0 steps =>
      let '(h0, s) := mk_source kind src0 cols in
      let sref := match s with SRef a => Some a | _ => None end in
      let built : res (heap * aobj) :=
        match preload with
        | Some cap =>
            let '(h1, a0) := alloc h0 (repeat (repeat 0%Z cols) cap) cols in
            load h1 {| ao_ref := a0; ao_start := 0; ao_count := 0; ao_owns := true |} s cast copy
        | None =>
            match p with
            | PPort => let '(h1, a) := alloc h0 obj0 (length (hd [] obj0)) in Ok (h1, mk_obj a true)
            | _ => match build p h0 s cast copy with
                   | Ok (h1, a) => Ok (h1, {| ao_ref := a; ao_start := 0; ao_count := count; ao_owns := Nat.ltb 0 (r_buf a) |})
                   | Raise e => Raise e
                   end
            end
        end in
      match built, out with
      | Raise e, Raise e' => exn_isa e' e
      | Ok (h1, o), Ok shares =>
          Bool.eqb shares (match sref with Some a => Nat.eqb (r_buf (ao_ref o)) (r_buf a) | None => false end)
          && mat_eqb obj0 (contents h1 (ao_view o)) && model_steps sref (h1, o) steps
      | _, _ => false
      end
  end.
