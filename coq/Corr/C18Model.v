From NV Require Import Common.Py Spec.ListSpec Model.Vector Corr.C18Spec.
Open Scope Z_scope.
Definition c18_model_ok (c : c18case) : bool :=
  match c with
  | VHist t steps => forallb (vobs_ok v_step t) steps
  | _ => c18_spec_ok c
  end.
