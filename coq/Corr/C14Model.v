From NV Require Import Common.Py Common.Trans Spec.TimeSpec Gen.BintimeGen Model.Calendar Model.Convert
  Model.DateTimeFields Model.Text Corr.C14Spec.
Open Scope Z_scope.

Definition f9_eqb (a b : fields9) : bool :=
  let '(a1, a2, a3, a4, a5, a6, a7, a8, a9) := a in let '(b1, b2, b3, b4, b5, b6, b7, b8, b9) := b in
  (a1 =? b1) && (a2 =? b2) && (a3 =? b3) && (a4 =? b4) && (a5 =? b5) && (a6 =? b6) && (a7 =? b7) && (a8 =? b8) && (a9 =? b9).

Definition model_fields (t : Z) : fields9 :=
  let '(y, mo, d) := dt_ymd t in
  (y, mo, d, dt_hour t, dt_minute t, dt_second t, dt_microsecond t, dt_femtosecond t, dt_yoctosecond t).

Definition c14_model_ok (c : c14case) : bool :=
  match c with
  | TdFields t days secs us fs ys =>
      (days =? td_days t) && (secs =? td_seconds t) && (us =? td_microseconds t)
      && (fs =? td_femtoseconds t) && (ys =? td_yoctoseconds t)
  | TdStr t d h m s f text =>
      let '(d', h', m', s', f') := td_str_parts t in
      list_eqb text (render_td d' h' m' s' f') && (d =? d') && (h =? h') && (m =? m') && (s =? s') && (f =? f')
  | DtFields t f tz => tz && f9_eqb f (model_fields t)
  | DtFromFields f out =>
      let '(y, mo, d, h, mi, s, us, fs, ys) := f in
      res_eqb Z.eqb out (dt_of_fields y mo d h mi s us fs ys)
  | DtRepr t out => res_eqb Z.eqb out (Ok t)
  | DtStr t f text =>
      let '(y, mo, d, h, mi, s, us, fs, ys) := model_fields t in
      list_eqb text (render_dt y mo d h mi s us fs ys) && f9_eqb f (model_fields t)
  | Ordinal _ _ _ _ => c14_spec_ok c
  end.
