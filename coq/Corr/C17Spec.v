From NV Require Import Common.Py Spec.ListSpec Model.TimeArray.
Open Scope Z_scope.

(* one observed step: state before, operation, what the implementation answered and its state after,
   and (for well-typed operations) what a real Python list answered and its state after *)
Record obs := {
  o_pre : list Z; o_op : aop;
  o_res : res out; o_post : list Z;
  o_list : option (res out * list Z)
}.
Inductive c17case := Hist (is_dt : bool) (steps : list obs).

Definition out_eqb (a b : out) : bool :=
  match a, b with
  | ONone, ONone => true
  | OVal x, OVal y => x =? y
  | OList x, OList y => list_eqb Z.eqb x y
  | OInt x, OInt y => x =? y
  | _, _ => false
  end.
Definition rout_eqb (a b : res out) : bool :=
  match a, b with Ok x, Ok y => out_eqb x y | Raise x, Raise y => exn_isa x y | _, _ => false end.

Definition obs_ok (f : list Z -> aop -> res out * list Z) (o : obs) : bool :=
  let '(r, post) := f (o_pre o) (o_op o) in
  rout_eqb (o_res o) r && list_eqb Z.eqb (o_post o) post
  && match o_list o with
     | Some (lr, lpost) => rout_eqb lr r && list_eqb Z.eqb lpost post
     | None => true
     end.

Definition c17_spec_ok (c : c17case) : bool := match c with Hist _ steps => forallb (obs_ok spec_step) steps end.
