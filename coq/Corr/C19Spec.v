From NV Require Import Common.Py Model.Scalar.
Open Scope Z_scope.

Definition pval_eqb (a b : pval) : bool :=
  match a, b with PStr x, PStr y => x =? y | PNonStr, PNonStr => true | _, _ => false end.
Definition opv_eqb (a b : option pval) : bool :=
  match a, b with Some x, Some y => pval_eqb x y | None, None => true | _, _ => false end.

(* one observed write: the dictionary content of the keys of interest before, the operation, its
   outcome, and afterwards BOTH views of every key: attribute value and dictionary entry *)
Record uobs := {
  uo_pre : props; uo_op : uop; uo_res : res unit;
  uo_attrs : list (Z * pval);            (* (key, value read through the attribute) *)
  uo_dict : list (Z * option pval)       (* (key, extended_properties.get(key)) *)
}.

Inductive c19case :=
| UnitsHist (cls : Z) (steps : list uobs)
| CtorUnits (cls : Z) (k : Z) (units : pval) (ext : props) (out : res pval)       (* resulting units attribute *)
| ScalarCmp (v1 : sv) (u1 : Z) (v2 : sv) (u2 : Z) (eq ne : bool) (lt le gt ge : res bool)
| ScalarInit (v : sv) (out : res unit)
| XYCtor (x y : arrd) (out : res unit)
| XYFactory (x y : arrd) (out : res unit)        (* XYData.from_arrays_1d(x, y) with no dtype: the same acceptance, its own validation order *)
| XYEq (same_x same_y same_xu same_yu : bool) (eq : bool).

Definition rb_ok (got want : res bool) (alt : option exn) : bool :=
  match got, want with
  | Ok a, Ok b => Bool.eqb a b
  | Raise e, Raise e' => exn_isa e e' || match alt with Some e2 => exn_isa e e2 | None => false end
  | _, _ => false
  end.

Definition uobs_ok (o : uobs) : bool :=
  let '(r, post) := u_step (uo_pre o) (uo_op o) in
  (match uo_res o, r with Ok _, Ok _ => true | Raise e, Raise e' => exn_isa e e' | _, _ => false end)
  && forallb (fun kv => pval_eqb (snd kv) (attr_get post (fst kv))) (uo_attrs o)
  && forallb (fun kv => opv_eqb (snd kv) (p_get post (fst kv))) (uo_dict o).

Definition both_apply (v1 : sv) (v2 : sv) : bool :=
  match v1, v2 with VNum _, VStr _ | VStr _, VNum _ => true | _, _ => false end.

Definition c19_spec_ok (c : c19case) : bool :=
  match c with
  | UnitsHist _ steps => forallb uobs_ok steps
  | CtorUnits _ k units ext out =>
      match ctor_units units ext k, out with
      | Ok p, Ok v => pval_eqb v (attr_get p k)
      | Raise e', Raise e => exn_isa e e'
      | _, _ => false
      end
  | ScalarCmp v1 u1 v2 u2 eq ne lt le gt ge =>
      (* when the units differ AND the kinds differ, either error is allowed *)
      let alt := if negb (u1 =? u2) && both_apply v1 v2 then Some TypeError else None in
      Bool.eqb eq (scalar_eq v1 u1 v2 u2) && Bool.eqb ne (negb (scalar_eq v1 u1 v2 u2))
      && rb_ok lt (scalar_cmp OLt v1 u1 v2 u2) alt && rb_ok le (scalar_cmp OLe v1 u1 v2 u2) alt
      && rb_ok gt (scalar_cmp OGt v1 u1 v2 u2) alt && rb_ok ge (scalar_cmp OGe v1 u1 v2 u2) alt
  | ScalarInit v out =>
      match scalar_init v, out with Ok _, Ok _ => true | Raise e', Raise e => exn_isa e e' | _, _ => false end
  | XYCtor x y out =>
      match xy_init x y, out with
      | Ok _, Ok _ => true
      | Raise _, Raise e => exn_isa e TypeError || exn_isa e ValueError
      | _, _ => false
      end
  | XYFactory x y out =>
      match xy_init x y, out with
      | Ok _, Ok _ => true
      | Raise _, Raise e => exn_isa e TypeError || exn_isa e ValueError
      | _, _ => false
      end
  | XYEq sx sy sxu syu eq => Bool.eqb eq (sx && sy && sxu && syu)
  end.
