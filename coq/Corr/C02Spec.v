(* Corr/C02Spec.v — correspondence cases for C02 and the property-strength oracle (spec side).
   A case carries the inputs given to the real implementation and what it answered. *)
From NV Require Import Common.Py Spec.TimeSpec Model.PickleInt.
Open Scope Z_scope.

Inductive c02case :=
| FromTicks (is_dt : bool) (t : Z) (out : res Z)           (* X.from_ticks(t).ticks *)
| FromTuple (is_dt : bool) (w f : Z) (out : res Z)         (* X.from_tuple(TimeValueTuple(w,f)).ticks *)
| ToTuple (is_dt : bool) (t w f : Z)                       (* X.from_ticks(t).to_tuple() *)
| FromOffset (t : Z) (out : res Z)                         (* DateTime.from_offset(TimeDelta.from_ticks(t)).ticks *)
| ArrayBytes (is_dt : bool) (l : list Z) (bytes : list Z)  (* XArray([...])._array.tobytes() *)
| ArrayItems (is_dt : bool) (l : list Z) (out : list Z)    (* [x.ticks for x in XArray([...])] after set/get/slice paths *)
| Pickle (is_dt : bool) (t : Z) (out : res Z)              (* pickle/deepcopy round trip .ticks *)
| PickleInt (t : Z) (bytes : list Z).                      (* the int opcode, with its argument bytes, found in pickle.dumps(X.from_ticks(t), protocol) *)

Definition rz_eqb := res_eqb Z.eqb.

Definition c02_spec_ok (c : c02case) : bool :=
  match c with
  | FromTicks _ t out => rz_eqb out (spec_from_ticks t)
  | FromTuple _ w f out => rz_eqb out (spec_from_tuple w f)
  | ToTuple _ t w f => zpair_eqb (w, f) (spec_to_tuple t)
  | FromOffset t out => rz_eqb out (spec_from_ticks t)
  | ArrayBytes _ l bytes => list_eqb Z.eqb bytes (concat (map spec_record l))
  | ArrayItems _ l out => list_eqb Z.eqb out l
  | Pickle _ t out => rz_eqb out (spec_from_ticks t)
  | PickleInt t bytes => list_eqb Z.eqb bytes (save_int t) && match load_int bytes with Some v => v =? t | None => false end
  end.
