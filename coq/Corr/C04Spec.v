(* Corr/C04Spec.v — correspondence cases and the property-strength oracle for C04 (time conversions).
   A value of family Dt/Ht/Bt is the exact integer count of microseconds / yoctoseconds / ticks;
   datetimes are (wall-clock) offsets from 1904-01-01T00:00:00. *)
From NV Require Import Common.Py Spec.TimeSpec.
Open Scope Z_scope.

Inductive fam := Dt | Ht | Bt.
Definition fam_eqb (a b : fam) : bool := match a, b with Dt, Dt | Ht, Ht | Bt, Bt => true | _, _ => false end.
Definition ups (f : fam) : Z :=   (* units per second *)
  match f with Dt => 1000000 | Ht => 1000000000000000000000000 | Bt => T64 end.

(* tzinfo kinds: 0 naive, 1 datetime.timezone.utc, 2 a non-UTC zone, 3 another tzinfo equal to UTC *)
Record ratio := { r_num : Z; r_e2 : Z; r_e10 : Z }.   (* num * 2^e2 * 10^e10 *)

Inductive c04case :=
| ConvTd (src dst : fam) (v : Z) (out : res Z) (same_object : bool)
| ConvDtm (src dst : fam) (v tz fold : Z) (out : res (Z * Z * Z)) (same_object : bool)
| Mono (dtm : bool) (src dst : fam) (a b : Z) (ra rb : res Z)
| RoundTrip (dtm : bool) (a b : fam) (v : Z) (out : res Z)       (* a -> b -> a *)
| CtorInt (n : Z) (out : res Z)
| CtorRat (x : ratio) (out : res Z)                                (* TimeDelta(float | Decimal) *)
| CtorNonFinite (out : res Z)                                      (* NaN / infinity must raise *)
| PrecRound (t : Z) (out : res Z)                                  (* TimeDelta(x.precision_total_seconds()).ticks *)
| TotalSeconds (t : Z) (m e : Z)                                   (* x.total_seconds() = m * 2^e exactly *)
| TimingShape (mode has_ts has_off has_si n_tss : Z) (mode' has_ts' has_off' has_si' n_tss' : Z) (fams_ok same_object want_same : bool).

(* ranges of the destination types, in their own units *)
Definition TD_LO_US : Z := -999999999 * 86400 * 1000000.
Definition TD_HI_US : Z := 999999999 * 86400 * 1000000 + 86400 * 1000000 - 1.
Definition DTM_LO_US : Z := -60052752000 * 1000000.                       (* 0001-01-01T00:00:00 *)
Definition DTM_HI_US : Z := 255485145599 * 1000000 + 999999.              (* 9999-12-31T23:59:59.999999 *)
Definition AS18 : Z := 1000000000000000000.

Definition range_of (dtm : bool) (f : fam) : Z * Z :=
  match f with
  | Bt => (MIN128, MAX128)
  | Dt => if dtm then (DTM_LO_US, DTM_HI_US) else (TD_LO_US, TD_HI_US)
  | Ht => if dtm then (DTM_LO_US * AS18, DTM_HI_US * AS18 + AS18 - 1) else (TD_LO_US * AS18, TD_HI_US * AS18 + AS18 - 1)
  end.

(* the conversion v (src units) -> r (dst units):
   strictly less than one unit of the coarser resolution away from the exact value, exact when the
   source is representable, inside the destination range; OverflowError only when the exact value is
   not (comfortably) inside that range *)
Definition conv_value_ok (dtm : bool) (src dst : fam) (v : Z) (out : res Z) : bool :=
  let us := ups src in let ud := ups dst in
  let '(lo, hi) := range_of dtm dst in
  match out with
  | Ok r =>
      (lo <=? r) && (r <=? hi)
      && (Z.abs (r * us - v * ud) <? Z.max us ud)
      && (if (v * ud) mod us =? 0 then r * us =? v * ud else true)
  | Raise OverflowError => (v * ud <? (lo + 1) * us) || ((hi - 1) * us <? v * ud)
  | Raise _ => false
  end.

Definition is_utc (tz : Z) : bool := (tz =? 1) || (tz =? 3).

Definition conv_dtm_ok (src dst : fam) (v tz fold : Z) (out : res (Z * Z * Z)) (same : bool) : bool :=
  if fam_eqb src dst then
    match out with Ok (r, tz', fold') => same && (r =? v) && (tz' =? tz) && (fold' =? fold) | _ => false end
  else match dst with
  | Bt => if is_utc tz
          then match out with
               | Ok (r, tz', _) => conv_value_ok true src dst v (Ok r) && (tz' =? 1)
               | Raise e => conv_value_ok true src dst v (Raise e) end
          else match out with Raise ValueError => true | _ => false end
  | _ => match src with
         | Bt => match out with
                 | Ok (r, tz', fold') => conv_value_ok true src dst v (Ok r) && (tz' =? 1) && (fold' =? 0)
                 | Raise e => conv_value_ok true src dst v (Raise e) end
         | _ => match out with
                | Ok (r, tz', fold') => conv_value_ok true src dst v (Ok r) && (tz' =? tz) && (fold' =? fold)
                | Raise e => conv_value_ok true src dst v (Raise e) end
         end
  end.

Definition pow_pos_part (b e : Z) : Z := if 0 <=? e then b ^ e else 1.
Definition pow_neg_part (b e : Z) : Z := if e <? 0 then b ^ (- e) else 1.
Definition ratio_num (x : ratio) : Z := r_num x * pow_pos_part 2 (r_e2 x) * pow_pos_part 10 (r_e10 x).
Definition ratio_den (x : ratio) : Z := pow_neg_part 2 (r_e2 x) * pow_neg_part 10 (r_e10 x).

(* 2 ulp of a binary64 at the magnitude of |w| (at least 1) *)
Definition ulp2_num_den (w : Z) : Z * Z :=
  let k := Z.log2 (Z.max (Z.abs w) 1) in      (* 2^k <= |w| < 2^(k+1) *)
  if 51 <=? k then (2 ^ (k - 51), 1) else (1, 2 ^ (51 - k)).

Definition c04_spec_ok (c : c04case) : bool :=
  match c with
  | ConvTd src dst v out same =>
      if fam_eqb src dst then match out with Ok r => same && (r =? v) | _ => false end
      else conv_value_ok false src dst v out
  | ConvDtm src dst v tz fold out same => conv_dtm_ok src dst v tz fold out same
  | Mono _ _ _ a b ra rb =>
      match ra, rb with Ok x, Ok y => if a <=? b then x <=? y else y <=? x | _, _ => true end
  | RoundTrip _ _ _ v out => match out with Ok r => r =? v | Raise _ => false end
  | CtorInt n out => res_eqb Z.eqb out (spec_from_ticks (n * T64))
  | CtorRat x out =>
      let n := ratio_num x in let d := ratio_den x in
      match out with
      | Ok r => in128 r && (2 * Z.abs (r * d - n * T64) <=? d)        (* nearest tick *)
      | Raise OverflowError => (n * T64 <? (MIN128 + 1) * d) || ((MAX128 - 1) * d <? n * T64)
      | Raise _ => false
      end
  | CtorNonFinite out => match out with Raise _ => true | Ok _ => false end
  | PrecRound t out => match out with Ok r => r =? t | Raise _ => false end
  | TotalSeconds t m e =>
      let '(un, ud) := ulp2_num_den (t / T64) in
      (* |m*2^e - t/2^64| <= un/ud *)
      let num := m * pow_pos_part 2 e in let den := pow_neg_part 2 e in
      Z.abs (num * T64 - t * den) * ud <=? un * den * T64
  | TimingShape mode ts off si n mode' ts' off' si' n' fams same want_same =>
      (mode =? mode') && (ts =? ts') && (off =? off') && (si =? si') && (n =? n') && fams
      && (if want_same then same else true)
  end.
