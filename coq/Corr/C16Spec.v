From NV Require Import Common.Py Spec.StateSpec.
From Coq Require Import String Ascii.
Open Scope Z_scope.

Inductive c16case :=
| TestCase (a e : dwf) (start estart count : option Z) (out : res (list failure)) (success : bool)
| StatePair (a b : Z) (out : res bool)          (* DigitalState.test(a, b) *)
| ToChar (s : Z) (out : res Z)                   (* ord(DigitalState.to_char(s)) *)
| FromChar (c : Z) (out : res Z).                (* DigitalState.from_char(chr(c)) *)

Definition rfail_eqb := res_eqb (list_eqb failure_eqb).
Definition is_nil {A} (l : list A) : bool := match l with [] => true | _ => false end.

Definition spec_state_pair (a b : Z) : res bool :=
  if is_state a && is_state b then Ok (negb (compatible a b)) else Raise ValueError.

Fixpoint sidx (c : Z) (s : string) (i : Z) : option Z :=
  match s with EmptyString => None
  | String d s' => if Z.of_nat (nat_of_ascii d) =? c then Some i else sidx c s' (i + 1) end.

Definition c16_spec_ok (c : c16case) : bool :=
  match c with
  | TestCase a e s es n out success =>
      match out, spec_test a e s es n with
      | Ok l, Ok l' => list_eqb failure_eqb l l' && Bool.eqb success (is_nil l')
      | Raise x, Raise y => exn_isa x y
      | _, _ => false
      end
  | StatePair a b out => match out, spec_state_pair a b with
                         | Ok x, Ok y => Bool.eqb x y | Raise x, Raise y => exn_isa x y | _, _ => false end
  | ToChar s out =>
      if is_state s then match out, String.get (Z.to_nat s) spec_chars with
                         | Ok c, Some d => c =? Z.of_nat (nat_of_ascii d) | _, _ => false end
      else match out with Raise KeyError => true | _ => false end
  | FromChar c out =>
      match sidx c spec_chars 0, out with
      | Some i, Ok j => i =? j
      | None, Raise KeyError => true
      | _, _ => false
      end
  end.
