(* Corr/C02Model.v — the same cases against the regenerated / hand-written model. *)
From NV Require Import Common.Py Common.Trans Spec.TimeSpec Gen.BintimeGen Model.Cvi Corr.C02Spec.
Open Scope Z_scope.

Definition ok_list (l : list (res Z)) : list Z :=
  flat_map (fun r => match r with Ok z => [z] | Raise _ => [] end) l.

Definition c02_model_ok (c : c02case) : bool :=
  match c with
  | FromTicks false t out => rz_eqb out (td_from_ticks t)
  | FromTicks true t out => rz_eqb out (dt_from_ticks t)
  | FromTuple false w f out => rz_eqb out (td_from_tuple w f)
  | FromTuple true w f out => rz_eqb out (dt_from_tuple w f)
  | ToTuple _ t w f => zpair_eqb (w, f) (td_to_tuple t)
  | FromOffset t out => rz_eqb out (do o <- td_from_ticks t; Ok (dt_from_offset o))
  | ArrayBytes _ l bytes => list_eqb Z.eqb bytes (concat (arr_of_list l))
  | ArrayItems _ l out => list_eqb Z.eqb out (ok_list (arr_to_list (arr_of_list l)))
  | Pickle false t out => rz_eqb out (do x <- td_from_ticks t; td_unpickle x)
  | Pickle true t out => rz_eqb out (do x <- dt_from_ticks t; dt_unpickle x)
  | PickleInt _ _ => c02_spec_ok c
  end.
