From NV Require Import Common.Py Spec.TimingSpec Spec.ListSpec Spec.BufSpec Model.Timing Model.Waveform Model.Vector Model.Pickle.
Open Scope Z_scope.

(* an observable snapshot: a tree of integers (type tags, code points, float bit patterns, ticks) *)
Inductive snap := SZ (z : Z) | SL (l : list snap).
Fixpoint snap_eqb (a b : snap) : bool :=
  match a, b with
  | SZ x, SZ y => x =? y
  | SL l, SL m => (fix go (l m : list snap) : bool :=
                     match l, m with
                     | [], [] => true
                     | x :: l', y :: m' => snap_eqb x y && go l' m'
                     | _, _ => false
                     end) l m
  | _, _ => false
  end.

Definition sval_eqb13 (a b : sval) : bool :=
  match a, b with
  | SBool x, SBool y => Bool.eqb x y | SInt x, SInt y => x =? y | SFloat x, SFloat y => x =? y
  | SStr x, SStr y => x =? y | SOther, SOther => true | _, _ => false end.
Definition vty_eqb13 (a b : vty) : bool :=
  match a, b with TBool, TBool | TInt, TInt | TFloat, TFloat | TStr, TStr => true | _, _ => false end.

Inductive c13case :=
(* any type: observable state of the original and of the copy; of the original after the copy was
   mutated; of the copy after the original was mutated; results of ==, type identity, ... *)
| PGen (tag : Z) (orig copy orig_after copy_after : snap) (flags : list bool)
(* waveforms in pool-model terms: the object and its copy, and the result of == *)
| PWfm (o copy : obj) (eq : bool)
(* two objects built to have the same observable state but different slack, and the result of == *)
| PSlack (a b : obj) (eq : bool)
| PTiming (t copy : timing) (eq : bool)
| PVec (t : vty) (l : list sval) (t' : vty) (l' : list sval)
| PAll (l : list c13case).

Fixpoint c13_spec_ok (c : c13case) : bool :=
  match c with
  | PGen _ orig copy orig_after copy_after flags =>
      snap_eqb orig copy && snap_eqb orig orig_after && snap_eqb copy copy_after && forallb (fun b => b) flags
  | PWfm o copy eq =>
      eq && kind_eqb (o_kind o) (o_kind copy) && (o_dtype o =? o_dtype copy) && rows_eqb (view o) (view copy)
      && Nat.eqb (o_ncols o) (o_ncols copy) && Nat.eqb (o_count o) (o_count copy)
      && timing_same (o_timing o) (o_timing copy) && (o_scale o =? o_scale copy) && props_same (o_props o) (o_props copy)
  | PSlack a b eq => Bool.eqb eq (wf_eqb a b) && eq
  | PTiming t copy eq => eq && timing_same t copy
  | PVec t l t' l' => vty_eqb13 t t' && list_eqb sval_eqb13 l l'
  | PAll l => forallb c13_spec_ok l
  end.
