From NV Require Import Common.Py Spec.TimeSpec Model.Complex Corr.C05Spec.
Open Scope Z_scope.

Definition opt_pair (p : option Z * option Z) : Z * Z :=
  (match fst p with Some z => z | None => 0 end, match snd p with Some z => z | None => 0 end).

Definition model_convert (src dst : Z) (input : cvalue) : option cvalue :=
  match src, dst, input with
  | 0, (1 | 2), CInts l => Some (CFloats (ci32_to_complex l))
  | (1 | 2), 0, CFloats l =>
      if forallb (fun p => part_in_range (fst p) && part_in_range (snd p)) l
      then Some (CInts (map opt_pair (complex_to_ci32 l))) else None
  | _, _, _ => spec_convert src dst input
  end.

Definition c05_model_ok (c : c05case) : bool :=
  match c with
  | Convert src dst shape input out =>
      if (dst <? 0) || (2 <? dst) then match out with Raise e => exn_isa e TypeError | _ => false end
      else match model_convert src dst input, out with
           | Some want, Ok (shape', got) => list_eqb Z.eqb shape shape' && cvalue_eqb got want
           | None, _ => true
           | Some _, Raise _ => false
           end
  | _ => c05_spec_ok c
  end.
