From NV Require Import Common.Py Spec.TimingSpec Spec.ListSpec Spec.BufSpec Model.Timing Model.Waveform Model.Vector Model.Pickle Corr.C13Spec.
Open Scope Z_scope.

Fixpoint c13_model_ok (c : c13case) : bool :=
  match c with
  | PWfm o copy eq =>
      match wf_pickle o with
      | Ok o' => obj_unchanged o' copy && Bool.eqb eq (wf_eqb o copy)
      | Raise _ => false
      end
  | PTiming t copy eq =>
      match timing_pickle t with Ok t' => timing_same t' copy | Raise _ => false end && Bool.eqb eq (timing_eqb t copy)
  | PVec t l t' l' =>
      match v_pickle {| vt := t; elems := l |} with
      | Ok s => vty_eqb13 (vt s) t' && list_eqb sval_eqb13 (elems s) l'
      | Raise _ => false
      end
  | PAll l => forallb c13_model_ok l
  | _ => c13_spec_ok c
  end.
