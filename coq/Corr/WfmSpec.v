(* Corr/WfmSpec.v — correspondence cases shared by C01, C07, C09, C10: a history of pool operations,
   each step with the snapshot of EVERY pool object before and after, the outcome and the warnings. *)
From NV Require Import Common.Py Spec.TimingSpec Model.Timing Model.Waveform Spec.BufSpec.
Open Scope Z_scope.

Record wobs := { w_pre : pool; w_op : wop; w_res : res wout; w_warn : list warning; w_post : pool }.
Inductive wfmcase :=
| WHist (steps : list wobs)
(* a scenario outside the pool model (e.g. a read-only borrowed buffer): invariant observations made by the harness *)
| WObs (flags : list bool).

Definition wfm_spec_ok (c : wfmcase) : bool :=
  match c with
  | WHist steps => forallb (fun s => spec_step_ok (w_pre s) (w_op s) (w_res s) (w_warn s) (w_post s)) steps
  | WObs flags => forallb (fun b => b) flags
  end.
