(* Corr/C04Model.v — the same cases against Model/Convert.v (built on the regenerated integer pieces). *)
From NV Require Import Common.Py Common.Trans Spec.TimeSpec Gen.BintimeGen Model.Convert Corr.C04Spec.
From NV Require Model.Complex Model.TotalSeconds.
Open Scope Z_scope.

Definition conv_td (src dst : fam) (v : Z) : res Z :=
  match src, dst with
  | Bt, Dt => bt_to_dt_td v | Bt, Ht => bt_to_ht_td v
  | Dt, Bt => dt_to_bt_td v | Ht, Bt => ht_to_bt_td v
  | Ht, Dt => ht_to_dt_td v | Dt, Ht => dt_to_ht_td v
  | _, _ => Ok v
  end.

Definition in_range (dtm : bool) (f : fam) (r : Z) : bool :=
  let '(lo, hi) := range_of dtm f in (lo <=? r) && (r <=? hi).

(* datetimes: the timedelta conversion of the offset, then epoch + offset must be a valid year *)
Definition conv_dtm_value (src dst : fam) (v : Z) : res Z :=
  do r <- conv_td src dst v;
  if in_range true dst r then Ok r else Raise OverflowError.

Definition rzzz_eqb (x y : res (Z * Z * Z)) : bool :=
  res_eqb (fun a b => let '(a1, a2, a3) := a in let '(b1, b2, b3) := b in (a1 =? b1) && (a2 =? b2) && (a3 =? b3)) x y.

Definition conv_dtm (src dst : fam) (v tz fold : Z) : res (Z * Z * Z) :=
  match src, dst with
  | Dt, Dt | Ht, Ht | Bt, Bt => Ok (v, tz, fold)
  | _, Bt => if is_utc tz then do r <- conv_dtm_value src dst v; Ok (r, 1, 0) else Raise ValueError
  | Bt, _ => do r <- conv_dtm_value src dst v; Ok (r, 1, 0)
  | _, _ => do r <- conv_dtm_value src dst v; Ok (r, tz, fold)
  end.

Definition c04_model_ok (c : c04case) : bool :=
  match c with
  | ConvTd src dst v out same => res_eqb Z.eqb out (conv_td src dst v) && (if fam_eqb src dst then same else true)
  | ConvDtm src dst v tz fold out same =>
      match out, conv_dtm src dst v tz fold with
      | Ok (r, tz', fold'), Ok (r2, tz2, fold2) =>
          (r =? r2) && (tz' =? tz2) && ((fold' =? fold2) || match dst with Bt => true | _ => false end)
          && (if fam_eqb src dst then same else true)
      | Raise a, Raise b => exn_eqb a b
      | _, _ => false
      end
  | Mono dtm src dst a b ra rb =>
      res_eqb Z.eqb ra (if dtm then conv_dtm_value src dst a else conv_td src dst a)
      && res_eqb Z.eqb rb (if dtm then conv_dtm_value src dst b else conv_td src dst b)
  | RoundTrip dtm a b v out =>
      res_eqb Z.eqb out (if dtm then (do x <- conv_dtm_value a b v; conv_dtm_value b a x)
                         else (do x <- conv_td a b v; conv_td b a x))
  | CtorInt n out => res_eqb Z.eqb out (ctor_int n)
  | CtorRat x out => res_eqb Z.eqb out (ctor_rat (ratio_num x) (ratio_den x))
  | TotalSeconds t m e =>
      (* bit-exact: three round-to-nearest-even steps *)
      Complex.fpart_eqb (Complex.FNum m e) (TotalSeconds.total_seconds t)
  | CtorNonFinite _ | PrecRound _ _ | TimingShape _ _ _ _ _ _ _ _ _ _ _ _ _ => c04_spec_ok c
  end.
