From NV Require Import Common.Py Spec.TimingSpec Model.Timing Corr.C20Spec.
Open Scope Z_scope.

Definition model_report (t : timing) (r : report) : bool :=
  (r_mode r =? t_mode t)
  && Bool.eqb (r_has_ts r) (has (t_ts t)) && Bool.eqb (r_has_start r) (has (t_ts t))
  && Bool.eqb (r_has_off r) (has (t_off t)) && Bool.eqb (r_has_si r) (has (t_si t))
  && (r_n_tss r =? match t_tss t with Some l => Z.of_nat (length l) | None => -1 end)
  && Bool.eqb (r_read_ts r) (has (t_ts t)) && Bool.eqb (r_read_start r) (has (t_ts t))
  && Bool.eqb (r_read_off r) (has (t_off t)) && Bool.eqb (r_read_si r) (has (t_si t))
  && r_frozen r.

Definition c20_model_ok (c : c20case) : bool :=
  match c with
  | Init mode ts off si tss out =>
      match out, timing_init mode ts off si tss with
      | Ok r, Ok t => model_report t r
      | Raise e, Raise e' => exn_isa e e'
      | _, _ => false
      end
  | EqCase m1 a1 b1 c1 l1 m2 a2 b2 c2 l2 eq ne =>
      let t1 := {| t_mode := m1; t_ts := a1; t_off := b1; t_si := c1; t_tss := l1 |} in
      let t2 := {| t_mode := m2; t_ts := a2; t_off := b2; t_si := c2; t_tss := l2 |} in
      Bool.eqb eq (timing_eqb t1 t2) && Bool.eqb ne (negb (timing_eqb t1 t2))
  | Empty r => match timing_init 0 ANone ANone ANone TNone with Ok t => model_report t r | _ => false end
  end.
