(* Corr/C03Spec.v — correspondence cases and the property-strength oracle for C03. *)
From NV Require Import Common.Py Spec.TimeSpec.
Open Scope Z_scope.

Inductive binop := BAdd | BSub | BRsub | BMod.
Inductive unop := UNeg | UPos | UAbs.

(* a float / Decimal operand as an exact rational  num * 2^e2 * 10^e10  (e2, e10 may be negative) *)
Record ratio := { r_num : Z; r_e2 : Z; r_e10 : Z }.

Inductive c03case :=
| Bin (op : binop) (a b : Z) (out : res Z)              (* TimeDelta op TimeDelta -> TimeDelta.ticks *)
| FloorTD (a b : Z) (out : res Z)                       (* a // b -> int *)
| DivmodTD (a b : Z) (out : res (Z * Z))                (* divmod(a, b) -> (int, ticks) *)
| Recompose (a b : Z) (out : res Z)                     (* (a // b) * b + a % b -> ticks *)
| MulInt (a n : Z) (rev : bool) (out : res Z)           (* a * n, n * a *)
| FloorInt (a n : Z) (out : res Z)                      (* a // n -> TimeDelta *)
| Un (op : unop) (a : Z) (out : res Z)
| Cmp (is_dt : bool) (a b : Z) (lt le eq ne gt ge : bool) (ha hb : Z)   (* six comparisons, hash(a), hash(b) *)
| BoolOf (a : Z) (out : bool)
| DtAddTd (t d : Z) (rev : bool) (out : res Z)          (* DateTime + TimeDelta (or TimeDelta + DateTime) *)
| DtSubTd (t d : Z) (out : res Z)
| DtSubDt (t u : Z) (out : res Z)                       (* DateTime - DateTime -> TimeDelta.ticks *)
(* mixed operands: value within one unit of the result's resolution of the exact rational result *)
| MulRat (a : Z) (x : ratio) (out : res Z)              (* a * float / a * Decimal -> TimeDelta.ticks *)
| Mix (sub rev : bool) (a : Z) (n unit_n : Z) (out : res Z) (unit_r lo hi : Z)
    (* bintime value a (ticks) +- a datetime/hightime value given exactly as n/unit_n seconds (rev: other - a);
       result out/unit_r seconds, which must lie in [lo, hi] units and within one unit of the exact value *)
| MixCmp (lt eq gt lt' eq' gt' : bool) (differs : Z)
    (* x ? y and the swapped y ? x for a bintime value against a datetime/hightime value; differs = 1 when a
       second object holding the same tick value (reached without the history) answered any of the six differently *)
.

Definition rz_eqb := res_eqb Z.eqb.
Definition rzz_eqb := res_eqb zpair_eqb.

Definition binop_fn (op : binop) (a b : Z) : res Z :=
  match op with
  | BAdd => spec_from_ticks (a + b)
  | BSub => spec_from_ticks (a - b)
  | BRsub => spec_from_ticks (b - a)
  | BMod => spec_mod a b
  end.

Definition pow_pos_part (b e : Z) : Z := if 0 <=? e then b ^ e else 1.
Definition pow_neg_part (b e : Z) : Z := if e <? 0 then b ^ (- e) else 1.

(* |out - a * x| <= 1 tick, or OverflowError when the exact product is not within 1 tick of the range *)
Definition mulrat_ok (a : Z) (x : ratio) (out : res Z) : bool :=
  let num := a * r_num x * pow_pos_part 2 (r_e2 x) * pow_pos_part 10 (r_e10 x) in
  let den := pow_neg_part 2 (r_e2 x) * pow_neg_part 10 (r_e10 x) in
  match out with
  | Ok r => in128 r && (Z.abs (r * den - num) <=? den)
  | Raise OverflowError => (num <? (MIN128 + 1) * den) || ((MAX128 - 1) * den <? num)
  | Raise _ => false
  end.

(* x = a/2^64, y = n/unit_n, E = x +- y; |out/unit_r - E| <= 1/unit_r, everything scaled by D = 2^64*unit_n *)
Definition mix_ok (sub rev : bool) (a n unit_n : Z) (out : res Z) (unit_r lo hi : Z) : bool :=
  let D := T64 * unit_n in
  let x := a * unit_n in
  let y := n * T64 in
  let E := unit_r * (if sub then (if rev then y - x else x - y) else x + y) in
  match out with
  | Ok r => (lo <=? r) && (r <=? hi) && (Z.abs (r * D - E) <=? D)
  | Raise OverflowError => (E <? (lo + 1) * D) || ((hi - 1) * D <? E)
  | Raise _ => false
  end.

Definition one_of3 (a b c : bool) : bool :=
  (a && negb b && negb c) || (negb a && b && negb c) || (negb a && negb b && c).

Definition c03_spec_ok (c : c03case) : bool :=
  match c with
  | Bin op a b out => rz_eqb out (binop_fn op a b)
  | FloorTD a b out => rz_eqb out (spec_floordiv a b)
  | DivmodTD a b out => rzz_eqb out (do q <- spec_floordiv a b; do r <- spec_mod a b; Ok (q, r))
  | Recompose a b out =>
      rz_eqb out (do q <- spec_floordiv a b; do p <- spec_from_ticks (q * b); do r <- spec_mod a b; spec_from_ticks (p + r))
  | MulInt a n _ out => rz_eqb out (spec_from_ticks (a * n))
  | FloorInt a n out => rz_eqb out (if n =? 0 then Raise ZeroDivisionError else spec_from_ticks (a / n))
  | Un UNeg a out => rz_eqb out (spec_from_ticks (- a))
  | Un UPos a out => rz_eqb out (Ok a)
  | Un UAbs a out => rz_eqb out (spec_from_ticks (Z.abs a))
  | Cmp _ a b lt le eq ne gt ge ha hb =>
      Bool.eqb lt (a <? b) && Bool.eqb le (a <=? b) && Bool.eqb eq (a =? b) && Bool.eqb ne (negb (a =? b))
      && Bool.eqb gt (b <? a) && Bool.eqb ge (b <=? a) && (if a =? b then ha =? hb else true)
  | BoolOf a out => Bool.eqb out (negb (a =? 0))
  | DtAddTd t d _ out => rz_eqb out (spec_from_ticks (t + d))
  | DtSubTd t d out => rz_eqb out (spec_from_ticks (t - d))
  | DtSubDt t u out => rz_eqb out (spec_from_ticks (t - u))
  | MulRat a x out => mulrat_ok a x out
  | Mix sub rev a n unit_n out unit_r lo hi => mix_ok sub rev a n unit_n out unit_r lo hi
  | MixCmp lt eq gt lt' eq' gt' differs =>
      one_of3 lt eq gt && Bool.eqb lt gt' && Bool.eqb gt lt' && Bool.eqb eq eq'
      && (differs =? 0)
  end.
