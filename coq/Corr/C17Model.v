From NV Require Import Common.Py Spec.ListSpec Model.TimeArray Corr.C17Spec.
Open Scope Z_scope.
Definition c17_model_ok (c : c17case) : bool := match c with Hist _ steps => forallb (obs_ok step) steps end.
