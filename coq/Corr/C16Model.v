From NV Require Import Common.Py Common.Trans Spec.StateSpec Gen.StateGen Model.DigitalTest Corr.C16Spec.
From Coq Require Import String Ascii.
Open Scope Z_scope.

Definition model_state_pair (a b : Z) : res bool :=
  do x <- digital_state a; do y <- digital_state b; Ok (state_test x y).

Definition c16_model_ok (c : c16case) : bool :=
  match c with
  | TestCase a e s es n out success =>
      match out, wf_test a e s es n with
      | Ok l, Ok l' => list_eqb failure_eqb l l' && Bool.eqb success (is_nil l')
      | Raise x, Raise y => exn_isa x y
      | _, _ => false
      end
  | StatePair a b out => match out, model_state_pair a b with
                         | Ok x, Ok y => Bool.eqb x y | Raise x, Raise y => exn_isa x y | _, _ => false end
  | ToChar s out =>
      match out, to_char s with
      | Ok c, Ok d => c =? Z.of_nat (nat_of_ascii d)
      | Raise KeyError, Raise _ => true
      | _, _ => false end
  | FromChar c out =>
      if (0 <=? c) && (c <? 256) then
        match out, from_char (ascii_of_nat (Z.to_nat c)) with
        | Ok i, Ok j => i =? j | Raise x, Raise y => exn_eqb x y | _, _ => false end
      else match out with Raise KeyError => true | _ => false end
  end.
