From NV Require Import Common.Py Model.Names Corr.C15Spec.
Open Scope Z_scope.

(* run the model along the observed history: results and property values must agree step by step *)
Fixpoint nmodel_run (st : nstate) (steps : list nobs) : bool :=
  match steps with
  | [] => true
  | o :: rest =>
      ostr_eqb (n_prop st) (no_pre o) &&
      let '(r, st') := nstep st (no_op o) in
      rnout_eqb (no_res o) r && ostr_eqb (n_prop st') (no_post o) && nmodel_run st' rest
  end.

Definition c15_model_ok (c : c15case) : bool :=
  match c with
  | NHist n steps =>
      match steps with
      | [] => true
      | o :: _ => nmodel_run {| n_cols := n; n_prop := no_pre o; n_cache := None |} steps
      end
  | _ => c15_spec_ok c
  end.
