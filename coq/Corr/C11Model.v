From NV Require Import Common.Py Model.Complex Model.Waveform Model.Scaling Corr.C11Spec.
Open Scope Z_scope.
(* the model is bit-exact: every element equals the two-rounding computation *)
Definition elem_model_ok (f : fmt) (s : smode) (x y : celem) : bool :=
  let z := scale_elem f s x in
  fpart_eqb (fst y) (fst z) &&
  (fpart_eqb (snd y) (snd z)
   (* analog samples are sent with an imaginary part 0 that does not exist in the code *)
   || (fpart_eqb (snd x) (FNum 0 0) && fpart_eqb (snd y) (FNum 0 0))).
Definition c11_model_ok (c : c11case) : bool := c11_check elem_model_ok c.
