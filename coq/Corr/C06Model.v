From NV Require Import Common.Py Common.Trans Spec.PortSpec Gen.PortGen Model.Port Corr.C06Spec.
Open Scope Z_scope.

Definition c06_model_ok (c : c06case) : bool :=
  match c with
  | FromPort is_array w_array mask big values start count out signals_ok =>
      match from_port is_array (Z.to_nat w_array) mask big values, out with
      | Ok rows, _ =>
          match window (map row_z rows) start count, out with
          | Some w, Ok got => list_eqb (list_eqb Z.eqb) got w && signals_ok
          | None, Raise e => exn_isa e ValueError
          | _, _ => false
          end
      | Raise e', Raise e => exn_isa e e' || (exn_eqb e' OverflowError)
      | _, _ => false
      end
  | PortMem k big v mem_le mem_be row_le row_be =>
      (* the value-level model of Model/Port.v on the same value *)
      list_eqb Z.eqb row_le (row_z (full_row big (8 * k) v)) && list_eqb Z.eqb row_be (row_z (full_row big (8 * k) v))
  | PortsShort _ _ _ => c06_spec_ok c
  | PortDtype mask out =>
      if mask <? 0 then c06_spec_ok c else
      match port_dtype_bits mask, out with
      | Ok b, Ok b' => b =? b' | Raise e', Raise e => exn_isa e e' | _, _ => false end
  end.
