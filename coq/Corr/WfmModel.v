From NV Require Import Common.Py Spec.TimingSpec Model.Timing Model.Waveform Spec.BufSpec Corr.WfmSpec.
Open Scope Z_scope.

(* exact comparison with the model: full buffers (slack included), resizability, error class *)
Definition obj_exact (a b : obj) : bool :=
  kind_eqb (o_kind a) (o_kind b) && (o_dtype a =? o_dtype b) && rows_eqb (o_rows a) (o_rows b)
  && Nat.eqb (o_ncols a) (o_ncols b) && Nat.eqb (o_start a) (o_start b) && Nat.eqb (o_count a) (o_count b)
  && Bool.eqb (o_resizable a) (o_resizable b) && timing_same (o_timing a) (o_timing b) && (o_scale a =? o_scale b)
  && props_same (o_props a) (o_props b).
Definition wout_eqb (a b : wout) : bool :=
  match a, b with WNone, WNone => true | WRows x, WRows y => rows_eqb x y | _, _ => false end.
Definition warn_eqb (a b : warning) : bool := match a, b with WTiming, WTiming | WScaling, WScaling => true | _, _ => false end.

Definition wobs_model_ok (s : wobs) : bool :=
  let '(post, r, ws) := pstep (w_pre s) (w_op s) in
  list_eqb obj_exact (w_post s) post
  && match w_res s, r with
     | Ok a, Ok b => wout_eqb a b && list_eqb warn_eqb (w_warn s) ws
     | Raise e, Raise e' => exn_isa e e'
     | _, _ => false
     end.
Definition wfm_model_ok (c : wfmcase) : bool :=
  match c with WHist steps => forallb wobs_model_ok steps | WObs flags => forallb (fun b => b) flags end.
