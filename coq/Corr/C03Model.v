(* Corr/C03Model.v — the same cases against the regenerated operators. Mixed-operand cases
   (float/Decimal/datetime/hightime) are judged by the bound of the spec only: their Decimal /
   hightime arithmetic is modelled in Model/Convert.v under C04. *)
From NV Require Import Common.Py Common.Trans Spec.TimeSpec Gen.BintimeGen Corr.C03Spec.
Open Scope Z_scope.

Definition c03_model_ok (c : c03case) : bool :=
  match c with
  | Bin BAdd a b out => rz_eqb out (td_add a b)
  | Bin BSub a b out => rz_eqb out (td_sub a b)
  | Bin BRsub a b out => rz_eqb out (td_rsub a b)
  | Bin BMod a b out => rz_eqb out (td_mod a b)
  | FloorTD a b out => rz_eqb out (td_floordiv_td a b)
  | DivmodTD a b out => rzz_eqb out (td_divmod a b)
  | Recompose a b out => rz_eqb out (do q <- td_floordiv_td a b; do p <- td_mul_int b q; do r <- td_mod a b; td_add p r)
  | MulInt a n _ out => rz_eqb out (td_mul_int a n)
  | FloorInt a n out => rz_eqb out (td_floordiv_int a n)
  | Un UNeg a out => rz_eqb out (td_neg a)
  | Un UPos a out => rz_eqb out (Ok (td_pos a))
  | Un UAbs a out => rz_eqb out (td_abs a)
  | Cmp false a b lt le eq ne gt ge ha hb =>
      Bool.eqb lt (td_lt a b) && Bool.eqb le (td_le a b) && Bool.eqb eq (td_eq a b) && Bool.eqb ne (negb (td_eq a b))
      && Bool.eqb gt (td_gt a b) && Bool.eqb ge (td_ge a b) && (ha =? td_hash a) && (hb =? td_hash b)
  | Cmp true a b lt le eq ne gt ge ha hb =>
      Bool.eqb lt (dt_lt a b) && Bool.eqb le (dt_le a b) && Bool.eqb eq (dt_eq a b) && Bool.eqb ne (negb (dt_eq a b))
      && Bool.eqb gt (dt_gt a b) && Bool.eqb ge (dt_ge a b) && (ha =? dt_hash a) && (hb =? dt_hash b)
  | BoolOf a out => Bool.eqb out (td_bool a)
  | DtAddTd t d _ out => rz_eqb out (dt_add_td t d)
  | DtSubTd t d out => rz_eqb out (dt_sub_td t d)
  | DtSubDt t u out => rz_eqb out (dt_sub_dt t u)
  | MulRat _ _ _ | Mix _ _ _ _ _ _ _ _ _ | MixCmp _ _ _ _ _ _ _ => c03_spec_ok c
  end.
