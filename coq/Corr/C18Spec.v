From NV Require Import Common.Py Spec.ListSpec Model.Vector.
Open Scope Z_scope.

Definition sval_eqb (a b : sval) : bool :=
  match a, b with
  | SBool x, SBool y => Bool.eqb x y | SInt x, SInt y => x =? y | SFloat x, SFloat y => x =? y
  | SStr x, SStr y => x =? y | SOther, SOther => true | _, _ => false end.
Definition vty_eqb (a b : vty) : bool :=
  match a, b with TBool, TBool | TInt, TInt | TFloat, TFloat | TStr, TStr => true | _, _ => false end.
Definition vout_eqb (a b : vout) : bool :=
  match a, b with
  | RNone, RNone => true | RVal x, RVal y => sval_eqb x y
  | RList x, RList y => list_eqb sval_eqb x y | RInt x, RInt y => x =? y | _, _ => false end.
Definition rvout_eqb (a b : res vout) : bool :=
  match a, b with Ok x, Ok y => vout_eqb x y | Raise x, Raise y => exn_isa x y | _, _ => false end.

Record vobs := {
  vo_pre : list sval; vo_op : vop; vo_res : res vout; vo_post : list sval;
  vo_list : option (res vout * list sval)     (* what a real Python list did, for well-typed operations *)
}.

Inductive c18case :=
| VHist (t : vty) (steps : list vobs)
| VCtor (items : iterarg) (value_type : option vty) (out : res (vty * list sval))
| VEq (l1 : list sval) (u1 : Z) (l2 : list sval) (u2 : Z) (eq : bool)
| VSubclass (first : Z) (items : list Z)      (* classes of the first item and of the items offered after it (constructor or appends):
                                                 0 float, 1 numpy.float64, 2 str, 3 numpy.str_, 4 int, 5 an IntEnum, 6 bool *)
            (accepted vt_is_first : bool) (stored : Z).

(* the property-strength oracle: list semantics for accepted operations; TypeError and nothing stored
   for a wrong-typed value (for extend / += the items before the offending one may have been
   appended — Python's own list.extend keeps them too); reverse = rev; the typed invariant always *)
Definition spec_vstep (s : vec) (op : vop) : res vout * vec :=
  match op with
  | VReverse => (Ok RNone, {| vt := vt s; elems := rev (elems s) |})
  | _ => v_step s op
  end.

Definition is_extend (op : vop) : bool := match op with VExtend _ | VIadd _ => true | _ => false end.

Definition vobs_ok (f : vec -> vop -> res vout * vec) (t : vty) (o : vobs) : bool :=
  let s := {| vt := t; elems := vo_pre o |} in
  let '(r, s') := f s (vo_op o) in
  forallb (instance_of t) (vo_post o)
  && ((rvout_eqb (vo_res o) r && list_eqb sval_eqb (vo_post o) (elems s'))
      || (is_extend (vo_op o) && match vo_res o, r with Raise TypeError, Raise _ => list_eqb sval_eqb (vo_post o) (vo_pre o) | _, _ => false end))
  && match vo_list o with
     | Some (lr, lpost) => rvout_eqb lr r && list_eqb sval_eqb lpost (elems s')
     | None => true
     end.

Definition c18_spec_ok (c : c18case) : bool :=
  match c with
  | VHist t steps => forallb (vobs_ok spec_vstep t) steps
  | VCtor items vtopt out =>
      match out, v_init items vtopt with
      | Ok (t, l), Ok s => vty_eqb t (vt s) && list_eqb sval_eqb l (elems s)
      | Raise e, Raise e' => exn_isa e e'
      | _, _ => false
      end
  | VEq l1 u1 l2 u2 eq => Bool.eqb eq (list_eqb py_eqb l1 l2 && (u1 =? u2))
  | VSubclass first items accepted vt_first stored =>
      (* the value type is the class of the first item - a subclass of float / str / int included - and every other item
         must be an instance of THAT class; nothing of a refused call is stored *)
      let isa (c d : Z) : bool := (c =? d) || ((c =? 1) && (d =? 0)) || ((c =? 3) && (d =? 2)) || ((c =? 5) && (d =? 4)) || ((c =? 6) && (d =? 4)) in
      let want := forallb (fun c => isa c first) items in
      Bool.eqb accepted want && vt_first && (stored =? (if want then len items + 1 else 1))
  end.
