From NV Require Import Common.Py Model.Scalar Corr.C19Spec.
Open Scope Z_scope.
(* model side: exact error class and source-order of checks *)
Definition c19_model_ok (c : c19case) : bool :=
  match c with
  | ScalarCmp v1 u1 v2 u2 eq ne lt le gt ge =>
      Bool.eqb eq (scalar_eq v1 u1 v2 u2)
      && rb_ok lt (scalar_cmp OLt v1 u1 v2 u2) None && rb_ok le (scalar_cmp OLe v1 u1 v2 u2) None
      && rb_ok gt (scalar_cmp OGt v1 u1 v2 u2) None && rb_ok ge (scalar_cmp OGe v1 u1 v2 u2) None
  | XYCtor x y out =>
      match xy_init x y, out with Ok _, Ok _ => true | Raise e', Raise e => exn_isa e e' | _, _ => false end
  | _ => c19_spec_ok c
  end.
