(* Common/Py.v — the conventions every model shares: Python results/exceptions,
   Python integer operations on Z, small list helpers used by the correspondence files. *)
From Coq Require Export ZArith List Bool.
Export ListNotations.
Open Scope Z_scope.

(* Exceptions the properties name.  An implementation exception matches class E iff
   isinstance(exc, E); the harness maps to the most specific class listed here. *)
Inductive exn :=
| TypeError | ValueError | OverflowError | ZeroDivisionError | IndexError | KeyError
| RuntimeError | AttributeError | AssertionError
| TimingMismatchError | DatatypeMismatchError | IrregularTimestampCountMismatchError
| NoTimestampInformationError | SignalCountMismatchError | CapacityMismatchError
| StartIndexError | OtherError.

Definition exn_eqb (a b : exn) : bool :=
  match a, b with
  | TypeError, TypeError | ValueError, ValueError | OverflowError, OverflowError
  | ZeroDivisionError, ZeroDivisionError | IndexError, IndexError | KeyError, KeyError
  | RuntimeError, RuntimeError | AttributeError, AttributeError
  | AssertionError, AssertionError | TimingMismatchError, TimingMismatchError
  | DatatypeMismatchError, DatatypeMismatchError
  | IrregularTimestampCountMismatchError, IrregularTimestampCountMismatchError
  | NoTimestampInformationError, NoTimestampInformationError
  | SignalCountMismatchError, SignalCountMismatchError
  | CapacityMismatchError, CapacityMismatchError
  | StartIndexError, StartIndexError
  | OtherError, OtherError => true
  | _, _ => false
  end.

Lemma exn_eqb_eq a b : exn_eqb a b = true <-> a = b.
Proof. destruct a, b; simpl; split; intro H; try reflexivity; try discriminate. Qed.

(* subclass relation of the nitypes exception classes (nitypes/waveform/errors.py):
   TimingMismatchError(RuntimeError), DatatypeMismatchError(TypeError),
   IrregularTimestampCountMismatchError(ValueError), NoTimestampInformationError(RuntimeError),
   SignalCountMismatchError(ValueError), CapacityMismatchError(ValueError),
   StartIndex...Error(ValueError). *)
Definition exn_parent (e : exn) : option exn :=
  match e with
  | TimingMismatchError | NoTimestampInformationError => Some RuntimeError
  | DatatypeMismatchError => Some TypeError
  | IrregularTimestampCountMismatchError | SignalCountMismatchError
  | CapacityMismatchError | StartIndexError => Some ValueError
  | _ => None
  end.

(* [exn_isa e c]: an exception of class e is an instance of class c *)
Definition exn_isa (e c : exn) : bool :=
  exn_eqb e c || match exn_parent e with Some p => exn_eqb p c | None => false end.

Inductive res (A : Type) := Ok (a : A) | Raise (e : exn).
Arguments Ok {A} a.
Arguments Raise {A} e.

Definition bind {A B} (r : res A) (f : A -> res B) : res B :=
  match r with Ok a => f a | Raise e => Raise e end.
Notation "'do' x <- r ; k" := (bind r (fun x => k)) (at level 200, x pattern, r at level 100, k at level 200).

Definition res_eqb {A} (eqb : A -> A -> bool) (x y : res A) : bool :=
  match x, y with
  | Ok a, Ok b => eqb a b
  | Raise e, Raise f => exn_eqb e f
  | _, _ => false
  end.

(* Python integer operations (PEP 237 unbounded ints) on Z.
   // and % : floor division, remainder takes the sign of the divisor = Z.div / Z.modulo.
   The zero-divisor case is always guarded explicitly by the caller. *)
Definition py_floordiv (a b : Z) : res Z := if b =? 0 then Raise ZeroDivisionError else Ok (a / b).
Definition py_mod (a b : Z) : res Z := if b =? 0 then Raise ZeroDivisionError else Ok (a mod b).

Definition zpair_eqb (x y : Z * Z) : bool := (fst x =? fst y) && (snd x =? snd y).

Fixpoint list_eqb {A} (eqb : A -> A -> bool) (l1 l2 : list A) : bool :=
  match l1, l2 with
  | [], [] => true
  | a :: l1, b :: l2 => eqb a b && list_eqb eqb l1 l2
  | _, _ => false
  end.

Lemma list_eqb_eq {A} (eqb : A -> A -> bool) :
  (forall a b, eqb a b = true <-> a = b) ->
  forall l1 l2, list_eqb eqb l1 l2 = true <-> l1 = l2.
Proof.
  intros H l1. induction l1 as [|a l1 IH]; intros [|b l2]; simpl; split; intro E;
    try reflexivity; try discriminate.
  - apply andb_true_iff in E. destruct E as [E1 E2]. apply H in E1. apply IH in E2. congruence.
  - inversion E; subst. apply andb_true_iff. split; [apply H; reflexivity | apply IH; reflexivity].
Qed.

(* indices (0-based, as N) of the [false] entries of a list of booleans: what a correspondence
   shard prints. *)
Fixpoint idxs_false_from (i : N) (l : list bool) : list N :=
  match l with
  | [] => []
  | b :: l => if b then idxs_false_from (N.succ i) l else i :: idxs_false_from (N.succ i) l
  end.
Definition idxs_false := idxs_false_from 0%N.
