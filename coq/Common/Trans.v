(* Common/Trans.v — support definitions referenced by the generated files (Gen/*.v). *)
From NV Require Import Common.Py.
Open Scope Z_scope.

(* A target the translator could not translate becomes a definition of this type; nothing
   else has it, so every lemma that mentions the target stops type-checking (fail closed). *)
Inductive TranslatorFailure : Set := translator_failure.

(* CPython's hash of an int: sign * (|x| mod (2^61-1)), with -1 mapped to -2. *)
Definition py_hash (x : Z) : Z :=
  let h := Z.sgn x * (Z.abs x mod 2305843009213693951) in
  if h =? -1 then -2 else h.

(* x << n / x >> n raise ValueError for a negative count *)
Definition py_shift (f : Z -> Z -> Z) (x n : Z) : res Z :=
  if n <? 0 then Raise ValueError else Ok (f x n).
