#!/bin/bash
# Build the framework from files on disk only (offline): regenerate Gen/*.v from /repo/src,
# full .vo build of the whole Coq development (never -vos/-vok).
set -u
cd "$(dirname "$0")" || exit 2
export PYTHONPATH=/repo/src PYTHONHASHSEED=0 PYTHONDONTWRITEBYTECODE=1
mkdir -p work evidence replays coq/Gen
/venv/bin/python translator/py2coq.py /repo/src coq/Gen || exit 1
cd coq || exit 2
coq_makefile -f _CoqProject -o Makefile >/dev/null || exit 1
timeout 3000 make -k -j16 2>&1 | tail -40
# the build of the proofs is re-done (incrementally) and judged by every check; setup only warms it up
exit 0
