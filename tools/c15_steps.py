#!/venv/bin/python
"""debug helper: print the first failing prefix of a C15 replay"""
import json, importlib, sys
sys.path.insert(0, '/verif/harness'); sys.path.insert(0, '/repo/src')
import vf
mod = importlib.import_module('props.c15')
d = json.load(open(sys.argv[1]))
c = d.get('first_disagreeing_case') or d.get('case')
cases = [dict(c, ops=c['ops'][:k]) for k in range(1, len(c['ops']) + 1)]
rs = [mod.run_impl(x) for x in cases]
sb, mb = vf.coq_eval(mod, [mod.to_coq(x, r) for x, r in zip(cases, rs)], use_model=True)[:2]
print("spec fails at prefixes", sb[:3], "model", mb[:3], "n", c['n'], "prop", repr(c['prop']))
k = min(sb + mb) if sb + mb else len(cases) - 1
for op, st in zip(cases[k]['ops'], rs[k]['steps']):
    print(op, st)
