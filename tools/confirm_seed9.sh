#!/bin/bash
# tools/confirm_seed2.sh <Cxx> <mN in worktree> <mK name under seeded/>: like confirm_seed.sh for the round-2 worktrees /tmp/wt2-Cxx
prop=$1; m=$2; name=$3; wt=/var/tmp/wt-$prop; n=${m#m}
out=/verif/seeded/$prop-$name
git -C $wt checkout -q -- .
cd $wt || exit 2
git apply --check out/$m.diff || { echo "does not apply to current HEAD"; exit 3; }
PYTHONPATH=$wt/src /venv/bin/python out/demo$n.py >/dev/null 2>&1; clean=$?
git apply out/$m.diff
suite=$(PYTHONPATH=$wt/src /venv/bin/python -m pytest -q -p no:cacheprovider 2>&1 | tail -1)
PYTHONPATH=$wt/src /venv/bin/python out/demo$n.py >/dev/null 2>&1; mutated=$?
git checkout -q -- .
echo "$prop $m: demo clean exit=$clean, demo with change exit=$mutated, suite with change: $suite"
if [ $clean -eq 0 ] && [ $mutated -ne 0 ] && echo "$suite" | grep -q "passed" && ! echo "$suite" | grep -q "failed"; then
  mkdir -p $out && cp out/$m.diff $out/patch.diff && cp out/demo$n.py $out/demo.py && cp out/notes.md /verif/seeded/notes/$prop-round9-notes.md
  echo "CONFIRMED -> $out"
else
  echo "NOT CONFIRMED"
fi
