#!/bin/bash
# tools/confirm_seed.sh <Cxx> <mN>: confirm a sub-agent's change in its scratch worktree
# (suite passes with it, demo fails with it, demo passes without it) and store it under seeded/.
prop=$1; m=$2; wt=/tmp/wt-$prop; n=${m#m}
out=/verif/seeded/$prop-$m
git -C $wt checkout -q --detach "$(git -C /repo rev-parse HEAD)" || exit 2
git -C $wt checkout -q -- . 
cd $wt || exit 2
git apply --check out/$m.diff || { echo "does not apply to current HEAD"; exit 3; }
PYTHONPATH=$wt/src /venv/bin/python out/demo$n.py >/dev/null 2>&1; clean=$?
git apply out/$m.diff
suite=$(PYTHONPATH=$wt/src /venv/bin/python -m pytest -q -p no:cacheprovider 2>&1 | tail -1)
PYTHONPATH=$wt/src /venv/bin/python out/demo$n.py >/dev/null 2>&1; mutated=$?
git checkout -q -- .
echo "$prop $m: demo clean exit=$clean, demo with change exit=$mutated, suite with change: $suite"
if [ $clean -eq 0 ] && [ $mutated -ne 0 ] && echo "$suite" | grep -q "passed" && ! echo "$suite" | grep -q "failed"; then
  mkdir -p $out && cp out/$m.diff $out/patch.diff && cp out/demo$n.py $out/demo.py
  echo "CONFIRMED -> $out"
else
  echo "NOT CONFIRMED"
fi
