#!/bin/bash
# regenerate Gen/*.v from /repo and build everything (developer convenience)
cd /verif && /venv/bin/python translator/py2coq.py /repo/src coq/Gen && cd coq && coq_makefile -f _CoqProject -o Makefile >/dev/null && timeout 3000 make -k -j16 2>&1 | grep -v "^Closed under\|^COQDEP\|^COQC" | tail -${1:-15}
