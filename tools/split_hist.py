#!/venv/bin/python
"""tools/split_hist.py <Cxx> <replay.json>: evaluate every step of a history case separately in Coq (spec and model)."""
import sys, json, importlib, os
sys.path.insert(0, "/verif/harness"); sys.path.insert(0, "/repo/src")
import vf
prop, path = sys.argv[1], sys.argv[2]
mod = importlib.import_module("props.%s" % prop.lower())
d = json.load(open(path)); c = d.get("case") or d["first_disagreeing_case"]
r = mod.run_impl(c)
terms = []
for i, (op, st) in enumerate(zip(c["ops"], r["steps"])):
    c1 = dict(c, ops=[op]); r1 = {"steps": [st]}
    terms.append(mod.to_coq(c1, r1))
os.makedirs("/verif/work", exist_ok=True)
sb, mb, log = vf.coq_eval(mod, terms, True)
print("spec bad steps:", sb, "model bad steps:", mb, log)
for i in sorted(set(sb) | set(mb or [])):
    print(i, json.dumps(c["ops"][i]), json.dumps(r["steps"][i])[:700])
