#!/usr/bin/env python3
"""tools/seed_meta.py <Cxx-mN> <caught: yes|no|after-strengthening> "<what it needs>" "<which check catches it / notes>" """
import json, sys, os
d, caught, needs, notes = sys.argv[1:5]
p = os.path.join("/verif/seeded", d)
prop = d.split("-")[0]
meta = {"property": prop, "breaks": needs.split("|")[0], "needs_to_manifest": needs,
        "confirmed": "tools/confirm_seed.sh / confirm_seed2.sh %s %s: unmodified suite passes with the change (2256 passed), demo.py exits 0 without it and non-zero with it" % (prop, d.split("-")[1]),
        "ran": "tools/try_mutation.sh seeded/%s/patch.diff %s" % (d, prop), "caught": caught, "notes": notes}
json.dump(meta, open(os.path.join(p, "meta.json"), "w"), indent=1)
