#!/usr/bin/env python3
"""Regenerates /verif/MANIFEST.json from the table below (one entry per claimed property)."""
import json, os
V = os.path.dirname(os.path.dirname(os.path.abspath(__file__)))
props = [json.loads(l) for l in open(os.path.join(V, "properties.jsonl"))]
TB = ("Trusted: Coq 8.16.1 kernel + vm_compute (no native_compute); the axioms Print Assumptions reports per theorem "
      "(written into the evidence on every run); ")
CLAIMED = {
 "C01": dict(
  text="Machine-checked proof over the shared waveform pool model (all four classes): the invariant (0<=start, start+count<=capacity, view of exactly count samples with signal_count columns, irregular timing consistent) holds after ANY history of operations with ANY arguments (induction over fold_left of the pool step, 11 operation kinds incl. constructors); the view after append(array) = view ++ rows, after load_data = the requested window, capacity changes keep the samples, sample_count shrinks to a prefix / grows keeping the old samples first, get_data is the sub-list or TypeError/ValueError. Correspondence: online-generated histories over pools of 1-4 objects (owned / borrowed / strided buffers, 1-D and 2-D digital, all dtypes, malformed arguments, NumPy scalar arguments, scripted multi-step scenarios) with a full snapshot (buffer incl. slack, geometry, resizability, timing, scale, properties) of every object after every call, judged by a list-level spec oracle in Coq.",
  design="DESIGN.md §7.0, C01", tech="Coq invariant + refinement proofs over a hand state-machine model; in-Coq pool correspondence",
  note=TB + "hand model Model/Waveform.v tied by correspondence; NumPy zeros/resize/slice assignment modelled; sample values are small integers mapped into each dtype."),
 "C07": dict(
  text="Machine-checked proof: in the models of the waveform pool, the time arrays and Vector (single-call operations) a raising call returns the state unchanged (all checks precede the construction of the new state). The tie to the code is the fault-generating correspondence: after EVERY raising call the snapshot of every pool object (receiver, sources, bystanders) must equal the snapshot before; arrays and Vector via their own correspondences run as sub-checks.",
  design="DESIGN.md §7 C07", tech="Coq proof over hand models + fault-generating in-Coq correspondence (pool, arrays, Vector)",
  note=TB + "atomicity of the real code rests on the correspondence (post-failure snapshots); the model-level theorem is by construction."),
 "C09": dict(
  text="Machine-checked proof: the pool invariant includes 'stored timestamps monotonic, mode IRREGULAR iff timestamps stored, #timestamps = sample_count'; it is preserved by every operation for every argument, hence holds in every reachable pool (induction over histories); count mismatches on timing / sample_count assignment raise IrregularTimestampCountMismatchError; get_timestamps(0, sample_count) returns the stored list. Correspondence biased to irregular timing on all paths.",
  design="DESIGN.md §7 C09", tech="Coq invariant proof by induction over histories + in-Coq pool correspondence",
  note=TB + "hand model tied by correspondence; pickling covered by C13."),
 "C10": dict(
  text="Machine-checked proof of the append rules on the model: success implies dtypes (and digital signal counts) matched, NONE/REGULAR receivers keep their timing with NONE/REGULAR sources, IRREGULAR receivers get exactly the concatenated timestamps of IRREGULAR sources, samples appended in order, properties looked up as receiver-first then earliest source (never overwritten), scale/dtype/start untouched, other pool objects untouched, mode mismatch raises TimingMismatchError, arrays need timestamps exactly for IRREGULAR receivers. The converse (must succeed when the conditions hold, exact warnings) is decided per run by the list-level spec oracle in Coq on append-biased pool histories with shared Timing objects.",
  design="DESIGN.md §7 C10", tech="Coq proof over the pool model + in-Coq pool correspondence",
  note=TB + "hand model tied by correspondence."),
 "C13": dict(
  text="Machine-checked proof over the pickle model (each __reduce__/_unpickle pair = the public constructor applied to the reduced arguments): every waveform/spectrum satisfying the pool invariant - hence every object of every pool reachable by ANY operation history, by induction - unpickles to an object with the same kind, dtype, visible samples, signal/sample counts, timing, scale and properties, start_index 0 and capacity = sample_count, which compares equal; == is a function of the observable state only (ignores slack); every Timing the constructor accepts pickles to itself (None vs zero members kept; timing validity is a pool invariant); Vector restores its pickled value type (re-deriving it is refuted by an int vector holding a bool); TimeDelta/DateTime via the regenerated from_ticks (C02). Correspondence: every public type x protocols 2-5/default/deepcopy, observable snapshots incl. member types and data bits, == both ways, independence by mutating copy and original, same-state twins with different slack.",
  design="DESIGN.md §7 C13", tech="Coq proof over a hand pickle model on top of the pool invariant + in-Coq correspondence with mutation-based independence checks",
  note=TB + "pickle/copy.deepcopy of builtins, datetime, hightime, ndarray assumed exact; independence of the copy is a correspondence result (values are immutable terms in the model)."),
 "C15": dict(
  text="Machine-checked proof over the names model (property value, cached parsed list, key-changed invalidation, index reversal): after ANY history of name reads, name writes, direct NI_LineNames set/delete, merges through append, unrelated operations and pickling the cache is either empty or exactly the padded parse of the CURRENT property (induction over histories); hence signals[i].name = the (signal_count-1-i)-th trimmed comma-separated entry, signals[name] returns a signal carrying that name or IndexError, and assigning a name without comma / surrounding whitespace changes that entry only and NI_LineNames becomes the joined list (parse(join l) = l for clean lists, proved on strings as code-point lists). Correspondence: histories through the collection, held signals, unpickled/copied signals and a twin waveform sharing the dictionary, judged statelessly against the property value the implementation holds at each read.",
  design="DESIGN.md §7 C15", tech="Coq invariant proof by induction over histories + string lemmas; in-Coq correspondence",
  note=TB + "hand model Model/Names.v tied by correspondence; str.split/strip/join modelled on code points (compared with CPython per run); Unicode whitespace beyond 9-13, 28-32, 133, 160 outside the model."),
 "C02": dict(
  text="Machine-checked proof over all of Z: 20 theorems about the tick functions regenerated on every run from _timedelta.py/_datetime.py/_time_value_tuple.py (to_tuple = floor/mod, ranges, from_ticks/from_tuple accept exactly the in-range values and otherwise raise OverflowError, both round trips, byte layout and round trip of the 16-byte CVI record, arrays, pickle, DateTime delegation). The byte/array/pickle glue is tied to the code by a per-run correspondence evaluated inside Coq; a broken proof or correspondence triggers a failing-input search (harvested literals, 2^k battery) against the property-strength spec.",
  design="DESIGN.md §7 C02", tech="Coq proof over a translator-regenerated model + in-Coq correspondence",
  note=TB + "translator py2coq.py; correspondence harness; NumPy structured storage and pickle modelled (compared byte-for-byte each run)."),
 "C03": dict(
  text="Machine-checked proof for all pairs of integers: every translated operator (+,-,rsub,neg,abs,*int,//int,//,%,divmod, six comparisons, hash, bool, DateTime+-TimeDelta, DateTime-DateTime) equals the Z operation or OverflowError/ZeroDivisionError, divmod identity with floor semantics, (t+d)-t=d, trichotomy. Mixed datetime/hightime/float/Decimal operands are checked per run against an exact-rational bound evaluated in Coq (partial: bound only).",
  design="DESIGN.md §7 C03", tech="Coq proof over a translator-regenerated model + in-Coq correspondence",
  note=TB + "translator; harness; datetime/hightime/decimal arithmetic outside /repo assumed exact in their units."),
 "C04": dict(
  text="Machine-checked proof over all integers: bintime->datetime/hightime floor with error in [0, 1 unit), datetime->bintime floor (< 1 tick) and exact when representable, hightime->bintime nearest tick (<= 1/2 tick) and exact when representable, hightime->datetime floor, datetime->hightime->datetime and bintime->hightime->bintime identities, monotonicity of all four bintime conversions (incl. round-half-even), same-type identity, tz rules of the dispatch, TimeDelta(int) exact, TimeDelta(float|Decimal) nearest tick / exact / OverflowError iff out of range; built on integer pieces regenerated from _timedelta.py. Correspondence over all nine pairs (direct and through Timing.to_*), tz kinds, range edges, history-built sources; total_seconds (2 ulp) and precision_total_seconds round trip by exact-rational oracle in Coq (partial).",
  design="DESIGN.md §7 C04", tech="Coq proof (lia/nia with Euclidean division) over regenerated pieces + hand model of the Decimal/float entry point; in-Coq correspondence",
  note=TB + "translator; Model/Convert.v models Decimal (prec 64) and float entry points as exact rationals; datetime/hightime arithmetic outside /repo assumed exact."),
 "C05": dict(
  text="Machine-checked proof on element lists of any length: the 4-byte record layout (real at 0, imag at 2, decode.encode = id on int16 x int16), the interleave lemma (view flat -> map -> view pairs = pairwise map), ComplexInt32 -> complex is exactly real+imag*j and converting back returns the original pair for all pairs, length/shape preserved, truncation toward zero with |q - trunc q| < 1. Correspondence: all nine dtype pairs + unsupported dtypes, scalars and 0-d..3-d arrays in six memory layouts, float parts adjacent to every sampled integer, complex128->complex64 against an IEEE round-to-nearest-even model, byte layout; EXHAUSTIVE sweeps on the real code of all 65536 int16 values per field x both float widths x both directions (thorough: all 2^32 pairs).",
  design="DESIGN.md §7 C05", tech="Coq proof over a hand model on logical element order + in-Coq correspondence + exhaustive int16 sweeps on the implementation",
  note=TB + "NumPy view/astype/stride handling modelled (compared per run on every layout); sweeps compare with exact integer equality in the harness."),
 "C06": dict(
  text="Machine-checked proof for every mask, value, width and both bit orders: the regenerated while-loop of _mask_to_column_indices (translated to a fuelled Fixpoint; fuel proved sufficient) yields exactly the ascending list of set mask bits mapped to data columns; the unpacked row holds in column c the c-th highest (big) / c-th lowest (little) set bit, hence signal i = column n-1-i holds the i-th lowest / highest; one row per sample; masks with bits beyond the port width and negative masks raise ValueError. Correspondence over list / native / non-native byte order / strided / C- and F-ordered 2-D inputs, three state dtypes, windows, argument-intact and re-conversion probes.",
  design="DESIGN.md §7 C06", tech="Coq proof (induction on loop fuel, bit lemmas) over translator-regenerated mask logic + in-Coq correspondence",
  note=TB + "translator incl. loop translation; byteswap/view/unpackbits modelled at value level and compared per run."),
 "C08": dict(
  text="Machine-checked proof over all integers/lists: the regular generator (written as the code: first element then repeated +=) yields exactly n timestamps and the k-th equals timestamp+offset+(i+k)*interval (no drift); irregular windows are firstn/skipn or ValueError, never fewer; NoTimestampInformationError / ValueError cases; the direction state machine accepts exactly the non-decreasing or non-increasing sequences. Correspondence on all three families incl. range-limit OverflowError paths, exhaustive short windows and sequences, hostile mutation of the caller's list.",
  design="DESIGN.md §7 C08", tech="Coq proof (induction) over a hand model + in-Coq correspondence",
  note=TB + "hand model of Timing/strategies tied by correspondence; datetime/hightime arithmetic and range limits assumed (given to the model as parameters)."),
 "C17": dict(
  text="Machine-checked proof for every list, slice (start/stop/step incl. None, negative, out of range, zero) and replacement length: the class's slice assignment (shrink / grow / replace branches over NumPy slice assignment with its length-1 broadcast, np.delete, np.insert) equals Python list slice assignment and raises ValueError exactly where it does; every other operation (indexing, deletion, insert clamping, append, extend incl. self, +=, pop, remove, clear, index, count) equals the list operation incl. error class, wrong-typed arguments raise TypeError, and a raising call leaves the content unchanged. reverse() is checked by correspondence only (partial). Three-way correspondence: implementation vs Coq model/spec vs REAL Python lists, exhaustive over short arrays.",
  design="DESIGN.md §7 C17", tech="Coq refinement proof (firstn/skipn/app + lia) of a hand model to a Python-list spec; three-way in-Coq correspondence",
  note=TB + "hand model of the array classes and CPython's MutableSequence mixins; NumPy primitives modelled; spec itself compared with real lists per run."),
 "C18": dict(
  text="Machine-checked proof: the constructor keeps exactly the iterable's items and fixes the value type by the first item (or value_type when empty), mixed/non-scalar items raise TypeError; after ANY operation and hence any history (induction over fold_left) every element is an instance of the unchanged value type; wrong-typed set/insert/append/slice-assign raise TypeError and store nothing. List behaviour is ListSpec itself (the class stores a real list); three-way correspondence with real lists over all iterable kinds (incl. one-shot iterators, self, str), all slice shapes, hostile mutation of the caller's list.",
  design="DESIGN.md §7 C18", tech="Coq invariant proof by induction over operation histories + three-way in-Coq correspondence",
  note=TB + "hand model of Vector tied by correspondence; extend/+= with a wrong-typed item: spec accepts nothing-stored or well-typed-prefix-stored."),
 "C19": dict(
  text="Machine-checked proof over the model of the extended-property dictionary: an attribute write is visible in the dictionary and vice versa, other keys untouched, delete reads as '', non-str rejected with TypeError, constructor conflict rule (ValueError / sets units / TypeError); Scalar comparison table for all values (ValueError for different units first, TypeError for numeric vs str, value comparison otherwise), the four operators form one total order on finite numbers (exact int/float comparison), == needs equal value and units, only scalar types accepted; XYData construction succeeds iff both axes 1-D, equal length, one supported dtype, else TypeError/ValueError. Correspondence: write histories on six classes observing both views after each step, constructor matrix, comparison cross product incl. huge ints vs floats, nan, inf, non-ASCII, XYData matrix over 17 dtypes.",
  design="DESIGN.md §7 C19", tech="Coq proof (case analysis over a hand model) + in-Coq correspondence",
  note=TB + "hand model tied by correspondence; the 'two views' clause is structural in the model (attribute = lookup) and is what the histories check on the real objects."),
 "C20": dict(
  text="Machine-checked proof: timing_init (validation order of the three strategies) accepts exactly the combinations of the mode table and otherwise raises TypeError/ValueError; flags equal presence, absent members raise RuntimeError, mode preserved, empty has no members, equality iff all members equal. Correspondence EXHAUSTIVE over modes x member kinds (three families, zero values, wrong types) x timestamps kinds x constructors, with setattr and hostile-caller probes on every constructed object.",
  design="DESIGN.md §7 C20", tech="Coq proof (case analysis) over a hand model + exhaustive in-Coq correspondence",
  note=TB + "hand model tied by the exhaustive correspondence; immutability is structural in the model and probed on the real objects."),
 "C14": dict(
  text="Machine-checked proof: for every integer tick count the regenerated TimeDelta fields lie in their normalized ranges and add up to the value floored to a yoctosecond; str() parts (regenerated, including the rounding carry) are within 1/2*10^-18 s; DateTime h/m/s/us/fs/ys fields, the calendar model (bijection days <-> valid dates for every day: complete 146097-day era sweep by vm_compute lifted by 400-year periodicity), all nine fields identify the floored instant, and building a DateTime from its fields returns the same ticks (uses the bt->ht->bt identity). Correspondence: fields/str/repr of objects reached through five construction paths, constructor from field tuples, datetime.date.fromordinal vs the calendar model.",
  design="DESIGN.md §7 C14", tech="Coq proof (lia + finite sweep lifted by periodicity) over translator-regenerated fields + in-Coq correspondence",
  note=TB + "translator; Model/Calendar.v models Python's date ordinal functions (compared per run); text layout checked by harness re-rendering."),
 "C16": dict(
  text="Machine-checked proof: the hand model of DigitalWaveform.test (nested loops with running indices, written in source order) returns exactly the filter of incompatible positions of the window for every pair of waveforms/windows/arguments, with the documented errors; the regenerated state table equals NI's table on all 64 pairs, is symmetric, reflexive and X-compatible; to_char/from_char inverse. Correspondence: random waveform pairs with different start_index/capacity geometry, all state pairs, all byte values.",
  design="DESIGN.md §7 C16", tech="Coq proof (induction over the loops + 64-case vm_compute) + in-Coq correspondence",
  note=TB + "translator for the tables; hand model of test() tied by correspondence; NumPy indexing modelled."),
}
m = {"version": 1, "setup_cmd": "./setup.sh",
     "hooks": {"guard": "NITYPES_VERIF", "enable": "no hooks are needed: every observable is reachable from Python; checks import nitypes from /repo/src (PYTHONPATH)",
               "baseline_off_cmd": "cd /repo && /venv/bin/python -m pytest -ra -q -p no:cacheprovider --timeout=900 --continue-on-collection-errors",
               "source_commits": [], "add_only": True},
     "engines": [{"name": "coq-proof+correspondence", "path": "/verif/check", "serves_properties": sorted(CLAIMED),
                  "kind_free_text": "Coq 8.16 theorems over translator-generated and hand-written executable models; correspondence and spec oracle evaluated with vm_compute inside Coq against the real implementation's answers"}],
     "checks": [], "not_applicable": [], "notes": "see DESIGN.md; fixes to /repo are listed in known_findings.jsonl"}
for p in props:
    i = p["id"]
    if i in CLAIMED:
        c = CLAIMED[i]
        m["checks"].append({"property_id": i, "quick_cmd": "./check %s quick" % i, "thorough_cmd": "./check %s thorough" % i,
                            "evidence_file": "/verif/evidence/%s.json" % i, "replay_cmd_template": "./check %s --replay {path}" % i,
                            "engine": "coq-proof+correspondence",
                            "level_claimed": {"category": "proof", "text": c["text"], "design_ref": c["design"]},
                            "level_note": c["note"], "technique": c["tech"]})
    else:
        m["not_applicable"].append({"property_id": i, "reason": "check not built yet in this session (work in progress; the technique applies, see DESIGN.md §7)"})
json.dump(m, open(os.path.join(V, "MANIFEST.json"), "w"), indent=1)
print("claimed:", sorted(CLAIMED))
