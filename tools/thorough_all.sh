#!/bin/bash
# tools/thorough_all.sh [props...] — runs every thorough check once, one line per property with wall time
props=${@:-C02 C03 C04 C05 C06 C08 C11 C12 C14 C15 C16 C17 C18 C19 C20 C13 C01 C09 C10 C07}
cd /verif
for p in $props; do
  s=$(date +%s); out=$(./check $p thorough 2>&1 | grep -v "^WARN" | tail -1); e=$(date +%s)
  echo "$out wall=$((e-s))s"
done
