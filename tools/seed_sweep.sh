#!/bin/bash
# tools/seed_sweep.sh "<seeds>" [props...] — quick check of each property under several seeds; prints one line per run
seeds=${1:-"1 2 3"}; shift
props=${@:-C01 C02 C03 C04 C05 C06 C07 C08 C09 C10 C11 C12 C13 C14 C15 C16 C17 C18 C19 C20}
cd /verif
for s in $seeds; do for p in $props; do
  out=$(VERIF_SEED=$s ./check $p quick 2>&1 | grep -v "^WARN" | tail -1)
  echo "seed=$s $out"
done; done
