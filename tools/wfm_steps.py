#!/venv/bin/python
"""tools/wfm_steps.py <Cxx> <replay.json|seed:n>: evaluate each step of a waveform-pool history separately."""
import sys, json, importlib, os
sys.path.insert(0, "/verif/harness"); sys.path.insert(0, "/repo/src")
import vf
from props import wfm_common as W
prop, path = sys.argv[1], sys.argv[2]
mod = importlib.import_module("props.%s" % prop.lower())
if path.startswith("seed:"):
    _, s, n = path.split(":"); c = {"seed": int(s), "n": int(n)}
else:
    d = json.load(open(path)); c = d.get("case") or d["first_disagreeing_case"]
r = mod.run_impl(c)
terms = ["WHist [%s]" % W.stepc(st) for st in r["steps"]]
os.makedirs("/verif/work", exist_ok=True)
sb, mb, log = vf.coq_eval(mod, terms, True)
print("steps:", len(terms), "spec bad:", sb, "model bad:", mb, log)
for i in sorted(set(sb) | set(mb or []))[:int(os.environ.get("MAXSHOW", "3"))]:
    st = r["steps"][i]
    print("---- step", i, "spec" if i in sb else "", "model" if i in (mb or []) else "")
    print("op  :", json.dumps(st["op"]))
    print("res :", st["res"], st["warn"])
    tgt = st["op"].get("i")
    for j, (a, b) in enumerate(zip(st["pre"], st["post"])):
        if a != b or j == tgt or j in st["op"].get("srcs", []):
            print(" pre[%d] :" % j, json.dumps(a)); print(" post[%d]:" % j, json.dumps(b))
    if len(st["post"]) > len(st["pre"]):
        print(" new     :", json.dumps(st["post"][-1]))
    if os.environ.get("SHOWMODEL"):
        print(vf.coq_show(mod, terms[i], True)[:3000])
