#!/bin/bash
# tools/try_mutation.sh <patch.diff> <Cxx> [tier]  — apply a seeded change to /repo, run the check, undo it.
diff=$(realpath $1); prop=$2; tier=${3:-quick}
cd /repo || exit 2
if ! git apply --check "$diff" 2>/dev/null; then echo "PATCH DOES NOT APPLY: $diff"; exit 3; fi
git apply "$diff"
cd /verif && ./check "$prop" "$tier" 2>&1 | grep -v "^WARNING conda" | cut -c1-400 | tail -12
rc=${PIPESTATUS[0]}
git -C /repo checkout -- .
echo "exit=$rc"
