"""vf.py — the verification harness shared by all property checks.

One run of `./check Cxx <tier>`:
  1. regenerate coq/Gen/*.v from /repo/src (translator, fail closed)
  2. build the proof closure of Props/Cxx.v (full .vo build) and collect Print Assumptions
  3. correspondence: generate cases, run them on the real implementation (/repo working tree),
     evaluate the model and the property-strength spec oracle on the same cases INSIDE Coq
     (vm_compute over generated shard files), collect disagreements
  4. decide, search for a failing input when a proof obligation or the correspondence broke,
     write evidence/Cxx.json and (on violation) replays/Cxx-*.json
"""
from __future__ import annotations

import fcntl
import hashlib
import importlib
import json
import multiprocessing as mp
import os
import random
import re
import shutil
import subprocess
import sys
import tempfile
import time
import traceback

VERIF = os.path.dirname(os.path.dirname(os.path.abspath(__file__)))
REPO = os.environ.get("VERIF_REPO", "/repo")
COQ = os.path.join(VERIF, "coq")
PY = "/venv/bin/python"
NPROC = int(os.environ.get("VERIF_JOBS", "16"))
SHARD = 400

EXN_NAMES = [
    "IrregularTimestampCountMismatchError", "SignalCountMismatchError", "CapacityMismatchError",
    "TimingMismatchError", "DatatypeMismatchError", "NoTimestampInformationError",
    "TypeError", "ValueError", "OverflowError", "ZeroDivisionError", "IndexError", "KeyError",
    "RuntimeError", "AttributeError", "AssertionError",
]


def canon_exc(e: BaseException) -> str:
    """Most specific class name (by MRO) that the models know; anything else is OtherError."""
    for cls in type(e).__mro__:
        if cls.__name__ in EXN_NAMES:
            return cls.__name__
    return "OtherError"


# ------------------------------------------------------------------ Coq term printers
def zc(n) -> str:
    n = int(n)
    if n.bit_length() > 12000:
        # beyond Python's int-to-decimal-string limit (4300 digits): a hexadecimal literal, which Coq reads as well
        return "(-0x%x)" % -n if n < 0 else "0x%x" % n
    return "(%d)" % n if n < 0 else "%d" % n


def json_safe(obj):
    """ints too long for Python to print in decimal become hexadecimal strings (json.dump would raise on them)"""
    if isinstance(obj, bool):
        return obj
    if isinstance(obj, int):
        return obj if obj.bit_length() <= 12000 else ("-0x%x" % -obj if obj < 0 else "0x%x" % obj)
    if isinstance(obj, dict):
        return {k: json_safe(v) for k, v in obj.items()}
    if isinstance(obj, (list, tuple)):
        return [json_safe(v) for v in obj]
    return obj


def natc(n) -> str:
    return "%d%%nat" % int(n)


def boolc(b) -> str:
    return "true" if b else "false"


def listc(items, f=zc) -> str:
    return "[" + "; ".join(f(x) for x in items) + "]"


def resc(r, f=zc) -> str:
    """r = {'ok': v} | {'exc': 'ValueError'}"""
    if "exc" in r:
        return "(Raise %s)" % r["exc"]
    return "(Ok %s)" % f(r["ok"])


def optc(v, f=zc) -> str:
    return "None" if v is None else "(Some %s)" % f(v)


def strc(s: str) -> str:
    """Coq string literal; only printable ASCII is sent as text, everything else is mapped to '?'
    by the caller's canonicalisation before it reaches here."""
    out = []
    for ch in s:
        if ch == '"':
            out.append('""')
        elif 32 <= ord(ch) < 127:
            out.append(ch)
        else:
            raise ValueError("non-printable character in Coq string: %r" % s)
    return '"%s"%%string' % "".join(out)


def try_impl(fn):
    """Run fn(); canonical result {'ok': value} or {'exc': class}."""
    try:
        return {"ok": fn()}
    except Exception as e:  # noqa: BLE001
        return {"exc": canon_exc(e)}


# ------------------------------------------------------------------ build
class Lock:
    def __enter__(self):
        self.f = open(os.path.join(VERIF, ".build.lock"), "w")
        fcntl.flock(self.f, fcntl.LOCK_EX)
        return self

    def __exit__(self, *a):
        fcntl.flock(self.f, fcntl.LOCK_UN)
        self.f.close()


def sh(cmd, timeout, cwd=None, env=None):
    try:
        p = subprocess.run(cmd, cwd=cwd, env=env, stdout=subprocess.PIPE, stderr=subprocess.STDOUT,
                           timeout=timeout, text=True, errors="replace")
        return p.returncode, p.stdout
    except subprocess.TimeoutExpired as e:
        return 124, (e.stdout or "") + "\nTIMEOUT after %ss: %s" % (timeout, cmd)


def regen():
    """Run the translator on the current working tree. Returns (failures, literals)."""
    gen = os.path.join(COQ, "Gen")
    rc, out = sh([PY, os.path.join(VERIF, "translator", "py2coq.py"), os.path.join(REPO, "src"), gen], 120)
    rep = {"failures": ["translator crashed: " + out[-400:]], "literals": {}}
    try:
        rep = json.load(open(os.path.join(gen, "literals.json")))
    except Exception:  # noqa: BLE001
        pass
    if rc != 0:
        rep["failures"] = rep.get("failures", []) + ["translator exit %d: %s" % (rc, out[-300:])]
    return rep["failures"], rep["literals"]


def ensure_makefile():
    mk = os.path.join(COQ, "Makefile")
    cp = os.path.join(COQ, "_CoqProject")
    if not os.path.exists(mk) or os.path.getmtime(mk) < os.path.getmtime(cp):
        sh(["coq_makefile", "-f", "_CoqProject", "-o", "Makefile"], 120, cwd=COQ)


FORBIDDEN = re.compile(r"\b(Admitted|admit|Axiom|Parameter|Conjecture|Admit Obligations)\b|Unset Guard|bypass_check|type-in-type|impredicative-set|Unset Universe|Unset Positivity")


SECTION_VAR = re.compile(r"^\s*(Variable|Variables|Hypothesis|Hypotheses|Context)\b")


def forbidden_scan():
    bad = []
    for root, _, files in os.walk(COQ):
        if "/Run" in root:
            continue
        for fn in files:
            if fn.endswith(".v"):
                p = os.path.join(root, fn)
                depth = 0      # Section nesting: Variable / Hypothesis / Context are only allowed inside a Section
                for i, line in enumerate(open(p, errors="replace"), 1):
                    code = re.sub(r"\(\*.*?\*\)", "", line)
                    if re.match(r"^\s*Section\b", code):
                        depth += 1
                    elif re.match(r"^\s*End\b", code) and depth > 0:
                        depth -= 1
                    if FORBIDDEN.search(code) or (depth == 0 and SECTION_VAR.match(code)):
                        bad.append("%s:%d: %s" % (os.path.relpath(p, COQ), i, line.strip()[:80]))
    return bad


def enclosing_lemma(path, line):
    name = None
    try:
        for i, l in enumerate(open(path, errors="replace"), 1):
            m = re.match(r"\s*(Lemma|Theorem|Corollary|Example|Definition|Fixpoint|Fact)\s+([A-Za-z0-9_']+)", l)
            if m:
                name = m.group(2)
            if i >= line:
                break
    except OSError:
        pass
    return name


def make(targets, timeout=2400):
    """make the given .vo targets.  Returns (ok, log, broken) with broken = list of
    'File:line:lemma: message' for the first error of each failing file."""
    ensure_makefile()
    rc, out = sh(["make", "-k", "-j%d" % NPROC] + targets, timeout, cwd=COQ)
    broken = []
    for m in re.finditer(r'File "\./([^"]+)", line (\d+), characters [\d-]+:\n((?:.*\n){1,6})', out):
        path, line, msg = m.group(1), int(m.group(2)), m.group(3)
        if "Error" not in msg:
            continue
        lemma = enclosing_lemma(os.path.join(COQ, path), line)
        msg1 = " ".join(msg.split())[:200]
        broken.append("%s:%d:%s: %s" % (path, line, lemma, msg1))
    if rc != 0 and not broken:
        broken.append("make exit %d: %s" % (rc, " ".join(out[-300:].split())))
    return rc == 0, out, broken


def print_assumptions(props_v):
    """Re-run coqc on Props/Cxx.v (cheap: only `exact` and Print Assumptions) and parse the
    axioms each theorem depends on."""
    rc, out = sh(["coqc", "-Q", ".", "NV", "-w", "-all", props_v], 900, cwd=COQ)
    thms = re.findall(r"^\s*Theorem\s+([A-Za-z0-9_']+)", open(os.path.join(COQ, props_v)).read(), re.M)
    blocks = re.split(r"(?=Closed under the global context|Axioms:)", out)
    blocks = [b for b in blocks if b.startswith("Closed") or b.startswith("Axioms:")]
    axioms = {}
    for name, b in zip(thms, blocks):
        if b.startswith("Closed"):
            axioms[name] = []
        else:
            axioms[name] = sorted(set(re.findall(r"^([A-Za-z_][A-Za-z0-9_.']*)\s*:", b[len("Axioms:"):], re.M)))
    return rc == 0 and len(blocks) == len(thms), thms, axioms, out


# ------------------------------------------------------------------ Coq evaluation of cases
def coq_eval(mod, terms, use_model=True, want_outputs=False):
    """terms: list of Coq terms of the property's case type.  Returns (spec_bad, model_bad, log)
    as sorted lists of indices into terms (model_bad None when the model side is unavailable)."""
    if not terms:
        return [], ([] if use_model else None), ""
    work = tempfile.mkdtemp(prefix="run-", dir=os.path.join(VERIF, "work"))
    try:
        shards = [terms[i:i + SHARD] for i in range(0, len(terms), SHARD)]
        files = []
        for k, sh_terms in enumerate(shards):
            p = os.path.join(work, "S%d.v" % k)
            with open(p, "w") as f:
                f.write("From NV Require Import Common.Py %s %s%s.\n" % (getattr(mod, "EXTRA_REQ", ""), mod.SPEC_REQ, (" " + mod.MODEL_REQ) if use_model else ""))
                f.write("From Coq Require Import String.\nOpen Scope Z_scope.\n")
                f.write("Definition cases : list %s := [\n" % mod.CASE_TYPE)
                f.write(";\n".join(sh_terms))
                f.write("\n].\n")
                f.write('Eval vm_compute in ("SPEC"%%string, idxs_false (map %s cases)).\n' % mod.SPEC_FN)
                if use_model:
                    f.write('Eval vm_compute in ("MODEL"%%string, idxs_false (map %s cases)).\n' % mod.MODEL_FN)
            files.append(p)
        procs = []
        results = [None] * len(files)
        pending = list(enumerate(files))
        running = []
        logs = []
        while pending or running:
            while pending and len(running) < NPROC:
                k, p = pending.pop(0)
                pr = subprocess.Popen(["timeout", "900", "coqc", "-Q", COQ, "NV", "-w", "-all", p], cwd=work,
                                      stdout=subprocess.PIPE, stderr=subprocess.STDOUT, text=True)
                running.append((k, pr))
            k, pr = running.pop(0)
            out, _ = pr.communicate()
            results[k] = (pr.returncode, out)
        spec_bad, model_bad = [], ([] if use_model else None)
        for k, (rc, out) in enumerate(results):
            if rc != 0:
                logs.append("shard %d: coqc exit %d: %s" % (k, rc, out[-600:]))
                # a shard that does not evaluate counts as disagreeing on every case (fail closed)
                spec_bad += list(range(k * SHARD, k * SHARD + len(shards[k])))
                if use_model:
                    model_bad += list(range(k * SHARD, k * SHARD + len(shards[k])))
                continue
            flat = " ".join(out.split())
            for tag, acc in (("SPEC", spec_bad), ("MODEL", model_bad)):
                if acc is None:
                    continue
                m = re.search(r'= \("%s"%%string, \[(.*?)\]\)' % tag, flat)
                if m is None:
                    m2 = re.search(r'= \("%s"%%string, nil\)' % tag, flat)
                    if m2 is None:
                        logs.append("shard %d: cannot parse %s output: %s" % (k, tag, flat[:300]))
                        acc += list(range(k * SHARD, k * SHARD + len(shards[k])))
                    continue
                for num in re.findall(r"(\d+)%N", m.group(1)):
                    acc.append(k * SHARD + int(num))
        return sorted(spec_bad), (sorted(model_bad) if model_bad is not None else None), "\n".join(logs)
    finally:
        shutil.rmtree(work, ignore_errors=True)


def coq_show(mod, term, use_model=True):
    """Evaluate and print what the spec (and the model) say about one case — for replay files."""
    work = tempfile.mkdtemp(prefix="show-", dir=os.path.join(VERIF, "work"))
    try:
        p = os.path.join(work, "Show.v")
        shows = getattr(mod, "SHOW_FNS", [])
        with open(p, "w") as f:
            f.write("From NV Require Import Common.Py %s %s%s.\n" % (getattr(mod, "EXTRA_REQ", ""), mod.SPEC_REQ, (" " + mod.MODEL_REQ) if use_model else ""))
            f.write("From Coq Require Import String.\nOpen Scope Z_scope.\n")
            f.write("Definition c : %s := %s.\n" % (mod.CASE_TYPE, term))
            f.write("Eval vm_compute in (%s c).\n" % mod.SPEC_FN)
            if use_model:
                f.write("Eval vm_compute in (%s c).\n" % mod.MODEL_FN)
            for fn in shows:
                if use_model or not fn.startswith("model"):
                    f.write("Eval vm_compute in (%s c).\n" % fn.split(":")[-1])
        rc, out = sh(["timeout", "300", "coqc", "-Q", COQ, "NV", "-w", "-all", p], 320, cwd=work)
        return " ".join(out.split())[:4000]
    finally:
        shutil.rmtree(work, ignore_errors=True)


# ------------------------------------------------------------------ running the implementation
def _impl_worker(args):
    modname, case = args
    mod = importlib.import_module(modname)
    try:
        return mod.run_impl(case)
    except BaseException as e:  # noqa: BLE001 - a harness bug must be visible, not swallowed
        return {"harness_error": "%s: %s" % (type(e).__name__, e), "tb": traceback.format_exc()[-1500:]}


def run_impl_all(mod, cases):
    if not cases:
        return []
    import nitypes  # noqa: F401

    assert os.path.realpath(nitypes.__file__).startswith(os.path.realpath(os.path.join(REPO, "src"))), nitypes.__file__
    args = [(mod.__name__, c) for c in cases]
    if len(cases) < 64 or NPROC == 1:
        return [_impl_worker(a) for a in args]
    ctx = mp.get_context("fork")
    with ctx.Pool(NPROC) as pool:
        return pool.map(_impl_worker, args, chunksize=max(1, len(args) // (NPROC * 8)))


# ------------------------------------------------------------------ known findings
def load_known(prop):
    out = []
    p = os.path.join(VERIF, "known_findings.jsonl")
    if os.path.exists(p):
        for line in open(p):
            line = line.strip()
            if line and not line.startswith("#"):
                e = json.loads(line)
                if e.get("property") == prop:
                    out.append(e)
    return out


def match_known(known, key):
    for e in known:
        if e.get("status") == "known" and re.fullmatch(e["signature"], key):
            return e
    return None


# ------------------------------------------------------------------ the check
def write_json(path, obj):
    os.makedirs(os.path.dirname(path), exist_ok=True)
    tmp = path + ".tmp%d" % os.getpid()
    with open(tmp, "w") as f:
        json.dump(json_safe(obj), f, indent=1, sort_keys=True, default=str)
    os.replace(tmp, path)


def run_check(mod, tier, seed, replay=None):
    t0 = time.time()
    prop = mod.ID
    os.makedirs(os.path.join(VERIF, "work"), exist_ok=True)
    rng = random.Random("%s-%s-%s" % (prop, tier, seed))
    notes = []
    # 1+2. regenerate, build, axioms
    with Lock():
        tfail, literals = regen()
        forb = forbidden_scan()
        ok_spec, log_spec, broken_spec = make([mod.SPEC_REQ.replace(".", "/") + ".vo"])
        model_targets = [mod.PROPS_FILE + "o", mod.MODEL_REQ.replace(".", "/") + ".vo"]
        ok_model, log_model, broken = make(model_targets)
        corr_model_ok = os.path.exists(os.path.join(COQ, mod.MODEL_REQ.replace(".", "/") + ".vo")) and not any(
            b.split(":")[0].startswith(("Gen/", "Model/", "Corr/")) for b in broken)
        # a stale .vo must not be used when its source failed to rebuild
        if not ok_model:
            rc2, out2 = sh(["make", "-q", model_targets[1]], 60, cwd=COQ)
            corr_model_ok = corr_model_ok and rc2 == 0
        props_ok, thms, axioms, pa_out = (False, [], {}, "")
        if ok_model:
            props_ok, thms, axioms, pa_out = print_assumptions(mod.PROPS_FILE)
        else:
            thms = re.findall(r"^\s*Theorem\s+([A-Za-z0-9_']+)", open(os.path.join(COQ, mod.PROPS_FILE)).read(), re.M)
    if not ok_spec:
        print("INTERNAL: spec side does not build:\n" + "\n".join(broken_spec))
    obligations = len(thms)
    discharged = obligations if (ok_model and props_ok and not forb) else 0
    proof_broken = list(broken) + (["forbidden construct: " + x for x in forb]) + (
        ["translator: " + x for x in tfail if getattr(mod, "USES_GEN", None) and any(g in x for g in mod.USES_GEN)])
    if ok_model and not props_ok:
        proof_broken.append("Props file did not print one assumption block per theorem")

    # 3. correspondence
    if replay:
        rp = json.load(open(replay))
        cases = rp["cases"] if "cases" in rp else [rp["case"]]
    else:
        cases = load_corpus(prop) + mod.gen_cases(rng, tier)
    results = run_impl_all(mod, cases)
    herr = [(c, r) for c, r in zip(cases, results) if isinstance(r, dict) and "harness_error" in r]
    if herr:
        print("INTERNAL: harness error on %d cases, first: %s\n%s" % (len(herr), herr[0][1]["harness_error"], herr[0][1].get("tb", "")))
    pairs = [(c, r) for c, r in zip(cases, results) if not (isinstance(r, dict) and "harness_error" in r)]
    terms = [mod.to_coq(c, r) for c, r in pairs]
    spec_bad, model_bad, elog = coq_eval(mod, terms, use_model=corr_model_ok)
    if elog:
        notes.append(elog)
        print(elog)
    sigs = {}
    for c, r in pairs:
        s, nontriv = mod.sig(c, r)
        if nontriv:
            sigs[s] = sigs.get(s, 0) + 1
    if hasattr(mod, "step_sigs"):
        sigs = {k: v for k, v in mod.step_sigs(pairs).items()}

    # sub-checks: correspondences of other modules that also decide (part of) this property
    sub_failing = []
    sub_info = {}
    if not replay:
        for subname in getattr(mod, "SUBCHECKS", []):
            sub = importlib.import_module("props.%s" % subname)
            with Lock():
                make([sub.SPEC_REQ.replace(".", "/") + ".vo", sub.MODEL_REQ.replace(".", "/") + ".vo"])
            scs = (sub.gen_fault_cases if hasattr(sub, "gen_fault_cases") else sub.gen_cases)(random.Random("%s-%s-%s-%s" % (prop, subname, tier, seed)), tier)
            srs = run_impl_all(sub, scs)
            sp = [(c, r) for c, r in zip(scs, srs) if not (isinstance(r, dict) and "harness_error" in r)]
            st = [sub.to_coq(c, r) for c, r in sp]
            sb, mb, slog = coq_eval(sub, st, use_model=True)
            sub_info[subname] = {"cases": len(sp), "impl_vs_spec_disagreements": len(sb), "impl_vs_model_disagreements": len(mb or [])}
            for i in sb:
                sub_failing.append((sub, sp[i][0], sp[i][1], st[i]))
            if mb and not sb:
                model_bad = (model_bad or []) + [-1]

    known = load_known(prop)
    violations = []  # (kind, description, replay-dict)
    known_hits = {}
    failing = [(pairs[i][0], pairs[i][1], terms[i]) for i in spec_bad]

    # 4. failing-input search when something broke but no sampled case violates the spec
    searched = 0
    if not failing and (proof_broken or (model_bad or []) or not corr_model_ok) and not replay:
        lits = []
        for k, v in literals.items():
            lits += v
        for b in proof_broken[:5]:
            print("BROKEN: " + b)
        if model_bad:
            print("BROKEN: correspondence: %d case(s) where implementation and model differ" % len(model_bad))
        scases = mod.search_cases(random.Random("%s-search-%s" % (prop, seed)), lits, tier)
        sres = run_impl_all(mod, scases)
        spairs = [(c, r) for c, r in zip(scases, sres) if not (isinstance(r, dict) and "harness_error" in r)]
        sterms = [mod.to_coq(c, r) for c, r in spairs]
        sbad, _, slog = coq_eval(mod, sterms, use_model=False)
        searched = len(spairs)
        failing = [(spairs[i][0], spairs[i][1], sterms[i]) for i in sbad]

    rdir = os.path.join(VERIF, "replays")
    for sub, c, r, term in sub_failing:
        key = "%s:%s" % (sub.ID, sub.finding_key(c, r))
        e = match_known(known, key)
        if e is not None:
            known_hits.setdefault(e["signature"], (e, c, r))
            continue
        h = hashlib.sha1(term.encode()).hexdigest()[:10]
        path = os.path.join(rdir, "%s-%s-%s.json" % (prop, sub.ID, h))
        if len([v for v in violations if v[0].startswith(sub.ID + ":")]) < 3:
            write_json(path, {"property": prop, "kind": "failing-input", "via_correspondence_of": sub.ID, "case": c, "impl_result": r,
                              "finding_key": key, "coq_case": term, "seed": seed, "tier": tier,
                              "how_to_replay": "./check %s --replay %s" % (sub.ID, path)})
            print("VIOLATION property=%s replay=%s" % (prop, path))
        violations.append((key, c, r, None))
    for c, r, term in failing:
        key = mod.finding_key(c, r)
        e = match_known(known, key)
        if e is not None:
            known_hits.setdefault(e["signature"], (e, c, r))
            continue
        violations.append((key, c, r, term))
    exit_code = 0
    for sigk, (e, c, r) in known_hits.items():
        print("KNOWN-FINDING: property=%s %s" % (prop, e["what"]))
    if violations:
        exit_code = 1
        # smallest first: generators attach a 'size'
        violations.sort(key=lambda v: (0 if v[3] is not None else 1, mod.case_size(v[1]) if (hasattr(mod, "case_size") and v[3] is not None) else 0, v[0]))
        if hasattr(mod, "shrink") and violations[0][3] is not None:
            key, c, r, term = violations[0]
            c2, r2 = shrink(mod, c, r, known)
            violations[0] = (mod.finding_key(c2, r2), c2, r2, mod.to_coq(c2, r2))
        seen = set()
        for key, c, r, term in violations:
            if key in seen or term is None:
                continue
            seen.add(key)
            if len(seen) > 5:
                break
            h = hashlib.sha1(term.encode()).hexdigest()[:10]
            path = os.path.join(rdir, "%s-%s.json" % (prop, h))
            write_json(path, {"property": prop, "kind": "failing-input", "case": c, "impl_result": r,
                              "finding_key": key, "coq_case": term, "coq_says": coq_show(mod, term, corr_model_ok),
                              "seed": seed, "tier": tier,
                              "how_to_replay": "./check %s --replay %s" % (prop, path)})
            print("VIOLATION property=%s replay=%s" % (prop, path))
        exit_code = 1
    elif (proof_broken or model_bad) and not known_hits and not replay:
        what = {"property": prop, "kind": "proof-broken" if proof_broken else "correspondence-broken",
                "broken_obligations": proof_broken, "seed": seed, "tier": tier, "searched_inputs": searched}
        if model_bad:
            i = model_bad[0]
            what["first_disagreeing_case"] = pairs[i][0]
            what["impl_result"] = pairs[i][1]
            what["coq_case"] = terms[i]
            what["coq_says"] = coq_show(mod, terms[i], corr_model_ok)
            what["disagreeing_cases"] = len(model_bad)
        h = hashlib.sha1(json.dumps(json_safe(what), sort_keys=True, default=str).encode()).hexdigest()[:10]
        path = os.path.join(rdir, "%s-%s.json" % (prop, h))
        write_json(path, what)
        print("VIOLATION property=%s replay=%s no-failing-input-found" % (prop, path))
        exit_code = 1
    elif (proof_broken or model_bad) and known_hits:
        # the only failing inputs are recorded findings, but an obligation outside them broke
        what = {"property": prop, "kind": "proof-broken" if proof_broken else "correspondence-broken",
                "broken_obligations": proof_broken, "seed": seed, "tier": tier, "searched_inputs": searched,
                "note": "failing inputs found are all recorded known findings"}
        if model_bad:
            i = model_bad[0]
            what["first_disagreeing_case"] = pairs[i][0]
            what["impl_result"] = pairs[i][1]
            what["coq_says"] = coq_show(mod, terms[i], corr_model_ok)
        h = hashlib.sha1(json.dumps(json_safe(what), sort_keys=True, default=str).encode()).hexdigest()[:10]
        path = os.path.join(rdir, "%s-%s.json" % (prop, h))
        write_json(path, what)
        print("VIOLATION property=%s replay=%s no-failing-input-found" % (prop, path))
        exit_code = 1
    if herr:
        # the implementation raised where the observation code of the harness expects none (the exception
        # surfaced outside try_impl): the case itself is the failing input
        # (raised in /repo/src, or by the standard pickling / copying machinery while it handles one of its objects)
        impl_herr = [(c, r) for c, r in herr if os.path.join(REPO, "src") in r.get("tb", "")
                     or re.search(r'File "[^"]*/(copyreg|pickle|copy)\.py"', r.get("tb", ""))]
        if impl_herr and not replay:
            c, r = min(impl_herr, key=lambda cr: len(json.dumps(json_safe(cr[0]), default=str)))
            h = hashlib.sha1(json.dumps(json_safe(c), sort_keys=True, default=str).encode()).hexdigest()[:10]
            path = os.path.join(rdir, "%s-%s.json" % (prop, h))
            write_json(path, {"property": prop, "kind": "failing-input", "case": c,
                              "impl_result": {"unexpected_exception": r["harness_error"], "traceback": r.get("tb", "")},
                              "note": "the implementation raised while the harness was observing the object "
                                      "(reading elements, snapshots, pickling): on the unchanged tree these observations never raise",
                              "cases_affected": len(impl_herr), "seed": seed, "tier": tier,
                              "how_to_replay": "./check %s --replay %s" % (prop, path)})
            print("VIOLATION property=%s replay=%s" % (prop, path))
            exit_code = 1
    if herr or not ok_spec:
        exit_code = exit_code or 2

    if replay:
        for (c, r), term in zip(pairs, terms):
            print("case: %s" % json.dumps(json_safe(c), default=str)[:1500])
            print("impl: %s" % json.dumps(json_safe(r), default=str)[:1500])
            print("coq : %s" % coq_show(mod, term, corr_model_ok)[:1500])
        print("replay: %d case(s), %d violate the spec" % (len(pairs), len(spec_bad)))
        return 1 if spec_bad else 0

    # 5. evidence
    tb = ["Coq 8.16.1 kernel (coqc), vm_compute for finite sweeps and for evaluating the model/spec on correspondence cases; no native_compute"]
    allax = sorted({a for v in axioms.values() for a in v})
    tb.append("Print Assumptions over %d property theorems: %s" % (len(axioms), ("axioms " + ", ".join(allax)) if allax else "all closed under the global context"))
    tb += getattr(mod, "TRUSTED", [])
    samples = []
    for c, r in pairs[:: max(1, len(pairs) // 6)][:6]:
        samples.append({"case": c, "impl": r})
    ev = {
        "property_id": prop, "tier": tier, "seed": seed, "level": "proof",
        "coverage": {
            "obligations": max(obligations, 1), "discharged": discharged,
            "checker_cmd": "cd /verif/coq && make -k -j%d %s && coqc -Q . NV %s" % (NPROC, " ".join(model_targets), mod.PROPS_FILE),
            "trusted_base": tb,
            "theorems": thms, "axioms_per_theorem": axioms,
            "evaluations": len(pairs), "distinct_nontrivial": len(sigs),
            "rule": mod.RULE,
            "signature_histogram_top": dict(sorted(sigs.items(), key=lambda kv: -kv[1])[:25]),
            "samples": samples,
            "traces_validated_against_impl": len(pairs),
            "correspondence": {"cases": len(pairs), "impl_vs_spec_disagreements": len(spec_bad),
                               "impl_vs_model_disagreements": (len(model_bad) if model_bad is not None else "model unavailable"),
                               "evaluated_in": "coqc vm_compute, %d-case shards" % SHARD},
            "input_distribution": mod.distribution(pairs) if hasattr(mod, "distribution") else {},
            "search": {"ran": searched > 0, "inputs": searched},
            "sub_correspondences": sub_info,
            "translator_failures": tfail,
            "broken_obligations": proof_broken,
            "partial": getattr(mod, "PARTIAL", []),
            "known_findings_hit": [e["what"] for e, _, _ in known_hits.values()],
            "exhaustive": bool(getattr(mod, "EXHAUSTIVE", {}).get(tier, False)),
            "notes": notes,
        },
        "assumptions": getattr(mod, "ASSUMPTIONS", []),
        "wall_s": round(time.time() - t0, 2),
        "violations": len(violations) + (1 if exit_code == 1 and not violations else 0),
    }
    if discharged == 0:
        # the schema requires discharged >= 1 for the proof keys; a run with broken proofs reports
        # its counts under other names and falls back to the exploration-style keys
        cov = ev["coverage"]
        cov["obligations_total"] = cov.pop("obligations")
        cov["discharged_count"] = cov.pop("discharged")
    write_json(os.path.join(VERIF, "evidence", "%s.json" % prop), ev)
    print("%s %s: obligations %d/%d discharged, %d cases (%d distinct non-trivial), spec-disagreements %d, model-disagreements %s, %.1fs"
          % (prop, tier, discharged, obligations, len(pairs), len(sigs), len(spec_bad),
             len(model_bad) if model_bad is not None else "n/a", time.time() - t0))
    return exit_code


def load_corpus(prop):
    d = os.path.join(VERIF, "corpus", prop)
    out = []
    if os.path.isdir(d):
        for fn in sorted(os.listdir(d)):
            if fn.endswith(".json"):
                obj = json.load(open(os.path.join(d, fn)))
                out += obj["cases"] if "cases" in obj else [obj["case"]]
    return out


def shrink(mod, case, res, known, budget=60):
    """Greedy shrinking with the module's candidate generator; keeps a candidate only if the
    implementation still violates the spec on it and it is still not a known finding."""
    cur, curres = case, res
    steps = 0
    improved = True
    while improved and steps < budget:
        improved = False
        cands = list(mod.shrink(cur))[:40]
        if not cands:
            break
        rs = run_impl_all(mod, cands)
        good = [(c, r) for c, r in zip(cands, rs) if not (isinstance(r, dict) and "harness_error" in r)]
        terms = [mod.to_coq(c, r) for c, r in good]
        bad, _, _ = coq_eval(mod, terms, use_model=False)
        steps += 1
        for i in bad:
            c, r = good[i]
            if match_known(known, mod.finding_key(c, r)) is None:
                cur, curres = c, r
                improved = True
                break
    return cur, curres


def main(argv):
    if len(argv) < 2:
        print("usage: check <Cxx> <quick|thorough> | check <Cxx> --replay <file>")
        return 2
    prop = argv[0].upper()
    replay = None
    tier = os.environ.get("VERIF_TIER", "quick")
    if argv[1] == "--replay":
        replay = argv[2]
    else:
        tier = argv[1]
    seed = int(os.environ.get("VERIF_SEED", "0"))
    sys.path.insert(0, os.path.join(VERIF, "harness"))
    sys.path.insert(0, os.path.join(REPO, "src"))
    mod = importlib.import_module("props.%s" % prop.lower())
    return run_check(mod, tier, seed, replay)


if __name__ == "__main__":
    sys.exit(main(sys.argv[1:]))
