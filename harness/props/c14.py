"""C14 — calendar fields, normalized fields and text agree with the tick value."""
from __future__ import annotations

import datetime as dt
import re

import vf
from props.common_bt import MAX128, MIN128, T64, around, battery, frac_class, rand128, sign_class

ID = "C14"
CASE_TYPE = "c14case"
SPEC_REQ = "Corr.C14Spec"
MODEL_REQ = "Corr.C14Model"
EXTRA_REQ = "Model.Calendar"
SPEC_FN = "c14_spec_ok"
MODEL_FN = "c14_model_ok"
PROPS_FILE = "Props/C14.v"
USES_GEN = ["_timedelta.py", "_datetime.py", "BintimeGen"]
RULE = ("cases = TimeDelta fields and str() over the 2^k battery, fractions within a few ticks of a whole second, "
        "negatives, random 128-bit values; DateTime fields / repr round trip / str over every month end and leap "
        "day region between year 1 and 9999, century boundaries before and after 1904, fractions near a whole "
        "second; DateTime built from random valid field tuples; datetime.date.fromordinal against the calendar "
        "model on month ends + random days (thorough: every day of years 1-9999); distinct = (kind, sign, fraction "
        "class, year class, month, carry class); trivial = none")
TRUSTED = ["translator (Gen/BintimeGen.v)", "Model/Calendar.v models datetime.date.fromordinal/toordinal (outside /repo); compared with Python on every run",
           "Model/Text.v (render_td, render_dt): hand-written renderers, compared character by character with str() on every case; the harness's regex only "
           "proposes the field values the Coq oracle then re-renders; repr() is evaluated by Python and compared by value"]
ASSUMPTIONS = ["hightime/datetime compute year/month/day with the proleptic Gregorian calendar (checked against Model/Calendar.v per run)",
               "Decimal at 64 digits is exact for hightime values (<= 39 significant digits)"]
PARTIAL = ["the text renderers (Model/Text.v) are written by hand, not regenerated: tied to str() character by character by the correspondence; "
           "repr() text is evaluated by Python and only its value is compared"]

DT_MIN = -60052752000 * T64
DT_MAX = 4712869095517621926724475289599
UTC = dt.timezone.utc
DT_LO_US = (dt.datetime(1, 1, 1) - dt.datetime(1904, 1, 1)) // dt.timedelta(microseconds=1)
DT_HI_US = (dt.datetime(9999, 12, 31, 23, 59, 59, 999999) - dt.datetime(1904, 1, 1)) // dt.timedelta(microseconds=1)
TD_RE = re.compile(r"^(?:(-?\d+) days?, )?(\d+):(\d\d):(\d\d)(?:\.(\d{1,18}))?$")
DT_RE = re.compile(r"^(\d{4})-(\d\d)-(\d\d) (\d\d):(\d\d):(\d\d)(?:\.(\d{6}|\d{15}|\d{24}))?\+00:00$")


def _render_td(d, h, m, s, f):
    out = ("%d day, " % d) if abs(d) == 1 else ("%d days, " % d) if d else ""
    out += "%d:%02d:%02d" % (h, m, s)
    if f:
        out += (".%018d" % f).rstrip("0")
    return out


def _build_dt(c):
    """The DateTime under observation, reached through the case's construction path."""
    import hightime as ht
    import nitypes.bintime as bt
    via = c.get("via", "from_ticks")
    if via == "from_ticks":
        return bt.DateTime.from_ticks(c["t"])
    if via == "from_ht":      # DateTime(hightime.datetime) — total yoctoseconds since the epoch
        return bt.DateTime(ht.datetime(1904, 1, 1, tzinfo=UTC) + ht.timedelta(yoctoseconds=c["n"]))
    if via == "from_dt":      # DateTime(datetime.datetime) — total microseconds since the epoch
        return bt.DateTime(dt.datetime(1904, 1, 1, tzinfo=UTC) + dt.timedelta(microseconds=c["n"]))
    if via == "add":          # a value that was inspected earlier, plus a delta
        x0 = bt.DateTime.from_ticks(c["t"] - c["delta"])
        _ = (x0.year, str(x0))
        return x0 + bt.TimeDelta.from_ticks(c["delta"])
    if via == "tuple":
        return bt.DateTime.from_tuple(bt.TimeValueTuple(c["t"] >> 64, c["t"] & (T64 - 1)))
    if via == "offset_iadd":  # built from an offset the caller goes on using: += on it makes a new TimeDelta
        off = bt.TimeDelta.from_ticks(c["t"])
        x = bt.DateTime.from_offset(off)
        _ = (x.year, str(x))
        off += bt.TimeDelta.from_ticks(c["delta"])
        off -= bt.TimeDelta.from_ticks(1)
        off *= 2
        return x
    if via == "now":          # the clock reading: whatever it is, text and fields must describe x.ticks
        return bt.DateTime.now(UTC)
    raise AssertionError(via)


def run_impl(c):
    """the caller's ambient decimal context must not influence any result"""
    import decimal
    if c.get("ctx"):
        with decimal.localcontext() as ctx:
            ctx.prec = c["ctx"]
            # ... nor its rounding mode
            ctx.rounding = [decimal.ROUND_HALF_EVEN, decimal.ROUND_FLOOR, decimal.ROUND_DOWN, decimal.ROUND_UP, decimal.ROUND_05UP,
                            decimal.ROUND_CEILING][c["ctx"] % 6 if c.get("ctx_round", True) else 0]
            return _run_impl(c)
    return _run_impl(c)


def _run_impl(c):
    import nitypes.bintime as bt
    k = c["k"]
    if k == "td_fields":
        x = bt.TimeDelta.from_ticks(c["t"])
        return {"v": [x.days, x.seconds, x.microseconds, x.femtoseconds, x.yoctoseconds]}
    if k == "td_str":
        s = str(bt.TimeDelta.from_ticks(c["t"]))
        m = TD_RE.match(s)
        if not m:
            return {"v": [0, 0, 0, 0, 0], "fmt": False, "text": s}
        d = int(m.group(1) or 0)
        h, mi, se = int(m.group(2)), int(m.group(3)), int(m.group(4))
        f = int((m.group(5) or "").ljust(18, "0"))
        return {"v": [d, h, mi, se, f], "fmt": _render_td(d, h, mi, se, f) == s, "text": s}
    if k == "dt_fields":
        x = _build_dt(c)
        if c.get("warm"):
            str(x)
        return {"v": [x.year, x.month, x.day, x.hour, x.minute, x.second, x.microsecond, x.femtosecond, x.yoctosecond],
                "tz": x.tzinfo is dt.timezone.utc, "t": x.ticks}
    if k == "dt_from_fields":
        return vf.try_impl(lambda: bt.DateTime(*c["f"], tzinfo=UTC).ticks)
    if k == "dt_repr":
        import datetime
        import nitypes
        x = _build_dt(c)
        r = vf.try_impl(lambda: eval(repr(x), {"nitypes": nitypes, "datetime": datetime}).ticks)
        r["t"] = x.ticks
        return r
    if k == "dt_str":
        x = _build_dt(c)
        s = str(x)
        m = DT_RE.match(s)
        if not m:
            return {"v": [1, 1, 1, 0, 0, 0, 0, 0, 0], "fmt": False, "text": s, "t": x.ticks}
        fr = (m.group(7) or "").ljust(24, "0")
        v = [int(m.group(i)) for i in range(1, 7)] + [int(fr[0:6]), int(fr[6:15]), int(fr[15:24])]
        # the fraction is shown with the shortest of 6/15/24 digits that loses nothing
        want = 24 if v[8] else 15 if v[7] else 6 if v[6] else 0
        return {"v": v, "fmt": len(m.group(7) or "") == want, "text": s, "t": x.ticks}
    if k == "ordinal":
        d = dt.date.fromordinal(c["ord"])
        return {"v": [d.year, d.month, d.day]}
    raise AssertionError(k)


def _f9(v):
    return "(%s)" % ", ".join(vf.zc(x) for x in v)


def _textc(s):
    """the implementation's text as character codes: compared character by character with Model/Text.v's rendering"""
    return "[" + "; ".join(str(ord(ch)) for ch in s) + "]"


def to_coq(c, r):
    k = c["k"]
    z = vf.zc
    if k == "td_fields":
        return "TdFields %s %s" % (z(c["t"]), " ".join(z(x) for x in r["v"]))
    if k == "td_str":
        return "TdStr %s %s %s" % (z(c["t"]), " ".join(z(x) for x in r["v"]), _textc(r["text"]))
    if k == "dt_fields":
        return "DtFields %s %s %s" % (z(r["t"]), _f9(r["v"]), vf.boolc(r["tz"]))
    if k == "dt_from_fields":
        return "DtFromFields %s %s" % (_f9(c["f"]), vf.resc(r))
    if k == "dt_repr":
        return "DtRepr %s %s" % (z(r["t"]), vf.resc(r))
    if k == "dt_str":
        return "DtStr %s %s %s" % (z(r["t"]), _f9(r["v"]), _textc(r["text"]))
    if k == "ordinal":
        return "Ordinal %s %s" % (z(c["ord"]), " ".join(z(x) for x in r["v"]))
    raise AssertionError(k)


def sig(c, r):
    k = c["k"]
    if k == "ordinal":
        y, m, d = r["v"]
        return "ord|%s|%d|%s" % ("leap" if (y % 4 == 0 and (y % 100 or y % 400 == 0)) else "common", m, "end" if d >= 28 else "mid"), True
    if k == "dt_from_fields":
        f = c["f"]
        return "fromf|%s|%d|%s" % ("pre" if f[0] < 1904 else "post", f[1], "sub" if any(f[6:]) else "whole"), True
    t = r.get("t", c.get("t", 0)) if isinstance(r, dict) else c.get("t", 0)
    near = "near1s" if (t % T64) > T64 - 20 or 0 < (t % T64) < 20 else "-"
    ycls = ""
    if k.startswith("dt_") and "v" in r:
        y = r["v"][0]
        ycls = "y%d" % (y // 1000) + ("c" if y % 100 == 0 else "") + ("m%d" % r["v"][1])
    fr = t % T64
    dy = "dyadic%d" % min(24, 64 - ((fr & -fr).bit_length() - 1)) if fr and (fr & -fr).bit_length() > 40 else ""
    return "%s|%s|%s|%s|%s|%s|%s" % (k, c.get("via", ""), sign_class(t), frac_class(t), near, ycls, dy), True


def finding_key(c, r):
    return sig(c, r)[0]


def case_size(c):
    return len(str(c))


def _td_values(rng, n):
    vals = battery(False)
    for w in (0, 1, -1, 59, 60, 3599, 3600, 86399, 86400, -86400, -86401, 86400 * 365, -(1 << 62), (1 << 62)):
        for f in list(range(0, 12)) + list(range(T64 - 12, T64)) + [1 << 63, (1 << 63) - 1, T64 // 10, T64 // 3]:
            vals.append(max(MIN128, min(MAX128, w * T64 + f)))
    vals += [rand128(rng) for _ in range(n)]
    return vals


def _dyadic(rng):
    """a fraction with few significant bits: k / 2^j, j <= 30 (exact in few decimal digits)"""
    j = rng.randrange(1, 31)
    return rng.randrange(1, 1 << j) << (64 - j)


def _dt_values(rng, n):
    vals = [DT_MIN, DT_MIN + 1, DT_MAX, DT_MAX - 1, 0, 1, -1]
    epoch = dt.date(1904, 1, 1).toordinal()
    # month ends, leap days, century boundaries
    for y in list(range(1, 10000, 97)) + [1, 4, 100, 400, 1600, 1700, 1800, 1899, 1900, 1903, 1904, 1905, 2000, 2024, 2100, 9996, 9999]:
        for mo in range(1, 13):
            for d in (1, 28, 29, 30, 31):
                try:
                    o = dt.date(y, mo, d).toordinal()
                except ValueError:
                    continue
                sec = (o - epoch) * 86400 + rng.choice([0, 1, 86399, rng.randrange(86400)])
                f = rng.choice([0, 1, T64 - 1, 1 << 63, rng.randrange(T64), _dyadic(rng), _dyadic(rng)])
                vals.append(max(DT_MIN, min(DT_MAX, sec * T64 + f)))
    for _ in range(n):
        vals.append(rng.randrange(DT_MIN, DT_MAX + 1))
    return vals


def gen_cases(rng, tier):
    big = tier != "quick"
    cases = []
    for t in _td_values(rng, 600 if not big else 20000):
        cases.append({"k": "td_fields", "t": t})
        cases.append({"k": "td_str", "t": t})
    dtv = _dt_values(rng, 300 if not big else 20000)
    if not big:
        dtv = rng.sample(dtv, min(len(dtv), 2500))
    for t in dtv:
        cases.append({"k": "dt_fields", "t": t})
        cases.append({"k": rng.choice(["dt_repr", "dt_str"]), "t": t, "ctx": rng.choice([None, None, 12, 6, 31, 32, 33, 34, 64])})
        # the same observers on objects reached through other construction paths
        m = rng.randrange(6)
        obs = rng.choice(["dt_fields", "dt_str", "dt_repr"])
        if m == 0:
            us = (t * 10**6) // T64 + rng.choice([0, 0, 1])
            cases.append({"k": obs, "via": "from_dt", "n": max(DT_LO_US, min(DT_HI_US, us)), "warm": rng.random() < 0.5})
        elif m == 1:
            ys = (t * 10**24) // T64 + rng.choice([0, 1, 54210])
            if rng.random() < 0.5:
                ys = (ys // 10**18) * 10**18 + rng.choice([0, 100, 333, 999999]) * 10**18 % 10**24  # whole microseconds
            cases.append({"k": obs, "via": "from_ht", "n": max(DT_LO_US * 10**18, min(DT_HI_US * 10**18, ys)), "warm": rng.random() < 0.5})
        elif m == 2:
            delta = rng.choice([1, T64 // 3, _dyadic(rng), rng.randrange(T64)])
            if DT_MIN <= t - delta:
                cases.append({"k": obs, "via": "add", "t": t, "delta": delta})
        elif m == 3:
            cases.append({"k": obs, "via": "tuple", "t": t})
    for _ in range(90 if not big else 600):
        cases.append({"k": rng.choice(["dt_fields", "dt_str", "dt_str", "dt_repr"]), "via": "now", "warm": rng.random() < 0.5})
    for _ in range(60 if not big else 600):
        t = rng.randrange(DT_MIN // 2, DT_MAX // 2)
        cases.append({"k": rng.choice(["dt_fields", "dt_str", "dt_repr"]), "via": "offset_iadd", "t": t,
                      "delta": rng.choice([1, T64, 86400 * T64, 40 * 86400 * T64 + 12345])})
    for _ in range(400 if not big else 10000):
        y = rng.choice([1, 1903, 1904, 2000, 2024, 9999, rng.randrange(1, 10000)])
        mo = rng.randrange(1, 13)
        dmax = (dt.date(y + (mo == 12), mo % 12 + 1, 1) - dt.timedelta(days=1)).day if (y, mo) != (9999, 12) else 31
        f = [y, mo, rng.randrange(1, dmax + 1), rng.randrange(24), rng.randrange(60), rng.randrange(60),
             rng.choice([0, 999999, rng.randrange(10**6)]), rng.choice([0, 999999999, rng.randrange(10**9)]),
             rng.choice([0, 999999999, 54210, rng.randrange(10**9)])]
        cases.append({"k": "dt_from_fields", "f": f, "ctx": rng.choice([None, None, 12, 6, 30, 31, 32, 33, 34, 65])})
    # calendar model against Python
    maxord = dt.date.max.toordinal()
    if big:
        ords = range(1, maxord + 1, 1)
    else:
        ords = [1, 2, maxord, maxord - 1] + [rng.randrange(1, maxord + 1) for _ in range(1500)]
        for y in range(1, 10000, 41):
            ords.append(dt.date(y, 2, 28).toordinal()); ords.append(dt.date(y, 3, 1).toordinal()); ords.append(dt.date(y, 12, 31).toordinal())
    for o in ords:
        cases.append({"k": "ordinal", "ord": o})
    return cases


def search_cases(rng, literals, tier):
    vals = [v for v in around([v for v in literals if abs(v) < (1 << 130)], 3) if MIN128 <= v <= MAX128]
    cases = []
    for t in vals[:3000]:
        cases.append({"k": "td_fields", "t": t})
        cases.append({"k": "td_str", "t": t})
        if DT_MIN <= t <= DT_MAX:
            cases.append({"k": "dt_fields", "t": t})
            cases.append({"k": "dt_repr", "t": t})
    return cases + gen_cases(rng, "quick")


def distribution(pairs):
    d = {}
    for c, r in pairs:
        d[c["k"]] = d.get(c["k"], 0) + 1
    return d
