"""C03 — binary-time arithmetic and ordering are exact 128-bit fixed-point operations."""
from __future__ import annotations

import datetime as dt
from decimal import Decimal
from fractions import Fraction

import vf
from props.common_bt import MAX128, MIN128, T64, around, battery, edge_class, frac_class, rand128, sign_class

ID = "C03"
CASE_TYPE = "c03case"
SPEC_REQ = "Corr.C03Spec"
MODEL_REQ = "Corr.C03Model"
SPEC_FN = "c03_spec_ok"
MODEL_FN = "c03_model_ok"
PROPS_FILE = "Props/C03.v"
USES_GEN = ["_timedelta.py", "_datetime.py", "BintimeGen"]
RULE = ("cases = operator (TimeDelta +,-,rsub,%,//,divmod,neg,pos,abs,*int,//int, six comparisons + hash, bool; "
        "DateTime+-TimeDelta, DateTime-DateTime; a*float, a*Decimal; bintime +- datetime/hightime timedelta/datetime "
        "in both operand orders; mixed comparisons both ways) x operand pairs from the 2^k battery x battery, "
        "results just inside/outside +-2^127, carries out of the fraction, floor division of negatives, zero "
        "divisors; distinct = (operator, sign(a), sign(b), fraction class of a, distance class of the exact "
        "result to the +-2^127 edge, outcome class); trivial = none")
TRUSTED = [
    "translator py2coq.py (Gen/BintimeGen.v regenerated from _timedelta.py/_datetime.py every run)",
    "correspondence harness props/c03.py; datetime/hightime/Decimal/float operands are given to the Coq oracle as exact rationals (integers scaled by 2^64, 10^6, 10^24)",
]
ASSUMPTIONS = ["datetime and hightime arithmetic on their own types is exact integer arithmetic in us / ys (outside /repo)",
               "CPython evaluates the translated subset as Common/Py.v says"]
PARTIAL = ["a*float, a*Decimal and mixed datetime/hightime operands: only the stated error bound (<= 1 unit of the result resolution) "
           "is checked per run by the exact-rational oracle; the Decimal/IEEE arithmetic behind them is not proved here (see C04)"]

EPOCH = dt.datetime(1904, 1, 1, tzinfo=dt.timezone.utc)
DT_LO = (dt.datetime(1, 1, 1, tzinfo=dt.timezone.utc) - EPOCH) // dt.timedelta(microseconds=1)
DT_HI = (dt.datetime(9999, 12, 31, 23, 59, 59, 999999, tzinfo=dt.timezone.utc) - EPOCH) // dt.timedelta(microseconds=1)
TD_US_HI = 999999999 * 86400 * 10**6 + 86399999999
TD_US_LO = -999999999 * 86400 * 10**6


def _td(t):
    import nitypes.bintime as bt
    return bt.TimeDelta.from_ticks(t)


def _dtm(t):
    import nitypes.bintime as bt
    return bt.DateTime.from_ticks(t)


def _ticks(x, cls):
    if type(x) is not cls:
        raise vf_wrong_type(x)
    return x.ticks


class WrongType(Exception):
    pass


def vf_wrong_type(x):
    return WrongType(type(x).__name__)


def _ht_total_ys(x):
    # hightime.timedelta: days, seconds, microseconds, femtoseconds, yoctoseconds
    return (((x.days * 86400 + x.seconds) * 10**6 + x.microseconds) * 10**9 + x.femtoseconds) * 10**9 + x.yoctoseconds


def run_impl(c):
    import hightime as ht
    import nitypes.bintime as bt
    k = c["k"]
    TD, DT = bt.TimeDelta, bt.DateTime
    if k == "bin":
        a, b = _td(c["a"]), _td(c["b"])
        f = {"add": lambda: a + b, "sub": lambda: a - b, "rsub": lambda: b.__rsub__(a) if False else a.__rsub__(b), "mod": lambda: a % b}[c["op"]]
        return vf.try_impl(lambda: _ticks(f(), TD))
    if k == "floor_td":
        def f():
            r = _td(c["a"]) // _td(c["b"])
            if type(r) is not int:
                raise WrongType()
            return r
        return vf.try_impl(f)
    if k == "divmod_td":
        def f():
            q, r = divmod(_td(c["a"]), _td(c["b"]))
            if type(q) is not int:
                raise WrongType()
            return [q, _ticks(r, TD)]
        return vf.try_impl(f)
    if k == "recompose":
        def f():
            a, b = _td(c["a"]), _td(c["b"])
            return _ticks((a // b) * b + a % b, TD)
        return vf.try_impl(f)
    if k == "mul_int":
        n = bool(c["n"]) if c.get("as_bool") else c["n"]
        if c.get("huge"):
            n = n * (10**4400 + 7)    # too long for Python to print; written as a Coq expression in to_coq
        return vf.try_impl(lambda: _ticks((n * _td(c["a"])) if c["rev"] else (_td(c["a"]) * n), TD))
    if k == "floor_int":
        return vf.try_impl(lambda: _ticks(_td(c["a"]) // c["n"], TD))
    if k == "un":
        a = _td(c["a"])
        f = {"neg": lambda: -a, "pos": lambda: +a, "abs": lambda: abs(a)}[c["op"]]
        return vf.try_impl(lambda: _ticks(f(), TD))
    if k == "cmp":
        mk = _dtm if c["dt"] else _td
        a, b = mk(c["a"]), mk(c["b"])
        return {"v": [a < b, a <= b, a == b, a != b, a > b, a >= b], "ha": hash(a), "hb": hash(b)}
    if k == "bool":
        return {"v": bool(_td(c["a"]))}
    if k == "dt_add_td":
        return vf.try_impl(lambda: _ticks((_td(c["d"]) + _dtm(c["t"])) if c["rev"] else (_dtm(c["t"]) + _td(c["d"])), DT))
    if k == "dt_sub_td":
        return vf.try_impl(lambda: _ticks(_dtm(c["t"]) - _td(c["d"]), DT))
    if k == "dt_sub_dt":
        return vf.try_impl(lambda: _ticks(_dtm(c["t"]) - _dtm(c["u"]), TD))
    if k == "mul_rat":
        x = float.fromhex(c["x"]) if c["ty"] == "float" else Decimal(c["x"])
        return vf.try_impl(lambda: _ticks((x * _td(c["a"])) if c.get("rev") else (_td(c["a"]) * x), TD))
    if k == "mix":
        # other operand
        oty = c["oty"]
        if oty == "dt.timedelta":
            o = dt.timedelta(microseconds=c["n"])
        elif oty == "ht.timedelta":
            o = ht.timedelta(yoctoseconds=c["n"])
        elif oty == "dt.datetime":
            o = EPOCH + dt.timedelta(microseconds=c["n"])
        elif oty == "ht.datetime":
            o = ht.datetime(1904, 1, 1, tzinfo=dt.timezone.utc) + ht.timedelta(yoctoseconds=c["n"])
        a = _dtm(c["a"]) if c["aty"] == "DT" else _td(c["a"])

        def f():
            if c["sub"]:
                r = (o - a) if c["rev"] else (a - o)
            else:
                r = (o + a) if c["rev"] else (a + o)
            want = c["rty"]
            if want == "TD":
                return _ticks(r, TD)
            if want == "DT":
                return _ticks(r, DT)
            if want == "dt.datetime":
                if type(r) is not dt.datetime or r.tzinfo != dt.timezone.utc:
                    raise WrongType()
                return (r - EPOCH) // dt.timedelta(microseconds=1)
            if want == "ht.datetime":
                if type(r) is not ht.datetime or r.tzinfo != dt.timezone.utc:
                    raise WrongType()
                return _ht_total_ys(r - ht.datetime(1904, 1, 1, tzinfo=dt.timezone.utc))
            raise AssertionError(want)
        return vf.try_impl(f)
    if k == "mixcmp":
        oty = c["oty"]
        if oty == "dt.timedelta":
            o, a = dt.timedelta(microseconds=c["n"]), _td(c["a"])
        elif oty == "ht.timedelta":
            o, a = ht.timedelta(yoctoseconds=c["n"]), _td(c["a"])
        elif oty == "dt.datetime":
            o, a = EPOCH + dt.timedelta(microseconds=c["n"]), _dtm(c["a"])
        else:
            o, a = ht.datetime(1904, 1, 1, tzinfo=dt.timezone.utc) + ht.timedelta(yoctoseconds=c["n"]), _dtm(c["a"])
        if c.get("hist") and oty.endswith("datetime"):
            # reach the same tick value through a history: inspect an earlier value (fills caches),
            # then add a delta; the result must compare exactly like a fresh value with the same ticks
            d = c["hist"]
            try:
                x0 = _dtm(c["a"] - d["bt"])
                _ = (x0.year, str(x0), x0 < o)
                if d["kind"] == "bt":
                    a2 = x0 + _td(d["bt"])
                elif d["kind"] == "dt":
                    a2 = x0 + dt.timedelta(microseconds=d["n"])
                else:
                    a2 = x0 + ht.timedelta(yoctoseconds=d["n"])
                twin = _dtm(a2.ticks)
                return {"v": [a2 < o, a2 == o, a2 > o, o < a2, o == a2, o > a2],
                        "twin": [twin < o, twin == o, twin > o, o < twin, o == twin, o > twin]}
            except (OverflowError, ValueError):
                pass
        return {"v": [a < o, a == o, a > o, o < a, o == a, o > a]}
    raise AssertionError(k)


BINOP = {"add": "BAdd", "sub": "BSub", "rsub": "BRsub", "mod": "BMod"}
UNOP = {"neg": "UNeg", "pos": "UPos", "abs": "UAbs"}
RANGES = {"TD": (MIN128, MAX128, T64), "DT": (MIN128, MAX128, T64), "dt.datetime": (DT_LO, DT_HI, 10**6),
          "ht.datetime": (DT_LO * 10**18, DT_HI * 10**18 + 10**18 - 1, 10**24)}
UNIT = {"dt.timedelta": 10**6, "ht.timedelta": 10**24, "dt.datetime": 10**6, "ht.datetime": 10**24}


def _ratio(c):
    if c["ty"] == "float":
        num, den = float.fromhex(c["x"]).as_integer_ratio()
        return "{| r_num := %s; r_e2 := %s; r_e10 := 0 |}" % (vf.zc(num), vf.zc(-(den.bit_length() - 1)))
    sign, digits, exp = Decimal(c["x"]).as_tuple()
    num = int("".join(map(str, digits)) or "0") * (-1 if sign else 1)
    # 10^400 already puts any non-zero product beyond every range here: larger exponents are clipped for the oracle
    # (same verdict: overflow iff the TimeDelta is non-zero), which keeps the Coq arithmetic small
    return "{| r_num := %s; r_e2 := 0; r_e10 := %s |}" % (vf.zc(num), vf.zc(min(exp, 400)))


def to_coq(c, r):
    k = c["k"]
    z, b = vf.zc, vf.boolc
    if k == "bin":
        return "Bin %s %s %s %s" % (BINOP[c["op"]], z(c["a"]), z(c["b"]), vf.resc(r))
    if k == "floor_td":
        return "FloorTD %s %s %s" % (z(c["a"]), z(c["b"]), vf.resc(r))
    if k == "divmod_td":
        return "DivmodTD %s %s %s" % (z(c["a"]), z(c["b"]), vf.resc(r, lambda v: "(%s, %s)" % (z(v[0]), z(v[1]))))
    if k == "recompose":
        return "Recompose %s %s %s" % (z(c["a"]), z(c["b"]), vf.resc(r))
    if k == "mul_int":
        if c.get("huge"):
            return "MulInt %s (%s * (10 ^ 4400 + 7)) %s %s" % (z(c["a"]), z(c["n"]), b(c["rev"]), vf.resc(r))
        return "MulInt %s %s %s %s" % (z(c["a"]), z(int(bool(c["n"])) if c.get("as_bool") else c["n"]), b(c["rev"]), vf.resc(r))
    if k == "floor_int":
        return "FloorInt %s %s %s" % (z(c["a"]), z(c["n"]), vf.resc(r))
    if k == "un":
        return "Un %s %s %s" % (UNOP[c["op"]], z(c["a"]), vf.resc(r))
    if k == "cmp":
        return "Cmp %s %s %s %s %s %s" % (b(c["dt"]), z(c["a"]), z(c["b"]), " ".join(b(x) for x in r["v"]), z(r["ha"]), z(r["hb"]))
    if k == "bool":
        return "BoolOf %s %s" % (z(c["a"]), b(r["v"]))
    if k == "dt_add_td":
        return "DtAddTd %s %s %s %s" % (z(c["t"]), z(c["d"]), b(c["rev"]), vf.resc(r))
    if k == "dt_sub_td":
        return "DtSubTd %s %s %s" % (z(c["t"]), z(c["d"]), vf.resc(r))
    if k == "dt_sub_dt":
        return "DtSubDt %s %s %s" % (z(c["t"]), z(c["u"]), vf.resc(r))
    if k == "mul_rat":
        return "MulRat %s %s %s" % (z(c["a"]), _ratio(c), vf.resc(r))
    if k == "mix":
        lo, hi, ur = RANGES[c["rty"]]
        return "Mix %s %s %s %s %s %s %s %s %s" % (b(c["sub"]), b(c["rev"]), z(c["a"]), z(c["n"]), z(UNIT[c["oty"]]), vf.resc(r), z(ur), z(lo), z(hi))
    if k == "mixcmp":
        same = 0 if r.get("twin", r["v"]) == r["v"] else 1
        return "MixCmp %s %d" % (" ".join(b(x) for x in r["v"]), same)
    raise AssertionError(k)


def sig(c, r):
    a = c.get("a", c.get("t", 0))
    b2 = c.get("b", c.get("d", c.get("u", c.get("n", 0))))
    outcome = r.get("exc", "ok") if isinstance(r, dict) else "ok"
    exact = None
    if c["k"] == "bin":
        exact = {"add": a + b2, "sub": a - b2, "rsub": b2 - a, "mod": (a % b2) if b2 else 0}[c["op"]]
    elif c["k"] == "recompose":
        exact = (a // b2) * b2 if b2 else 0
    elif c["k"] in ("mul_int",):
        exact = a * c["n"]
    elif c["k"] in ("dt_add_td",):
        exact = a + b2
    elif c["k"] in ("dt_sub_td", "dt_sub_dt"):
        exact = a - b2
    ec = edge_class(exact) if exact is not None else "-"
    op = c.get("op", "") + c.get("oty", "") + c.get("ty", "") + ("r" if c.get("rev") else "") + ("s" if c.get("sub") else "") + c.get("aty", "")
    return "%s|%s|%s|%s|%s|%s|%s" % (c["k"], op, sign_class(a), sign_class(b2) if isinstance(b2, int) else "-", frac_class(a), ec, outcome), True


def finding_key(c, r):
    return sig(c, r)[0]


def case_size(c):
    return len(str(c))


def _int_cases(pairs, rng):
    out = []
    for a, b in pairs:
        for op in ("add", "sub", "rsub", "mod"):
            out.append({"k": "bin", "op": op, "a": a, "b": b})
        out.append({"k": "floor_td", "a": a, "b": b})
        out.append({"k": "divmod_td", "a": a, "b": b})
        out.append({"k": "recompose", "a": a, "b": b})
        out.append({"k": "cmp", "dt": rng.random() < 0.5, "a": a, "b": b})
        out.append({"k": "cmp", "dt": rng.random() < 0.5, "a": a, "b": a})
        out.append({"k": "dt_add_td", "t": a, "d": b, "rev": rng.random() < 0.3})
        out.append({"k": "dt_sub_td", "t": a, "d": b})
        out.append({"k": "dt_sub_dt", "t": a, "u": b})
        for op in ("neg", "pos", "abs"):
            out.append({"k": "un", "op": op, "a": a})
        out.append({"k": "bool", "a": a})
        n = rng.choice([0, 1, -1, 2, -2, 3, 7, -10, 1 << 20, -(1 << 63), (1 << 64) - 1]) if rng.random() < 0.7 else (
            b % (1 << rng.randrange(1, 70)) - rng.randrange(0, 5))
        out.append({"k": "mul_int", "a": a, "n": n, "rev": rng.random() < 0.4})
        out.append({"k": "floor_int", "a": a, "n": n})
        if rng.random() < 0.1:
            out.append({"k": "mul_int", "a": a, "n": rng.choice([0, 1]), "rev": rng.random() < 0.5, "as_bool": True})
    return out


def _pairs(rng, n_rand):
    bat = battery(False)
    pairs = []
    small = [v for v in bat if abs(v) < (1 << 66)] + [MAX128, MIN128, MAX128 - 1, MIN128 + 1]
    for _ in range(n_rand):
        m = rng.randrange(6)
        if m == 0:
            a, b = rng.choice(bat), rng.choice(bat)
        elif m == 1:  # result just inside / outside the range
            a = rng.choice(bat)
            edge = rng.choice([MAX128, MIN128]) + rng.randrange(-2, 3)
            b = max(MIN128, min(MAX128, rng.choice([edge - a, a - edge])))
        elif m == 2:
            a, b = rand128(rng), rand128(rng)
        elif m == 3:  # carry out of the fraction
            w1, w2 = rng.randrange(-1000, 1000), rng.randrange(-1000, 1000)
            f1 = rng.choice([T64 - 1, T64 - 2, 1 << 63, (1 << 63) + 1, rng.randrange(T64)])
            a, b = w1 * T64 + f1, w2 * T64 + (T64 - f1 + rng.randrange(-2, 3)) % T64
        elif m == 4:  # division of negatives by small values
            a, b = rand128(rng), rng.choice(small)
        else:
            a, b = rng.choice(small), rng.choice([0, 1, -1, 2, -2, 3, -3, T64, -T64])
        pairs.append((a, b))
    return pairs


def _mixed_cases(rng, n):
    out = []
    for _ in range(n):
        a = rand128(rng) if rng.random() < 0.6 else rng.choice(battery(False))
        m = rng.randrange(10)
        if m < 3:
            if rng.random() < 0.5:
                x = rng.choice([0.0, 1.0, -1.0, 0.5, 1e-20, 3.0, 0.1, 1e10, -2.5, 1e40, 2.0 ** -70, 1.0000000000000002]) if rng.random() < 0.6 else rng.uniform(-4, 4)
                out.append({"k": "mul_rat", "ty": "float", "a": a, "x": float(x).hex(), "rev": rng.random() < 0.3})
            else:
                x = rng.choice(["0", "1", "-1", "0.5", "1e-20", "3", "0.1", "1e10", "-2.5", "1e40", "1e100", "0.333333333333333333333333333333333333333333", "7e-30"])
                out.append({"k": "mul_rat", "ty": "Decimal", "a": a, "x": x, "rev": rng.random() < 0.3})
            continue
        oty = rng.choice(["dt.timedelta", "ht.timedelta", "dt.datetime", "ht.datetime"])
        if oty == "dt.timedelta":
            n_ = rng.choice([0, 1, -1, 999999, 10**6, TD_US_HI, TD_US_LO, rng.randrange(-10**12, 10**12), rng.randrange(TD_US_LO, TD_US_HI)])
        elif oty == "ht.timedelta":
            n_ = rng.choice([0, 1, -1, 54210, 54211, 10**24 - 1, 10**24, rng.randrange(-10**30, 10**30), rng.randrange(TD_US_LO, TD_US_HI) * 10**18 + rng.randrange(10**18)])
        elif oty == "dt.datetime":
            n_ = rng.choice([0, 1, DT_LO, DT_HI, rng.randrange(DT_LO, DT_HI)])
        else:
            n_ = rng.choice([0, 1, DT_LO * 10**18, rng.randrange(DT_LO, DT_HI) * 10**18 + rng.randrange(10**18)])
        if m < 5:
            # comparisons: TimeDelta vs timedelta, DateTime vs datetime (DateTime must be displayable as hightime)
            if oty.endswith("datetime"):
                lo, hi = -60052752000 * T64, 4712869095517621926724475289599
                if not (lo <= a <= hi):
                    a = rng.randrange(lo, hi)
                if rng.random() < 0.3:  # equal or adjacent instants
                    a = (n_ * T64) // UNIT[oty] + rng.randrange(-1, 2)
                    a = max(lo, min(hi, a))
            else:
                if abs(a) > (1 << 110):
                    a >>= 20
                if rng.random() < 0.3:
                    a = (n_ * T64) // UNIT[oty] + rng.randrange(-1, 2)
            cse = {"k": "mixcmp", "oty": oty, "a": a, "n": n_}
            if oty.endswith("datetime") and rng.random() < 0.6:
                kind = rng.choice(["bt", "dt", "ht"])
                if kind == "bt":
                    cse["hist"] = {"kind": "bt", "bt": rng.choice([1, 54210, T64 // 3, rng.randrange(T64)])}
                elif kind == "dt":
                    nn = rng.choice([1, 100, 333, 999999, rng.randrange(1, 10**7)])
                    cse["hist"] = {"kind": "dt", "n": nn, "bt": (nn * T64) // 10**6}
                else:
                    nn = rng.choice([1, 54211, 10**18 + 1, rng.randrange(1, 10**25)])
                    cse["hist"] = {"kind": "ht", "n": nn, "bt": (nn * T64 + 10**24 // 2) // 10**24}
                # compare against an instant adjacent to the result
                if rng.random() < 0.7:
                    lo_n, hi_n = (DT_LO, DT_HI) if oty == "dt.datetime" else (DT_LO * 10**18, DT_HI * 10**18)
                    cse["n"] = max(lo_n, min(hi_n, (a * UNIT[oty]) // T64 + rng.randrange(-1, 2)))
            out.append(cse)
            continue
        if oty.endswith("timedelta"):
            aty = rng.choice(["TD", "DT"])
            sub = rng.random() < 0.5
            rev = rng.random() < 0.4
            if aty == "DT" and sub and rev:
                rev = False  # timedelta - DateTime is not defined
            rty = aty
            out.append({"k": "mix", "aty": aty, "oty": oty, "a": a, "n": n_, "sub": sub, "rev": rev, "rty": rty})
        else:
            # TimeDelta + datetime -> datetime ; datetime - TimeDelta -> datetime ; DateTime - datetime -> TimeDelta
            if abs(a) > (1 << 104):
                a >>= 24
            choice = rng.randrange(3)
            if choice == 0:
                out.append({"k": "mix", "aty": "TD", "oty": oty, "a": a, "n": n_, "sub": False, "rev": rng.random() < 0.5, "rty": oty})
            elif choice == 1:
                out.append({"k": "mix", "aty": "TD", "oty": oty, "a": a, "n": n_, "sub": True, "rev": True, "rty": oty})
            else:
                out.append({"k": "mix", "aty": "DT", "oty": oty, "a": a, "n": n_, "sub": True, "rev": rng.random() < 0.5, "rty": "TD"})
    return out


def gen_cases(rng, tier):
    n = 450 if tier == "quick" else 12000
    # a factor too long for Python to print (more than 4300 digits): OverflowError like any other out-of-range product
    huge = [{"k": "mul_int", "a": a, "n": sgn, "huge": True, "rev": rev}
            for a, sgn, rev in ((1, 1, False), (-5, -1, True), (MAX128, 1, True), (0, -1, False))]
    # a Decimal factor at the top of the Decimal exponent range: the product leaves it (decimal.Overflow inside the
    # implementation) - for the caller an out-of-range product like any other; zero times it is zero
    # a zero divisor raises whatever the dividend is, zero included
    huge += [{"k": "floor_int", "a": a, "n": 0} for a in (0, 1, -1, T64)] + [{"k": "floor_td", "a": a, "b": 0} for a in (0, 5)] + \
            [{"k": "bin", "op": "mod", "a": a, "b": 0} for a in (0, -7)] + [{"k": "divmod_td", "a": a, "b": 0} for a in (0, 3)] + [
                {"k": "recompose", "a": a, "b": b} for a, b in ((-2**127, 3), (2**127 - 1, -3), (-2**127, -1), (-2**127 + 3, 3), (2**127 - 1, 2**127 - 1), (7, 0), (-7, 2))]
    huge += [{"k": "mul_rat", "ty": "Decimal", "a": a, "x": x, "rev": rev}
             for a, x, rev in ((10 * T64, "9e999999", False), (-3 * T64, "9e999999", True), (MAX128, "-9e999999", False),
                               (0, "9e999999", False), (25 * T64, "-9.5e999999", True))]
    return _int_cases(_pairs(rng, n), rng) + _mixed_cases(rng, 1500 if tier == "quick" else 40000) + huge


def search_cases(rng, literals, tier):
    vals = [v for v in around([v for v in literals if abs(v) < (1 << 130)]) if MIN128 <= v <= MAX128]
    vals = vals[:400]
    pairs = []
    bat = [0, 1, -1, 2, T64, -T64, MAX128, MIN128, 3, 7]
    for v in vals:
        for b in bat:
            pairs.append((v, b))
            pairs.append((b, v))
    for v in vals[:60]:
        for w in vals[:60]:
            pairs.append((v, w))
    return _int_cases(pairs + _pairs(rng, 1500), rng) + _mixed_cases(rng, 3000)


def distribution(pairs):
    d = {}
    for c, r in pairs:
        key = c["k"] + ":" + (r.get("exc", "ok") if isinstance(r, dict) else "ok")
        d[key] = d.get(key, 0) + 1
    return d
