"""C16 — DigitalWaveform.test reports exactly the incompatible (sample, signal) positions."""
from __future__ import annotations

import vf

ID = "C16"
CASE_TYPE = "c16case"
SPEC_REQ = "Corr.C16Spec"
EXTRA_REQ = "Spec.StateSpec"
MODEL_REQ = "Corr.C16Model"
SPEC_FN = "c16_spec_ok"
MODEL_FN = "c16_model_ok"
PROPS_FILE = "Props/C16.v"
USES_GEN = ["_state.py", "StateGen"]
RULE = ("cases = all 64 state pairs + out-of-range values for DigitalState.test, to_char/from_char over all byte "
        "values; waveform pairs (uint8/int8/bool, 0-4 signals, buffers with start_index>0 and spare capacity on either "
        "side, windows None/0/partial/too large/negative, start_sample != expected_start_sample, non-state values "
        "inside and outside the window); distinct = (kind, dtype, ncols, actual geometry class, expected geometry "
        "class, argument classes, outcome, #failures class); trivial = empty window with valid arguments")
TRUSTED = ["translator (Gen/StateGen.v from _digital/_state.py)", "hand model Model/DigitalTest.v of DigitalWaveform.test tied by the correspondence; NumPy indexing modelled"]
ASSUMPTIONS = ["NumPy 2-D indexing data[i, c] returns the stored element (modelled)"]
PARTIAL = []
EXHAUSTIVE = {"quick": False, "thorough": False}
DTYPES = ["uint8", "int8", "bool"]


def _mk(w):
    import numpy as np
    from nitypes.waveform import DigitalWaveform
    arr = np.array(w["buf"], dtype=w["dtype"]).reshape(len(w["buf"]), w["ncol"])
    if w.get("fortran"):
        arr = np.asfortranarray(arr)      # the same samples in column-major memory: the order of the report is by sample all the same
    return DigitalWaveform(data=arr, start_index=w["st"], sample_count=w["cnt"])


def run_impl(c):
    from nitypes.waveform import DigitalState
    k = c["k"]
    if k == "test":
        a, e = _mk(c["a"]), _mk(c["e"])
        if c.get("same"):
            e = a       # a waveform tested against itself (the descriptions are equal): windows may still start apart
        kw = {}
        for name in ("start_sample", "expected_start_sample", "sample_count"):
            if name in c:
                # a bool is an int (0 or 1), whatever NumPy makes of a bool index
                kw[name] = bool(c[name]) if (name in c.get("bool_args", ()) and c[name] in (0, 1)) else c[name]
            elif name in c.get("xnone", ()):
                kw[name] = None  # None passed explicitly means the same as the argument left out

        def f():
            res = a.test(e, **kw)
            fl = [[x.sample_index, x.expected_sample_index, x.signal_index, int(x.actual_state), int(x.expected_state)]
                  for x in res.failures]
            for x in res.failures:
                assert isinstance(x.actual_state, DigitalState) and isinstance(x.expected_state, DigitalState)
            return {"f": fl, "success": bool(res.success)}
        return vf.try_impl(f)
    if k == "pair":
        return vf.try_impl(lambda: bool(DigitalState.test(c["a"], c["b"])))
    if k == "to_char":
        return vf.try_impl(lambda: ord(DigitalState.to_char(c["s"])))
    if k == "from_char":
        return vf.try_impl(lambda: int(DigitalState.from_char(chr(c["c"]))))
    raise AssertionError(k)


def _dwf(w):
    rows = "[" + "; ".join(vf.listc(r) for r in w["buf"]) + "]"
    return "{| buf := %s; st := %s; cnt := %s; ncol := %s |}" % (rows, vf.natc(w["st"]), vf.natc(w["cnt"]), vf.natc(w["ncol"]))


def to_coq(c, r):
    k = c["k"]
    if k == "test":
        if "exc" in r:
            out, succ = "(Raise %s)" % r["exc"], "false"
        else:
            out = "(Ok [%s])" % "; ".join("(%s)" % ", ".join(vf.zc(v) for v in f) for f in r["ok"]["f"])
            succ = vf.boolc(r["ok"]["success"])
        args = " ".join(vf.optc(c.get(n)) for n in ("start_sample", "expected_start_sample", "sample_count"))
        return "TestCase %s %s %s %s %s" % (_dwf(c["a"]), _dwf(c["e"]), args, out, succ)
    if k == "pair":
        return "StatePair %s %s %s" % (vf.zc(c["a"]), vf.zc(c["b"]), vf.resc(r, vf.boolc))
    if k == "to_char":
        return "ToChar %s %s" % (vf.zc(c["s"]), vf.resc(r))
    if k == "from_char":
        return "FromChar %s %s" % (vf.zc(c["c"]), vf.resc(r))
    raise AssertionError(k)


def _geom(w):
    return "%s%s%s" % ("s" if w["st"] else "0", "c" if w["cnt"] else "0", "x" if len(w["buf"]) > w["st"] + w["cnt"] else "f")


def sig(c, r):
    k = c["k"]
    out = r.get("exc") if isinstance(r, dict) and "exc" in r else "ok"
    if k == "test":
        nf = len(r["ok"]["f"]) if out == "ok" else -1
        args = "".join("N" if n not in c else ("-" if c[n] < 0 else "0" if c[n] == 0 else "+") for n in ("start_sample", "expected_start_sample", "sample_count"))
        s = "test|%s|%d|%s|%s|%s|%s|%s" % (c["a"]["dtype"], c["a"]["ncol"], _geom(c["a"]), _geom(c["e"]), args, out,
                                          "0" if nf == 0 else "1" if nf == 1 else "n" if nf > 1 else "-")
        trivial = out == "ok" and nf == 0 and c["a"]["cnt"] == 0
        return s, not trivial
    if k == "pair":
        return "pair|%d|%d|%s" % (c["a"], c["b"], out), True
    return "%s|%s|%s" % (k, c.get("s", c.get("c")), out), True


def finding_key(c, r):
    return sig(c, r)[0]


def case_size(c):
    return len(str(c))


def _wave(rng, dtype, ncol, states, bad_rate):
    cap = rng.choice([0, 1, 2, 3, 4, 6])
    st = rng.randrange(0, cap + 1) if rng.random() < 0.6 else 0
    cnt = rng.randrange(0, cap - st + 1) if rng.random() < 0.5 else cap - st
    lo, hi = {"uint8": (0, 255), "int8": (-128, 127), "bool": (0, 1)}[dtype]
    buf = []
    for _ in range(cap):
        row = []
        for _ in range(ncol):
            if rng.random() < bad_rate:
                # not digital states: 8 and up, and for int8 the negative values (which index a table from its end)
                row.append(rng.choice([8, 9, hi, lo, 100, -1, -2, -3, -5, -8, -9]) if dtype != "bool" else rng.choice([0, 1]))
            else:
                row.append(rng.choice(states))
        buf.append([max(lo, min(hi, v)) for v in row])
    return {"buf": buf, "st": st, "cnt": cnt, "ncol": ncol, "dtype": dtype}


def gen_cases(rng, tier):
    cases = []
    for a in list(range(-1, 10)) + [255]:
        for b in list(range(-1, 10)) + [255]:
            cases.append({"k": "pair", "a": a, "b": b})
    for s in list(range(-2, 12)) + [255, 256]:
        cases.append({"k": "to_char", "s": s})
    for ch in range(0, 256):
        cases.append({"k": "from_char", "c": ch})
    n = 1500 if tier == "quick" else 40000
    for _ in range(n):
        dtype = rng.choice(DTYPES)
        ncol = rng.choice([0, 1, 1, 2, 3, 4])
        states = [0, 1] if dtype == "bool" else list(range(8))
        bad = rng.choice([0, 0, 0, 0.05, 0.3])
        a = _wave(rng, dtype, ncol, states, bad)
        # the expected waveform may have another state dtype (bool receiver against uint8 expected, ...)
        edtype = dtype if rng.random() < 0.6 else rng.choice(DTYPES)
        if dtype == "bool" and rng.random() < 0.4:
            edtype = "uint8"
        estates = [0, 1] if edtype == "bool" else list(range(8))
        e = _wave(rng, edtype, ncol if rng.random() < 0.9 else rng.choice([0, 1, 2, 3]), estates, bad)
        twin = rng.random() < 0.2
        if twin:
            # the expected waveform is (nearly) a copy of the actual one, invalid values included: equal raw
            # values that are not digital states must still be rejected
            import copy as _copy
            e = _copy.deepcopy(a)
            if rng.random() < 0.5 and e["buf"] and e["ncol"]:
                e["buf"][rng.randrange(len(e["buf"]))][rng.randrange(e["ncol"])] = rng.choice(states)
        if rng.random() < 0.25:
            a["fortran"] = e["fortran"] = True
        c = {"k": "test", "a": a, "e": e}
        if twin and rng.random() < 0.5:
            c["e"] = _copy.deepcopy(a)
            c["same"] = True
        for name, lim in (("start_sample", a["cnt"]), ("expected_start_sample", e["cnt"]), ("sample_count", min(a["cnt"], e["cnt"]))):
            m = rng.random()
            if twin and not c.get("same") and name == "expected_start_sample" and "start_sample" in c and rng.random() < 0.8:
                c[name] = c["start_sample"]
                continue
            if m < 0.35:
                if rng.random() < 0.5:
                    c.setdefault("xnone", []).append(name)
                continue
            elif m < 0.85:
                c[name] = rng.randrange(0, lim + 1) if rng.random() < 0.8 else rng.choice([0, 1])
                if c[name] in (0, 1) and rng.random() < 0.4:
                    c.setdefault("bool_args", []).append(name)
            elif m < 0.95:
                c[name] = lim + rng.randrange(1, 3)
            else:
                c[name] = -rng.randrange(1, 3)
        cases.append(c)
    return cases


def search_cases(rng, literals, tier):
    return gen_cases(rng, "thorough" if tier == "thorough" else "quick") + gen_cases(random_alt(rng), "quick")


def random_alt(rng):
    import random
    return random.Random(rng.random())


def distribution(pairs):
    d = {}
    for c, r in pairs:
        key = c["k"] + ":" + (r.get("exc", "ok") if isinstance(r, dict) else "ok")
        d[key] = d.get(key, 0) + 1
    return d
