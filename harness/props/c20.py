"""C20 — a Timing holds exactly the members its mode allows, and never changes."""
from __future__ import annotations

import itertools

import vf
from props.common_time import UNIT, mk_dtm, mk_td

ID = "C20"
CASE_TYPE = "c20case"
SPEC_REQ = "Corr.C20Spec"
MODEL_REQ = "Corr.C20Model"
EXTRA_REQ = "Spec.TimingSpec"
SPEC_FN = "c20_spec_ok"
MODEL_FN = "c20_model_ok"
PROPS_FILE = "Props/C20.v"
USES_GEN = []
RULE = ("EXHAUSTIVE over modes {NONE, REGULAR, IRREGULAR, 3 non-modes} x kinds of timestamp/time_offset/sample_interval "
        "{None, datetime, timedelta, wrong type} (each of the three families, incl. zero values) x timestamps "
        "{None, not a sequence, [], monotonic/non-monotonic/with plateaus sequences, sequences with a wrong item}, "
        "general and named constructors; every constructed object is probed: flags, reads of each member, "
        "sample_interval_mode, setattr on every public name; equality pairs; distinct = (mode, member kinds, "
        "timestamps kind, constructor, outcome); trivial = none")
TRUSTED = ["hand model Model/Timing.v of Timing.__init__ / validate_init_args tied by the exhaustive correspondence"]
ASSUMPTIONS = ["isinstance against the three families behaves as Python defines (hightime types are subclasses of datetime types)"]
PARTIAL = ["immutability: the model has no mutating operation on a timing (structural); the public names are probed with setattr on every constructed object"]
EXHAUSTIVE = {"quick": True, "thorough": True}

PUBLIC = ["timestamp", "time_offset", "sample_interval", "sample_interval_mode", "start_time",
          "has_timestamp", "has_time_offset", "has_sample_interval", "has_start_time"]


def _arg(a):
    """a = ['none'] | ['dtm', fam, v] | ['td', fam, v] | ['wrong', what]"""
    if a[0] == "none":
        return None
    if a[0] == "dtm":
        return mk_dtm(a[1], a[2])
    if a[0] == "td":
        return mk_td(a[1], a[2])
    return {"int": 5, "str": "x", "float": 1.5, "list": [1], "zero": 0}[a[1]]


def _tss(t):
    if t[0] == "none":
        return None
    if t[0] == "notseq":
        one = mk_dtm("Dt", 5)
        # collections that are not sequences: sets, mappings and their views, whatever their length
        return {"int": 7, "gen": (x for x in []), "set": {1}, "set0": set(), "set1": {one}, "fset1": frozenset([one]), "dict0": {},
                "dict1": {one: 1}, "keys1": {one: 1}.keys(), "dict2": {one: 1, mk_dtm("Dt", 9): 2}}[t[1]]
    items = [_arg(a) for a in t[1]]
    if t[0] == "userlist":
        import collections
        return collections.UserList(items)
    return tuple(items) if t[0] == "tuple" else items


def _mode(m):
    from nitypes.waveform import SampleIntervalMode
    return {0: SampleIntervalMode.NONE, 1: SampleIntervalMode.REGULAR, 2: SampleIntervalMode.IRREGULAR,
            3: 3, 4: "NONE", 5: None,
            # the raw VALUES of the enum members are not modes either
            6: 1, 7: 0, 8: True, 9: 2, 10: 1.0}[m]


def _report(t):
    from nitypes.waveform import SampleIntervalMode
    modes = {SampleIntervalMode.NONE: 0, SampleIntervalMode.REGULAR: 1, SampleIntervalMode.IRREGULAR: 2}

    def reads(name):
        try:
            getattr(t, name)
            return True
        except RuntimeError:
            return False
        except OverflowError:
            # start_time = timestamp + time_offset may not be representable; both members are still there
            if name == "start_time":
                return True
            raise
    frozen = True
    for name in PUBLIC:
        try:
            setattr(t, name, None)
            frozen = False
        except AttributeError:
            pass
    # a caller scribbling over what the public API handed out must not change the Timing
    if t._timestamps is not None:
        import copy
        before = list(t._timestamps)
        n = len(before)
        for got in (t.get_timestamps(0, n), t.get_timestamps(0, max(0, n - 1))):
            if isinstance(got, list):
                got.reverse(); got.append("x"); got[:1] = []
        if list(t.get_timestamps(0, n)) != before or len(t._timestamps) != n:
            frozen = False
    return {"mode": modes[t.sample_interval_mode], "has_ts": t.has_timestamp, "has_start": t.has_start_time,
            "has_off": t.has_time_offset, "has_si": t.has_sample_interval,
            "n_tss": -1 if t._timestamps is None else len(t._timestamps),
            "read_ts": reads("timestamp"), "read_start": reads("start_time"), "read_off": reads("time_offset"),
            "read_si": reads("sample_interval"), "frozen": frozen}


def _build(c):
    from nitypes.waveform import Timing
    ts, off, si, tss = _arg(c["ts"]), _arg(c["off"]), _arg(c["si"]), _tss(c["tss"])
    ctor = c.get("ctor", "general")
    if ctor == "general":
        return Timing(_mode(c["mode"]), ts, off, si, tss)
    if ctor == "no_interval":
        return Timing.create_with_no_interval(ts, off)
    if ctor == "regular":
        return Timing.create_with_regular_interval(si, ts, off)
    if ctor == "irregular":
        return Timing.create_with_irregular_interval(tss)
    raise AssertionError(ctor)


def run_impl(c):
    from nitypes.waveform import Timing
    k = c["k"]
    if k == "init":
        def f():
            import collections
            from nitypes.waveform import Timing as T
            tss_in = _tss(c["tss"])
            ctor = c.get("ctor", "general")
            kw = {}
            if c.get("copy_ts") is not None and ctor == "general":
                kw["copy_timestamps"] = c["copy_ts"]
            if ctor == "irregular":
                t = T.create_with_irregular_interval(tss_in)
            elif ctor == "general":
                t = T(_mode(c["mode"]), _arg(c["ts"]), _arg(c["off"]), _arg(c["si"]), tss_in, **kw)
            else:
                t = _build(c)
            handed_over = isinstance(tss_in, list) and kw.get("copy_timestamps") is False   # documented: takes ownership of a list
            frozen_ok = True
            if isinstance(tss_in, (list, tuple, collections.UserList)) and t._timestamps is not None:
                keep = list(tss_in)
                # whatever sequence type was given, the Timing equals the one built from a plain list of the same items
                if not (t == T.create_with_irregular_interval(list(keep))) or type(t._timestamps) is not list:
                    frozen_ok = False
                if isinstance(tss_in, (list, collections.UserList)) and not handed_over:
                    # the caller keeps using (and changing) its sequence
                    tss_in.reverse(); tss_in.append("junk")
                    if list(t._timestamps) != keep:
                        frozen_ok = False
            rep = _report(t)
            if not frozen_ok:
                rep["frozen"] = False
            return rep
        return vf.try_impl(f)
    if k == "eq":
        a, b = _build(c["a"]), _build(c["b"])
        if c.get("used"):
            # the first Timing has been in use - a waveform was given it and then appended to, another kept it too: a Timing
            # never changes, so it still equals (or not) what it did when it was made
            import numpy as np
            from nitypes.waveform import AnalogWaveform
            n = 0 if a._timestamps is None else len(a._timestamps)
            w, other = AnalogWaveform(n, timing=a), AnalogWaveform(n, timing=a)
            held = w.timing
            if a._timestamps is not None:
                last = a._timestamps[-1] if a._timestamps else mk_dtm("Dt", 0)
                try:
                    w.append(np.zeros(2), [last, last])
                except Exception:
                    pass
                try:
                    w.append(other)
                except Exception:
                    pass
            else:
                w.append(np.zeros(2))
            if held is not a or other.timing is not a:
                raise RuntimeError("the waveform did not keep the Timing it was given")
        return {"eq": bool(a == b), "ne": bool(a != b)}
    if k == "empty":
        return _report(Timing.empty)
    raise AssertionError(k)


def _argc(a):
    if a[0] == "none":
        return "ANone"
    if a[0] == "dtm":
        return "(ADatetime %s)" % vf.zc(a[2] * (10**24 // UNIT[a[1]]) if a[1] != "Bt" else a[2])
    if a[0] == "td":
        return "(ATimedelta %s)" % vf.zc(a[2] * (10**24 // UNIT[a[1]]) if a[1] != "Bt" else a[2])
    return "AWrong"


def _tssc(t):
    if t[0] == "none":
        return "TNone"
    if t[0] == "notseq":
        return "TNotSeq"
    return "(TSeq [%s])" % "; ".join(_argc(a) for a in t[1])


def _repc(r):
    b = vf.boolc
    return ("{| r_mode := %s; r_has_ts := %s; r_has_start := %s; r_has_off := %s; r_has_si := %s; r_n_tss := %s; "
            "r_read_ts := %s; r_read_start := %s; r_read_off := %s; r_read_si := %s; r_frozen := %s |}"
            % (vf.zc(r["mode"]), b(r["has_ts"]), b(r["has_start"]), b(r["has_off"]), b(r["has_si"]), vf.zc(r["n_tss"]),
               b(r["read_ts"]), b(r["read_start"]), b(r["read_off"]), b(r["read_si"]), b(r["frozen"])))


def _desc(c):
    """(mode, ts, off, si, tss) of an accepted construction, as Coq options (values in yoctoseconds / ticks)"""
    def o(a):
        return "None" if a[0] == "none" else "(Some %s)" % vf.zc(a[2] * (10**24 // UNIT[a[1]]) if a[1] != "Bt" else a[2])
    tss = "None" if c["tss"][0] == "none" else "(Some [%s])" % "; ".join(vf.zc(a[2] * (10**24 // UNIT[a[1]]) if a[1] != "Bt" else a[2]) for a in c["tss"][1])
    return "%s %s %s %s %s" % (vf.zc(c["mode"]), o(c["ts"]), o(c["off"]), o(c["si"]), tss)


def to_coq(c, r):
    k = c["k"]
    if k == "init":
        mode = c["mode"] if c["mode"] <= 2 else 3
        out = "(Raise %s)" % r["exc"] if "exc" in r else "(Ok %s)" % _repc(r["ok"])
        return "Init %s %s %s %s %s %s" % (vf.zc(mode), _argc(c["ts"]), _argc(c["off"]), _argc(c["si"]), _tssc(c["tss"]), out)
    if k == "eq":
        return "EqCase %s %s %s %s" % (_desc(c["a"]), _desc(c["b"]), vf.boolc(r["eq"]), vf.boolc(r["ne"]))
    return "Empty %s" % _repc(r)


def sig(c, r):
    if c["k"] != "init":
        return "%s|%s" % (c["k"], r if c["k"] == "eq" else ""), True
    outcome = r.get("exc", "ok")
    kind = lambda a: a[0] + (a[1] if a[0] in ("dtm", "td", "wrong") else "")
    t = c["tss"]
    tk = t[0] + (str(len(t[1])) + "".join(sorted({kind(a) for a in t[1]})) if t[0] in ("list", "tuple", "userlist") else "")
    return "init|%s|%s|%s|%s|%s|%s|%s" % (c["mode"], c.get("ctor", "general"), kind(c["ts"]), kind(c["off"]), kind(c["si"]), tk, outcome), True


def finding_key(c, r):
    return sig(c, r)[0]


def case_size(c):
    return len(str(c))


def _member_kinds():
    out = [["none"]]
    for fam in ("Dt", "Ht", "Bt"):
        out.append(["dtm", fam, 3 * UNIT[fam]])
        out.append(["td", fam, 2 * UNIT[fam]])
        out.append(["td", fam, 0])
    out += [["wrong", "int"], ["wrong", "str"], ["wrong", "zero"]]
    return out


def _tss_kinds():
    out = [["none"], ["notseq", "int"], ["notseq", "gen"], ["list", []], ["tuple", []]]
    for fam in ("Dt", "Ht", "Bt"):
        u = UNIT[fam]
        for seq in ([0, 1, 2], [2, 1, 0], [0, 0, 1], [1, 1, 1], [0, 1, 0], [0, 1, 1, 0], [3, 2, 2, 5], [5]):
            out.append(["list", [["dtm", fam, v * u] for v in seq]])
        out.append(["tuple", [["dtm", fam, 0], ["dtm", fam, u]]])
        out.append(["list", [["dtm", fam, 0], ["td", fam, u]]])
        out.append(["list", [["dtm", fam, 0], ["wrong", "int"]]])
    out.append(["list", [["wrong", "str"]]])
    out += [["notseq", x] for x in ("set0", "set1", "fset1", "dict0", "dict1", "keys1", "dict2")]
    return out


def gen_cases(rng, tier):
    cases = [{"k": "empty"}]
    members = _member_kinds()
    tsss = _tss_kinds()
    # full product over member kinds with the timestamps kinds that matter for the mode, plus a sample of the rest
    for mode in (0, 1, 2, 3, 4, 5, 6, 7, 8, 9, 10):
        mem = members if mode <= 2 else [members[0], members[1], members[2], members[-1]]
        for ts in mem:
            for off in mem:
                for si in mem:
                    for tss in (tsss if (ts[0] == off[0] == si[0] == "none") else tsss[:4] + [tsss[5]]):
                        cases.append({"k": "init", "mode": mode, "ts": ts, "off": off, "si": si, "tss": tss})
    none = ["none"]
    for ts in members:
        for off in members:
            cases.append({"k": "init", "ctor": "no_interval", "mode": 0, "ts": ts, "off": off, "si": none, "tss": none})
            for si in members:
                cases.append({"k": "init", "ctor": "regular", "mode": 1, "ts": ts, "off": off, "si": si, "tss": none})
    # members at the edge of their family's range: a timestamp and an offset whose sum is not representable are still
    # two allowed members (only start_time needs the sum)
    from props.common_time import ranges
    for fam in ("Dt", "Ht", "Bt"):
        lo_td, hi_td, lo_dtm, hi_dtm = ranges(fam)
        u = UNIT[fam] if fam != "Bt" else 1
        for ts, off in ((["dtm", fam, hi_dtm], ["td", fam, u]), (["dtm", fam, lo_dtm], ["td", fam, -u]),
                        (["dtm", fam, hi_dtm], ["td", fam, hi_td]), (["dtm", fam, lo_dtm], ["td", fam, lo_td]),
                        (["dtm", fam, hi_dtm], none), (["dtm", fam, 0], ["td", fam, hi_td])):
            si = ["td", fam, UNIT[fam]]
            cases.append({"k": "init", "mode": 0, "ts": ts, "off": off, "si": none, "tss": none})
            cases.append({"k": "init", "mode": 1, "ts": ts, "off": off, "si": si, "tss": none})
            cases.append({"k": "init", "ctor": "no_interval", "mode": 0, "ts": ts, "off": off, "si": none, "tss": none})
            cases.append({"k": "init", "ctor": "regular", "mode": 1, "ts": ts, "off": off, "si": si, "tss": none})
    for tss in tsss:
        cases.append({"k": "init", "ctor": "irregular", "mode": 2, "ts": none, "off": none, "si": none, "tss": tss})
    # the general constructor with copy_timestamps given, over list / tuple / UserList inputs
    for tss in tsss:
        if tss[0] not in ("list", "tuple"):
            continue
        for kind in ("list", "tuple", "userlist"):
            for copy_ts in (False, True):
                cases.append({"k": "init", "mode": 2, "ts": none, "off": none, "si": none, "tss": [kind, tss[1]], "copy_ts": copy_ts})
    # equality: pairs of accepted timings of one family
    descs = []
    for fam in ("Dt", "Ht", "Bt"):
        u = UNIT[fam]
        for ts in (none, ["dtm", fam, 3 * u], ["dtm", fam, 4 * u]):
            for off in (none, ["td", fam, 0], ["td", fam, u]):
                descs.append({"mode": 0, "ts": ts, "off": off, "si": none, "tss": none})
                for si in (["td", fam, u], ["td", fam, 0]):
                    descs.append({"mode": 1, "ts": ts, "off": off, "si": si, "tss": none})
        for seq in ([], [0], [0, 1], [0, 1, 1]):
            descs.append({"mode": 2, "ts": none, "off": none, "si": none, "tss": ["list", [["dtm", fam, v * u] for v in seq]]})
    fam_of = lambda d: next((a[1] for a in (d["ts"], d["off"], d["si"]) + tuple(d["tss"][1] if d["tss"][0] != "none" else ()) if a[0] != "none"), None)
    for a in descs:
        for b in descs:
            fa, fb = fam_of(a), fam_of(b)
            if fa is None or fb is None or fa == fb:
                cases.append({"k": "eq", "a": a, "b": b})
                if rng.random() < 0.15:
                    cases[-1]["used"] = True
    # a Timing that has been in use (waveforms appended to) still equals a fresh one of the same description
    used = [{"k": "eq", "a": a, "b": dict(a), "used": True} for a in descs]
    if tier == "quick":
        eqs = [c for c in cases if c["k"] == "eq"]
        rest = [c for c in cases if c["k"] != "eq"]
        cases = rest + rng.sample(eqs, min(len(eqs), 1500))
    return cases + used


def search_cases(rng, literals, tier):
    return gen_cases(rng, "thorough")


def distribution(pairs):
    d = {}
    for c, r in pairs:
        key = c["k"] + ":" + str(c.get("mode", "")) + ":" + (r.get("exc", "ok") if isinstance(r, dict) else "ok")
        d[key] = d.get(key, 0) + 1
    return d
