"""C10 — append merges timing, scaling and properties by the documented rules only."""
from __future__ import annotations

from props.wfm_common import *  # noqa: F401,F403
from props import wfm_common as W

ID = "C10"
PROPS_FILE = "Props/C10.v"
RULE = ("pool histories biased to append(waveform) / append([waveforms]) / append(tuple): receiver mode x source mode (NONE, "
        "REGULAR with equal / different interval, IRREGULAR with compatible / reversing / plateau timestamps, empty) x scale "
        "mode equal / different x dtype / signal-count match x property dictionaries (disjoint, overlapping, conflicting "
        "keys) x one or many sources (the same source several times, shared Timing objects), repeated; warnings are "
        "recorded; every pool object (receiver, sources, bystanders) is snapshotted after every call; distinct = step signatures")
TRUSTED = ["hand model Model/Waveform.v tied by the pool correspondence"]
ASSUMPTIONS = []
PARTIAL = []


def gen_cases(rng, tier):
    n = 600 if tier == "quick" else 5000
    cases = W.scripted(rng)
    for _ in range(n):
        cases.append({"seed": rng.randrange(1 << 40), "n": rng.choice([6, 10, 16, 24]), "focus": {"extra": ["append_wfm"] * 8, "irregular": 0.4}})
    return cases


def search_cases(rng, literals, tier):
    return gen_cases(rng, "quick")
