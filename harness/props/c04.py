"""C04 — time conversions err by less than the coarser resolution, exact when possible."""
from __future__ import annotations

import datetime as dt
from decimal import Decimal

import vf
from props.common_bt import MAX128, MIN128, T64, around, battery, frac_class, rand128, sign_class

ID = "C04"
CASE_TYPE = "c04case"
SPEC_REQ = "Corr.C04Spec"
MODEL_REQ = "Corr.C04Model"
SPEC_FN = "c04_spec_ok"
MODEL_FN = "c04_model_ok"
PROPS_FILE = "Props/C04.v"
USES_GEN = ["_timedelta.py", "BintimeGen"]
RULE = ("cases = convert_timedelta / convert_datetime over all nine family pairs (direct, and as members of a Timing "
        "converted with to_bintime/to_datetime/to_hightime in all three modes), values at k*2^64/10^6 boundaries +-1, "
        "just below a whole second, negatives, the range edges of datetime/hightime/bintime, tz kinds "
        "naive/UTC/other with fold 0/1; monotonicity pairs; a->b->a round trips; TimeDelta(int|float|Decimal) incl. "
        "sub-tick floats, dyadics, huge and non-finite values; precision_total_seconds round trip; total_seconds; "
        "distinct = (kind, src, dst, via, sign, fraction class, representable?, outcome); trivial = none")
TRUSTED = ["translator (td_to_dt, td_to_ht, td_to_ticks_dt, td_to_ticks_int, td_init regenerated from _timedelta.py)",
           "Model/Convert.v: Decimal/float entry point modelled as exact rational arithmetic (Decimal prec=64 suffices for the generated values)",
           "harness converts datetime/hightime objects to exact integer counts of us/ys"]
ASSUMPTIONS = ["datetime/hightime arithmetic is exact integer arithmetic in us/ys (outside /repo)", "Decimal context precision 64 is enough for hightime values (<= 39 digits)"]
PARTIAL = ["TimeDelta(x.precision_total_seconds()) == x is checked per run by the exact-rational oracle in Coq and proved only under the "
           "hypothesis that the Decimal value is within 1/4 tick (C04_precision_roundtrip_partial); total_seconds() is modelled bit-exactly "
           "(three round-to-nearest-even steps) with a proved error bound of half a quantum per step",
           "IEEE/Decimal rounding inside CPython is modelled, not proved"]

US, YS = 10**6, 10**24
UNIT = {"Dt": US, "Ht": YS, "Bt": T64}
TD_LO_US = -999999999 * 86400 * US
TD_HI_US = 999999999 * 86400 * US + 86400 * US - 1
DTM_LO_US = -60052752000 * US
DTM_HI_US = 255485145599 * US + 999999
class _CustomTZ(dt.tzinfo):
    """a tzinfo that is not a datetime.timezone (like zoneinfo.ZoneInfo): same +01:00 offset as kind 2"""

    def utcoffset(self, d):
        return dt.timedelta(hours=1)

    def dst(self, d):
        return dt.timedelta(0)

    def tzname(self, d):
        return "custom+01"


TZ = {0: None, 1: dt.timezone.utc, 2: dt.timezone(dt.timedelta(hours=1)), 3: _CustomTZ()}


class WrongType(Exception):
    pass


def _ht_total_ys(x):
    return (((x.days * 86400 + x.seconds) * 10**6 + x.microseconds) * 10**9 + x.femtoseconds) * 10**9 + x.yoctoseconds


def _mk_td(fam, v):
    import hightime as ht
    import nitypes.bintime as bt
    if fam == "Dt":
        return dt.timedelta(microseconds=v)
    if fam == "Ht":
        return ht.timedelta(yoctoseconds=v)
    return bt.TimeDelta.from_ticks(v)


def _cls(fam, dtm):
    import hightime as ht
    import nitypes.bintime as bt
    return {"Dt": dt.datetime if dtm else dt.timedelta, "Ht": ht.datetime if dtm else ht.timedelta,
            "Bt": bt.DateTime if dtm else bt.TimeDelta}[fam]


def _read_td(fam, x):
    import hightime as ht
    # a subclass instance satisfies a request for its base class (hightime.timedelta is a datetime.timedelta)
    if not isinstance(x, _cls(fam, False)):
        raise WrongType(type(x).__name__)
    if fam == "Dt":
        if isinstance(x, ht.timedelta):
            return _ht_total_ys(x) // 10**18
        return x // dt.timedelta(microseconds=1)
    if fam == "Ht":
        return _ht_total_ys(x)
    return x.ticks


def _mk_dtm(fam, v, tz, fold):
    import hightime as ht
    import nitypes.bintime as bt
    if fam == "Dt":
        return (dt.datetime(1904, 1, 1, tzinfo=TZ[tz]) + dt.timedelta(microseconds=v)).replace(fold=fold)
    if fam == "Ht":
        return (ht.datetime(1904, 1, 1, tzinfo=TZ[tz]) + ht.timedelta(yoctoseconds=v)).replace(fold=fold)
    return bt.DateTime.from_ticks(v)


def _read_dtm(fam, x):
    import hightime as ht
    if not isinstance(x, _cls(fam, True)):
        raise WrongType(type(x).__name__)
    if fam == "Bt":
        return [x.ticks, 1 if x.tzinfo is dt.timezone.utc else 2, 0]
    tzk = 0 if x.tzinfo is None else 1 if x.tzinfo == dt.timezone.utc else 2
    if fam == "Dt" and not isinstance(x, ht.datetime):
        v = (x.replace(tzinfo=None) - dt.datetime(1904, 1, 1)) // dt.timedelta(microseconds=1)
    elif fam == "Dt":
        v = _ht_total_ys(x.replace(tzinfo=None) - ht.datetime(1904, 1, 1)) // 10**18
    else:
        v = _ht_total_ys(x.replace(tzinfo=None) - ht.datetime(1904, 1, 1))
    return [v, tzk, x.fold]


def _timing_for(c, member_obj):
    """Put member_obj into a Timing of the requested mode so that it is converted by Timing._convert."""
    from nitypes.waveform import SampleIntervalMode, Timing
    via = c["via"]
    src = c["src"]
    if via == "timing_interval":
        return Timing.create_with_regular_interval(member_obj), lambda t: t.sample_interval
    if via == "timing_offset":
        if c.get("mode", 0) == 0:
            return Timing.create_with_no_interval(None, member_obj), lambda t: t.time_offset
        return Timing.create_with_regular_interval(_mk_td(src, UNIT[src]), None, member_obj), lambda t: t.time_offset
    if via == "timing_timestamp":
        if c.get("mode", 0) == 0:
            return Timing.create_with_no_interval(member_obj), lambda t: t.timestamp
        return Timing.create_with_regular_interval(_mk_td(src, UNIT[src]), member_obj), lambda t: t.timestamp
    if via == "timing_timestamps":
        return Timing.create_with_irregular_interval([member_obj, member_obj]), lambda t: list(t.get_timestamps(0, 2))[1]
    if via == "timing_timestamps_mixed":
        # timestamps of mixed families (reachable by appending differently stamped waveforms): the first one already
        # has the destination type, the member under test follows it
        first = _mk_dtm(c["dst"], 0, c.get("tz", 1) if c["dst"] != "Bt" else 1, 0)
        return Timing.create_with_irregular_interval([first, member_obj]), lambda t: list(t.get_timestamps(0, 2))[1]
    raise AssertionError(via)


def _convert(c, obj, dtm):
    from nitypes.time import convert_datetime, convert_timedelta
    dst = c["dst"]
    via = c.get("via", "direct")
    if via == "direct":
        return (convert_datetime if dtm else convert_timedelta)(_cls(dst, dtm), obj)
    timing, getter = _timing_for(c, obj)
    conv = {"Bt": timing.to_bintime, "Dt": timing.to_datetime, "Ht": timing.to_hightime}[dst]()
    return getter(conv)


def run_impl(c):
    """the caller's ambient decimal context must not influence any result"""
    import decimal
    if c.get("ctx"):
        with decimal.localcontext() as ctx:
            ctx.prec = c["ctx"]
            return _run_impl(c)
    return _run_impl(c)


def _run_impl(c):
    import hightime as ht
    import nitypes.bintime as bt
    k = c["k"]
    if k == "conv_td":
        obj = _mk_td(c["src"], c["v"])

        def f():
            r = _convert(c, obj, False)
            return {"r": _read_td(c["dst"], r), "same": r is obj}
        return vf.try_impl(f)
    if k == "conv_dtm":
        obj = _mk_dtm(c["src"], c["v"], c["tz"], c["fold"])
        if c.get("hist") and c["src"] == "Bt":
            # the same tick value reached through a history: an inspected value plus a TimeDelta
            x0 = bt.DateTime.from_ticks(c["v"] - c["hist"])
            _ = (x0.year, str(x0))
            obj = x0 + bt.TimeDelta.from_ticks(c["hist"])
            assert obj.ticks == c["v"]

        def f():
            r = _convert(c, obj, True)
            return {"r": _read_dtm(c["dst"], r), "same": r is obj}
        return vf.try_impl(f)
    if k == "mono":
        out = []
        for v in (c["a"], c["b"]):
            if c["dtm"]:
                obj = _mk_dtm(c["src"], v, 1, 0)
                out.append(vf.try_impl(lambda: _read_dtm(c["dst"], _convert(c, obj, True))[0]))
            else:
                obj = _mk_td(c["src"], v)
                out.append(vf.try_impl(lambda: _read_td(c["dst"], _convert(c, obj, False))))
        return {"ra": out[0], "rb": out[1]}
    if k == "roundtrip":
        from nitypes.time import convert_datetime, convert_timedelta
        a, b = c["a"], c["b"]
        if c["dtm"]:
            obj = _mk_dtm(a, c["v"], 1, 0)
            return vf.try_impl(lambda: _read_dtm(a, convert_datetime(_cls(a, True), convert_datetime(_cls(b, True), obj)))[0])
        obj = _mk_td(a, c["v"])
        return vf.try_impl(lambda: _read_td(a, convert_timedelta(_cls(a, False), convert_timedelta(_cls(b, False), obj))))
    if k == "ctor_int":
        n = bool(c["n"]) if c.get("as_bool") else c["n"]
        if c.get("np"):
            import numpy as np
            n = getattr(np, c["np"])(n)

        def f():
            t = bt.TimeDelta(n).ticks
            if type(t) is not int:
                raise RuntimeError("ticks is a %s" % type(t).__name__)
            return t
        return vf.try_impl(f)
    if k == "ctor_rat":
        x = float.fromhex(c["x"]) if c["ty"] == "float" else Decimal(c["x"])
        return vf.try_impl(lambda: bt.TimeDelta(x).ticks)
    if k == "ctor_nonfinite":
        x = float(c["x"]) if c["ty"] == "float" else Decimal(c["x"])
        return vf.try_impl(lambda: bt.TimeDelta(x).ticks)
    if k == "prec_round":
        x = bt.TimeDelta.from_ticks(c["t"])
        return vf.try_impl(lambda: bt.TimeDelta(x.precision_total_seconds()).ticks)
    if k == "total_seconds":
        f = bt.TimeDelta.from_ticks(c["t"]).total_seconds()
        assert type(f) is float
        num, den = f.as_integer_ratio()
        return {"m": num, "e": -(den.bit_length() - 1)}
    if k == "timing_shape":
        from nitypes.waveform import SampleIntervalMode, Timing
        src, dst = c["src"], c["dst"]
        ts = _mk_dtm(src, c["tsv"], 1, 0) if c["has_ts"] else None
        off = _mk_td(src, c["offv"]) if c["has_off"] else None
        mode = c["mode"]
        if mode == 0:
            t = Timing.create_with_no_interval(ts, off)
        elif mode == 1:
            t = Timing.create_with_regular_interval(_mk_td(src, c["siv"]), ts, off)
        else:
            t = Timing.create_with_irregular_interval([_mk_dtm(src, c["tsv"] + i * UNIT[src], 1, 0) for i in range(c["n"])])
        r = {"Bt": t.to_bintime, "Dt": t.to_datetime, "Ht": t.to_hightime}[dst]()
        modes = {SampleIntervalMode.NONE: 0, SampleIntervalMode.REGULAR: 1, SampleIntervalMode.IRREGULAR: 2}
        fam_ok = True
        if r.has_timestamp:
            fam_ok &= isinstance(r.timestamp, _cls(dst, True))
        if r.has_time_offset:
            fam_ok &= isinstance(r.time_offset, _cls(dst, False))
        if r.has_sample_interval:
            fam_ok &= isinstance(r.sample_interval, _cls(dst, False))
        if r._timestamps is not None:
            fam_ok &= all(isinstance(x, _cls(dst, True)) for x in r._timestamps)
        shape = lambda q: [modes[q.sample_interval_mode], int(q.has_timestamp), int(q.has_time_offset), int(q.has_sample_interval),
                           -1 if q._timestamps is None else len(q._timestamps)]
        return {"before": shape(t), "after": shape(r), "fams": bool(fam_ok), "same": r is t}
    raise AssertionError(k)


def _ratio(c):
    if c["ty"] == "float":
        num, den = float.fromhex(c["x"]).as_integer_ratio()
        return "{| r_num := %s; r_e2 := %s; r_e10 := 0 |}" % (vf.zc(num), vf.zc(-(den.bit_length() - 1)))
    sign, digits, exp = Decimal(c["x"]).as_tuple()
    num = int("".join(map(str, digits)) or "0") * (-1 if sign else 1)
    return "{| r_num := %s; r_e2 := 0; r_e10 := %s |}" % (vf.zc(num), vf.zc(exp))


def to_coq(c, r):
    k = c["k"]
    z, b = vf.zc, vf.boolc
    if k == "conv_td":
        out = "(Raise %s)" % r["exc"] if "exc" in r else "(Ok %s)" % z(r["ok"]["r"])
        return "ConvTd %s %s %s %s %s" % (c["src"], c["dst"], z(c["v"]), out, b("ok" in r and r["ok"]["same"]))
    if k == "conv_dtm":
        out = "(Raise %s)" % r["exc"] if "exc" in r else "(Ok (%s, %s, %s))" % tuple(z(x) for x in r["ok"]["r"])
        return "ConvDtm %s %s %s %s %s %s %s" % (c["src"], c["dst"], z(c["v"]), z(min(c["tz"], 2)), z(c["fold"]), out, b("ok" in r and r["ok"]["same"]))
    if k == "mono":
        return "Mono %s %s %s %s %s %s %s" % (b(c["dtm"]), c["src"], c["dst"], z(c["a"]), z(c["b"]), vf.resc(r["ra"]), vf.resc(r["rb"]))
    if k == "roundtrip":
        return "RoundTrip %s %s %s %s %s" % (b(c["dtm"]), c["a"], c["b"], z(c["v"]), vf.resc(r))
    if k == "ctor_int":
        return "CtorInt %s %s" % (z(int(bool(c["n"])) if c.get("as_bool") else c["n"]), vf.resc(r))
    if k == "ctor_rat":
        return "CtorRat %s %s" % (_ratio(c), vf.resc(r))
    if k == "ctor_nonfinite":
        return "CtorNonFinite %s" % vf.resc(r)
    if k == "prec_round":
        return "PrecRound %s %s" % (z(c["t"]), vf.resc(r))
    if k == "total_seconds":
        return "TotalSeconds %s %s %s" % (z(c["t"]), z(r["m"]), z(r["e"]))
    if k == "timing_shape":
        return "TimingShape %s %s %s %s %s" % (" ".join(z(x) for x in r["before"]), " ".join(z(x) for x in r["after"]),
                                               b(r["fams"]), b(r["same"]), b(c["src"] == c["dst"]))
    raise AssertionError(k)


def sig(c, r):
    k = c["k"]
    outcome = r.get("exc", "ok") if isinstance(r, dict) else "ok"
    v = c.get("v", c.get("t", c.get("a", c.get("n", 0))))
    if not isinstance(v, int):
        v = 0
    src = c.get("src", c.get("a", ""))
    rep = ""
    if k in ("conv_td", "conv_dtm") and c["src"] != c["dst"]:
        rep = "rep" if (v * UNIT[c["dst"]]) % UNIT[c["src"]] == 0 else "nonrep"
    return "%s|%s|%s|%s|%s|%s|%s|tz%s|%s" % (k, src, c.get("dst", c.get("b", "")), c.get("via", ""), sign_class(v), rep,
                                             c.get("ty", ""), c.get("tz", ""), outcome), True


def finding_key(c, r):
    return sig(c, r)[0]


def case_size(c):
    return len(str(c))


FAMS = ["Dt", "Ht", "Bt"]


def _value_for(rng, fam, dtm):
    lo_us, hi_us = (DTM_LO_US, DTM_HI_US) if dtm else (TD_LO_US, TD_HI_US)
    m = rng.randrange(8)
    if m == 0:
        us = rng.choice([0, 1, -1, 999999, 10**6, -10**6, lo_us, hi_us, lo_us + 1, hi_us - 1])
    elif m == 1:
        us = rng.randrange(lo_us, hi_us + 1)
    else:
        us = rng.randrange(-10**13, 10**13)
    us = max(lo_us, min(hi_us, us))
    if fam == "Dt":
        return us
    if fam == "Ht":
        sub = rng.choice([0, 0, 1, 54210, 54211, 10**18 - 1, rng.randrange(10**18)])
        if rng.random() < 0.3:  # a yoctosecond count next to an exact tick boundary
            tick = (us * T64) // US + rng.randrange(0, 1000)
            return max(lo_us * 10**18, min(hi_us * 10**18 + 10**18 - 1, (tick * YS) // T64 + rng.choice([0, 1])))
        return max(lo_us * 10**18, min(hi_us * 10**18 + 10**18 - 1, us * 10**18 + sub))
    # Bt: ticks at k*2^64/10^6 boundaries +- 1, just below a whole second, random
    m2 = rng.randrange(6)
    if m2 == 0:
        t = (us * T64) // US + rng.choice([-1, 0, 1])
    elif m2 == 1:
        t = (us // US) * T64 + rng.choice([T64 - 1, T64 - 2, 1, 0, 1 << 63])
    elif m2 == 2:
        t = rand128(rng)
    elif m2 == 3:
        t = rng.choice([MAX128, MIN128, MAX128 - 1, MIN128 + 1])
    else:
        t = (us * T64) // US + rng.randrange(T64 // US + 2)
    return max(MIN128, min(MAX128, t))


def gen_cases(rng, tier):
    big = tier != "quick"
    cases = []
    n = 350 if not big else 8000
    for src in FAMS:
        for dst in FAMS:
            for _ in range(n):
                v = _value_for(rng, src, False)
                via = rng.choice(["direct", "direct", "timing_interval", "timing_offset"])
                cases.append({"k": "conv_td", "src": src, "dst": dst, "v": v, "via": via, "mode": rng.randrange(2),
                              "ctx": rng.choice([None, None, None, 9]) if (src, dst) == ("Ht", "Bt") else None})
                v = _value_for(rng, src, True)
                if src == "Bt":
                    v = max(-60052752000 * T64, min(4712869095517621926724475289599, v)) if rng.random() < 0.9 else v
                tz = rng.choice([0, 1, 1, 1, 2, 3]) if src != "Bt" else 1
                if src != "Bt":   # stay a day inside the calendar range so that every tz kind is constructible
                    day = 86400 * UNIT[src]
                    v = max(DTM_LO_US * (UNIT[src] // US) + day, min(DTM_HI_US * (UNIT[src] // US) - day, v))
                via = rng.choice(["direct", "direct", "timing_timestamp", "timing_timestamps", "timing_timestamps_mixed"])
                if via != "direct" and tz == 0 and dst == "Bt":
                    via = "direct"
                cse = {"k": "conv_dtm", "src": src, "dst": dst, "v": v, "tz": tz, "fold": rng.choice([0, 0, 1]) if src != "Bt" else 0,
                       "via": via, "mode": rng.randrange(2)}
                if src == "Bt" and rng.random() < 0.5:
                    # dyadic fractions: both halves non-yoctosecond-exact, the sum exactly representable
                    j = rng.randrange(20, 40)
                    h = rng.choice([1 << (64 - j), 3 << (64 - j), rng.randrange(1, T64)])
                    if rng.random() < 0.6:
                        cse["v"] = v = (v >> 64 << 64) + 2 * h if rng.random() < 0.5 else v
                    if -60052752000 * T64 <= v - h and v <= 4712869095517621926724475289599:
                        cse["hist"] = h
                cases.append(cse)
            if src != dst:
                for _ in range(n // 3):
                    dtm = rng.random() < 0.4
                    a = _value_for(rng, src, dtm)
                    if dtm and src == "Bt":
                        a = max(-60052752000 * T64, min(4712869095517621926724475289599, a))
                    b = a + rng.choice([0, 1, 1, 2, 3, 54210, UNIT[src] // 10**6, rng.randrange(1, 1 << 20)])
                    if src != "Bt":
                        hi = (DTM_HI_US if dtm else TD_HI_US) * (UNIT[src] // US) + (UNIT[src] // US - 1)
                        b = min(b, hi)
                    else:
                        b = min(b, 4712869095517621926724475289599 if dtm else MAX128)
                    cases.append({"k": "mono", "dtm": dtm, "src": src, "dst": dst, "a": a, "b": b})
    for _ in range(n):
        t = _value_for(rng, "Bt", False)
        t = max((TD_LO_US + 1) * T64 // US, min((TD_HI_US - 1) * T64 // US, t))   # representable as a hightime.timedelta
        cases.append({"k": "roundtrip", "dtm": False, "a": "Bt", "b": "Ht", "v": t})
        cases.append({"k": "roundtrip", "dtm": False, "a": "Dt", "b": "Ht", "v": _value_for(rng, "Dt", False)})
        t2 = max(-60052752000 * T64, min(4712869095517621926724475289599, _value_for(rng, "Bt", True)))
        cases.append({"k": "roundtrip", "dtm": True, "a": "Bt", "b": "Ht", "v": t2})
        cases.append({"k": "roundtrip", "dtm": True, "a": "Dt", "b": "Ht", "v": _value_for(rng, "Dt", True)})
        cases.append({"k": "prec_round", "t": rng.choice(battery(False)) if rng.random() < 0.3 else rand128(rng), "ctx": rng.choice([None, None, 9, 28])})
        cases.append({"k": "total_seconds", "t": rng.choice(battery(False)) if rng.random() < 0.3 else rand128(rng)})
    # constructors
    for nn in [0, 1, -1, (1 << 63) - 1, -(1 << 63), 1 << 63, -(1 << 63) - 1, 1 << 70, 86400, 12345678901]:
        cases.append({"k": "ctor_int", "n": nn})
    cases.append({"k": "ctor_int", "n": 1, "as_bool": True})
    # integer seconds given as NumPy scalars (each within its own type): exact, never wrapped
    for ty, vals in (("int64", [0, 1, -1, 5, (1 << 63) - 1, -(1 << 63), 86400]), ("int32", [1, -7, (1 << 31) - 1]),
                     ("uint64", [1, 1 << 63, (1 << 64) - 1]), ("uint8", [255]), ("int8", [-128])):
        for v in vals:
            cases.append({"k": "ctor_int", "n": v, "np": ty})
    for _ in range(n * 2):
        m = rng.randrange(8)
        if m == 0:
            x = rng.choice([0.0, -0.0, 1.0, -1.0, 0.5, 0.1, 1e-20, 100.125, 2.0 ** 62, -2.0 ** 63, 2.0 ** 63, 1e19, 1e40, -1e300, 5e-324, 2.0 ** -64, 2.0 ** -65, 1.5 * 2.0 ** -64, 0.75 * 2.0 ** -64])
        elif m == 1:  # floats with bits below 2^-64
            x = rng.choice([1, -1]) * rng.randrange(1, 1 << 53) * 2.0 ** rng.randrange(-125, -50)
        elif m == 2:  # exact multiples of half a tick: ties
            x = rng.choice([1, -1]) * (rng.randrange(1, 1 << 20) * 2 + 1) * 2.0 ** -65
        elif m == 3:
            x = rng.uniform(-1e6, 1e6)
        elif m == 4:
            x = rng.uniform(-1, 1) * 2.0 ** rng.randrange(-70, 64)
        else:
            x = None
        if x is not None:
            cases.append({"k": "ctor_rat", "ty": "float", "x": float(x).hex()})
        else:
            digs = rng.randrange(1, 45)
            s = "%s%d.%0*d" % (rng.choice(["", "-"]), rng.choice([0, 1, 100, 86399, rng.randrange(10**11)]), digs, rng.randrange(10**digs))
            if rng.random() < 0.1:
                s = rng.choice(["1e30", "-1e25", "9223372036854775807.999999999999999999999", "-9223372036854775808", "9223372036854775808", "1e-30", "0.5e-19", "2.7105054312137610850186320021748542785644531250e-20"])
            cases.append({"k": "ctor_rat", "ty": "Decimal", "x": s, "ctx": rng.choice([None, None, 9, 5, 28, 100])})
    for ty, xs in (("float", ["nan", "inf", "-inf"]), ("Decimal", ["NaN", "Infinity", "-Infinity", "sNaN"])):
        for x in xs:
            cases.append({"k": "ctor_nonfinite", "ty": ty, "x": x})
    # Timing shapes: 3 modes x presence x family pairs
    for src in FAMS:
        for dst in FAMS:
            for mode in (0, 1, 2):
                for has_ts in (0, 1):
                    for has_off in (0, 1):
                        if mode == 2 and (has_ts or has_off):
                            continue
                        cases.append({"k": "timing_shape", "src": src, "dst": dst, "mode": mode, "has_ts": has_ts, "has_off": has_off,
                                      "tsv": max(-10**9 * UNIT[src], min(10**9 * UNIT[src], _value_for(rng, src, True))),
                                      "offv": _value_for(rng, src, False) % (10**6 * UNIT[src]),
                                      "siv": rng.randrange(1, 10**3 * UNIT[src]), "n": rng.choice([0, 1, 3])})
    return cases


def search_cases(rng, literals, tier):
    cases = gen_cases(rng, "quick")
    for v in around([x for x in literals if abs(x) < (1 << 127)], 2)[:1500]:
        if MIN128 <= v <= MAX128:
            for dst in ("Dt", "Ht"):
                cases.append({"k": "conv_td", "src": "Bt", "dst": dst, "v": v, "via": "direct"})
            cases.append({"k": "prec_round", "t": v})
        if TD_LO_US <= v <= TD_HI_US:
            cases.append({"k": "conv_td", "src": "Dt", "dst": "Bt", "v": v, "via": "direct"})
    return cases


def distribution(pairs):
    d = {}
    for c, r in pairs:
        key = c["k"] + ":" + c.get("via", "") + ":" + (r.get("exc", "ok") if isinstance(r, dict) else "ok")
        d[key] = d.get(key, 0) + 1
    return d
