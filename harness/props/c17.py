"""C17 — DateTimeArray and TimeDeltaArray behave exactly like a list of their elements."""
from __future__ import annotations

import vf
from props.common_bt import MAX128, MIN128, battery

ID = "C17"
CASE_TYPE = "c17case"
SPEC_REQ = "Corr.C17Spec"
MODEL_REQ = "Corr.C17Model"
EXTRA_REQ = "Spec.ListSpec Model.TimeArray"
SPEC_FN = "c17_spec_ok"
MODEL_FN = "c17_model_ok"
PROPS_FILE = "Props/C17.v"
SUBCHECKS = ["c02"]   # two arrays built from one another are two lists: C02's array paths write to one and read the other
USES_GEN = []
RULE = ("three-way: implementation, Coq model/spec, and a REAL Python list run the same operation from the same state. "
        "EXHAUSTIVE single-step sub-space: len <= 4, start/stop in {None,-6..6}, step in {None,1,-1,2,-2,3,0}, replacement "
        "lengths 0..len+2 for get/set/del slices, every integer index -6..6 for get/set/del/insert/pop; random histories "
        "of 1-25 operations (append/extend(self)/+=/pop/remove/reverse/clear/index/count/iter/len/wrong-typed elements and "
        "indices, aliasing probes of slices) on both classes with elements over the 128-bit battery; distinct = (op kind, "
        "len, index/slice sign pattern, replacement-length relation, outcome); trivial = len/iter on an empty array")
TRUSTED = ["hand model Model/TimeArray.v (class methods in source order + CPython's MutableSequence mixins) tied by the three-way correspondence",
           "Spec/ListSpec.v is itself compared with real CPython lists on every case"]
ASSUMPTIONS = ["NumPy basic slice assignment / np.insert / np.delete / np.append on 1-D structured arrays behave as modelled (broadcast of a length-1 source included)"]
PARTIAL = []
BAD = object()


def _cls(dt):
    import nitypes.bintime as bt
    return (bt.DateTime, bt.DateTimeArray) if dt else (bt.TimeDelta, bt.TimeDeltaArray)


def _v(X, v):
    return X.from_ticks(v) if isinstance(v, int) else {"str": "x", "int": 5, "none": None, "other": object()}[v[1]]


def _vals(X, A, arr, spec):
    kind = spec[0]
    if kind == "list":
        return [_v(X, v) for v in spec[1]]
    if kind == "tuple":
        return tuple(_v(X, v) for v in spec[1])
    if kind == "gen":
        return (x for x in [_v(X, v) for v in spec[1]])
    if kind == "array":
        return A([_v(X, v) for v in spec[1]])
    if kind == "self":
        return arr
    if kind == "notiter":
        return 5
    if kind == "none":
        return None
    raise AssertionError(kind)


def _idx(i):
    if i[0] == "int":
        return i[1]
    if i[0] == "bool":          # a bool is an int: list index 1 / 0
        return bool(i[1])
    if i[0] == "slice":
        return slice(i[1], i[2], i[3])
    return {"str": "1", "float": 1.0, "none": None}[i[1]]


def _apply(obj, op, X, A, is_list):
    """apply op to an array (is_list False) or to a real python list of ints (True); returns canonical out"""
    k = op["op"]
    conv = (lambda x: x) if is_list else (lambda x: x.ticks)
    val = (lambda v: v) if is_list else (lambda v: _v(X, v))

    def seq(s):
        return list(s) if is_list else [x.ticks for x in s]
    if k == "get":
        r = obj[_idx(op["idx"])]
        return ["list", seq(r)] if op["idx"][0] == "slice" else ["val", conv(r)]
    if k == "set":
        obj[_idx(op["idx"])] = val(op["v"])
        return ["none"]
    if k == "setslice":
        spec = op["vs"]
        if is_list:
            vs = list(obj) if spec[0] == "self" else list(spec[1])
        else:
            vs = _vals(X, A, obj, spec)
        obj[slice(op["a"], op["b"], op["c"])] = vs
        return ["none"]
    if k == "del":
        del obj[_idx(op["idx"])]
        return ["none"]
    if k == "insert":
        obj.insert((bool(op["i"]) if op.get("as_bool") and op["i"] in (0, 1) else op["i"]) if op["i"] != "bad" else "1", val(op["v"]))
        return ["none"]
    if k == "append":
        obj.append(val(op["v"]))
        return ["none"]
    if k in ("extend", "iadd"):
        spec = op["vs"]
        if is_list:
            vs = list(obj) if spec[0] == "self" else list(spec[1])
        else:
            vs = _vals(X, A, obj, spec)
        if k == "extend":
            obj.extend(vs)
        else:
            obj += vs
        return ["none"]
    if k == "pop":
        if op.get("bad"):
            return ["val", conv(obj.pop("1"))]
        r = obj.pop() if op["i"] is None else obj.pop(bool(op["i"]) if op.get("as_bool") and op["i"] in (0, 1) else op["i"])
        return ["val", conv(r)]
    if k == "remove":
        obj.remove(val(op["v"]))
        return ["none"]
    if k == "reverse":
        obj.reverse()
        return ["none"]
    if k == "clear":
        obj.clear()
        return ["none"]
    if k in ("index", "count") and op.get("foreign") and "s" not in op and not is_list and isinstance(op["v"], int) and op["v"] % (1 << 64) == 0 \
            and abs(op["v"] >> 64) < 10**9:
        # the probe is an EQUAL value of another type (datetime.timedelta / datetime.datetime): a list finds it with ==
        import datetime as _dt
        secs = op["v"] >> 64
        probe = _dt.timedelta(seconds=secs) if X.__name__ == "TimeDelta" else _dt.datetime(1904, 1, 1, tzinfo=_dt.timezone.utc) + _dt.timedelta(seconds=secs)
        if not (X.from_ticks(op["v"]) == probe):
            raise RuntimeError("the foreign probe is not equal to the element it stands for")
        return ["int", obj.count(probe) if k == "count" else obj.index(probe)]
    if k == "index":
        if "s" in op:
            args = (op["s"],) if op.get("e", "omit") == "omit" else (op["s"], op["e"])
            return ["int", obj.index(val(op["v"]), *args)]
        return ["int", obj.index(val(op["v"]))]
    if k == "count":
        return ["int", obj.count(val(op["v"]))]
    if k == "len":
        return ["int", len(obj)]
    if k == "iter":
        return ["list", seq(iter(obj))]
    if k == "iterappend":
        it = iter(obj)
        seen = []
        for _ in range(op["k"]):
            try:
                seen.append(next(it))
            except StopIteration:
                break
        obj.append(val(op["v"]))
        seen.extend(it)
        return ["list", seq(seen)]
    if k == "eq":
        if is_list:
            return ["int", int(list(obj) == list(op["other"]))]       # the reference list holds tick counts
        other = [X.from_ticks(t) for t in op["other"]]
        eq, ne = obj == A(other), obj != A(other)
        if bool(eq) == bool(ne):
            raise RuntimeError("== and != agree")
        return ["int", int(bool(eq))]
    raise AssertionError(k)


def _well_typed(op):
    def ok_v(v):
        return isinstance(v, int)
    k = op["op"]
    if k in ("get", "set", "del") and op["idx"][0] == "bad":
        return False
    if k == "set" and (not ok_v(op["v"]) or op["idx"][0] == "slice"):
        return False
    if k in ("append", "remove", "index", "count") and not ok_v(op["v"]):
        return False
    if k == "insert" and (op["i"] == "bad" or not ok_v(op["v"])):
        return False
    if k in ("setslice", "extend", "iadd"):
        spec = op["vs"]
        if spec[0] in ("notiter", "none"):
            return False
        if spec[0] != "self" and not all(ok_v(v) for v in spec[1]):
            return False
    if k == "pop" and op.get("bad"):
        return False
    return True


def run_impl(c):
    X, A = _cls(c["dt"])
    arr = A([X.from_ticks(t) for t in c["init"]])
    lst = list(c["init"])
    steps = []
    slices = []   # slices taken earlier: must never change when the parent changes (and vice versa)
    for op in c["ops"]:
        pre = [x.ticks for x in arr]
        assert pre == lst or not c.get("sync", True), (pre, lst)
        if op["op"] == "eq" and isinstance(op["other"], str):
            first = pre[0] if pre else 5
            op = {"op": "eq", "other": {"same": list(pre), "prefix": pre[:-1], "rep1": [first], "rep3": [first] * 3, "empty": [],
                                        "other": [7] * len(pre)}[op["other"]]}
        r = vf.try_impl(lambda: _apply(arr, op, X, A, False))
        post = [x.ticks for x in arr]
        lres = None
        if _well_typed(op):
            l2 = list(pre)
            lr = vf.try_impl(lambda: _apply(l2, op, X, A, True))
            lres = {"r": lr, "post": l2}
        if op["op"] == "get" and op["idx"][0] == "slice" and "ok" in r:
            got = arr[_idx(op["idx"])]
            slices.append((got, [x.ticks for x in got]))
        for got, snap in slices:
            if [x.ticks for x in got] != snap:
                r = {"exc": "OtherError"}  # a slice result aliased its parent
        steps.append({"pre": pre, "res": r, "post": post, "list": lres, "op": op})
        lst = post
    return {"steps": steps}


def _valc(v):
    return "(VElem %s)" % vf.zc(v) if isinstance(v, int) else "VBad"


def _valsc(spec):
    if spec[0] == "self":
        return "VSelf"
    if spec[0] == "notiter":
        return "VNotIterable"
    if spec[0] == "none":
        return "VNone"
    return "(VList [%s])" % "; ".join(_valc(v) for v in spec[1])


def _idxc(i):
    if i[0] == "int":
        return "(IInt %s)" % vf.zc(i[1])
    if i[0] == "bool":
        return "(IInt %d)" % int(i[1])
    if i[0] == "slice":
        return "(ISlice %s %s %s)" % (vf.optc(i[1]), vf.optc(i[2]), vf.optc(i[3]))
    return "IBad"


def _opc(op):
    k = op["op"]
    if k == "get":
        return "(OGet %s)" % _idxc(op["idx"])
    if k == "set":
        return "(OSet %s %s)" % (_idxc(op["idx"]), _valc(op["v"]))
    if k == "setslice":
        return "(OSetSlice %s %s %s %s)" % (vf.optc(op["a"]), vf.optc(op["b"]), vf.optc(op["c"]), _valsc(op["vs"]))
    if k == "del":
        return "(ODel %s)" % _idxc(op["idx"])
    if k == "insert":
        return "(OInsert %s %s)" % ("None" if op["i"] == "bad" else "(Some %s)" % vf.zc(op["i"]), _valc(op["v"]))
    if k == "append":
        return "(OAppend %s)" % _valc(op["v"])
    if k == "extend":
        return "(OExtend %s)" % _valsc(op["vs"])
    if k == "iadd":
        return "(OIadd %s)" % _valsc(op["vs"])
    if k == "pop":
        return "(OPop %s %s)" % (vf.optc(op["i"]), vf.boolc(bool(op.get("bad"))))
    if k == "remove":
        return "(ORemove %s)" % _valc(op["v"])
    if k == "index" and "s" in op:
        e = op.get("e", "omit")
        return "(OIndexR %s %s %s)" % (_valc(op["v"]), vf.zc(op["s"]), "None" if e == "omit" else "(Some %s)" % vf.zc(e))
    if k in ("index", "count"):
        return "(%s %s)" % ("OIndex" if k == "index" else "OCount", _valc(op["v"]))
    if k == "eq":
        return "(OEq %s)" % vf.listc(op["other"])
    if k == "iterappend":
        return "(OIterAppend %s %s)" % (vf.zc(op["k"]), vf.zc(op["v"]))
    return {"reverse": "OReverse", "clear": "OClear", "len": "OLen", "iter": "OIter"}[k]


def _outc(o):
    if o[0] == "none":
        return "ONone"
    if o[0] == "val":
        return "(OVal %s)" % vf.zc(o[1])
    if o[0] == "list":
        return "(OList %s)" % vf.listc(o[1])
    return "(OInt %s)" % vf.zc(o[1])


def _resc(r):
    return "(Raise %s)" % r["exc"] if "exc" in r else "(Ok %s)" % _outc(r["ok"])


def to_coq(c, r):
    obs = []
    for op, st in zip([st.get("op", op) for op, st in zip(c["ops"], r["steps"])], r["steps"]):
        lst = "None" if st["list"] is None else "(Some (%s, %s))" % (_resc(st["list"]["r"]), vf.listc(st["list"]["post"]))
        obs.append("{| o_pre := %s; o_op := %s; o_res := %s; o_post := %s; o_list := %s |}"
                   % (vf.listc(st["pre"]), _opc(op), _resc(st["res"]), vf.listc(st["post"]), lst))
    return "Hist %s [%s]" % (vf.boolc(c["dt"]), ";\n ".join(obs))


def _sgn(v):
    return "N" if v is None else "-" if v < 0 else "0" if v == 0 else "+"


def sig(c, r):
    # signature of the first and last step (histories are classified by their ops)
    parts = []
    for op, st in list(zip(c["ops"], r["steps"]))[:3]:
        k = op["op"]
        extra = ""
        if k in ("get", "set", "del"):
            i = op["idx"]
            extra = i[0] + ("".join(_sgn(x) for x in i[1:]) if i[0] == "slice" else _sgn(i[1]) if i[0] == "int" else "")
        if k == "setslice":
            n = len(op["vs"][1]) if op["vs"][0] in ("list", "tuple", "gen", "array") else -1
            extra = "".join(_sgn(x) for x in (op["a"], op["b"], op["c"])) + "|n%s" % ("-" if n < 0 else min(n, 3))
        parts.append("%s%s:l%d:%s" % (k, extra, min(len(st["pre"]), 4), st["res"].get("exc", "ok")))
    triv = len(c["ops"]) == 1 and c["ops"][0]["op"] in ("len", "iter") and not c["init"]
    return "%s|%s" % (c["dt"], "/".join(parts)), not triv


def finding_key(c, r):
    return sig(c, r)[0]


def case_size(c):
    return len(c["ops"]) * 100 + len(c["init"])


def shrink(c):
    # drop one op at a time; shorten the initial list
    for i in range(len(c["ops"])):
        yield dict(c, ops=c["ops"][:i] + c["ops"][i + 1:])
    if c["init"]:
        yield dict(c, init=c["init"][:-1])
        yield dict(c, init=[i for i in range(len(c["init"]))])


def _elem(rng, pool):
    return rng.choice(pool)


def _rand_op(rng, n, pool):
    k = rng.choice(["get", "get", "set", "setslice", "setslice", "del", "insert", "append", "extend", "iadd", "pop", "remove",
                    "reverse", "clear", "index", "count", "len", "iter", "eq", "iterappend"])
    if k == "iterappend":
        return {"op": k, "k": rng.choice([0, 0, 1, 2, n, n + 1, n + 2]), "v": _elem(rng, pool)}
    if k == "eq":
        # == against the same content, a prefix, a repetition of one element, the empty array, other content
        return {"op": k, "other": rng.choice(["same", "prefix", "rep1", "empty", "rep3", "other"])}
    ri = lambda: rng.choice([None, None] + list(range(-n - 2, n + 3)))
    v = lambda: _elem(rng, pool) if rng.random() < 0.92 else ["bad", rng.choice(["str", "int", "none", "other"])]
    if k in ("get", "del"):
        m = rng.random()
        if m < 0.06:
            return {"op": k, "idx": ["bool", rng.random() < 0.5]}
        if m < 0.45:
            return {"op": k, "idx": ["int", rng.randrange(-n - 2, n + 3)]}
        if m < 0.93:
            return {"op": k, "idx": ["slice", ri(), ri(), rng.choice([None, None, 1, -1, 2, -2, 3, 0])]}
        return {"op": k, "idx": ["bad", rng.choice(["str", "float", "none"])]}
    if k == "set":
        m = rng.random()
        idx = ["bool", rng.random() < 0.5] if m < 0.08 else ["int", rng.randrange(-n - 2, n + 3)] if m < 0.85 else ["bad", "str"] if m < 0.93 else ["slice", None, None, None]
        return {"op": k, "idx": idx, "v": v()}
    if k == "setslice":
        kind = rng.choice(["list", "list", "list", "tuple", "gen", "array", "self", "notiter", "none"])
        cnt = rng.choice([0, 1, 1, 2, 3, n, n + 1])
        items = [v() for _ in range(cnt)]
        if kind == "array":
            items = [x for x in items if isinstance(x, int)]
        return {"op": k, "a": ri(), "b": ri(), "c": rng.choice([None, None, None, 1, -1, 2, -2, 3, 0]), "vs": [kind, items]}
    if k == "insert":
        return {"op": k, "i": rng.choice(list(range(-n - 3, n + 4)) + ["bad"]), "v": v()}
    if k == "index" and rng.random() < 0.5:
        # index(v, start[, stop]) with negative / out-of-range bounds
        op = {"op": k, "v": v(), "s": rng.randrange(-n - 2, n + 3)}
        if rng.random() < 0.6:
            op["e"] = rng.randrange(-n - 2, n + 3)
        return op
    if k in ("index", "count"):
        return {"op": k, "v": v(), "foreign": rng.random() < 0.5}
    if k in ("append", "remove"):
        return {"op": k, "v": v()}
    if k in ("extend", "iadd"):
        kind = rng.choice(["list", "tuple", "gen", "array", "self", "notiter", "none"])
        items = [v() for _ in range(rng.choice([0, 1, 2, 3]))]
        if kind == "array":
            items = [x for x in items if isinstance(x, int)]
        return {"op": k, "vs": [kind, items]}
    if k == "pop":
        m = rng.random()
        return {"op": k, "i": None if m < 0.4 else rng.randrange(-n - 2, n + 3), "bad": m > 0.95}
    return {"op": k}


def gen_cases(rng, tier):
    big = tier != "quick"
    cases = []
    pool = [0, 1, -1, 2, 3, 7, MAX128, MIN128, (1 << 64) - 1, -(1 << 64), (1 << 63), 12345678901234567890123, 5 << 64, 86400 << 64]
    # exhaustive single-step slices on short arrays
    rngs = [None] + list(range(-6, 7))
    steps_ = [None, 1, -1, 2, -2, 3, 0]
    maxlen = 4 if not big else 5
    for n in range(0, maxlen + 1):
        init = list(range(10, 10 + n))
        ops = []
        for a in rngs:
            for b in rngs:
                for st in steps_:
                    ops.append({"op": "get", "idx": ["slice", a, b, st]})
                    ops.append({"op": "del", "idx": ["slice", a, b, st]})
                    for m in range(0, n + 3):
                        ops.append({"op": "setslice", "a": a, "b": b, "c": st, "vs": ["list", [100 + j for j in range(m)]]})
        for i in range(-7, 8):
            ops += [{"op": "get", "idx": ["int", i]}, {"op": "set", "idx": ["int", i], "v": 99}, {"op": "del", "idx": ["int", i]},
                    {"op": "insert", "i": i, "v": 99}, {"op": "pop", "i": i}]
        if not big:
            ops = rng.sample(ops, min(len(ops), 900 if n >= 3 else 500))
        # each op starts from the same initial array: one-step histories, batched 20 per case
        for j, op in enumerate(ops):
            cases.append({"dt": (j + n) % 2 == 0, "init": init, "ops": [op]})
    # random histories
    for _ in range(500 if not big else 12000):
        n0 = rng.choice([0, 1, 2, 3, 4, 6])
        init = [rng.choice(pool) for _ in range(n0)]
        ops = []
        n = n0
        for _ in range(rng.randrange(1, 26)):
            ops.append(_rand_op(rng, max(n, 1), pool))
        cases.append({"dt": rng.random() < 0.5, "init": init, "ops": ops})
    return cases


def search_cases(rng, literals, tier):
    return gen_cases(rng, "quick")


def distribution(pairs):
    d = {}
    for c, r in pairs:
        for op, st in zip(c["ops"], r["steps"]):
            key = op["op"] + ":" + st["res"].get("exc", "ok")
            d[key] = d.get(key, 0) + 1
    return d
