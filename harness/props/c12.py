"""C12 — copy=True isolates, copy=False shares: no hidden aliasing and no hidden copies."""
from __future__ import annotations

import os
import tempfile
import warnings

import vf
from props import wfm_common as W

ID = "C12"
CASE_TYPE = "c12case"
SPEC_REQ = "Corr.C12Spec"
MODEL_REQ = "Corr.C12Model"
EXTRA_REQ = "Model.Alias"
SPEC_FN = "c12_spec_ok"
MODEL_FN = "c12_model_ok"
PROPS_FILE = "Props/C12.v"
USES_GEN = []
RULE = ("construction/load path (from_array_1d, from_array_2d row i, from_lines 1-D/2-D, raw constructors, from_port, "
        "from_arrays_1d x/y, load_data into an existing object incl. the growth path) x class (Analog, Complex, Spectrum, "
        "Digital, XYData) x copy flag x source kind (owning array, view with padding, row-strided, column-strided, memmap, "
        "list) x dtype-cast-or-not x sample_count below the array length (spare capacity), followed by 0-10 writes on the "
        "source, writes through raw_data/data/get_raw_data/get_data/x_data/signal.data and in-capacity appends, with the "
        "contents of BOTH sides recorded after every operation (memmap sources are re-read from the file); plus the "
        "extended-properties and timestamp-sequence sharing rules; distinct = (class, path, kind, copy, cast, outcome, "
        "operation kinds)")
TRUSTED = ["hand model Model/Alias.v (heap of buffers, strided references, np.asarray's NumPy-2 copy rule) tied by the correspondence",
           "np.shares_memory as the observation of aliasing right after construction"]
ASSUMPTIONS = ["NumPy basic slicing returns views and ndarray.resize keeps an owned array's identity (modelled)",
               "zero-size sources are not generated (np.shares_memory is always False for them)"]
PARTIAL = ["the NumPy 1.x shim (_numpy1x.asarray) is not exercised: the sandbox has NumPy 2"]

DT = {"A": "int32", "C": "complex128", "S": "float64", "D": "uint8", "XYx": "float64", "XYy": "float64"}
CAST_TO = {"A": "int16", "C": "complex64", "S": "float32", "D": "bool", "XYx": "int32", "XYy": "int32"}
_TMP = []


def _mk_source(c):
    """returns (source object handed to the library, writable ndarray or None)"""
    import numpy as np
    cls = c["cls"]
    src_dtype = W.np_dtype(CAST_TO[cls] if c["cast"] else DT[cls])
    vals = c["vals"]
    two_d = c["two_d"]
    n, cols = len(vals), c["cols"]
    if c["kind"] == "list":
        return ([list(r) for r in vals] if two_d else [r[0] for r in vals]), None

    def mk(rows):
        if two_d:
            return np.array(rows, src_dtype).reshape(len(rows), cols)
        return W.to_np(rows, CAST_TO[cls] if c["cast"] else DT[cls])

    k = c["kind"]
    if k == "own":
        a = mk(vals)
    elif k == "view":
        pad = c["pad"]
        big = mk([[77] * cols] * pad + vals + [[88] * cols] * pad)
        a = big[pad:pad + n]
    elif k == "rowstrided":
        big = mk([x for row in vals for x in (row, [55] * cols)])
        a = big[::2]
    elif k == "colstrided":
        big = mk([[x for v in row for x in (v, 66)] for row in vals]) if False else np.array([[x for v in row for x in (v, 66)] for row in vals], src_dtype).reshape(n, 2 * cols)
        a = big[:, ::2]
    elif k == "memmap":
        f = tempfile.NamedTemporaryFile(prefix="c12-", suffix=".bin", delete=False)
        f.close()
        _TMP.append(f.name)
        base = mk(vals)
        a = np.memmap(f.name, dtype=base.dtype, mode="w+", shape=base.shape)
        a[...] = base
        a.flush()
    else:
        raise AssertionError(k)
    return a, a


def _copy_flag(c):
    """copy=True / copy=False the way a caller may pass it: the bool, a NumPy bool, or 1 / 0"""
    import numpy as np
    form = c.get("copy_form")
    return np.bool_(c["copy"]) if form == "np" else int(c["copy"]) if form == "int" else c["copy"]


def _construct(c, src):
    import numpy as np
    from nitypes.waveform import AnalogWaveform, ComplexWaveform, DigitalWaveform, Spectrum
    from nitypes.xy_data import XYData
    cls = c["cls"]
    K = {"A": AnalogWaveform, "C": ComplexWaveform, "S": Spectrum, "D": DigitalWaveform}.get(cls)
    dtype = W.np_dtype(DT[cls]) if (c["cast"] or c["kind"] == "list" or c.get("give_dtype")) else None
    path = c["path"]
    kw = {}
    if c.get("count") is not None and cls not in ("XYx", "XYy"):
        kw["sample_count"] = c["count"]
    if path == "load":
        ncols = c["cols"]
        if cls == "D":
            obj = K(0, ncols, W.np_dtype(DT[cls]), capacity=c["preload_cap"])
        else:
            obj = K(0, W.np_dtype(DT[cls]), capacity=c["preload_cap"])
        obj.load_data(src, copy=_copy_flag(c))
        return obj
    if cls in ("XYx", "XYy"):
        other = np.arange(len(c["vals"]), dtype=W.np_dtype(CAST_TO[cls] if c["cast"] else DT[cls])) if c["kind"] != "list" else list(range(len(c["vals"])))
        xs, ys = (src, other) if cls == "XYx" else (other, src)
        if path == "ctor":
            return XYData(xs, ys) if dtype is None else XYData(xs, ys)  # the constructor has no dtype argument
        return XYData.from_arrays_1d(xs, ys, dtype, copy=_copy_flag(c))
    if path == "from_array_1d":
        return K.from_array_1d(src, dtype, copy=_copy_flag(c), **kw)
    if path == "from_array_2d":
        return K.from_array_2d(src, dtype, copy=_copy_flag(c), **kw)[c["row"]]
    if path == "from_lines":
        return K.from_lines(src, dtype, copy=_copy_flag(c), **kw)
    if path == "ctor":
        dk = "data" if cls in ("D", "S") else "raw_data"
        return K(**{dk: src}, dtype=dtype, **kw)
    if path == "from_port":
        return K.from_port(src, None if c["kind"] != "list" else 0xFF, **kw)
    raise AssertionError(path)


def _buffer(c, obj):
    cls = c["cls"]
    if cls == "XYx":
        return obj._x_data
    if cls == "XYy":
        return obj._y_data
    return obj._data


def _view(c, obj, how="prop"):
    cls = c["cls"]
    if cls == "XYx":
        return obj.x_data
    if cls == "XYy":
        return obj.y_data
    if cls in ("D", "S"):
        return obj.get_data() if how == "get" else obj.data
    return obj.get_raw_data() if how == "get" else obj.raw_data


def _mat(a):
    if a.ndim == 2 and a.dtype.kind == "c":
        return [[int(v.real) for v in row] for row in a]
    return W.from_np(a)


def _src_contents(c, warr):
    import numpy as np
    if warr is None:
        return []
    if c["kind"] == "memmap":
        warr.flush()
        back = np.fromfile(warr.filename, dtype=warr.dtype).reshape(warr.shape)
        return _mat(back)
    return _mat(warr)


def _write(arr, r, col, v, cls):
    import numpy as np
    if arr.ndim == 2:
        arr[r, col] = v
    elif arr.dtype.kind == "c":
        arr[r] = complex(v, -v)
    else:
        arr[r] = v


def run_impl(c):
    import numpy as np
    with warnings.catch_warnings():
        warnings.simplefilter("ignore")
        if c["k"] == "props":
            return _run_props(c)
        if c["k"] == "tss":
            return _run_tss(c)
        if c["k"] == "propsf":
            return _run_props_factory(c)
        if c["k"] == "sigview":
            return _run_sigview(c)
        if c["k"] == "fresh":
            return _run_fresh(c)
        src, warr = _mk_source(c)
        try:
            built = vf.try_impl(lambda: _construct(c, src))
            if "exc" in built:
                return {"res": {"exc": built["exc"]}}
            obj = built["ok"]
            buf = _buffer(c, obj)
            shares = bool(warr is not None and np.shares_memory(warr, buf))
            out = {"res": {"ok": shares}, "obj0": _mat(_view(c, obj)), "steps": []}
            cls = c["cls"]
            for op in c["ops"]:
                k = op["op"]
                done = None
                if k == "wsrc":
                    if warr is None:
                        continue
                    r, col = op["r"] % warr.shape[0], (op["c"] % warr.shape[1] if warr.ndim == 2 else 0)
                    _write(warr, r, col, op["v"], cls)
                    done = ["WSrc", r, col, op["v"]]
                elif k == "wobj":
                    view = _view(c, obj, op.get("how", "prop"))
                    if len(view) == 0:
                        continue
                    r = op["r"] % len(view)
                    col = op["c"] % view.shape[1] if view.ndim == 2 else 0
                    if cls == "D" and op.get("how") == "signal" and view.shape[1] > 0:
                        sig = obj.signals[obj.signal_count - 1 - col]      # column col is signal n-1-col
                        sig.data[r] = op["v"] % 2
                        done = ["WObj", r, col, op["v"] % 2]
                    else:
                        v = op["v"] % 2 if cls == "D" else op["v"]
                        _write(view, r, col, v, cls)
                        done = ["WObj", r, col, v]
                elif k == "append":
                    if cls in ("XYx", "XYy"):
                        continue
                    spare = obj.capacity - obj.start_index - obj.sample_count
                    if spare <= 0:
                        continue
                    view = _view(c, obj)
                    ncols = view.shape[1] if view.ndim == 2 else 1
                    row = [(op["v"] + j) % (2 if cls == "D" else 90) for j in range(ncols)]
                    arr = np.array([row], view.dtype) if view.ndim == 2 else W.to_np([[row[0]]], DT[cls])
                    obj.append(arr)
                    done = ["AppendIn", row]
                if done is not None:
                    out["steps"].append({"op": done, "src": _src_contents(c, warr), "obj": _mat(_view(c, obj))})
            out["src0"] = None
            return out
        finally:
            for p in list(_TMP):
                try:
                    os.unlink(p)
                except OSError:
                    pass
                _TMP.remove(p)


def _run_props(c):
    from nitypes.waveform import AnalogWaveform, DigitalWaveform, ExtendedPropertyDictionary, Spectrum
    from nitypes.scalar import Scalar
    from nitypes.vector import Vector
    from nitypes.xy_data import XYData
    import numpy as np
    arg = {"a": "1"}
    if c["arg"] == "epd":
        arg = ExtendedPropertyDictionary(arg)
    kw = {"extended_properties": arg}
    if c["flag"] is not None:
        kw["copy_extended_properties"] = c["flag"]
    cls = c["cls"]
    obj = {"A": lambda: AnalogWaveform(2, **kw), "D": lambda: DigitalWaveform(2, 1, **kw), "S": lambda: Spectrum(2, **kw),
           "XY": lambda: XYData(np.zeros(2), np.zeros(2), **kw), "Sc": lambda: Scalar(1, **kw), "V": lambda: Vector([1], **kw)}[cls]()
    arg["late"] = "x"
    seen = "late" in obj.extended_properties
    obj.extended_properties["obj-side"] = "y"
    seen2 = "obj-side" in arg
    return {"observed": bool(seen and seen2), "one_way": bool(seen != seen2)}


def _run_props_factory(c):
    """factories have no copy_extended_properties flag: every object they build holds its own copy of the mapping"""
    from nitypes.waveform import AnalogWaveform, ComplexWaveform, DigitalWaveform, ExtendedPropertyDictionary, Spectrum
    from nitypes.xy_data import XYData
    import numpy as np
    arg = {"a": "1"}
    if c["arg"] == "epd":
        arg = ExtendedPropertyDictionary(arg)
    kw = {"extended_properties": arg}
    f = c["f"]
    K = {"A": AnalogWaveform, "C": ComplexWaveform, "S": Spectrum}
    if f[0] in K:
        a = np.zeros((2, 3), np.float64 if f[0] != "C" else np.complex128)
        objs = [K[f[0]].from_array_1d(a[0], **kw)] if f[1] == "1d" else list(K[f[0]].from_array_2d(a, **kw))
    elif f[0] == "D":
        if f[1] == "lines":
            objs = [DigitalWaveform.from_lines(np.zeros((3, 2), np.uint8), **kw)]
        elif f[1] == "port":
            objs = [DigitalWaveform.from_port(np.zeros(3, np.uint8), **kw)]
        else:
            objs = list(DigitalWaveform.from_ports(np.zeros((2, 3), np.uint8), **kw))
    else:
        objs = [XYData.from_arrays_1d(np.zeros(2), np.zeros(2), **kw)]
    arg["late"] = "x"
    seen = any("late" in o.extended_properties for o in objs)
    objs[0].extended_properties["obj-side"] = "y"
    seen2 = "obj-side" in arg
    siblings = any("obj-side" in o.extended_properties for o in objs[1:]) or len({id(o.extended_properties) for o in objs}) != len(objs)
    intact = all(o.extended_properties.get("a") == "1" for o in objs) and objs[0].extended_properties.get("obj-side") == "y"
    return {"observed": bool(seen or seen2 or siblings or not intact), "one_way": False}


def _run_sigview(c):
    """DigitalWaveformSignal.data read again after the waveform's buffer or window was replaced views the new one"""
    from nitypes.waveform import DigitalWaveform
    import numpy as np
    n, ncol = c["n"], c["ncol"]
    first = (np.arange(n * ncol, dtype=np.uint8) % 2).reshape(n, ncol)
    second = ((np.arange(n * ncol, dtype=np.uint8) + 1) % 2).reshape(n, ncol) + 2
    if c["how"] == "window":
        buf = np.concatenate([np.full((2, ncol), 9, np.uint8), first])
        w = DigitalWaveform.from_lines(buf, copy=True, start_index=2, sample_count=n)
    else:
        w = DigitalWaveform.from_lines(first, copy=c["first_copy"])
    held = [w.signals[i] for i in range(ncol)]
    for s_ in held:
        s_.data  # first access
    w.load_data(second, copy=(c["how"] != "borrow"))
    ok = True
    for i, s_ in enumerate(held):
        d = s_.data
        col = s_.column_index
        ok = ok and d.shape == (n,) and d.tolist() == w.data[:, col].tolist() == second[:, col].tolist()
        # with copy=True the samples are written into the buffer the waveform already has: that is the caller's first
        # array when it was adopted; otherwise the first array is out of the picture
        left_first = c["how"] == "borrow" or (c["how"] == "copy" and c["first_copy"]) or c["how"] == "window"
        ok = ok and bool(np.shares_memory(d, w._data)) and (not left_first or not np.shares_memory(d, first))
        d[0] = 7
        ok = ok and int(w.data[0, col]) == 7 and (c["how"] != "borrow" or int(second[0, col]) == 7)
        ok = ok and (not left_first or 7 not in first.tolist()[0])
    return {"observed": bool(ok), "one_way": False}


def _run_fresh(c):
    """from_port / from_ports data is freshly allocated: nothing is shared with the port array, and the waveform owns it
    (it can grow); the same for a waveform rebuilt by pickle, whatever the protocol"""
    from nitypes.waveform import DigitalWaveform
    import numpy as np, pickle
    port = np.array([1, 2, 3, 250], np.uint8 if c["bits"] == 8 else np.uint16)
    kw = {} if c["mask"] is None else {"mask": c["mask"]}
    if c.get("bool"):
        kw["dtype"] = np.bool_
    if c["f"] == "port":
        w = DigitalWaveform.from_port(port, **kw)
    elif c["f"] == "ports":
        w = DigitalWaveform.from_ports(np.stack([port, port]), None if c["mask"] is None else [c["mask"], c["mask"]],
                                       **({"dtype": np.bool_} if c.get("bool") else {}))[c.get("row", 0)]
    else:
        w = pickle.loads(pickle.dumps(DigitalWaveform.from_lines(np.zeros((4, 2), np.uint8)), c["proto"]))
    before = w.data.tolist()
    ok = not np.shares_memory(w._data, port) and port.tolist() == [1, 2, 3, 250] and port.flags.writeable
    try:
        w.capacity = w.capacity + 3
        ok = ok and w.data.tolist() == before
        w.append(np.ones((5, w.signal_count), w.dtype))
        ok = ok and w.data.tolist()[:len(before)] == before and w.sample_count == len(before) + 5
    except ValueError:
        ok = False  # "cannot resize this array": the waveform does not own what it was given
    return {"observed": bool(ok), "one_way": False}


def _run_tss(c):
    import datetime as dt
    from nitypes.waveform import Timing
    base = dt.datetime(2020, 1, 1, tzinfo=dt.timezone.utc)
    seq = [base + dt.timedelta(seconds=i) for i in range(3)]
    arg = list(seq) if c["arg"] == "list" else tuple(seq)
    if c["read"] in ("append_empty", "append_more"):
        # timestamp sequences given to append: copied like those given to Timing
        import numpy as np
        from nitypes.waveform import AnalogWaveform
        first = [base - dt.timedelta(seconds=5)] if c["read"] == "append_more" else []
        w = AnalogWaveform(len(first), timing=Timing.create_with_irregular_interval(list(first)))
        w.append(np.zeros(3), arg)
        if isinstance(arg, list):
            arg[0] = base + dt.timedelta(days=9)
            arg.append(base)
            arg.reverse()
        got = list(w.timing.get_timestamps(0, w.sample_count))
        return {"observed": bool(got != first + seq or w.sample_count != len(first) + 3), "one_way": False}
    t = Timing.create_with_irregular_interval(arg)
    if isinstance(arg, list):
        arg[0] = base + dt.timedelta(days=9)
        arg.append(base)
    got = t.get_timestamps(0, 3) if c["read"] == "get" else list(t.timestamps) if hasattr(t, "timestamps") else t.get_timestamps(0, 3)
    shared = list(got) != seq
    # the list a caller reads back is not the stored one either
    try:
        got2 = t.get_timestamps(0, 3)
        if isinstance(got2, list):
            got2[0] = base + dt.timedelta(days=5)
        shared = shared or list(t.get_timestamps(0, 3)) != seq
    except Exception:
        pass
    return {"observed": bool(shared), "one_way": False}


# ------------------------------------------------------------------ Coq printers
def _matc(m):
    return "[" + "; ".join(vf.listc(r) for r in m) + "]"


PATHS = {"from_array_1d": "PFrom1d", "from_lines": "PLines", "ctor": "PCtor", "from_port": "PPort", "load": "PFrom1d"}


def to_coq(c, r):
    if c["k"] in ("props", "tss", "propsf", "sigview", "fresh"):
        if c["k"] == "props":
            expected = c["arg"] == "epd" and c["flag"] is False
        elif c["k"] in ("sigview", "fresh"):
            expected = True
        else:
            expected = False
        return "AFlag %s %s" % (vf.boolc(expected), vf.boolc(r["observed"] or r["one_way"] and not expected))
    p = "(PFrom2dRow %s)" % vf.natc(c["row"]) if c["path"] == "from_array_2d" else PATHS[c["path"]]
    kind = {"own": "KOwn", "memmap": "KOwn", "view": "(KView %s)" % vf.natc(c.get("pad", 0)), "rowstrided": "KRowStrided",
            "colstrided": "KColStrided", "list": "KList"}[c["kind"]]
    res = r["res"]
    rs = "(Raise %s)" % res["exc"] if "exc" in res else "(Ok %s)" % vf.boolc(res["ok"])
    steps = []
    for st in r.get("steps", []):
        op = st["op"]
        if op[0] == "AppendIn":
            opc = "(AppendIn %s)" % vf.listc(op[1])
        else:
            opc = "(%s %s %s %s)" % (op[0], vf.natc(op[1]), vf.natc(op[2]), vf.zc(op[3]))
        steps.append("{| ob_op := %s; ob_src := %s; ob_obj := %s |}" % (opc, _matc(st["src"]), _matc(st["obj"])))
    count = c["count"] if c.get("count") is not None else (c["cols"] if c["path"] == "from_array_2d" else len(c["vals"]))
    pre = "(Some %s)" % vf.natc(c["preload_cap"]) if c["path"] == "load" else "None"
    return "AHist %s %s %s %s %s %s %s %s %s %s [%s]" % (
        p, kind, _matc(c["vals"]), vf.natc(c["cols"]), vf.boolc(c["cast"]), vf.boolc(c["copy"]), pre, vf.natc(count), rs,
        _matc(r.get("obj0", [])), ";\n ".join(steps))


def sig(c, r):
    if c["k"] != "hist":
        return "%s|%s|%s|%s|%s|%s|%s" % (c["k"], c.get("cls"), c.get("arg"), c.get("flag"), c.get("f"), c.get("how"), c.get("read")), True
    ops = "".join(sorted({st["op"][0][0] + st["op"][0][1] for st in r.get("steps", [])}))
    out = r["res"].get("exc", "shares" if r["res"].get("ok") else "isolated")
    return "%s|%s|%s|%s|copy%d|cast%d|%s|%s" % (c["cls"], c["path"], c["kind"], "2d" if c["two_d"] else "1d", c["copy"], c["cast"], out, ops), True


def finding_key(c, r):
    if c["k"] != "hist":
        return "%s|%s|%s|%s|%s|%s" % (c["k"], c.get("cls"), c.get("arg"), c.get("f"), c.get("how"), c.get("read"))
    return "%s|%s|%s|copy%d|cast%d" % (c["cls"], c["path"], c["kind"], c["copy"], c["cast"])


def case_size(c):
    return len(c.get("ops", [])) * 50 + len(str(c))


def shrink(c):
    if c["k"] != "hist":
        return
    for i in range(len(c["ops"])):
        yield dict(c, ops=c["ops"][:i] + c["ops"][i + 1:])


def gen_cases(rng, tier):
    big = tier != "quick"
    cases = []
    for cls in ("A", "D", "S", "XY", "Sc", "V"):
        for arg in ("dict", "epd"):
            for flag in (None, True, False):
                cases.append({"k": "props", "cls": cls, "arg": arg, "flag": flag})
    for arg in ("list", "tuple"):
        for read in ("get", "prop", "append_empty", "append_more"):
            cases.append({"k": "tss", "arg": arg, "read": read})
    for f in (["A", "1d"], ["A", "2d"], ["C", "1d"], ["C", "2d"], ["S", "1d"], ["S", "2d"], ["D", "lines"], ["D", "port"],
              ["D", "ports"], ["XY", "1d"]):
        for arg in ("dict", "epd"):
            cases.append({"k": "propsf", "f": f, "arg": arg})
    for how in ("borrow", "copy", "window"):
        for n in (1, 3):
            for ncol in (1, 2):
                for first_copy in (False, True):
                    cases.append({"k": "sigview", "how": how, "n": n, "ncol": ncol, "first_copy": first_copy})
    for bits in (8, 16):
        for mask in (None, 0x3, 0x5, 0):
            for b in (False, True):
                cases.append({"k": "fresh", "f": "port", "bits": bits, "mask": mask, "bool": b})
                cases.append({"k": "fresh", "f": "ports", "bits": bits, "mask": mask, "bool": b, "row": 1})
    for proto in (2, 3, 4, 5):
        cases.append({"k": "fresh", "f": "pickle", "proto": proto, "bits": 8, "mask": None})
    combos = []
    for cls in ("A", "C", "S"):
        combos += [(cls, "from_array_1d", False), (cls, "ctor", False), (cls, "load", False)]
    combos += [("A", "from_array_2d", True), ("S", "from_array_2d", True), ("C", "from_array_2d", True)]
    combos += [("D", "from_lines", False), ("D", "from_lines", True), ("D", "ctor", True), ("D", "ctor", False), ("D", "load", True),
               ("D", "load", False), ("D", "from_port", False)]
    combos += [("XYx", "from_array_1d", False), ("XYy", "from_array_1d", False), ("XYx", "ctor", False), ("XYy", "ctor", False)]
    for _ in range(1800 if not big else 40000):
        cls, path, two_d = rng.choice(combos)
        kinds = ["own", "own", "view", "rowstrided", "memmap", "list"] + (["colstrided"] if two_d else [])
        kind = rng.choice(kinds)
        if kind == "list" and path == "ctor" and cls in ("XYx", "XYy"):
            kind = "own"        # XYData(list, list) is outside the property (it is not an array path)
        n = rng.choice([1, 2, 3, 4, 6])
        cols = rng.choice([1, 2, 3]) if two_d else 1
        hi = 2 if cls == "D" else 90
        vals = [[rng.randrange(hi) for _ in range(cols)] for _ in range(n)]
        if path == "from_port":
            kind = rng.choice(["own", "view", "rowstrided", "list"])
            vals = [[rng.randrange(256)] for _ in range(n)]
        cast = rng.random() < 0.25 and path != "from_port" and not (cls in ("XYx", "XYy") and path == "ctor")
        copy = rng.random() < 0.5
        c = {"k": "hist", "cls": cls, "path": path, "two_d": two_d, "kind": kind, "vals": vals, "cols": cols, "cast": cast, "copy": copy,
             "pad": rng.choice([1, 2]), "give_dtype": rng.random() < 0.3, "row": 0, "count": None, "preload_cap": None}
        if rng.random() < 0.3:
            c["copy_form"] = rng.choice(["np", "np", "int"])
        if path == "from_array_2d":
            c["row"] = rng.randrange(n)
            c["count"] = rng.choice([None, None, max(cols - 1, 0)])
        elif path == "load":
            c["preload_cap"] = rng.choice([0, 1, n, n, n + 2, max(n - 1, 0)])
        elif cls not in ("XYx", "XYy") and path != "from_port":
            c["count"] = rng.choice([None, None, max(n - 1, 0), max(n - 2, 0)])
        ops = []
        for _ in range(rng.choice([0, 2, 4, 6, 10])):
            m = rng.random()
            if m < 0.4:
                ops.append({"op": "wsrc", "r": rng.randrange(8), "c": rng.randrange(4), "v": rng.randrange(hi if path != "from_port" else 256)})
            elif m < 0.8:
                ops.append({"op": "wobj", "r": rng.randrange(8), "c": rng.randrange(4), "v": rng.randrange(90), "how": rng.choice(["prop", "get", "signal"])})
            else:
                ops.append({"op": "append", "v": rng.randrange(90)})
        c["ops"] = ops
        cases.append(c)
    return cases


def search_cases(rng, literals, tier):
    return gen_cases(rng, "quick")


def distribution(pairs):
    d = {}
    for c, r in pairs:
        if c["k"] != "hist":
            key = c["k"]
        else:
            key = "%s:%s:%s:copy%d:%s" % (c["cls"], c["path"], c["kind"], c["copy"], r["res"].get("exc", "shares" if r["res"].get("ok") else "isolated"))
        d[key] = d.get(key, 0) + 1
    return d
