"""Shared machinery for the waveform-pool properties (C01, C07, C09, C10): an op language over a pool of
AnalogWaveform / ComplexWaveform / Spectrum / DigitalWaveform objects, an online generator (ops are
drawn from one PRNG while looking at the real objects so that most calls are valid), execution on
the real classes with a snapshot of EVERY pool object after every call, and Coq printers."""
from __future__ import annotations

import random
import warnings

import vf
from props.common_time import UNIT, mk_dtm, mk_td, read_dtm, read_td

CASE_TYPE = "wfmcase"
SPEC_REQ = "Corr.WfmSpec"
MODEL_REQ = "Corr.WfmModel"
EXTRA_REQ = "Spec.TimingSpec Model.Timing Model.Waveform Spec.BufSpec"
SPEC_FN = "wfm_spec_ok"
MODEL_FN = "wfm_model_ok"
USES_GEN = []

DTYPES = ["float64", "float32", "int8", "int16", "int32", "int64", "uint8", "uint16", "uint32", "uint64",
          "complex128", "complex64", "ci32", "bool", "float16", "<U1"]
SUPPORTED = {"A": set(DTYPES[0:10]), "C": {"complex128", "complex64", "ci32"}, "S": set(DTYPES[0:10]), "D": {"bool", "int8", "uint8"}}
DEFAULT = {"A": "float64", "C": "complex128", "S": "float64", "D": "uint8"}
KIND = {"A": "KAnalog", "C": "KComplex", "S": "KSpectrum", "D": "KDigital"}
PKEYS = {"NI_UnitDescription": 1, "NI_ChannelName": 4, "NI_LineNames": 5, "k1": 11, "k2": 12, "k3": 13}
FAM = "Dt"


def np_dtype(name):
    import numpy as np
    from nitypes.complex import ComplexInt32DType
    return ComplexInt32DType if name == "ci32" else np.dtype(name)


def dtype_id(dt):
    from nitypes.complex import ComplexInt32DType
    if dt == ComplexInt32DType:
        return DTYPES.index("ci32")
    name = str(dt) if str(dt) in DTYPES else dt.name
    return DTYPES.index(name) if name in DTYPES else 99


def cls_of(kind):
    from nitypes.waveform import AnalogWaveform, ComplexWaveform, DigitalWaveform, Spectrum
    return {"A": AnalogWaveform, "C": ComplexWaveform, "S": Spectrum, "D": DigitalWaveform}[kind]


def kind_of(obj):
    return {"AnalogWaveform": "A", "ComplexWaveform": "C", "Spectrum": "S", "DigitalWaveform": "D"}[type(obj).__name__]


def to_np(vals, dtype):
    """vals: list of rows (each a list of ints); numeric dtypes use the first column"""
    import numpy as np
    dt = np_dtype(dtype)
    if dtype == "ci32":
        a = np.zeros(len(vals), dt)
        a["real"] = [r[0] for r in vals]
        a["imag"] = [-r[0] for r in vals]
        return a
    if dtype.startswith("complex"):
        return np.array([complex(r[0], -r[0]) for r in vals], dt)
    if dtype == "<U1":
        return np.array([str(r[0] % 10) for r in vals], dt)
    return np.array([r[0] for r in vals], dt)


def from_np(a):
    """rows of ints from a 1-D or 2-D sample array"""
    import numpy as np
    from nitypes.complex import ComplexInt32DType
    if a.dtype == ComplexInt32DType:
        return [[int(v)] for v in a["real"].reshape(-1)]
    if a.dtype.kind == "c":
        return [[int(v.real)] for v in a.reshape(-1)]
    if a.ndim == 2:
        return [[int(x) for x in row] for row in a.tolist()]
    return [[int(v)] for v in a.tolist()]


def build_array(ad):
    """an ndarray argument from its description; returns (array, effective ndim, ncols)"""
    import numpy as np
    vals, ndim, ncols, dtype, form = ad["vals"], ad["ndim"], ad["ncols"], ad["dtype"], ad["form"]
    n = len(vals)
    if ndim == 2:
        base = np.array(vals, np_dtype(dtype)).reshape(n, ncols).copy()
    elif ndim == 1:
        base = to_np(vals, dtype)
    elif ndim == 0:
        return np.zeros((), np_dtype(dtype))
    else:
        return np.zeros((n, 1, 1), np_dtype(dtype))
    if form == "own":
        return base
    if form == "fortran":     # an owning array in Fortran order (only differs from "own" for 2-D data)
        return np.asfortranarray(base)
    if form == "view":      # a[k:] style view of a larger owning array
        big = np.concatenate([base[:1], base, base[:1]]) if n else np.concatenate([base, base])
        v = big[1:1 + n] if n else big[0:0]
        return v
    if form == "strided":
        big = np.repeat(base, 2, axis=0)
        return big[::2]
    raise AssertionError(form)


class Pool:
    def __init__(self):
        self.objs = []
        self.timings = {}      # tdesc key -> Timing object (shared instances)

    def timing(self, td):
        from nitypes.waveform import Timing
        if td is None:
            return None
        if td == "empty":
            return Timing.empty
        if td == "bad":
            return "not a timing"
        key = repr(sorted(td.items()))
        if key not in self.timings:
            ts = mk_dtm(FAM, td["ts"]) if td.get("ts") is not None else None
            off = mk_td(FAM, td["off"]) if td.get("off") is not None else None
            if td["mode"] == 0:
                t = Timing.create_with_no_interval(ts, off)
            elif td["mode"] == 1:
                t = Timing.create_with_regular_interval(mk_td(FAM, td["si"]), ts, off)
            else:
                lst = [mk_dtm(FAM, v) for v in td["tss"]]
                t = Timing.create_with_irregular_interval(lst)
                # a hostile caller goes on using (and changing) the list it passed in
                lst.reverse()
                lst.extend(lst[:1] * 2)
                del lst[:1]
            self.timings[key] = t
        return self.timings[key]


def scale_of(s):
    from nitypes.waveform import NO_SCALING, LinearScaleMode
    if s == "bad":
        return 3.5
    return NO_SCALING if not s else LinearScaleMode(float(s), float(s) + 0.5)


def scale_id(sm):
    from nitypes.waveform import LinearScaleMode
    return int(sm.gain) if isinstance(sm, LinearScaleMode) else 0


def iarg(v):
    if isinstance(v, list):           # ["np", "uint8", 200]: a NumPy integer scalar argument
        import numpy as np
        return getattr(np, v[1])(v[2])
    return "x" if v == "bad" else v


def timing_desc(t):
    from nitypes.waveform import SampleIntervalMode
    mode = {SampleIntervalMode.NONE: 0, SampleIntervalMode.REGULAR: 1, SampleIntervalMode.IRREGULAR: 2}[t.sample_interval_mode]
    return {"mode": mode, "ts": None if t._timestamp is None else read_dtm(t._timestamp),
            "off": None if t._time_offset is None else read_td(t._time_offset),
            "si": None if t._sample_interval is None else read_td(t._sample_interval),
            "tss": None if t._timestamps is None else [read_dtm(x) for x in t._timestamps]}


def public_timing(o):
    """the stored members, cross-checked against the public read the property promises: with irregular timing,
    timing.get_timestamps(0, sample_count) succeeds and yields the stored timestamps, one per sample"""
    td = timing_desc(o.timing)
    if td["mode"] == 2 and td["tss"] is not None and len(td["tss"]) == o.sample_count:
        try:
            got = o.timing.get_timestamps(0, o.sample_count)
            pub = [read_dtm(x) for x in got]
            if isinstance(got, list):
                # the caller does what it likes with the list it was handed: that is not the timing's own list
                got.append("x"); got.reverse(); del got[1:]
                pub2 = [read_dtm(x) for x in o.timing.get_timestamps(0, o.sample_count)]
                if pub2 != pub:
                    pub = None
        except Exception:
            pub = None
        if pub != td["tss"]:
            td["tss"] = pub  # reported as the timing's content: no longer what the model and the spec expect
    return td


def snapshot(o):
    k = kind_of(o)
    data = o._data
    base = getattr(o, "_data_1d", None)
    base = data if base is None else base
    ncols = data.shape[1] if k == "D" else 1
    snap = {"kind": k, "dtype": dtype_id(data.dtype), "rows": from_np(data) if not (k == "D" and data.shape[1] == 0) else [[] for _ in range(len(data))],
            "ncols": ncols, "start": o.start_index, "count": o.sample_count, "cap": o.capacity,
            # ndarray.resize needs to own its data unless the total size stays 0 (a waveform with 0 signals)
            "resizable": bool(base.flags.owndata and base.flags.c_contiguous) or ncols == 0,
            "timing": public_timing(o) if k != "S" else {"mode": 0, "ts": None, "off": None, "si": None, "tss": None},
            "scale": scale_id(o.scale_mode) if k in ("A", "C") else 0,
            "props": {kk: vv for kk, vv in o.extended_properties.items()},
            # public views, for the spec side
            "view": from_np(o.data if k in ("D", "S") else o.raw_data) if ncols else [[] for _ in range(o.sample_count)]}
    assert snap["cap"] == len(snap["rows"])
    return snap


def apply(pool, op):
    """perform one op on the real objects; returns canonical output (None or rows)"""
    import numpy as np
    k = op["op"]
    if k in ("new", "from_array"):
        cls = cls_of(op["kind"])
        kw = {}
        if op.get("timing") is not None and op["kind"] != "S":
            kw["timing"] = pool.timing(op["timing"])
        if op.get("scale") and op["kind"] in ("A", "C"):
            kw["scale_mode"] = scale_of(op["scale"])
        if op.get("props"):
            kw["extended_properties"] = dict(op["props"])
        if k == "new":
            args = {}
            for name, key in (("sample_count", "sc"), ("start_index", "start"), ("capacity", "cap")):
                if op.get(key) is not None:
                    args[name] = iarg(op[key])
            if op["kind"] == "D":
                if op.get("ncols") is not None:
                    args["signal_count"] = iarg(op["ncols"])
                if op.get("fill"):
                    args["default_value"] = op["fill"]
            if op.get("dtype") is not None:
                args["dtype"] = np_dtype(op["dtype"])
            w = cls(**args, **kw)
        else:
            arr = build_array(op["arr"])
            via = op.get("via", "ctor")
            args = {}
            for name, key in (("sample_count", "sc"), ("start_index", "start")):
                if op.get(key) is not None:
                    args[name] = iarg(op[key])
            if op["kind"] == "D" and op.get("ncols") is not None:
                args["signal_count"] = iarg(op["ncols"])
            if op.get("dtype_req") is not None:
                args["dtype"] = np_dtype(op["dtype_req"])
            if via == "ctor":
                if op.get("cap") is not None:
                    args["capacity"] = iarg(op["cap"])
                dk = "data" if op["kind"] in ("D", "S") else "raw_data"
                w = cls(**{dk: arr}, **args, **kw)
            elif via == "from_array_1d":
                dt = args.pop("dtype", None)
                w = cls.from_array_1d(arr, dt, copy=op.get("copy", True), **args, **kw)
            elif via == "from_array_2d":
                # the op's array is row [row] of a 2-D array; the other rows hold other data
                dt = args.pop("dtype", None)
                k2, row = op.get("nrows", 2), op.get("row", 0)
                arr2 = np.stack([np.array(arr) if j == row else np.zeros_like(arr) for j in range(k2)])
                w = cls.from_array_2d(arr2, dt, copy=op.get("copy", True), **args, **kw)[row]
            else:
                dt = args.pop("dtype", None)
                w = cls.from_lines(arr, dt, copy=op.get("copy", True), **args, **kw)
        pool.objs.append(w)
        return None
    w = pool.objs[op["i"]]
    if k == "load" and "self_bcast" in op["arr"]:
        a0, m = op["arr"]["self_bcast"]
        view = (w.data if kind_of(w) in ("D", "S") else w.raw_data)[a0:a0 + 1]
        w.load_data(np.broadcast_to(view, (m,) + view.shape[1:]), copy=True,
                    **({"start_index": iarg(op["start"])} if op.get("start") is not None else {}))
        return None
    if k == "load":
        kw = {"copy": op["copy"]}
        if "start" in op and op["start"] is not None:
            kw["start_index"] = iarg(op["start"])
        if "sc" in op and op["sc"] is not None:
            kw["sample_count"] = iarg(op["sc"])
        w.load_data(build_array(op["arr"]), **kw)
        return None
    if k == "append_arr":
        if "self" in op["arr"]:
            # the argument is a live view of the receiver's own buffer
            a0, b0 = op["arr"]["self"]
            arr = (w.data if kind_of(w) in ("D", "S") else w.raw_data)[a0:b0]
        else:
            arr = build_array(op["arr"])
        ts = op.get("ts")
        if ts is None:
            w.append(arr)
        elif ts == "wrong":
            w.append(arr, ["x"] * len(op["arr"]["vals"]))
        else:
            lst = [mk_dtm(FAM, v) for v in ts]
            try:
                w.append(arr, lst)
            finally:
                # a hostile caller goes on using (and changing) the list it passed in, accepted or not
                lst.reverse()
                lst.extend(lst[:1] * 2)
                del lst[:1]
        return None
    if k == "append_wfm":
        srcs = [pool.objs[j] for j in op["srcs"]]
        arg = srcs[0] if op.get("single") else (srcs if op.get("seq", "list") == "list" else tuple(srcs))
        if op.get("ts_given"):
            w.append(arg, [])
        else:
            w.append(arg)
        return None
    if k == "repickle":
        # the object is replaced by its pickle / deepcopy round trip
        import copy as _copy
        import pickle as _pickle
        how = op["how"]
        pool.objs[op["i"]] = _copy.deepcopy(w) if how == "deepcopy" else _pickle.loads(_pickle.dumps(w, how))
        return None
    if k == "set_cap":
        w.capacity = iarg(op["v"])
        return None
    if k == "set_count":
        w.sample_count = iarg(op["v"])
        return None
    if k == "set_timing":
        w.timing = pool.timing(op["t"])
        return None
    if k == "set_scale":
        w.scale_mode = scale_of(op["s"])
        return None
    if k == "write":
        if kind_of(w) == "D":
            w.data[op["r"], op["c"]] = op["v"]
        elif kind_of(w) == "S":
            w.data[op["r"]] = op["v"]
        else:
            view = w.raw_data
            if view.dtype.names:
                view["real"][op["r"]] = op["v"]
            elif view.dtype.kind == "c":
                view[op["r"]] = complex(op["v"], -op["v"])
            else:
                view[op["r"]] = op["v"]
        return None
    if k == "get":
        f = w.get_data if kind_of(w) in ("D", "S") else w.get_raw_data
        kw = {}
        a = []
        if "start" in op:
            kw["start_index"] = iarg(op["start"]) if op["start"] is not None else None
        if "sc" in op:
            kw["sample_count"] = iarg(op["sc"]) if op["sc"] is not None else None
        r = f(**kw)
        return from_np(r) if not (r.ndim == 2 and r.shape[1] == 0) else [[] for _ in range(len(r))]
    raise AssertionError(k)


WARN = {"TimingMismatchWarning": "WTiming", "ScalingMismatchWarning": "WScaling"}


def run_history(ops_or_gen):
    """ops_or_gen: a list of ops, or a callable(pool) -> op | None producing ops online."""
    pool = Pool()
    steps = []
    i = 0
    while True:
        if callable(ops_or_gen):
            op = ops_or_gen(pool, i)
            if op is None:
                break
        else:
            if i >= len(ops_or_gen):
                break
            op = ops_or_gen[i]
        i += 1
        pre = [snapshot(o) for o in pool.objs]
        with warnings.catch_warnings(record=True) as rec:
            warnings.simplefilter("always")
            r = vf.try_impl(lambda: apply(pool, op))
        ws = [WARN[type(x.message).__name__] for x in rec if type(x.message).__name__ in WARN]
        post = [snapshot(o) for o in pool.objs]
        steps.append({"op": op, "pre": pre, "res": r, "warn": ws if "ok" in r else [], "post": post})
    return {"steps": steps}


# ------------------------------------------------------------------ online generator
def arr_desc(rng, kind, dtype, ncols, n=None, bad=0.12):
    n = rng.choice([0, 1, 1, 2, 3, 5]) if n is None else n
    ndim = 1
    nc = 1
    if kind == "D":
        ndim = 1 if ncols == 1 and rng.random() < 0.5 else 2
        nc = ncols if ndim == 2 else 1
    m = rng.random()
    if m < bad / 3:
        dtype = rng.choice([d for d in DTYPES if d != dtype])
    elif m < 2 * bad / 3:
        ndim = rng.choice([0, 3] + ([2] if kind != "D" else []))
        nc = 2 if ndim == 2 else 1
    elif m < bad and kind == "D":
        if ncols >= 2 and rng.random() < 0.4:
            ndim, nc = 1, 1          # a 1-D array is ONE signal: not what a waveform of several signals takes
        else:
            ndim = 2
            nc = rng.choice([c for c in (1, 2, 3, 4) if c != ncols])
    hi = 2 if dtype == "bool" else 8 if kind == "D" else 100
    vals = [[rng.randrange(hi) for _ in range(nc)] for _ in range(n)]
    form = rng.choice(["own", "own", "view", "strided"] + (["fortran", "fortran"] if ndim == 2 else []))
    return {"vals": vals, "ndim": ndim, "ncols": nc, "dtype": dtype, "form": form}


def timing_desc_gen(rng, count=None):
    u = UNIT[FAM]
    m = rng.randrange(10)
    if m < 2:
        return {"mode": 0, "ts": rng.choice([None, 5 * u]), "off": rng.choice([None, u])}
    if m < 5:
        # intervals include a huge one and its neighbour one unit away: different intervals, whatever a float makes of them
        big = 86400 * 10**8 * u
        return {"mode": 1, "ts": rng.choice([None, 5 * u]), "off": rng.choice([None, u]),
                "si": rng.choice([u, 2 * u, u // 4, u, 2 * u, big, big + 1, big, big + 1])}
    n = count if (count is not None and rng.random() < 0.8) else rng.choice([0, 1, 2, 3, 5])
    base = rng.randrange(0, 50)
    direction = rng.choice([1, 1, -1, 0])
    return {"mode": 2, "tss": [(base + direction * j) * u for j in range(n)]}


def props_gen(rng):
    p = {}
    for k in rng.sample(["NI_ChannelName", "NI_UnitDescription", "k1", "k2", "k3"], rng.choice([0, 0, 1, 2, 3])):
        p[k] = rng.choice(["a", "b", "V", "", "x y"])
    return p


BAD_RATE = [1.0]


def rand_iarg(rng, around, allow_none=True):
    m = rng.random() / BAD_RATE[0]
    if m < 0.08:
        return "bad"
    if m < 0.16:
        return -rng.randrange(1, 3)
    if m < 0.3 and allow_none:
        return None
    return max(0, around + rng.choice([-2, -1, 0, 0, 0, 1, 2]))


class OnlineGen:
    """draws ops from one PRNG, looking at the live objects to make most calls valid"""

    def __init__(self, seed, n_ops, kinds=("A", "C", "S", "D"), focus=None):
        self.rng = random.Random(seed)
        self.n = n_ops
        self.kinds = kinds
        self.focus = focus or {}
        self.bad = 0.35 if self.focus.get("faulty") else 0.12
        BAD_RATE[0] = 2.5 if self.focus.get("faulty") else 1.0

    def new_op(self, pool):
        rng = self.rng
        kind = rng.choice(self.kinds) if not pool.objs or rng.random() < 0.5 else kind_of(rng.choice(pool.objs))
        dtype = rng.choice(sorted(SUPPORTED[kind])) if rng.random() < 0.9 else rng.choice(DTYPES)
        ncols = rng.choice([1, 1, 2, 3]) if kind == "D" else 1
        peers = [o for o in pool.objs if kind_of(o) == kind]
        if peers and rng.random() < 0.7:      # compatible with an existing object, so that appends can succeed
            peer = rng.choice(peers)
            if dtype_id(peer.dtype) < len(DTYPES):
                dtype = DTYPES[dtype_id(peer.dtype)]
            if kind == "D" and peer.signal_count:
                ncols = peer.signal_count
        timing = None
        scale = rng.choice([0, 0, 2, 3]) if kind in ("A", "C") else 0
        props = props_gen(rng)
        irregular_bias = self.focus.get("irregular", 0.25)
        if rng.random() < 0.55:
            sc = rng.choice([0, 1, 2, 3, 5])
            start = rng.choice([0, 0, 1, 2])
            cap = sc + start + rng.choice([0, 0, 1, 3])
            op = {"op": "new", "kind": kind, "dtype": dtype if rng.random() < 0.8 else None,
                  "sc": sc if rng.random() < 0.9 else rand_iarg(rng, sc), "start": start if rng.random() < 0.6 else rand_iarg(rng, start),
                  "cap": cap if rng.random() < 0.6 else rand_iarg(rng, cap), "scale": scale, "props": props}
            if kind == "D":
                op["ncols"] = ncols if rng.random() < 0.9 else rand_iarg(rng, ncols)
                op["fill"] = rng.choice([0, 0, 1])
            if op["dtype"] is None:
                dtype = DEFAULT[kind]
            count = sc
        else:
            a = arr_desc(rng, kind, dtype, ncols, bad=0.1)
            n = len(a["vals"])
            force_ctor = a["ndim"] not in ((1, 2) if kind == "D" else (1,))
            start = rng.choice([0, 0, 1, 2])
            count = max(0, n - start)
            via = rng.choice(["ctor", "ctor", "from_array_1d" if kind != "D" else "from_lines"])
            if kind != "D" and a["ndim"] == 1 and rng.random() < 0.15:
                via = "from_array_2d"
            if force_ctor:
                via = "ctor"
            op = {"op": "from_array", "kind": kind, "arr": a, "via": via, "copy": rng.random() < 0.5,
                  "nrows": 3, "row": rng.randrange(3),
                  "dtype_req": rng.choice([None, None, a["dtype"], rng.choice(DTYPES)]) if via == "ctor" else rng.choice([None, a["dtype"]]),
                  "start": rng.choice([None, start, start, rand_iarg(rng, start)]),
                  "sc": rng.choice([None, None, count, rand_iarg(rng, count)]),
                  "cap": rng.choice([None, None, None, n, rand_iarg(rng, n)]) if via == "ctor" else None,
                  "scale": scale, "props": props}
            if kind == "D":
                op["ncols"] = rng.choice([None, None, a["ncols"], rand_iarg(rng, a["ncols"])])
        if kind != "S" and rng.random() < 0.6:
            timing = timing_desc_gen(rng, count if rng.random() < (0.5 + irregular_bias) else None)
            if timing["mode"] != 2 and rng.random() < irregular_bias:
                timing = {"mode": 2, "tss": [j * UNIT[FAM] for j in range(count)]}
        op["timing"] = timing
        return op

    def __call__(self, pool, i):
        rng = self.rng
        if i >= self.n:
            return None
        if not pool.objs or rng.random() < (0.35 if len(pool.objs) < 3 else 0.08):
            return self.new_op(pool)
        j = rng.randrange(len(pool.objs))
        w = pool.objs[j]
        kind = kind_of(w)
        dtype = DTYPES[dtype_id(w.dtype)] if dtype_id(w.dtype) < len(DTYPES) else "float64"
        ncols = w.signal_count if kind == "D" else 1
        cnt, cap, st = w.sample_count, w.capacity, w.start_index
        irregular = kind != "S" and w.timing._timestamps is not None
        choices = ["load", "load", "append_arr", "append_arr", "append_wfm", "append_wfm", "set_cap", "get", "write"]
        if kind != "S":
            choices += ["set_timing", "set_count"]     # Spectrum.sample_count is read-only
        if kind in ("A", "C"):
            choices += ["set_scale"]
        choices += ["repickle"]
        choices += self.focus.get("extra", [])
        k = rng.choice(choices)
        u = UNIT[FAM]
        if k == "load" and cnt and rng.random() < 0.08 and not (kind == "D" and ncols == 0):
            # load_data(copy=True) of a stride-0 view of one of the receiver's own samples, longer than its capacity
            a0 = rng.randrange(cnt)
            s0 = rng.choice([0, 0, 1, 2])        # a window of the view: start_index > 0 as well
            m = (len(w.timing._timestamps) if irregular else cap + rng.choice([1, 3])) + s0
            row = from_np((w.data if kind in ("D", "S") else w.raw_data)[a0:a0 + 1])[0]
            op = {"op": "load", "i": j, "copy": True,
                  "arr": {"vals": [row] * m, "ndim": 2 if kind == "D" else 1, "ncols": ncols, "dtype": dtype, "form": "view", "self_bcast": [a0, m]}}
            if s0:
                op["start"] = s0
            return op
        if k == "load":
            n = cnt if (irregular and rng.random() < 0.7) else None
            a = arr_desc(rng, kind, dtype, ncols, n=n, bad=self.bad)
            n = len(a["vals"])
            op = {"op": "load", "i": j, "arr": a, "copy": rng.random() < 0.55}
            m = rng.random()
            if m < 0.35:
                s = rng.randrange(0, n + 1)
                op["start"] = s if rng.random() < 0.8 else rand_iarg(rng, s)
                if rng.random() < 0.7:
                    c = rng.randrange(0, n - s + 1)
                    op["sc"] = c if rng.random() < 0.75 else rand_iarg(rng, c + 1)
            elif m < 0.45:
                op["sc"] = rand_iarg(rng, n)
            return op
        if k == "append_arr":
            a = arr_desc(rng, kind, dtype, ncols, bad=self.bad)
            if cnt and rng.random() < 0.1:
                # append a view of the receiver's own samples (w.append(w.raw_data[a:b]))
                a0 = rng.randrange(0, cnt)
                b0 = rng.randrange(a0, cnt + 1)
                view = (w.data if kind in ("D", "S") else w.raw_data)[a0:b0]
                rows = from_np(view) if not (kind == "D" and ncols == 0) else [[] for _ in range(b0 - a0)]
                a = {"vals": rows, "ndim": 2 if kind == "D" else 1, "ncols": ncols, "dtype": dtype, "form": "own", "self": [a0, b0]}
            n = len(a["vals"])
            op = {"op": "append_arr", "i": j, "arr": a}
            if kind != "S":
                m = rng.random()
                if irregular and m < 0.8:
                    last = w.timing._timestamps[-1] if w.timing._timestamps else None
                    tss = w.timing._timestamps
                    direction = 0
                    if len(tss) >= 2:
                        direction = 1 if tss[-1] > tss[0] else -1 if tss[-1] < tss[0] else rng.choice([1, -1])
                    else:
                        direction = rng.choice([1, -1])
                    base = read_dtm(last) if last is not None else 10 * u
                    # mostly one timestamp per sample; sometimes one too few / too many, or none at all for some samples
                    nn = n if rng.random() < 0.8 else rng.choice([n - 1, n + 1, 0, 0])
                    lst = [base + direction * (jj + rng.choice([0, 1])) * u for jj in range(max(0, nn))]
                    if rng.random() < 0.12 and lst:
                        lst[-1] = base - direction * 5 * u
                    op["ts"] = lst
                elif m < 0.1:
                    op["ts"] = [u * jj for jj in range(n)]
                elif m < 0.14:
                    op["ts"] = "wrong"
            return op
        if k == "append_wfm":
            # the receiver itself may be among its sources (w.append([o, w])): it contributes its samples as they were
            same = [jj for jj, o in enumerate(pool.objs) if (jj != j or rng.random() < 0.15) and kind_of(o) == kind]
            good = [jj for jj in same if pool.objs[jj].dtype == w.dtype and (kind != "D" or pool.objs[jj].signal_count == ncols)]
            if not same:
                return self.new_op(pool)
            cand = good if (good and rng.random() < 0.85) else same
            srcs = [rng.choice(cand) for _ in range(rng.choice([1, 1, 2, 3]))]
            single = len(srcs) == 1 and rng.random() < 0.6
            return {"op": "append_wfm", "i": j, "srcs": srcs, "single": single, "seq": rng.choice(["list", "tuple"]),
                    "ts_given": kind != "S" and rng.random() < 0.03}
        if k == "repickle":
            return {"op": "repickle", "i": j, "how": rng.choice([2, 3, 4, 5, -1, "deepcopy"])}
        if k == "set_cap":
            return {"op": "set_cap", "i": j, "v": rand_iarg(rng, st + cnt + rng.choice([0, 1, 3]), allow_none=True)}
        if k == "set_count":
            return {"op": "set_count", "i": j, "v": rand_iarg(rng, rng.randrange(0, max(1, cap - st + 1)) if rng.random() < 0.7 else cap - st + 1, allow_none=True)}
        if k == "set_timing":
            m = rng.random()
            if m < 0.08:
                return {"op": "set_timing", "i": j, "t": "bad"}
            return {"op": "set_timing", "i": j, "t": timing_desc_gen(rng, cnt) if m < 0.9 else "empty"}
        if k == "set_scale":
            return {"op": "set_scale", "i": j, "s": rng.choice([0, 2, 3, "bad"])}
        if k == "write":
            if cnt == 0 or ncols == 0:
                return {"op": "get", "i": j}
            hi = 2 if dtype == "bool" else 8 if kind == "D" else 100
            return {"op": "write", "i": j, "r": rng.randrange(cnt), "c": rng.randrange(ncols), "v": rng.randrange(hi)}
        op = {"op": "get", "i": j}
        m = rng.random()
        if m < 0.7:
            s = rng.randrange(0, cnt + 1)
            op["start"] = s if rng.random() < 0.8 else rand_iarg(rng, s)
            if rng.random() < 0.7:
                c = rng.randrange(0, cnt - s + 1)
                op["sc"] = c if rng.random() < 0.8 else rand_iarg(rng, c + 1)
        return op


def run_readonly(d):
    """a waveform over a READ-ONLY borrowed buffer with spare capacity (outside the pool model): every rejected
    operation must leave it unchanged, and timestamps must always match the sample count"""
    import numpy as np
    from nitypes.waveform import Timing
    kind, n, spare = d["kind"], d["n"], d["spare"]
    cls = cls_of(kind)
    u = UNIT[FAM]
    base = to_np([[j % 2] for j in range(n + spare)], d["dtype"])
    late = kind == "D" and d.get("late1d")
    if kind == "D":
        # late1d: a 1-D array (the waveform keeps a 2-D view of it) that its owner makes read-only AFTER handing it over
        base = base.reshape(-1).copy() if late else base.reshape(n + spare, 1)
    if not late:
        base.flags.writeable = False
    tim = lambda b, k: Timing.create_with_irregular_interval([mk_dtm(FAM, (b + j) * u) for j in range(k)]) if d["irregular"] else None
    kw = {} if kind == "S" or not d["irregular"] else {"timing": tim(0, n)}
    if late:
        w = cls(0, 1, base.dtype, extended_properties={"k1": "a"})
        w.load_data(base, copy=False, sample_count=n)
        if kw:
            w.timing = kw["timing"]
    else:
        w = cls(**{("data" if kind in ("D", "S") else "raw_data"): base}, sample_count=n, extended_properties={"k1": "a"}, **kw)
    if not late:
        base.flags.writeable = False

    def obs():
        s = snapshot(w)
        # capacity and the caller's array included: a rejected call must not have grown the buffer either
        return (s["count"], s["cap"], s["start"], s["view"], s["timing"], sorted(s["props"].items()), base.shape)

    flags = []
    for op in d["ops"]:
        pre = obs()
        base.flags.writeable = False     # (late1d: only now, after the waveform and its views were last looked at)
        k = op["k"]
        arr = to_np([[1]] * op["m"], d["dtype"])
        if kind == "D":
            arr = arr.reshape(op["m"], 1)
        src = lambda b: cls(**{("data" if kind in ("D", "S") else "raw_data"): arr.copy()}, extended_properties={"k2": "b"},
                            **({} if kind == "S" or not d["irregular"] else {"timing": tim(b, op["m"])}))
        try:
            with warnings.catch_warnings():
                warnings.simplefilter("ignore")
                if k == "arr":
                    if kind != "S" and d["irregular"]:
                        w.append(arr, [mk_dtm(FAM, (50 + j) * u) for j in range(op["m"])])
                    else:
                        w.append(arr)
                elif k == "wfm":
                    w.append(src(60))
                elif k == "list":
                    w.append([src(70), src(80)])
                elif k == "load":
                    w.load_data(arr, copy=True)
            raised = False
        except Exception:
            raised = True
        post = obs()
        if raised:
            flags.append(post == pre)
        t = post[4]
        if kind != "S" and t["tss"] is not None:
            flags.append(len(t["tss"]) == post[0])
            flags.append(t["tss"] == sorted(t["tss"]) or t["tss"] == sorted(t["tss"], reverse=True))
    return {"steps": [], "flags": flags}


def run_impl(c):
    if "ro" in c:
        return run_readonly(c["ro"])
    if "ops" in c:
        return run_history(c["ops"])
    return run_history(OnlineGen(c["seed"], c["n"], tuple(c.get("kinds", "ACSD")), c.get("focus")))


# ------------------------------------------------------------------ Coq printers
def iargc(v):
    if isinstance(v, list):
        v = v[2]
    return "INone" if v is None else "IBad" if v == "bad" else "(IInt %s)" % vf.zc(v)


def rowsc(rows):
    return "[" + "; ".join(vf.listc(r) for r in rows) + "]"


def timingc(td):
    if td is None or td == "empty":
        td = {"mode": 0}
    o = lambda v: "None" if v is None else "(Some %s)" % vf.zc(v)
    tss = td.get("tss")
    return "{| t_mode := %d; t_ts := %s; t_off := %s; t_si := %s; t_tss := %s |}" % (
        td["mode"], o(td.get("ts")), o(td.get("off")), o(td.get("si")), "None" if tss is None else "(Some %s)" % vf.listc(tss))


def propsc(p):
    items = []
    for k in sorted(p or {}):
        v = p[k]
        if not isinstance(v, str):
            v = "?"
        items.append("(%d, %s)" % (PKEYS.get(k, 99), vf.listc([ord(ch) for ch in v])))
    return "[" + "; ".join(items) + "]"


def objc(s):
    return ("{| o_kind := %s; o_dtype := %d; o_rows := %s; o_ncols := %s; o_start := %s; o_count := %s; o_resizable := %s; "
            "o_timing := %s; o_scale := %d; o_props := %s |}" % (
                KIND[s["kind"]], s["dtype"], rowsc(s["rows"]), vf.natc(s["ncols"]), vf.natc(s["start"]), vf.natc(s["count"]),
                vf.boolc(s["resizable"]), timingc(s["timing"]), s["scale"], propsc(s["props"])))


def arrc(ad, copy_owns=None):
    vals, ndim, nc = ad["vals"], ad["ndim"], ad["ncols"]
    rows = vals if ndim in (1, 2) else []
    owns = ad["form"] == "own" if copy_owns is None else copy_owns
    if copy_owns is None and ad["form"] == "fortran":
        # a Fortran-ordered buffer can only be resized when it is C-contiguous as well (one column or one row)
        owns = ndim != 2 or nc <= 1 or len(vals) <= 1
    owns = owns or (ndim == 2 and nc == 0)        # a zero-size buffer can always be "resized"
    return "{| a_rows := %s; a_ndim := %s; a_ncols := %s; a_dtype := %d; a_owns := %s |}" % (
        rowsc(rows), vf.natc(ndim), vf.natc(nc), DTYPES.index(ad["dtype"]), vf.boolc(owns))


def opc(op):
    k = op["op"]
    if k == "new":
        dtype = op["dtype"] if op.get("dtype") is not None else DEFAULT[op["kind"]]
        ok = dtype in SUPPORTED[op["kind"]]
        return "PNew %s %d %s %s %s %s %s %s %s %d %s" % (
            KIND[op["kind"]], DTYPES.index(dtype), vf.boolc(ok), iargc(op.get("sc")), iargc(op.get("start")), iargc(op.get("cap")),
            iargc(op.get("ncols")), vf.zc(op.get("fill") or 0), timingc(op.get("timing")), op.get("scale") or 0, propsc(op.get("props")))
    if k == "from_array":
        a = op["arr"]
        via = op.get("via", "ctor")
        dreq = op.get("dtype_req")
        # from_array_1d / from_lines convert with np.asarray(array, dtype, copy=copy) first
        eff = dict(a)
        owns = a["form"] == "own" or (a["form"] == "fortran" and (a["ndim"] != 2 or a["ncols"] <= 1 or len(a["vals"]) <= 1))
        if via != "ctor":
            if via == "from_array_2d":
                owns = False          # a row of the caller's 2-D array unless copied
            if op.get("copy", True):
                owns = True
            eff_dtype = a["dtype"] if dreq is None else dreq
            eff["dtype"] = eff_dtype
            dreq_c = "None"
        else:
            dreq_c = "None" if dreq is None else "(Some %d)" % DTYPES.index(dreq)
        ok = eff["dtype"] in SUPPORTED[op["kind"]]
        return "PFromArray %s %s %s %s %s %s %s %s %s %d %s" % (
            KIND[op["kind"]], arrc(eff, owns), dreq_c, vf.boolc(ok), iargc(op.get("start")), iargc(op.get("sc")), iargc(op.get("cap")),
            iargc(op.get("ncols")), timingc(op.get("timing")), op.get("scale") or 0, propsc(op.get("props")))
    if k == "load":
        return "PLoad %s %s %s %s %s" % (vf.natc(op["i"]), arrc(op["arr"]), vf.boolc(op["copy"]), iargc(op.get("start")), iargc(op.get("sc")))
    if k == "append_arr":
        ts = op.get("ts")
        tsc = "TsNone" if ts is None else "TsWrongType" if ts == "wrong" else "(TsList %s)" % vf.listc(ts)
        return "PAppendArr %s %s %s" % (vf.natc(op["i"]), arrc(op["arr"]), tsc)
    if k == "append_wfm":
        return "PAppendWfm %s %s %s" % (vf.natc(op["i"]), "[" + "; ".join(vf.natc(j) for j in op["srcs"]) + "]", vf.boolc(bool(op.get("ts_given"))))
    if k == "repickle":
        return "PRepickle %s" % vf.natc(op["i"])
    if k == "set_cap":
        return "PSetCap %s %s" % (vf.natc(op["i"]), iargc(op["v"]))
    if k == "set_count":
        return "PSetCount %s %s" % (vf.natc(op["i"]), iargc(op["v"]))
    if k == "set_timing":
        return "PSetTiming %s %s" % (vf.natc(op["i"]), "None" if op["t"] == "bad" else "(Some %s)" % timingc(op["t"]))
    if k == "set_scale":
        return "PSetScale %s %s" % (vf.natc(op["i"]), "None" if op["s"] == "bad" else "(Some %d)" % op["s"])
    if k == "write":
        return "PWrite %s %s %s %s" % (vf.natc(op["i"]), vf.natc(op["r"]), vf.natc(op["c"]), vf.zc(op["v"]))
    if k == "get":
        return "PGet %s %s %s" % (vf.natc(op["i"]), iargc(op.get("start")) if "start" in op else "(IInt 0)", iargc(op.get("sc")))
    raise AssertionError(k)


def stepc(st):
    r = st["res"]
    if "exc" in r:
        res = "(Raise %s)" % r["exc"]
    elif r["ok"] is None:
        res = "(Ok WNone)"
    else:
        res = "(Ok (WRows %s))" % rowsc(r["ok"])
    return "{| w_pre := [%s]; w_op := %s; w_res := %s; w_warn := [%s]; w_post := [%s] |}" % (
        "; ".join(objc(s) for s in st["pre"]), opc(st["op"]), res, "; ".join(st["warn"]), "; ".join(objc(s) for s in st["post"]))


def to_coq(c, r):
    if "ro" in c:
        return "WObs [%s]" % "; ".join(vf.boolc(b) for b in r["flags"])
    return "WHist [%s]" % ";\n ".join(stepc(st) for st in r["steps"])


def readonly_cases(rng, count):
    out = []
    # calls that would have to GROW the read-only buffer: rejected before anything is resized
    for kind in "ACDSD":
        for late in ((False, True) if kind == "D" else (False,)):
            out.append({"ro": {"kind": kind, "dtype": sorted(SUPPORTED[kind])[0], "n": 1, "spare": 1, "irregular": False, "late1d": late,
                               "ops": [{"k": "arr", "m": 3}, {"k": "load", "m": 4}, {"k": "wfm", "m": 3}, {"k": "list", "m": 2}]}})
    for _ in range(count):
        kind = rng.choice("ACD" + "S")
        out.append({"ro": {"kind": kind, "dtype": rng.choice(sorted(SUPPORTED[kind])), "n": rng.choice([0, 1, 3]), "spare": rng.choice([1, 2, 4]),
                           "irregular": kind != "S" and rng.random() < 0.7, "late1d": kind == "D" and rng.random() < 0.5,
                           "ops": [{"k": rng.choice(["arr", "wfm", "list", "load"]), "m": rng.choice([1, 1, 2])} for _ in range(rng.randrange(1, 4))]}})
    return out


def geom(s):
    return "%s%s%s" % ("s" if s["start"] else "0", "c" if s["count"] else "0", "x" if s["cap"] > s["start"] + s["count"] else "f")


def step_sig(st):
    op = st["op"]
    k = op["op"]
    out = st["res"].get("exc", "ok")
    tgt = st["pre"][op["i"]] if "i" in op and op["i"] < len(st["pre"]) else None
    extra = ""
    if tgt is not None:
        extra = "%s|%s|t%d|%s" % (tgt["kind"], geom(tgt), tgt["timing"]["mode"], "r" if tgt["resizable"] else "b")
    else:
        extra = op.get("kind", "")
    if "arr" in op:
        extra += "|%s%d" % (op["arr"]["form"], min(len(op["arr"]["vals"]), 3))
    if k == "load":
        extra += "|copy" if op["copy"] else "|nocopy"
    if k == "append_wfm":
        extra += "|n%d" % len(op["srcs"])
    return "%s|%s|%s" % (k, extra, out)


def sig(c, r):
    if "ro" in c:
        return "readonly|%s|%s" % (c["ro"]["kind"], c["ro"]["irregular"]), True
    sigs = sorted({step_sig(st) for st in r["steps"]})
    return "/".join(sigs)[:300], len(r["steps"]) > 0


def step_sigs(pairs):
    d = {}
    for c, r in pairs:
        for st in r["steps"]:
            s = step_sig(st)
            d[s] = d.get(s, 0) + 1
    return d


def distribution(pairs):
    d = {}
    for c, r in pairs:
        for st in r["steps"]:
            key = st["op"]["op"] + ":" + st["res"].get("exc", "ok")
            d[key] = d.get(key, 0) + 1
    d["distinct_step_signatures"] = len(step_sigs(pairs))
    return d


def finding_key(c, r):
    if "ro" in c:
        return "readonly|%s|%s" % (c["ro"]["kind"], "/".join(o["k"] for o in c["ro"]["ops"]))
    # the first step whose outcome class looks suspicious cannot be known here; use the op kinds + outcomes
    return "/".join("%s:%s" % (st["op"]["op"], st["res"].get("exc", "ok")) for st in r["steps"])[:200]


def case_size(c):
    return c.get("n", len(c.get("ops", [])))


# ------------------------------------------------------------------ scripted multi-step scenarios
def scripted(rng):
    """short histories that need a specific sequence of calls / object state to be interesting"""
    u = UNIT[FAM]
    out = []
    # digital: 1-D borrowed or owned base, then load by reference (1-D or 2-D n x 1), then grow
    for _ in range(6):
        dt = rng.choice(["uint8", "int8", "bool"])
        hi = 2 if dt == "bool" else 8
        n0, n1, n2 = rng.randrange(1, 4), rng.randrange(1, 4), rng.randrange(1, 4)
        mk = lambda n, nd: {"vals": [[rng.randrange(hi)] for _ in range(n)], "ndim": nd, "ncols": 1, "dtype": dt, "form": rng.choice(["own", "own", "view"])}
        ops = [{"op": "from_array", "kind": "D", "arr": mk(n0, 1), "via": rng.choice(["ctor", "from_lines"]), "copy": rng.random() < 0.5, "scale": 0, "props": {}},
               {"op": "load", "i": 0, "arr": mk(n1, rng.choice([1, 2])), "copy": False},
               rng.choice([{"op": "append_arr", "i": 0, "arr": mk(n2, rng.choice([1, 2]))}, {"op": "set_cap", "i": 0, "v": n1 + rng.randrange(1, 4)}]),
               {"op": "get", "i": 0}, {"op": "append_arr", "i": 0, "arr": mk(1, 1)}]
        out.append({"ops": ops})
    # irregular receivers and an array appended with NO timestamps for it (an empty sequence is still a sequence of the wrong
    # length), with too few, and with the right number
    for kind in ("A", "C", "D"):
        dt = sorted(SUPPORTED[kind])[0]
        n0, m = rng.randrange(0, 3), rng.randrange(1, 4)
        mk = lambda n: {"vals": [[rng.randrange(2)] for _ in range(n)], "ndim": 2 if kind == "D" and rng.random() < 0.5 else 1, "ncols": 1, "dtype": dt, "form": "own"}
        ops = [{"op": "from_array", "kind": kind, "arr": mk(n0), "via": "ctor", "scale": 0, "props": {}, "timing": {"mode": 2, "tss": [j * u for j in range(n0)]}},
               {"op": "append_arr", "i": 0, "arr": mk(m), "ts": []},
               {"op": "append_arr", "i": 0, "arr": mk(m), "ts": [(10 + j) * u for j in range(m - 1)]},
               {"op": "get", "i": 0},
               {"op": "append_arr", "i": 0, "arr": mk(m), "ts": [(20 + j) * u for j in range(m)]},
               {"op": "get", "i": 0}]
        out.append({"ops": ops})
    # a DigitalWaveform of several signals offered a 1-D array (one signal): refused by append and by load_data alike
    for ncols in (2, 3):
        mk2 = lambda n: {"vals": [[rng.randrange(2) for _ in range(ncols)] for _ in range(n)], "ndim": 2, "ncols": ncols, "dtype": "uint8", "form": "own"}
        mk1 = lambda n: {"vals": [[rng.randrange(2)] for _ in range(n)], "ndim": 1, "ncols": 1, "dtype": "uint8", "form": "own"}
        out.append({"ops": [{"op": "from_array", "kind": "D", "arr": mk2(2), "via": "ctor", "scale": 0, "props": {}},
                            {"op": "append_arr", "i": 0, "arr": mk1(2)}, {"op": "append_arr", "i": 0, "arr": mk1(0)},
                            {"op": "load", "i": 0, "arr": mk1(2), "copy": True}, {"op": "get", "i": 0},
                            {"op": "append_arr", "i": 0, "arr": mk2(1)}, {"op": "get", "i": 0}]})
    # REGULAR receiver and source whose sample intervals differ by one unit out of 8.64e18 (equal as float seconds): still a
    # differing interval, so a TimingMismatchWarning; and the same interval: none
    for kind in ("A", "C", "D"):
        dt = sorted(SUPPORTED[kind])[0]
        big = 86400 * 10**8 * u
        mk = lambda n: {"vals": [[rng.randrange(2)] for _ in range(n)], "ndim": 1, "ncols": 1, "dtype": dt, "form": "own"}
        reg = lambda si: {"mode": 1, "ts": 5 * u, "off": None, "si": si}
        ops = [{"op": "from_array", "kind": kind, "arr": mk(2), "via": "ctor", "scale": 0, "props": {}, "timing": reg(big)},
               {"op": "from_array", "kind": kind, "arr": mk(1), "via": "ctor", "scale": 0, "props": {}, "timing": reg(big + 1)},
               {"op": "from_array", "kind": kind, "arr": mk(1), "via": "ctor", "scale": 0, "props": {}, "timing": reg(big)},
               {"op": "append_wfm", "i": 0, "srcs": [1], "single": True},
               {"op": "append_wfm", "i": 0, "srcs": [2], "single": rng.random() < 0.5},
               {"op": "append_wfm", "i": 0, "srcs": [2, 1], "single": False, "seq": "list"},
               {"op": "get", "i": 0}]
        out.append({"ops": ops})
    # borrowed buffer without room: load_data(copy=True) / append that must grow -> rejected, nothing changes
    for _ in range(6):
        kind = rng.choice(["A", "C", "S", "D"])
        dt = rng.choice(sorted(SUPPORTED[kind]))
        n0 = rng.randrange(1, 4)
        mk = lambda n, form: {"vals": [[rng.randrange(2)] for _ in range(n)], "ndim": 1, "ncols": 1, "dtype": dt, "form": form}
        ops = [{"op": "from_array", "kind": kind, "arr": mk(n0 + 2, "view"), "via": "ctor", "start": 1, "sc": n0, "scale": 0, "props": {"k1": "a"},
                "timing": None if kind == "S" else rng.choice([None, {"mode": 2, "tss": [j * u for j in range(n0)]}])},
               {"op": "load", "i": 0, "arr": mk(n0 + 2 + rng.randrange(1, 3), "own"), "copy": True, "sc": rng.choice([None, n0 + 3])},
               {"op": "append_arr", "i": 0, "arr": mk(3, "own")},
               {"op": "new", "kind": kind, "dtype": dt, "sc": 3, "start": 0, "cap": 3, "scale": 0, "props": {"k2": "b"},
                "timing": None if kind == "S" else rng.choice([None, {"mode": 2, "tss": [(50 + j) * u for j in range(3)]}])},
               {"op": "append_wfm", "i": 0, "srcs": [1], "single": rng.random() < 0.5},
               {"op": "get", "i": 0}]
        out.append({"ops": ops})
    # borrowed buffer WITH some slack, several sources: the first fit, the total does not -> the whole append is rejected
    for it in range(12):
        kind = "ACSD"[it % 4]
        dt = rng.choice(sorted(SUPPORTED[kind]))
        n0, slack = rng.randrange(0, 3), rng.randrange(1, 4)
        mk = lambda n, form: {"vals": [[rng.randrange(2)] for _ in range(n)], "ndim": 1, "ncols": 1, "dtype": dt, "form": form}
        irregular = kind != "S" and rng.random() < 0.4
        tim = lambda base, n: None if kind == "S" else ({"mode": 2, "tss": [(base + j) * u for j in range(n)]} if irregular else rng.choice([None, {"mode": 1, "si": u}]))
        c1 = rng.randrange(1, slack + 1)
        c2 = slack - c1 + rng.randrange(1, 3)
        ops = [{"op": "from_array", "kind": kind, "arr": mk(n0 + slack + 1, "view"), "via": "ctor", "start": 1, "sc": n0, "scale": 0, "props": {"k1": "a"}, "timing": tim(0, n0)},
               {"op": "new", "kind": kind, "dtype": dt, "sc": c1, "start": 0, "cap": c1, "scale": 0, "props": {"k2": "b", "NI_ChannelName": "s1"}, "timing": tim(20, c1)},
               {"op": "new", "kind": kind, "dtype": dt, "sc": c2, "start": 0, "cap": c2, "scale": 0, "props": {"k3": "c"}, "timing": tim(40, c2)},
               {"op": "write", "i": 1, "r": 0, "c": 0, "v": 1},
               {"op": "append_wfm", "i": 0, "srcs": [1, 2], "single": False, "seq": rng.choice(["list", "tuple"])},
               {"op": "get", "i": 0},
               {"op": "append_wfm", "i": 0, "srcs": [1], "single": rng.random() < 0.5},
               {"op": "append_wfm", "i": 0, "srcs": [1, 1, 2], "single": False},
               {"op": "get", "i": 0}]
        out.append({"ops": ops})
    # NumPy integer scalars as start/count/capacity arguments whose sum does not fit their own type
    for _ in range(4):
        kind = rng.choice(["A", "C", "S", "D"])
        dt = rng.choice(sorted(SUPPORTED[kind]))
        ty, lim = rng.choice([("uint8", 256), ("int8", 128), ("uint8", 256)])
        n = lim - rng.randrange(2, 10)
        a = lim * 3 // 4 + rng.randrange(5)
        b = lim - a + rng.randrange(0, 40)
        arr = {"vals": [[j % 2] for j in range(n)], "ndim": 1, "ncols": 1, "dtype": dt, "form": "own"}
        ops = [{"op": "from_array", "kind": kind, "arr": arr, "via": "ctor", "start": ["np", ty, a], "sc": ["np", ty, min(b, lim - 1)], "scale": 0, "props": {}},
               {"op": "new", "kind": kind, "dtype": dt, "sc": ["np", ty, min(b, lim - 1)], "start": ["np", ty, a], "cap": n, "scale": 0, "props": {}},
               {"op": "new", "kind": kind, "dtype": dt, "sc": 2, "start": 0, "cap": n, "scale": 0, "props": {}}]
        ops += [{"op": "load", "i": j, "arr": arr, "copy": rng.random() < 0.5, "start": ["np", ty, a], "sc": ["np", ty, min(b, lim - 1)]} for j in range(1)]
        ops += [{"op": "get", "i": 0, "start": ["np", ty, 1], "sc": ["np", ty, 1]}]
        out.append({"ops": ops})
    return out
