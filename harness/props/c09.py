"""C09 — irregular timing always carries one monotonic timestamp per sample."""
from __future__ import annotations

from props.wfm_common import *  # noqa: F401,F403
from props import wfm_common as W

ID = "C09"
PROPS_FILE = "Props/C09.v"
SUBCHECKS = ["c08"]   # creating a Timing from timestamps (every constructor spelling) accepts exactly the monotonic sequences
RULE = ("pool histories on Analog / Complex / Digital waveforms biased to irregular timing: constructor timing= with fewer / "
        "equal / more timestamps than samples, timing assignment, append of arrays with timestamps (matching, too few, too "
        "many, wrong type, direction reversals and plateaus), append of waveforms and sequences (irregular and mixed modes, "
        "empty receivers adopting a source's timing), load_data with and without sub-range, sample_count and capacity "
        "assignment, borrowed buffers that cannot grow; every object is snapshotted after every call and must satisfy "
        "#timestamps == sample_count and monotonic; distinct = step signatures")
TRUSTED = ["hand model Model/Waveform.v + Model/Timing.v tied by the pool correspondence"]
ASSUMPTIONS = []
PARTIAL = ["pickling of waveforms is covered by C13"]


def gen_cases(rng, tier):
    n = 600 if tier == "quick" else 5000
    cases = W.scripted(rng) + W.readonly_cases(rng, 40 if tier == "quick" else 600)
    for _ in range(n):
        cases.append({"seed": rng.randrange(1 << 40), "n": rng.choice([4, 8, 14, 24]), "kinds": "ACD", "focus": {"irregular": 0.6}})
    return cases


def search_cases(rng, literals, tier):
    return gen_cases(rng, "quick")
