"""C06 — port data unpacks to the documented bit / line / signal mapping."""
from __future__ import annotations

import vf

ID = "C06"
CASE_TYPE = "c06case"
SPEC_REQ = "Corr.C06Spec"
MODEL_REQ = "Corr.C06Model"
EXTRA_REQ = "Spec.PortSpec"
SPEC_FN = "c06_spec_ok"
MODEL_FN = "c06_model_ok"
PROPS_FILE = "Props/C06.v"
USES_GEN = ["_port.py", "PortGen"]
RULE = ("cases = from_port / from_ports with port widths 8/16/32, sample values incl. 0, all-ones, single bits, random; "
        "masks: full, zero, sparse, single bit, wider than the port, negative, None; both bit orders; state dtypes "
        "bool/int8/uint8; input forms: Python list, native ndarray, non-native byte order ('>u2','>u4'), strided view, "
        "row of a C- or Fortran-ordered 2-D array through from_ports; start_index/sample_count windows incl. invalid "
        "ones; every result also checks signals[i].data == data[:, n-1-i]; thorough: EXHAUSTIVE 256 values x 256 masks "
        "x 2 orders for width 8; distinct = (input form, width, mask class, order, dtype, window class, outcome)")
TRUSTED = ["translator (Gen/PortGen.v incl. the while loop as a fuelled Fixpoint)",
           "Model/Port.v models byteswap/view/unpackbits by their value-level meaning; compared with the real pipeline on every input form"]
ASSUMPTIONS = ["np.unpackbits / byteswap / view(uint8) behave as documented (modelled at value level)"]
PARTIAL = ["strides are NumPy's business (np.ascontiguousarray): covered by the correspondence only; the byte pipeline itself is Model/PortBytes.v, "
           "proved equal to the value-level rows (C06_bytes, C06_byte_order) and tied to NumPy's memory images by the PortMem cases"]
EXHAUSTIVE = {"quick": False, "thorough": True}


def _source(c):
    """the caller's array (None for sequence input)"""
    import numpy as np
    import sys
    form, w, vals = c["form"], c["w"], c["values"]
    npdt = {8: np.uint8, 16: np.uint16, 32: np.uint32}[w]
    if form == "native":
        return np.array(vals, npdt)
    if form == "swapped":
        a = np.array(vals, npdt)
        return a.astype(a.dtype.newbyteorder(">" if sys.byteorder == "little" else "<"))
    if form == "strided":
        a = np.zeros(len(vals) * 3 + 1, npdt)
        a[1::3] = vals
        return a[1::3]
    if form in ("ports_c", "ports_f"):
        other = [(v * 7 + 3) % (1 << w) for v in vals]
        rows = [other, list(vals)] if c.get("row", 1) == 1 else [list(vals), other]
        arr = np.array(rows, npdt).reshape(2, len(vals))
        return np.asfortranarray(arr) if form == "ports_f" else arr
    return None


class _Idx:
    def __init__(self, v):
        self.v = v

    def __index__(self):
        return self.v


def _build(c, src=None):
    import numpy as np
    from nitypes.waveform import DigitalWaveform
    form = c["form"]
    w = c["w"]
    vals = c["values"]
    kw = {"bitorder": "big" if c["big"] else "little"}
    if c.get("dtype"):
        kw["dtype"] = {"bool": np.bool_, "int8": np.int8, "uint8": np.uint8}[c["dtype"]]
    if "start" in c:
        kw["start_index"] = c["start"]
    if "count" in c:
        kw["sample_count"] = c["count"]
    mask = c["mask"]
    mt = c.get("mask_type")
    if mask is not None and mt:
        # the mask as a NumPy integer scalar or an object that only has __index__: the same integer, the same result
        if mt == "index":
            mask = _Idx(mask)
        else:
            info = np.iinfo(getattr(np, mt))
            if info.min <= mask <= info.max:
                mask = getattr(np, mt)(mask)
    npdt = {8: np.uint8, 16: np.uint16, 32: np.uint32}[w]
    if form == "list":
        return DigitalWaveform.from_port(list(vals), mask, **kw)
    if form in ("native", "swapped", "strided"):
        return DigitalWaveform.from_port(src if src is not None else _source(c), mask, **kw)
    if form in ("ports_c", "ports_f", "ports_list"):
        other = [(v * 7 + 3) % (1 << w) for v in vals]
        rows = [other, list(vals)] if c.get("row", 1) == 1 else [list(vals), other]
        masks = None if mask is None else ([(1 << w) - 1, mask] if c.get("row", 1) == 1 else [mask, (1 << w) - 1])
        if form == "ports_list":
            arr = rows
            if masks is None:
                masks = None
        else:
            arr = src if src is not None else _source(c)
        wfs = DigitalWaveform.from_ports(arr, masks, **kw)
        return wfs[c.get("row", 1)]
    raise AssertionError(form)


def run_impl(c):
    import numpy as np
    if c["k"] == "short":
        from nitypes.waveform import DigitalWaveform
        arr = np.arange(c["rows"] * 3, dtype=np.uint8).reshape(c["rows"], 3)
        src = arr if c["form"] == "array" else arr.tolist()
        try:
            got = DigitalWaveform.from_ports(src, [0xFF] * c["masks"])
            raised = False
            if len(got) != c["rows"]:
                raised = False      # served with another number of waveforms than ports: not a refusal
        except Exception:
            raised = True
        return {"raised": raised, "n": -1 if raised else len(got)}
    if c["k"] == "mem":
        from nitypes.waveform._digital._port import port_to_line_data
        k, v = c["bytes"], c["v"]
        le = np.array([v], dtype="<u%d" % k)
        be = np.array([v], dtype=">u%d" % k)
        order = "big" if c["big"] else "little"
        full = (1 << (8 * k)) - 1
        return {"mem_le": list(le.tobytes()), "mem_be": list(be.tobytes()),
                "row_le": [int(x) for x in port_to_line_data(le, full, order)[0]],
                "row_be": [int(x) for x in port_to_line_data(be, full, order)[0]]}
    if c["k"] == "dtype":
        from nitypes.waveform._digital._port import get_port_dtype
        return vf.try_impl(lambda: get_port_dtype(c["mask"]).itemsize * 8)

    def f():
        src = _source(c)
        before = None if src is None else src.copy()
        wf = _build(c, src)
        data = wf.data
        want = np.dtype({"bool": np.bool_, "int8": np.int8, "uint8": np.uint8}[c.get("dtype") or "uint8"])
        ok = data.dtype == want and data.ndim == 2 and wf.signal_count == data.shape[1] and wf.sample_count == data.shape[0]
        n = wf.signal_count
        for i in range(n):
            s = wf.signals[i].data
            ok = ok and s.dtype == want and np.array_equal(s, data[:, n - 1 - i]) and (s.size == 0 or np.shares_memory(s, wf.data))
        if src is not None:
            # the caller's array is an argument: it must be unmodified, and converting it again gives the same lines
            ok = ok and np.array_equal(src, before) and src.dtype == before.dtype
            again = _build(c, src)
            ok = ok and np.array_equal(again.data, data) and not (data.size and np.shares_memory(again.data, data))
            # the collection iterated BEFORE any signal was indexed: the same signals
            it = list(again.signals)
            ok = ok and len(it) == n and all(np.array_equal(it[i].data, again.data[:, n - 1 - i]) and it[i].signal_index == i for i in range(n))
            ok = ok and all(np.array_equal(again.signals[i].data, again.data[:, n - 1 - i]) for i in range(n))
        rows = [[int(x) for x in row] for row in data.tolist()]
        # signals[i].data is that column of the waveform as it is NOW: read again through the same signal objects after
        # the window shrank and after samples were appended
        held = [wf.signals[i] for i in range(n)]
        for s_ in held:
            s_.data
        if wf.sample_count:
            wf.sample_count = wf.sample_count - 1
        wf.append(np.ones((2, n), want) if n else np.zeros((2, 0), want))
        for i, s_ in enumerate(held):
            ok = ok and np.array_equal(s_.data, wf.data[:, n - 1 - i]) and len(s_.data) == wf.sample_count
        return {"rows": rows, "signals_ok": bool(ok)}
    return vf.try_impl(f)


def to_coq(c, r):
    if c["k"] == "short":
        # enough masks: judged by the number of waveforms (reported as a refusal when it is not one per port)
        ok = r["raised"] if c["masks"] < c["rows"] else (not r["raised"] and r["n"] == c["rows"])
        return "PortsShort %s %s %s" % (vf.zc(c["rows"]), vf.zc(c["masks"]), vf.boolc(r["raised"] if c["masks"] < c["rows"] else ok))
    if c["k"] == "mem":
        return "PortMem %s %s %s %s %s %s %s" % (vf.natc(c["bytes"]), vf.boolc(c["big"]), vf.zc(c["v"]), vf.listc(r["mem_le"]),
                                                   vf.listc(r["mem_be"]), vf.listc(r["row_le"]), vf.listc(r["row_be"]))
    if c["k"] == "dtype":
        return "PortDtype %s %s" % (vf.zc(c["mask"]), vf.resc(r))
    is_array = c["form"] not in ("list", "ports_list")
    out = "(Raise %s)" % r["exc"] if "exc" in r else "(Ok [%s])" % "; ".join(vf.listc(row) for row in r["ok"]["rows"])
    return "FromPort %s %s %s %s %s %s %s %s %s" % (
        vf.boolc(is_array), vf.zc(c["w"]), vf.optc(c["mask"]), vf.boolc(c["big"]), vf.listc(c["values"]),
        vf.optc(c.get("start")), vf.optc(c.get("count")), out, vf.boolc("ok" in r and r["ok"]["signals_ok"]))


def _mask_class(m, w):
    if m is None:
        return "none"
    if m < 0:
        return "neg"
    if m >> w:
        return "wide"
    if m == 0:
        return "zero"
    if m == (1 << w) - 1:
        return "full"
    return "bit" if m & (m - 1) == 0 else "sparse"


def sig(c, r):
    if c["k"] == "short":
        return "short|%s|%d|%d|%s" % (c["form"], c["rows"], c["masks"], r["raised"]), True
    if c["k"] == "mem":
        v = c["v"]
        return "mem|%d|%s|%s" % (c["bytes"], c["big"], "0" if v == 0 else "pow2" if v & (v - 1) == 0 else "hi" if v >> (8 * c["bytes"] - 1) else "mid"), True
    if c["k"] == "dtype":
        return "dtype|%d|%s" % (min(c["mask"].bit_length(), 40) if c["mask"] >= 0 else -1, r.get("exc", "ok")), True
    win = ("s" if "start" in c else "") + ("c" if "count" in c else "")
    return "%s|%d|%s|%s|%s|%s|n%d|%s" % (c["form"], c["w"], _mask_class(c["mask"], c["w"]), c["big"], c.get("dtype"), win,
                                        min(len(c["values"]), 3), r.get("exc", "ok")), True


def finding_key(c, r):
    return sig(c, r)[0]


def case_size(c):
    return len(str(c))


def _mask(rng, w):
    m = rng.random()
    full = (1 << w) - 1
    if m < 0.12:
        return full
    if m < 0.2:
        return 0
    if m < 0.3:
        return 1 << rng.randrange(w)
    if m < 0.36:
        return None
    if m < 0.46:  # wider than the port
        return rng.choice([1 << w, (1 << w) | rng.randrange(1 << w), full + 2, 1 << (w + rng.randrange(1, 8))])
    if m < 0.5:
        return -rng.randrange(1, 300)
    return rng.randrange(1 << w)


def gen_cases(rng, tier):
    big_tier = tier != "quick"
    cases = []
    for m in [0, 1, 255, 256, 65535, 65536, (1 << 32) - 1, 1 << 32, (1 << 40), 0xDEADBEEF, -1, -256, 0x100, 0xF0]:
        cases.append({"k": "dtype", "mask": m})
    # from_ports with fewer masks than ports (must be refused) and with exactly as many (one waveform per port)
    for form in ("array", "list"):
        for rows, masks in ((2, 1), (3, 1), (3, 2), (2, 0), (2, 2), (1, 1), (3, 3)):
            cases.append({"k": "short", "form": form, "rows": rows, "masks": masks})
    # memory images: the bytes NumPy holds for one value in either byte order, and the row the pipeline makes of them
    for _ in range(300 if not big_tier else 5000):
        kb = rng.choice([1, 2, 4])
        w = 8 * kb
        v = rng.choice([0, (1 << w) - 1, 1 << rng.randrange(w), rng.randrange(1 << w), rng.randrange(1 << w)])
        cases.append({"k": "mem", "bytes": kb, "big": rng.random() < 0.5, "v": v})
    forms = ["list", "native", "swapped", "strided", "ports_c", "ports_f", "ports_list"]
    for _ in range(2500 if not big_tier else 30000):
        w = rng.choice([8, 16, 32])
        n = rng.choice([0, 1, 1, 2, 3, 5])
        vals = [rng.choice([0, (1 << w) - 1, 1 << rng.randrange(w), rng.randrange(1 << w)]) for _ in range(n)]
        form = rng.choice(forms)
        mask = _mask(rng, w)
        if form in ("list", "ports_list") and mask is not None and mask >= 0:
            # for sequences the width is derived from the mask: make the declared width consistent
            w = 8 if mask < 256 else 16 if mask < 65536 else 32
            if rng.random() < 0.9:
                vals = [v % (1 << w) for v in vals]
        c = {"k": "port", "form": form, "w": w, "values": vals, "mask": mask, "big": rng.random() < 0.5,
             "dtype": rng.choice([None, "bool", "int8", "uint8"]), "row": rng.randrange(2)}
        if mask is not None and rng.random() < 0.3:
            c["mask_type"] = rng.choice(["int8", "int16", "int32", "int64", "uint8", "uint16", "uint32", "index"])
        m = rng.random()
        if m < 0.3:
            c["start"] = rng.choice([0, 1, n, n + 1, -1])
        if 0.2 < m < 0.5:
            c["count"] = rng.choice([0, 1, n, n + 1, -1])
        cases.append(c)
    if big_tier:
        for v in range(256):
            for mask in range(256):
                for big in (True, False):
                    cases.append({"k": "port", "form": "native", "w": 8, "values": [v], "mask": mask, "big": big, "dtype": None})
    return cases


def search_cases(rng, literals, tier):
    cases = gen_cases(rng, "quick")
    # every single-bit and two-bit mask of every width, the masks next to the width, harvested literals
    for w in (8, 16, 32):
        ms = [1 << i for i in range(w + 2)] + [(1 << i) | (1 << j) for i in range(w + 1) for j in range(i)] + [v for v in literals if 0 <= v < (1 << 34)]
        for m in ms:
            for big in (True, False):
                cases.append({"k": "port", "form": "native", "w": w, "values": [(1 << w) - 1, 0, m % (1 << w)], "mask": m, "big": big, "dtype": None})
    return cases


def distribution(pairs):
    d = {}
    for c, r in pairs:
        key = c.get("form", c["k"]) + ":" + (r.get("exc", "ok") if isinstance(r, dict) else "ok")
        d[key] = d.get(key, 0) + 1
    return d
