"""C02 — NI-BTF 128-bit values round-trip bit-exactly through every representation."""
from __future__ import annotations

import copy
import pickle

import vf
from props.common_bt import MAX128, MIN128, T64, around, battery, edge_class, frac_class, rand128, sign_class

ID = "C02"
CASE_TYPE = "c02case"
SPEC_REQ = "Corr.C02Spec"
MODEL_REQ = "Corr.C02Model"
SPEC_FN = "c02_spec_ok"
MODEL_FN = "c02_model_ok"
PROPS_FILE = "Props/C02.v"
USES_GEN = ["_timedelta.py", "_datetime.py", "_time_value_tuple.py", "BintimeGen"]
RULE = ("cases = entry path (from_ticks/from_tuple/to_tuple/from_offset/array bytes/array element paths/pickle "
        "protocols 0-5 + deepcopy) x class (TimeDelta/DateTime) x value from the 2^k, 2^k±1 (k<=129) battery, "
        "int64/uint64/int128 edges, negative seconds with non-zero fraction, fractions >= 2^63, random 128-bit "
        "values; distinct = (path, class, sign, fraction class 0|<2^63|>=2^63, distance class to the ±2^127 edge, "
        "outcome class); trivial = nothing (every case exercises a conversion)")
TRUSTED = [
    "translator /verif/translator/py2coq.py (regenerates Gen/BintimeGen.v from _timedelta.py, _datetime.py, _time_value_tuple.py on every run)",
    "correspondence harness props/c02.py + vf.py; NumPy structured-dtype storage (uint64/int64 little endian) and pickle are modelled, compared byte-for-byte per run",
]
ASSUMPTIONS = ["CPython evaluates the translated integer subset as Common/Py.v says (unbounded ints, floor // and %)",
               "NumPy stores the CVI record as uint64 lsb @0, int64 msb @8 little endian (checked by tobytes() on every generated array)"]
PARTIAL = ["NumPy field storage and pickle's integer encoding are assumed, not proved; covered by the byte/tick comparison of the correspondence"]
SHOW_FNS = []


def _cls(is_dt):
    import nitypes.bintime as bt
    return bt.DateTime if is_dt else bt.TimeDelta


def _arr(is_dt):
    import nitypes.bintime as bt
    return bt.DateTimeArray if is_dt else bt.TimeDeltaArray


def run_impl(case):
    import nitypes.bintime as bt
    k = case["k"]
    X = _cls(case.get("dt", False))
    if k == "from_ticks":
        return vf.try_impl(lambda: X.from_ticks(case["t"]).ticks)
    if k == "huge":
        v = (-1 if case["neg"] else 1) * (10**4400 + 12345)
        what = case["what"]
        return vf.try_impl(lambda: (X.from_ticks(v) if what == "from_ticks" else
                                    X.from_tuple(bt.TimeValueTuple(v, 0)) if what == "tuple_w" else
                                    X.from_tuple(bt.TimeValueTuple(0, v)) if what == "tuple_f" else
                                    bt.TimeDelta(v) if what == "ctor" else
                                    bt.DateTime.from_offset(bt.TimeDelta.from_ticks(v))).ticks)
    if k == "from_tuple":
        def f():
            import numpy as np
            w, fr = case["w"], case["f"]
            # the fields as NumPy integers (as read from a structured array) when they fit the NumPy type
            nt = case.get("np")
            if nt in ("w", "both") and -(1 << 63) <= w < (1 << 63):
                w = np.int64(w)
            if nt in ("f", "both") and 0 <= fr < (1 << 64):
                fr = np.uint64(fr)
            if nt == "w32" and -(1 << 31) <= w < (1 << 31):
                w = np.int32(w)
            if case.get("ctor") == "dec9":
                # TimeDelta(Decimal("<w-1>.99999...")): the fraction is nearer to a whole second than to the largest
                # uint64 fraction, so it carries: the same value as from_tuple((w, 0)), OverflowError included
                import decimal
                body = "%d.%s" % (abs(w) - 1, "9" * case.get("nines", 25))
                v = bt.TimeDelta(decimal.Decimal(body if w > 0 else "-" + body))
            elif case.get("ctor"):
                # TimeDelta(<integer seconds>): the same value as from_tuple((seconds, 0))
                v = bt.TimeDelta(w)
            else:
                v = X.from_tuple(bt.TimeValueTuple(w, fr))
            if type(v.ticks) is not int:
                raise RuntimeError("ticks is a %s" % type(v.ticks).__name__)
            return v.ticks
        return vf.try_impl(f)
    if k == "to_tuple":
        tv = X.from_ticks(case["t"]).to_tuple()
        assert isinstance(tv, bt.TimeValueTuple)
        return {"w": tv.whole_seconds, "f": tv.fractional_seconds}
    if k == "from_offset":
        return vf.try_impl(lambda: bt.DateTime.from_offset(bt.TimeDelta.from_ticks(case["t"])).ticks)
    if k == "array_bytes":
        A = _arr(case["dt"])
        a = A([X.from_ticks(t) for t in case["l"]])
        assert a._array.dtype.itemsize == 16
        return {"bytes": list(a._array.tobytes())}
    if k == "array_items":
        A = _arr(case["dt"])
        xs = [X.from_ticks(t) for t in case["l"]]
        path = case["path"]
        if path == "iter":
            a = A(xs); out = [x.ticks for x in a]
        elif path == "index":
            a = A(xs); out = [a[i].ticks for i in range(len(a))]
        elif path == "negindex":
            a = A(xs); out = [a[i - len(a)].ticks for i in range(len(a))]
        elif path == "slice":
            a = A(xs); out = [x.ticks for x in a[:]]
        elif path == "setitem":
            a = A([X.from_ticks(0) for _ in xs])
            for i, x in enumerate(xs):
                a[i] = x
            out = [x.ticks for x in a]
        elif path == "setslice":
            a = A([X.from_ticks(0) for _ in xs]); a[:] = xs; out = [x.ticks for x in a]
        elif path == "setslice_self":
            # the array assigned into a slice of itself: the values read are those it held before the assignment
            a = A(xs)
            i = case.get("i", 1) % (len(xs) + 1)
            j = min(len(xs), i + case.get("sw", 1))
            want = xs[:i] + xs + xs[j:]
            a[i:j] = a
            got = [x.ticks for x in a]
            out = [x.ticks for x in xs] if got == [x.ticks for x in want] else got + [12345]
        elif path == "ctor_oneshot":
            # one-shot iterables: a generator into the constructor, an iterator into extend, a map into +=
            a = A(x for x in xs)
            b = A(); b.extend(iter(xs))
            c3 = A(); c3 += map(lambda x: x, xs)
            got = [[x.ticks for x in y] for y in (a, b, c3)]
            out = got[0] if got[0] == got[1] == got[2] else got[0] + [12345]
        elif path == "slicefuzz":
            # slice assignments and deletions of every shape (reversed and empty ranges, negative and large steps, wrong
            # lengths) done to the array and to a plain list of the same values: same outcome, same records afterwards
            import random as _random
            r2 = _random.Random(case.get("fz", 0))
            a, ref = A(xs), list(xs)
            ok = True
            for _ in range(4):
                n = len(ref)
                lo, hi = r2.choice([None, 0, 1, n, n + 2, -1, -n - 1, r2.randrange(-n - 1, n + 2)]), r2.choice([None, 0, 1, n, n + 2, -1, -n - 1, r2.randrange(-n - 1, n + 2)])
                st = r2.choice([None, None, 1, 1, -1, 2, -2, 3])
                sl = slice(lo, hi, st)
                m = r2.choice([0, 1, 2, len(range(*sl.indices(n))), len(range(*sl.indices(n)))])
                new = [X.from_ticks(7000 + r2.randrange(100)) for _ in range(m)]
                outcome = []
                for tgt in (a, ref):
                    try:
                        if r2.random() < 0 or case.get("fz", 0) % 5 == 4:
                            del tgt[sl]
                        else:
                            tgt[sl] = list(new)
                        outcome.append("ok")
                    except (ValueError, TypeError, IndexError) as e:
                        outcome.append(type(e).__name__)
                ok = ok and outcome[0] == outcome[1] and [x.ticks for x in a] == [x.ticks for x in ref]
            out = [x.ticks for x in xs] if ok else [x.ticks for x in a] + [12345]
        elif path == "insert":
            a = A()
            for i, x in enumerate(xs):
                a.insert(i, x)
            out = [x.ticks for x in a]
        elif path == "extend":
            a = A(); a.extend(xs); out = [x.ticks for x in a]
        elif path == "append":
            a = A()
            for x in xs:
                a.append(x)
            out = [x.ticks for x in a]
        elif path == "pickle":
            a = pickle.loads(pickle.dumps(A(xs), case.get("proto", 2))); out = [x.ticks for x in a]
        elif path == "deepcopy":
            a = copy.deepcopy(A(xs)); out = [x.ticks for x in a]
        elif path in ("pickle_write", "deepcopy_write", "copy_write"):
            # a copy is an array like any other: every element can be overwritten in place and read back
            src = A([X.from_ticks(0) for _ in xs])
            a = (pickle.loads(pickle.dumps(src, case.get("proto", 2))) if path == "pickle_write" else
                 copy.deepcopy(src) if path == "deepcopy_write" else copy.copy(src))
            for i, x in enumerate(xs):
                a[i] = x
            if len(xs) > 1:
                a[0:2] = [xs[0], xs[1]]
            a.reverse(); a.reverse()
            out = [x.ticks for x in a]
        elif path in ("ctor_from_array_write_copy", "ctor_from_array_write_orig", "ctor_from_iter_write"):
            # a value held by an array survives later writes to ANOTHER array built from it
            a = A(xs)
            b = A(a) if path != "ctor_from_iter_write" else A(iter(a))
            victim, keeper = (b, a) if path != "ctor_from_array_write_orig" else (a, b)
            for i in range(len(victim)):
                victim[i] = X.from_ticks(1 - (xs[i].ticks & 1))
            if len(victim) > 1:
                victim[0:2] = [X.from_ticks(7), X.from_ticks(-7)]
            out = [x.ticks for x in keeper]
        else:
            raise AssertionError(path)
        return {"items": out}
    if k == "pickle_int":
        # the one int opcode of the object's pickle stream, with its argument bytes
        import pickletools
        data = pickle.dumps(X.from_ticks(case["t"]), case["proto"])
        ops = list(pickletools.genops(data))
        found = [(i, op.name) for i, (op, arg, pos) in enumerate(ops) if op.name in ("INT", "LONG", "BININT", "BININT1", "BININT2", "LONG1", "LONG4")]
        if len(found) != 1:
            raise RuntimeError("expected one int opcode, found %r" % (found,))
        i = found[0][0]
        return {"bytes": list(data[ops[i][2]:ops[i + 1][2]])}
    if k == "pickle":
        x = X.from_ticks(case["t"])
        if case["proto"] == "deepcopy":
            y = copy.deepcopy(x)
        elif case["proto"] == "copy":
            y = copy.copy(x)
        else:
            y = pickle.loads(pickle.dumps(x, case["proto"]))
        assert type(y) is X
        return {"ok": y.ticks}
    raise AssertionError(k)


def to_coq(c, r):
    k = c["k"]
    dt = vf.boolc(c.get("dt", False))
    if k == "huge":
        v = "(- (10 ^ 4400 + 12345))" if c["neg"] else "(10 ^ 4400 + 12345)"
        what = c["what"]
        if what == "from_ticks":
            return "FromTicks %s %s %s" % (dt, v, vf.resc(r))
        if what == "from_offset":
            return "FromOffset %s %s" % (v, vf.resc(r))
        return "FromTuple %s %s %s %s" % (dt, "0" if what == "tuple_f" else v, v if what == "tuple_f" else "0", vf.resc(r))
    if k == "from_ticks":
        return "FromTicks %s %s %s" % (dt, vf.zc(c["t"]), vf.resc(r))
    if k == "from_tuple":
        return "FromTuple %s %s %s %s" % (dt, vf.zc(c["w"]), vf.zc(c["f"]), vf.resc(r))
    if k == "to_tuple":
        return "ToTuple %s %s %s %s" % (dt, vf.zc(c["t"]), vf.zc(r["w"]), vf.zc(r["f"]))
    if k == "from_offset":
        return "FromOffset %s %s" % (vf.zc(c["t"]), vf.resc(r))
    if k == "array_bytes":
        return "ArrayBytes %s %s %s" % (dt, vf.listc(c["l"]), vf.listc(r["bytes"]))
    if k == "array_items":
        return "ArrayItems %s %s %s" % (dt, vf.listc(c["l"]), vf.listc(r["items"]))
    if k == "pickle_int":
        return "PickleInt %s %s" % (vf.zc(c["t"]), vf.listc(r["bytes"]))
    if k == "pickle":
        return "Pickle %s %s %s" % (dt, vf.zc(c["t"]), vf.resc(r))
    raise AssertionError(k)


def _main_value(c):
    if "t" in c:
        return c["t"]
    if "w" in c:
        return c["w"] * T64 + c["f"]
    return c["l"][0] if c["l"] else 0


def sig(c, r):
    if c["k"] == "huge":
        return "huge|%s|%s|%s|%s" % (c["what"], c["dt"], c["neg"], "exc" if "exc" in r else "ok"), True
    t = _main_value(c)
    outcome = "exc" if isinstance(r, dict) and "exc" in r else "ok"
    extra = c.get("path", c.get("proto", ""))
    if c["k"] == "from_tuple":
        extra = "w%s-f%s" % ("in" if -(1 << 63) <= c["w"] < (1 << 63) else "out", "in" if 0 <= c["f"] < T64 else "out")
    return "%s|%s|%s|%s|%s|%s|%s" % (c["k"], c.get("dt", False), extra, sign_class(t), frac_class(t), edge_class(t), outcome), True


def finding_key(c, r):
    return "%s dt=%s %s" % (c["k"], c.get("dt", False), sig(c, r)[0])


def case_size(c):
    return len(str(c))


def _cases_for_values(vals, rng, heavy):
    cases = []
    for t in vals:
        for dt in (False, True):
            cases.append({"k": "from_ticks", "dt": dt, "t": t})
            if MIN128 <= t <= MAX128:
                cases.append({"k": "to_tuple", "dt": dt, "t": t})
        cases.append({"k": "from_offset", "t": t})
        w, f = t >> 64, t & (T64 - 1)
        cases.append({"k": "from_tuple", "dt": rng.random() < 0.5, "w": w, "f": f, "np": rng.choice([None, None, "w", "f", "both", "w32"])})
        if heavy and MIN128 <= t <= MAX128:
            cases.append({"k": "pickle", "dt": rng.random() < 0.5, "t": t,
                          "proto": rng.choice([0, 1, 2, 3, 4, 5, "deepcopy", "copy"])})
            if rng.random() < 0.5:
                cases.append({"k": "pickle_int", "dt": rng.random() < 0.5, "t": t, "proto": rng.choice([2, 3, 4, 5])})
    return cases


def gen_cases(rng, tier):
    n_rand = 600 if tier == "quick" else 20000
    vals = battery() + [rand128(rng, in_range=False) for _ in range(n_rand)]
    cases = _cases_for_values(vals, rng, True)
    # malformed tuples: parts outside int64 / uint64
    for _ in range(150 if tier == "quick" else 3000):
        w = rng.choice([-(1 << 63) - 1, -(1 << 63), (1 << 63) - 1, 1 << 63, rng.randrange(-(1 << 65), 1 << 65)])
        f = rng.choice([-1, 0, T64 - 1, T64, rng.randrange(-(1 << 10), 1 << 66)])
        cases.append({"k": "from_tuple", "dt": rng.random() < 0.5, "w": w, "f": f})
    # the integer-seconds constructor, seconds as Python int and as NumPy scalars
    for _ in range(120 if tier == "quick" else 2000):
        w = rng.choice([0, 1, -1, 5, 86400, (1 << 63) - 1, -(1 << 63), 1 << 63, -(1 << 63) - 1, rng.randrange(-(1 << 64), 1 << 64)])
        cases.append({"k": "from_tuple", "dt": False, "w": w, "f": 0, "ctor": True, "np": rng.choice([None, "w", "w", "w32"])})
    # arrays
    inr = battery(False)
    paths = ["iter", "index", "negindex", "slice", "setitem", "setslice", "setslice_self", "setslice_self", "slicefuzz", "slicefuzz", "slicefuzz", "ctor_oneshot", "insert", "extend", "append", "pickle", "deepcopy", "pickle_write", "deepcopy_write", "copy_write",
             "ctor_from_array_write_copy", "ctor_from_array_write_orig", "ctor_from_iter_write"]
    for _ in range(250 if tier == "quick" else 6000):
        n = rng.choice([0, 1, 1, 2, 3, 5, 8])
        l = [rng.choice(inr) if rng.random() < 0.5 else rand128(rng) for _ in range(n)]
        dt = rng.random() < 0.5
        cases.append({"k": "array_bytes", "dt": dt, "l": l})
        cases.append({"k": "array_items", "dt": dt, "l": l, "path": rng.choice(paths), "proto": rng.choice([2, 3, 4, 5]),
                      "i": rng.randrange(0, 9), "sw": rng.choice([0, 1, 1, 2]), "fz": rng.randrange(10**6)})
    # integers too long for Python to print (more than 4300 digits): out of range like any other, OverflowError.
    # The value is built inside run_impl and written as a Coq expression, so that no decimal string of it is ever made here.
    for neg in (False, True):
        for dt in (False, True):
            for what in ("from_ticks", "tuple_w", "tuple_f"):
                cases.append({"k": "huge", "what": what, "dt": dt, "neg": neg})
        cases.append({"k": "huge", "what": "ctor", "dt": False, "neg": neg})
        cases.append({"k": "huge", "what": "from_offset", "dt": True, "neg": neg})
    # Decimal seconds whose fraction rounds up to the next whole second
    for _ in range(80 if tier == "quick" else 1500):
        w = rng.choice([1, -1, 2, -2, 86400, (1 << 63) - 1, 1 << 63, -(1 << 63), -(1 << 63) - 1, (1 << 63) - 2,
                        rng.randrange(1, 1 << 63), -rng.randrange(1, 1 << 63)])
        cases.append({"k": "from_tuple", "dt": False, "w": w, "f": 0, "ctor": "dec9", "nines": rng.choice([20, 21, 25, 30, 40])})
    return cases


def search_cases(rng, literals, tier):
    """failing-input search: harvested literals of the regenerated sources ±2, the battery, random."""
    vals = around([v for v in literals if abs(v) < (1 << 140)]) + battery() + [rand128(rng, False) for _ in range(3000)]
    # combinations of harvested literals as (whole, fraction) parts
    small = [v for v in literals if 0 <= v < T64][:40]
    for w in small:
        for f in small:
            vals.append(w * T64 + f)
    return _cases_for_values(sorted(set(vals)), rng, True) + gen_cases(rng, "quick")


def distribution(pairs):
    d = {}
    for c, r in pairs:
        key = c["k"] + ("/exc" if isinstance(r, dict) and "exc" in r else "")
        d[key] = d.get(key, 0) + 1
    return d
