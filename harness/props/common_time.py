"""Shared helpers: members of the three time families as exact integers."""
from __future__ import annotations

import datetime as dt

T64 = 1 << 64
UNIT = {"Dt": 10**6, "Ht": 10**24, "Bt": T64}
UTC = dt.timezone.utc
TD_LO_US = -999999999 * 86400 * 10**6
TD_HI_US = 999999999 * 86400 * 10**6 + 86400 * 10**6 - 1
DTM_LO_US = -60052752000 * 10**6
DTM_HI_US = 255485145599 * 10**6 + 999999
MAX128 = (1 << 127) - 1
MIN128 = -(1 << 127)


def ranges(fam):
    """(lo_td, hi_td, lo_dtm, hi_dtm) in the family's unit"""
    if fam == "Bt":
        return (MIN128, MAX128, MIN128, MAX128)
    k = UNIT[fam] // 10**6
    return (TD_LO_US * k, TD_HI_US * k + k - 1, DTM_LO_US * k, DTM_HI_US * k + k - 1)


def ht_total_ys(x):
    return (((x.days * 86400 + x.seconds) * 10**6 + x.microseconds) * 10**9 + x.femtoseconds) * 10**9 + x.yoctoseconds


def mk_td(fam, v):
    import hightime as ht
    import nitypes.bintime as bt
    if fam == "Dt":
        return dt.timedelta(microseconds=v)
    if fam == "Ht":
        return ht.timedelta(yoctoseconds=v)
    return bt.TimeDelta.from_ticks(v)


def mk_dtm(fam, v):
    import hightime as ht
    import nitypes.bintime as bt
    if fam == "Dt":
        return dt.datetime(1904, 1, 1, tzinfo=UTC) + dt.timedelta(microseconds=v)
    if fam == "Ht":
        return ht.datetime(1904, 1, 1, tzinfo=UTC) + ht.timedelta(yoctoseconds=v)
    return bt.DateTime.from_ticks(v)


def read_td(x):
    import hightime as ht
    import nitypes.bintime as bt
    if isinstance(x, bt.TimeDelta):
        return x.ticks
    if isinstance(x, ht.timedelta):
        return ht_total_ys(x)
    return x // dt.timedelta(microseconds=1)


def read_dtm(x):
    import hightime as ht
    import nitypes.bintime as bt
    if isinstance(x, bt.DateTime):
        return x.ticks
    if isinstance(x, ht.datetime):
        return ht_total_ys(x - ht.datetime(1904, 1, 1, tzinfo=UTC))
    return (x - dt.datetime(1904, 1, 1, tzinfo=UTC)) // dt.timedelta(microseconds=1)


def fam_of(x):
    import hightime as ht
    import nitypes.bintime as bt
    if isinstance(x, (bt.TimeDelta, bt.DateTime)):
        return "Bt"
    if isinstance(x, (ht.timedelta, ht.datetime)):
        return "Ht"
    return "Dt"
