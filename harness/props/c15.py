"""C15 — digital signal names always reflect the NI_LineNames property."""
from __future__ import annotations

import copy
import pickle

import vf

ID = "C15"
CASE_TYPE = "c15case"
SPEC_REQ = "Corr.C15Spec"
MODEL_REQ = "Corr.C15Model"
EXTRA_REQ = "Model.Names"
SPEC_FN = "c15_spec_ok"
MODEL_FN = "c15_model_ok"
PROPS_FILE = "Props/C15.v"
USES_GEN = []
RULE = ("histories of 1-24 operations on a DigitalWaveform with 0-5 signals: name reads through the collection, "
        "through held signal objects and through unpickled/copied signals (which populate the cache), name writes "
        "(clean, with surrounding whitespace, with commas, empty), NI_LineNames set/update/delete/pop/clear directly "
        "and through a twin waveform sharing the dictionary, appends of waveforms that do / do not carry NI_LineNames, "
        "load_data / sample_count / other-property writes, lookups by present, absent, padded and beyond-signal-count "
        "names, pickle/deepcopy/copy of the waveform and of single signals; name lists shorter, equal and longer than "
        "the signal count; plus str.split/strip/join agreement of the string model; distinct = (first three "
        "(op, variant, outcome) + cache-filled flag); trivial = a single read on a waveform without the property")
TRUSTED = ["hand model Model/Names.v tied by the correspondence; the string model (split on ',', strip of the "
           "whitespace code points 9-13, 28-32, 133, 160, join with ', ') is compared with CPython on every run over "
           "the alphabet the harness uses; other Unicode whitespace is outside the model"]
ASSUMPTIONS = ["signal count is fixed for the life of a waveform (load_data/append reject a different width: C09/C10)"]
PARTIAL = ["signals[i] for i < -signal_count is outside the property and is not exercised"]

LN = "NI_LineNames"
ALPHA = ["a", "b", "c", "x", "p0", "clk", "strobe", "é", "A B"]
WS = [" ", "  ", "\t", "\n", "\xa0", " \t", "\x1f", "\x85", "\u2003", "\u3000", "\r\n", "\u2028"]


def _mk_name(rng):
    m = rng.random()
    base = rng.choice(ALPHA)
    if m < 0.55:
        return base
    if m < 0.65:
        return ""
    if m < 0.8:
        return rng.choice(WS) * rng.randrange(0, 2) + base + rng.choice(WS)
    if m < 0.9:
        return rng.choice(WS) + base
    if m < 0.97:
        return base + "," + rng.choice(ALPHA + ["", " "])
    return rng.choice(WS)


def _mk_prop(rng, n):
    k = rng.choice([0, 1, max(n - 1, 0), n, n, n + 1, n + 2])
    sep = rng.choice([",", ", ", ", ", " , ", ",\t"])
    names = [(_mk_name(rng) if rng.random() < 0.3 else rng.choice(ALPHA)).replace(",", "") for _ in range(k)]
    if rng.random() < 0.2 and k >= 2:
        names[rng.randrange(k)] = names[0]  # duplicate names
    return sep.join(names)


class _Impl:
    def __init__(self, n, prop):
        from nitypes.waveform import DigitalWaveform
        self.DW = DigitalWaveform
        props = {} if prop is None else {LN: prop}
        self.wf = DigitalWaveform(2, n, extended_properties=props)
        self.init_dict = props  # the caller's own mapping: the waveform holds a copy
        self.sibling = None
        self.n = n
        self.twin = None
        self.handles = {}

    def prop(self):
        v = self.wf.extended_properties._properties.get(LN)
        return v if (v is None or isinstance(v, str)) else repr(v)

    def sig(self, i, via):
        j = i % self.n if (self.n and -self.n <= i < self.n) else None
        if via == "handle" and j is not None and j in self.handles:
            return self.handles[j]
        s = self.wf.signals[i]
        if j is not None and via == "keep":
            self.handles[j] = s
        return s

    def apply(self, op):
        k = op["op"]
        wf = self.wf
        if k == "read":
            name = self.sig(op["i"], op["via"]).name
            if not isinstance(name, str):
                raise RuntimeError("name is not a str: %r" % (name,))
            return ["name", name]
        if k == "writebad":
            self.sig(op["i"], op["via"]).name = {"int": 5, "none": None, "bytes": b"x", "list": ["a"]}[op["v"]]
            return ["none"]
        if k == "write":
            tgt = self
            if op["via"] == "twin" and self.twin is not None:
                self.twin.signals[op["i"]].name = op["v"]
            else:
                self.sig(op["i"], op["via"]).name = op["v"]
            return ["none"]
        if k == "setprop":
            how = op["how"]
            d = (self.twin if (how == "twin" and self.twin is not None) else wf).extended_properties
            if how == "update":
                d.update({LN: op["v"]})
            elif how == "setdefault_del":
                if LN in d:
                    del d[LN]
                d.setdefault(LN, op["v"])
            else:
                d[LN] = op["v"]
            return ["none"]
        if k == "delprop":
            how = op["how"]
            d = (self.twin if (how == "twin" and self.twin is not None) else wf).extended_properties
            if how == "pop":
                d.pop(LN)
            elif how == "clear":
                if LN not in d:
                    raise KeyError(LN)
                d.clear()
            else:
                del d[LN]
            return ["none"]
        if k == "merge":
            props = {} if op["v"] is None else {LN: op["v"]}
            if op.get("extra"):
                props["NI_ChannelName"] = "ch"
            other = self.DW(op["samples"], self.n, extended_properties=props)
            if op["how"] == "list":
                wf.append([other])
            else:
                wf.append(other)
            return ["none"]
        if k == "other":
            import numpy as np
            kind = op["kind"]
            if kind == "load":
                wf.load_data(np.zeros((op["m"], self.n), dtype=np.uint8))
            elif kind == "count":
                wf.sample_count = min(wf.sample_count, op["m"])
            elif kind == "chan":
                wf.extended_properties["NI_ChannelName"] = "c%d" % op["m"]
            elif kind == "delchan":
                wf.extended_properties.pop("NI_ChannelName", None)
            elif kind == "cap":
                wf.capacity = wf.capacity + op["m"]
            elif kind == "data":
                wf.data
            elif kind == "repr":
                repr(wf)
            elif kind == "eq":
                wf == pickle.loads(pickle.dumps(wf))
            elif kind == "signals":
                wf.signals
                len(wf.signals)
            elif kind in ("sibling_name", "sibling_prop", "sibling_del"):
                # a second waveform built from the SAME plain mapping the caller passed to the first one: each holds
                # its own copy, so nothing done to the sibling reaches this waveform
                if self.sibling is None:
                    self.sibling = self.DW(1, self.n, extended_properties=self.init_dict)
                if kind == "sibling_name" and self.n:
                    self.sibling.signals[op["m"] % self.n].name = "sib%d" % op["m"]
                elif kind == "sibling_prop":
                    self.sibling.extended_properties[LN] = "p%d, q" % op["m"]
                else:
                    self.sibling.extended_properties.pop(LN, None)
            elif kind in ("caller_set", "caller_del"):
                # the caller goes on using the mapping it passed in
                if kind == "caller_set":
                    self.init_dict[LN] = "mine%d" % op["m"]
                else:
                    self.init_dict.pop(LN, None)
            return ["none"]
        if k == "lookup":
            s = wf.signals[op["name"]]
            if s.owner is not wf:
                raise RuntimeError("foreign signal")
            return ["index", s.signal_index]
        if k == "pickle":
            how = op["how"]
            if how == "pickle":
                self.wf = pickle.loads(pickle.dumps(wf, op.get("proto", 2)))
                self.handles, self.twin = {}, None
            elif how == "deepcopy":
                self.wf = copy.deepcopy(wf)
                self.handles, self.twin = {}, None
            elif how == "copy":
                new = copy.copy(wf)
                shared = new.extended_properties is wf.extended_properties
                self.twin = wf if shared else None
                self.wf = new
                self.handles = {}
            elif how in ("copy_drop", "handover"):
                # an earlier sharer of the dictionary goes away: its dead weak callback stays registered
                # BEFORE the survivor's callback
                import gc
                if how == "copy_drop":
                    new = copy.copy(wf)
                else:
                    new = self.DW(data=wf.data.copy(), extended_properties=wf.extended_properties, copy_extended_properties=False)
                self.wf = new
                self.twin = None
                self.handles = {}
                del wf
                gc.collect()
            elif how == "twin_drop":
                import gc
                self.twin = None
                gc.collect()
            elif how == "twin":
                # a second waveform deliberately built over the same dictionary
                self.twin = self.DW(1, self.n, extended_properties=wf.extended_properties, copy_extended_properties=False)
            elif how in ("sig_pickle", "sig_deepcopy", "sig_copy"):
                i = op["i"] % self.n
                src = wf.signals[i] if op.get("fresh", True) else self.sig(i, "handle")
                s = {"sig_pickle": lambda x: pickle.loads(pickle.dumps(x)), "sig_deepcopy": copy.deepcopy,
                     "sig_copy": copy.copy}[how](src)
                if s.signal_index != i:
                    raise RuntimeError("signal index changed")
                if how == "sig_copy":
                    if s.owner is not wf:
                        raise RuntimeError("copy changed owner")
                else:
                    self.wf = s.owner
                    self.twin = None
                self.handles = {i: s}
            return ["none"]
        raise AssertionError(k)


def run_impl(c):
    if c["k"] == "wsset":
        # every code point that str.strip() removes, over the whole code space
        return {"out": [cp for cp in range(0x110000) if (chr(cp) + "a" + chr(cp)).strip() == "a"]}
    if c["k"] == "parse":
        return {"out": [x.strip() for x in c["s"].split(",")]}
    if c["k"] == "join":
        return {"out": ", ".join(c["l"])}
    im = _Impl(c["n"], c["prop"])
    steps = []
    for op in c["ops"]:
        pre = im.prop()
        r = vf.try_impl(lambda: im.apply(op))
        post = im.prop()
        steps.append({"pre": pre, "res": r, "post": post, "filled": im.wf._line_names is not None})
    return {"steps": steps}


def _s(s):
    return "[" + "; ".join(str(ord(ch)) for ch in s) + "]"


def _os(s):
    return "None" if s is None else "(Some %s)" % _s(s)


def _opc(op, pre):
    k = op["op"]
    if k == "read":
        return "(NRead %s)" % vf.zc(op["i"])
    if k == "write":
        return "(NWrite %s %s)" % (vf.zc(op["i"]), _s(op["v"]))
    if k == "writebad":
        return "(NWriteBad %s)" % vf.zc(op["i"])
    if k == "setprop":
        return "(NSetProp %s)" % _s(op["v"])
    if k == "delprop":
        return "NDelProp"
    if k == "merge":
        return "(NMerge %s)" % _os(op["v"])
    if k == "other":
        return "NOther"
    if k == "lookup":
        return "(NLookup %s)" % _s(op["name"])
    if k == "pickle":
        return "NPickle" if op["how"] not in ("twin", "sig_copy", "twin_drop") else "NOther"
    raise AssertionError(k)


def _resc(r):
    if "exc" in r:
        return "(Raise %s)" % r["exc"]
    o = r["ok"]
    if o[0] == "none":
        return "(Ok NNone)"
    if o[0] == "name":
        return "(Ok (NName %s))" % _s(o[1])
    return "(Ok (NIndex %s))" % vf.zc(o[1])


def to_coq(c, r):
    if c["k"] == "wsset":
        return "NWsSet %s" % vf.listc(r["out"])
    if c["k"] == "parse":
        return "NParse %s [%s]" % (_s(c["s"]), "; ".join(_s(x) for x in r["out"]))
    if c["k"] == "join":
        return "NJoin [%s] %s" % ("; ".join(_s(x) for x in c["l"]), _s(r["out"]))
    obs = []
    for op, st in zip(c["ops"], r["steps"]):
        if op["op"] == "merge" and "exc" in st["res"]:
            # a rejected append (e.g. the buffer is borrowed and cannot grow) must leave the names alone
            op = {"op": "other", "kind": "rejected-append"}
        obs.append("{| no_pre := %s; no_op := %s; no_res := %s; no_post := %s |}"
                   % (_os(st["pre"]), _opc(op, st["pre"]), "(Ok NNone)" if op["op"] == "other" else _resc(st["res"]), _os(st["post"])))
    return "NHist %s [%s]" % (vf.natc(c["n"]), ";\n ".join(obs))


def _variant(op):
    return op.get("via") or op.get("how") or op.get("kind") or ""


def sig(c, r):
    if c["k"] in ("parse", "join", "wsset"):
        return c["k"] + "|" + str(min(len(r["out"]), 4)), True
    parts = []
    for op, st in list(zip(c["ops"], r["steps"]))[:3]:
        parts.append("%s.%s:%s:%s" % (op["op"], _variant(op), st["res"].get("exc", "ok"), "F" if st["filled"] else "e"))
    triv = len(c["ops"]) == 1 and c["ops"][0]["op"] == "read" and c["prop"] is None
    return "n%d|%s" % (min(c["n"], 3), "/".join(parts)), not triv


def finding_key(c, r):
    if c["k"] != "hist":
        return c["k"]
    return "/".join("%s.%s" % (op["op"], _variant(op)) for op in c["ops"][:6])


def case_size(c):
    return len(c.get("ops", [])) * 100 + len(str(c))


def shrink(c):
    if c["k"] != "hist":
        return
    for i in range(len(c["ops"])):
        yield dict(c, ops=c["ops"][:i] + c["ops"][i + 1:])
    if c["prop"]:
        yield dict(c, prop=None)


def step_sigs(pairs):
    out = {}
    for c, r in pairs:
        if c["k"] != "hist":
            continue
        for op, st in zip(c["ops"], r["steps"]):
            k = "%s.%s:%s:%s" % (op["op"], _variant(op), st["res"].get("exc", "ok"), "F" if st["filled"] else "e")
            out[k] = out.get(k, 0) + 1
    return out


def _rand_op(rng, n, known):
    ri = lambda: rng.randrange(-n, n + 1) if n else rng.choice([0, 1])
    k = rng.choice(["read"] * 6 + ["write"] * 4 + ["writebad"] + ["setprop"] * 3 + ["delprop"] * 2 + ["merge"] * 3 + ["other"] * 3
                   + ["lookup"] * 3 + ["pickle"] * 3)
    if k == "read":
        return {"op": k, "i": ri(), "via": rng.choice(["coll", "coll", "keep", "handle", "handle"])}
    if k == "write":
        v = _mk_name(rng)
        known.append(v.strip())
        return {"op": k, "i": ri(), "v": v, "via": rng.choice(["coll", "coll", "keep", "handle", "twin"])}
    if k == "writebad":
        return {"op": k, "i": ri(), "v": rng.choice(["int", "none", "bytes", "list"]), "via": rng.choice(["coll", "keep", "handle"])}
    if k == "setprop":
        v = _mk_prop(rng, n)
        known.extend(x.strip() for x in v.split(","))
        return {"op": k, "v": v, "how": rng.choice(["setitem", "setitem", "update", "setdefault_del", "twin"])}
    if k == "delprop":
        return {"op": k, "how": rng.choice(["del", "del", "pop", "clear", "twin"])}
    if k == "merge":
        v = None if rng.random() < 0.25 else _mk_prop(rng, n)
        if v is not None:
            known.extend(x.strip() for x in v.split(","))
        return {"op": k, "v": v, "samples": rng.choice([0, 1, 3]), "how": rng.choice(["one", "one", "list"]),
                "extra": rng.random() < 0.3}
    if k == "other":
        return {"op": k, "kind": rng.choice(["load", "count", "chan", "delchan", "cap", "data", "repr", "eq", "signals", "sibling_name",
                                              "sibling_prop", "sibling_del", "caller_set", "caller_del"]),
                "m": rng.randrange(0, 4)}
    if k == "lookup":
        name = rng.choice(known) if (known and rng.random() < 0.75) else _mk_name(rng)
        return {"op": k, "name": name}
    how = rng.choice(["pickle", "pickle", "deepcopy", "copy", "twin", "sig_pickle", "sig_pickle", "sig_deepcopy", "sig_copy",
                      "copy_drop", "handover", "twin_drop"])
    op = {"op": k, "how": how}
    if how == "pickle":
        op["proto"] = rng.choice([2, 4, 5])
    if how.startswith("sig_"):
        if n == 0:
            return {"op": k, "how": "pickle", "proto": 2}
        op["i"] = rng.randrange(0, n)
        op["fresh"] = rng.random() < 0.7
    return op


def _scripted(rng):
    """order-of-operation patterns that random interleavings hit only rarely"""
    out = []
    for n in (1, 2, 3, 4):
        p = _mk_prop(rng, n)
        q = _mk_prop(rng, n)
        for reader in ("coll", "keep", "handle"):
            for first in ([], [{"op": "read", "i": 0, "via": reader}]):
                tail = [{"op": "read", "i": i, "via": reader} for i in range(n)]
                for mid in ([{"op": "setprop", "v": q, "how": "setitem"}],
                            [{"op": "delprop", "how": "del"}],
                            [{"op": "merge", "v": q, "samples": 1, "how": "one", "extra": False}],
                            [{"op": "write", "i": 0, "v": " pad ", "via": reader}],
                            [{"op": "write", "i": n - 1, "v": "u,v", "via": reader}],
                            [{"op": "write", "i": 0, "v": "w", "via": reader}]):
                    for start in (None, p):
                        out.append({"k": "hist", "n": n, "prop": start, "ops": first + mid + tail + [{"op": "lookup", "name": "w"}, {"op": "lookup", "name": "pad"}]})
                # an earlier sharer of the dictionary has died; the survivor has a filled cache; the property changes
                for how in ("copy_drop", "handover"):
                    for mid in ([{"op": "setprop", "v": q, "how": "setitem"}], [{"op": "delprop", "how": "del"}],
                                [{"op": "merge", "v": q, "samples": 1, "how": "one", "extra": False}],
                                [{"op": "write", "i": 0, "v": "w", "via": reader}]):
                        for start in (None, p):
                            if start is None and mid[0]["op"] == "delprop":
                                continue
                            out.append({"k": "hist", "n": n, "prop": start, "ops":
                                        [{"op": "pickle", "how": how}] + first + mid
                                        + [{"op": "read", "i": j, "via": reader} for j in range(n)] + [{"op": "lookup", "name": "w"}]})
                # a pickled signal read first, then the property changes, never touching owner.signals in between
                for how in ("sig_pickle", "sig_deepcopy"):
                    for mid in ([{"op": "setprop", "v": q, "how": "setitem"}], [{"op": "delprop", "how": "del"}],
                                [{"op": "merge", "v": q, "samples": 1, "how": "one", "extra": False}]):
                        for start in (None, p):
                            if start is None and mid[0]["op"] == "delprop":
                                continue
                            i = rng.randrange(n)
                            out.append({"k": "hist", "n": n, "prop": start, "ops":
                                        [{"op": "pickle", "how": how, "i": i, "fresh": True}, {"op": "read", "i": i, "via": "handle"}]
                                        + mid + [{"op": "read", "i": i, "via": "handle"}] + [{"op": "read", "i": j, "via": "coll"} for j in range(n)]})
    return out


def gen_cases(rng, tier):
    big = tier != "quick"
    cases = []
    # string model against CPython
    chars = list("ab ,\t\n\x0b\x0c\r\x1c\x1d\x1e\x1f\x85\xa0é0_-\u1680\u2000\u2009\u200a\u200b\u2028\u2029\u202f\u205f\u3000\ufeff") + [" ", ",", ","]
    cases.append({"k": "wsset"})
    for _ in range(400 if not big else 6000):
        s = "".join(rng.choice(chars) for _ in range(rng.choice([0, 1, 2, 3, 5, 8, 13])))
        cases.append({"k": "parse", "s": s})
    for _ in range(150 if not big else 2000):
        cases.append({"k": "join", "l": ["".join(rng.choice(chars) for _ in range(rng.randrange(0, 4))) for _ in range(rng.randrange(0, 5))]})
    cases.extend(_scripted(rng))
    for _ in range(1500 if not big else 30000):
        n = rng.choice([0, 1, 2, 2, 3, 3, 4, 5])
        prop = None if rng.random() < 0.3 else _mk_prop(rng, n)
        known = [x.strip() for x in (prop or "").split(",")] + ["zz"]
        ops = [_rand_op(rng, n, known) for _ in range(rng.randrange(1, 25))]
        cases.append({"k": "hist", "n": n, "prop": prop, "ops": ops})
    return cases


def gen_fault_cases(rng, tier):
    """for C07: histories dense in rejected calls (non-str names, bad indices, deleting an absent property)"""
    cases = []
    for _ in range(300 if tier == "quick" else 4000):
        n = rng.choice([1, 2, 3, 4])
        prop = None if rng.random() < 0.3 else _mk_prop(rng, n)
        known = ["zz"]
        ops = []
        for _ in range(rng.randrange(2, 14)):
            m = rng.random()
            if m < 0.3:
                ops.append({"op": "writebad", "i": rng.randrange(-n, n + 2), "v": rng.choice(["int", "none", "bytes", "list"]), "via": rng.choice(["coll", "keep", "handle"])})
            elif m < 0.4:
                ops.append({"op": "delprop", "how": rng.choice(["del", "pop"])})
            elif m < 0.5:
                ops.append({"op": "write", "i": n + rng.randrange(0, 3), "v": "x", "via": "coll"})
            elif m < 0.8:
                ops.append({"op": "read", "i": rng.randrange(0, n), "via": rng.choice(["coll", "keep", "handle"])})
            else:
                ops.append(_rand_op(rng, n, known))
        ops += [{"op": "read", "i": j, "via": "coll"} for j in range(n)]
        cases.append({"k": "hist", "n": n, "prop": prop, "ops": ops})
    return cases


def search_cases(rng, literals, tier):
    return gen_cases(rng, "quick")


def distribution(pairs):
    d = {}
    for c, r in pairs:
        if c["k"] != "hist":
            d[c["k"]] = d.get(c["k"], 0) + 1
            continue
        for op, st in zip(c["ops"], r["steps"]):
            key = "%s.%s:%s" % (op["op"], _variant(op), st["res"].get("exc", "ok"))
            d[key] = d.get(key, 0) + 1
    return d
