"""C13 — pickle and deepcopy reproduce every public value exactly and independently."""
from __future__ import annotations

import copy
import pickle
import random
import struct
import warnings

import vf
from props import wfm_common as W
from props import c17, c18
from props.common_time import UNIT, UTC, mk_dtm, mk_td

ID = "C13"
CASE_TYPE = "c13case"
SPEC_REQ = "Corr.C13Spec"
MODEL_REQ = "Corr.C13Model"
EXTRA_REQ = "Spec.TimingSpec Spec.ListSpec Spec.BufSpec Model.Timing Model.Waveform Model.Vector Model.Pickle"
SPEC_FN = "c13_spec_ok"
MODEL_FN = "c13_model_ok"
PROPS_FILE = "Props/C13.v"
USES_GEN = ["_timedelta.py", "_datetime.py", "BintimeGen"]
RULE = ("every public type x pickle protocols 2,3,4,5,default and copy.deepcopy: waveforms/spectra taken out of pools "
        "reached by online-generated histories (slack before/after the window, borrowed and strided buffers, grown "
        "irregular timing, merged properties, cached signal names) and built directly (three time families, "
        "None/zero/non-zero timing members, empty irregular lists, non-str property values, names shorter/longer than "
        "the signal count); Timing; scale modes; ExtendedPropertyDictionary; Scalar; Vector after histories (emptied, "
        "int vectors holding bools); XYData; DateTime/TimeDelta incl. range edges; time arrays after histories; single "
        "digital signals.  Per (value, method): observable snapshot of original vs copy, == both ways, type identity, "
        "the original re-observed after mutating the copy and a second copy re-observed after mutating the original, a "
        "same-state twin with different start_index/capacity compared with ==; distinct = (type, method, features)")
TRUSTED = ["hand model Model/Pickle.v (each __reduce__/_unpickle pair as constructor-on-reduced-arguments) tied by the "
           "correspondence; pickle / copy.deepcopy of builtins, datetime, hightime and ndarray are outside /repo and assumed exact",
           "the observation functions of the harness (harness/props/c13.py: *_obs) define 'observable state'"]
ASSUMPTIONS = ["independence of the copy's SAMPLE DATA is a theorem on the memory model of C12 (fresh array => isolation under every later "
               "interleaving); independence of properties, timing and names is decided by the correspondence (mutation probes)"]
PARTIAL = ["independence of extended properties / timing / names: correspondence only", "NaN members (never equal to themselves) are not generated"]

METHODS = ["p2", "p3", "p4", "p5", "pdef", "deepcopy"]


def dup(x, m):
    if m == "deepcopy":
        return copy.deepcopy(x)
    if m == "pdef":
        return pickle.loads(pickle.dumps(x))
    return pickle.loads(pickle.dumps(x, int(m[1])))


# ------------------------------------------------------------------ observation
def s_(x):
    """a str as ONE integer (injective: the UTF-8 bytes behind a 0x01 marker)"""
    return int.from_bytes(b"\x01" + x.encode("utf-8", "surrogatepass"), "big")


def b_(x):
    return int.from_bytes(b"\x01" + bytes(x), "big")


def fbits(x):
    return struct.unpack("<q", struct.pack("<d", float(x)))[0]


def tname(x):
    t = type(x)
    return s_(t.__module__ + "." + t.__qualname__)


def tval(x):
    import datetime as dt
    import nitypes.bintime as bt
    if x is None:
        return []
    if isinstance(x, (bt.DateTime, bt.TimeDelta)):
        return [tname(x), x.ticks]
    if isinstance(x, dt.datetime):
        return [tname(x), x.year, x.month, x.day, x.hour, x.minute, x.second, x.microsecond,
                getattr(x, "femtosecond", 0), getattr(x, "yoctosecond", 0), s_(repr(x.tzinfo)), x.fold]
    if isinstance(x, dt.timedelta):
        return [tname(x), x.days, x.seconds, x.microseconds, getattr(x, "femtoseconds", 0), getattr(x, "yoctoseconds", 0)]
    return [tname(x), s_(repr(x))]


def pyval(v):
    """type (exact class, so that np.float64 vs float is visible) and value"""
    if isinstance(v, bool):
        return [tname(v), int(v)]
    if isinstance(v, int):
        return [tname(v), int(v)]
    if isinstance(v, float):
        return [tname(v), fbits(v)]
    if isinstance(v, str):
        return [tname(v), s_(str(v))]
    return [tname(v), s_(repr(v))]


def props_obs(d):
    # iteration order is observable (iter, keys, items, popitem) and is preserved by pickle and deepcopy
    return [[s_(k), pyval(v)] for k, v in d.items()]


def timing_obs(t):
    return [tname(t), int(t.sample_interval_mode.value), tval(t._timestamp), tval(t._time_offset), tval(t._sample_interval),
            [] if t._timestamps is None else [1, [tval(x) for x in t._timestamps]],
            [int(t.has_timestamp), int(t.has_time_offset), int(t.has_sample_interval)]]


def scale_obs(sm):
    from nitypes.waveform import LinearScaleMode
    if isinstance(sm, LinearScaleMode):
        return [tname(sm), fbits(sm.gain), fbits(sm.offset)]
    return [tname(sm)]


def arr_obs(a):
    import numpy as np
    c = np.ascontiguousarray(a)
    return [s_(str(a.dtype)), list(a.shape), b_(c.tobytes())]


def wfm_obs(w):
    k = W.kind_of(w)
    arr = w.data if k in "DS" else w.raw_data
    o = [tname(w), arr_obs(arr), w.sample_count, s_(str(w.dtype)), props_obs(w.extended_properties)]
    if k != "S":
        o.append(timing_obs(w.timing))
    if k in "AC":
        o.append(scale_obs(w.scale_mode))
        o.append(arr_obs(w.raw_data))
    if k == "D":
        o.append([w.signal_count, [s_(w.signals[i].name) for i in range(w.signal_count)],
                  [w.signals[i].column_index for i in range(w.signal_count)]])
    if k == "S":
        o.append([pyval(w.start_frequency), pyval(w.frequency_increment)])
    return o


def signal_obs(s):
    return [tname(s), s.signal_index, s.column_index, s_(s.name), arr_obs(s.data), wfm_obs(s.owner),
            int(s.owner.signals[s.signal_index].column_index == s.column_index)]


def scalar_obs(x):
    return [tname(x), pyval(x.value), s_(x.units), props_obs(x.extended_properties)]


def vector_obs(v):
    return [tname(v), s_(v._value_type.__name__), [pyval(x) for x in v], s_(v.units), props_obs(v.extended_properties), len(v)]


def xy_obs(x):
    return [tname(x), arr_obs(x.x_data), arr_obs(x.y_data), s_(x.x_units), s_(x.y_units), s_(str(x.dtype)),
            props_obs(x.extended_properties)]


def tarr_obs(a):
    return [tname(a), [tval(x) for x in a], len(a)]


class _COLOUR(__import__("enum").IntEnum):
    RED = 1
    BLUE = 3


def generic_obs(x):
    from nitypes.waveform import ExtendedPropertyDictionary, Timing
    import nitypes.bintime as bt
    from nitypes.scalar import Scalar
    from nitypes.vector import Vector
    from nitypes.xy_data import XYData
    from nitypes.waveform import DigitalWaveformSignal
    if isinstance(x, Timing):
        return timing_obs(x)
    if isinstance(x, ExtendedPropertyDictionary):
        return [tname(x), props_obs(x)]
    if isinstance(x, (bt.DateTime, bt.TimeDelta)):
        return tval(x)
    if isinstance(x, (bt.DateTimeArray, bt.TimeDeltaArray)):
        return tarr_obs(x)
    if isinstance(x, Scalar):
        return scalar_obs(x)
    if isinstance(x, Vector):
        return vector_obs(x)
    if isinstance(x, XYData):
        return xy_obs(x)
    if isinstance(x, DigitalWaveformSignal):
        return signal_obs(x)
    if hasattr(x, "sample_count"):
        return wfm_obs(x)
    return scale_obs(x)


# ------------------------------------------------------------------ mutation (for independence)
def _flip(arr):
    import numpy as np
    if arr.size == 0:
        return
    one = arr[(slice(0, 1),) * arr.ndim]
    if arr.dtype == np.bool_:
        one[...] = ~one
    else:
        one.view(np.uint8)[..., 0:1] ^= 1


def mutate(x):
    """change everything that can be changed through the public interface; returns, per attempt, whether it was accepted"""
    from nitypes.waveform import ExtendedPropertyDictionary, Timing, DigitalWaveformSignal
    import nitypes.bintime as bt
    from nitypes.scalar import Scalar
    from nitypes.vector import Vector
    from nitypes.xy_data import XYData
    import numpy as np

    accepted = []

    def attempt(f):
        try:
            with warnings.catch_warnings():
                warnings.simplefilter("ignore")
                f()
            accepted.append(True)
        except Exception:
            accepted.append(False)

    def props(d):
        for k in list(d)[:1]:
            attempt(lambda: d.__setitem__(k, "mut-" + str(d[k])))
        attempt(lambda: d.__setitem__("k9", "mut"))
        for k in list(d)[1:2]:
            attempt(lambda: d.__delitem__(k))

    if isinstance(x, ExtendedPropertyDictionary):
        props(x)
    elif isinstance(x, (bt.DateTimeArray, bt.TimeDeltaArray)):
        X = bt.DateTime if isinstance(x, bt.DateTimeArray) else bt.TimeDelta
        if len(x):
            attempt(lambda: x.__setitem__(0, X.from_ticks(x[0].ticks + 1)))
        attempt(lambda: x.append(X.from_ticks(7)))
    elif isinstance(x, Scalar):
        props(x.extended_properties)
        attempt(lambda: setattr(x, "units", "mut"))
    elif isinstance(x, Vector):
        if len(x):
            attempt(lambda: x.append(x[0]))
            attempt(lambda: x.__delitem__(0))
        props(x.extended_properties)
        attempt(lambda: setattr(x, "units", "mut"))
    elif isinstance(x, XYData):
        attempt(lambda: _flip(x.x_data))
        attempt(lambda: _flip(x.y_data))
        props(x.extended_properties)
        attempt(lambda: setattr(x, "x_units", "mut"))
    elif isinstance(x, DigitalWaveformSignal):
        attempt(lambda: setattr(x, "name", "mut"))
        attempt(lambda: _flip(x.data))
        props(x.owner.extended_properties)
    elif hasattr(x, "sample_count"):
        k = W.kind_of(x)
        attempt(lambda: _flip(x.data if k in "DS" else x.raw_data))
        props(x.extended_properties)
        if k == "D" and x.signal_count:
            attempt(lambda: setattr(x.signals[0], "name", "mut"))
        if k != "S":
            irregular = x.timing._timestamps is not None
            shape = (1, x.signal_count) if k == "D" else (1,)
            if irregular:
                ts = x.timing._timestamps
                attempt(lambda: x.append(np.zeros(shape, x.dtype), [ts[-1]] if ts else [mk_dtm("Dt", 0)]))
            else:
                attempt(lambda: x.append(np.zeros(shape, x.dtype)))
            attempt(lambda: setattr(x, "timing", Timing.empty) if not irregular else None)
        if k in "AC":
            from nitypes.waveform import LinearScaleMode
            attempt(lambda: setattr(x, "scale_mode", LinearScaleMode(9.0, 9.0)))
        if k == "S":
            attempt(lambda: setattr(x, "start_frequency", 123.0))
    return accepted


def probe(x, m, obs=generic_obs):
    """the per-(value, method) experiment; returns the PGen pieces"""
    c = dup(x, m)
    o1, oc = obs(x), obs(c)
    flags = [bool(c == x), bool(x == c), type(c) is type(x), not bool(c != x)]
    acc_copy = mutate(c)
    o2 = obs(x)
    c2 = dup(x, m)
    oc2 = obs(c2)
    acc_orig = mutate(x)
    oc3 = obs(c2)
    # the copy is as usable as the original: whatever change the original accepts, its copy accepts too (a copy may
    # accept more: it owns its memory where the original may have borrowed it)
    flags.append(len(acc_copy) == len(acc_orig) and all(a or not b for a, b in zip(acc_copy, acc_orig)))
    return {"orig": o1, "copy": oc, "orig_after": o2, "copy2": oc2, "copy2_after": oc3, "flags": flags}


# ------------------------------------------------------------------ value builders
def mk_timing(td):
    from nitypes.waveform import Timing
    if td is None:
        return None
    fam = td.get("fam", "Dt")
    ts = mk_dtm(fam, td["ts"]) if td.get("ts") is not None else None
    off = mk_td(fam, td["off"]) if td.get("off") is not None else None
    if td["mode"] == 0:
        return Timing.create_with_no_interval(ts, off)
    if td["mode"] == 1:
        return Timing.create_with_regular_interval(mk_td(fam, td["si"]), ts, off)
    return Timing.create_with_irregular_interval([mk_dtm(fam, v) for v in td["tss"]])


def mk_scale(s):
    from nitypes.waveform import NO_SCALING, LinearScaleMode
    if s is None:
        return NO_SCALING
    return LinearScaleMode(s[0], s[1])


PVALS = ["a", "", "V", "x y", "é", 0, 1, -5, 2**70, True, False, 0.0, -0.0, 1.5, 1e300]


def mk_props(p):
    return {k: PVALS[i] for k, i in p}


def build_direct(d):
    """a waveform / spectrum built directly with the requested slack"""
    import numpy as np
    kind = d["kind"]
    cls = W.cls_of(kind)
    dtype = W.np_dtype(d["dtype"])
    vals = d["vals"]
    pre, post = d["pre"], d["post"]
    ncols = d.get("ncols", 1)
    rows = [[9] * ncols] * pre + vals + [[7] * ncols] * post
    if kind == "D":
        buf = np.array(rows, dtype).reshape(len(rows), ncols)
    else:
        buf = W.to_np(rows, d["dtype"])
    if d.get("swapped") and buf.dtype.names is None and buf.dtype.itemsize > 1:
        # the same values held in the other byte order (a big-endian file image, say): dtype '>i4' is a value too
        buf = buf.astype(buf.dtype.newbyteorder())
    kw = {"extended_properties": mk_props(d["props"])}
    if kind != "S" and d.get("timing") is not None:
        kw["timing"] = mk_timing(d["timing"])
    if kind in "AC":
        kw["scale_mode"] = mk_scale(d.get("scale"))
    if kind == "S":
        kw["start_frequency"] = d.get("f0", 0.0)
        kw["frequency_increment"] = d.get("df", 0.0)
    dk = "data" if kind in "DS" else "raw_data"
    w = cls(**{dk: buf}, start_index=pre, sample_count=len(vals), **kw)
    if kind == "S" and d.get("set_f") is not None:
        w.start_frequency, w.frequency_increment = d["set_f"]
    if kind == "D" and d.get("names") is not None:
        w.extended_properties["NI_LineNames"] = d["names"]
        for i in d.get("read_names", []):
            if i < w.signal_count:
                w.signals[i].name
    if kind == "D":
        # names assigned one signal at a time, with the padding and separators a caller may type
        for i, v in d.get("set_names", []):
            if i < w.signal_count:
                w.signals[i].name = v
    return w


def twin_of(w):
    """same observable state, different start_index / capacity"""
    import numpy as np
    k = W.kind_of(w)
    arr = w.data if k in "DS" else w.raw_data
    pad_shape = lambda n: (n,) + arr.shape[1:]
    junk = np.ones(pad_shape(2), arr.dtype) if arr.dtype.names is None else np.zeros(pad_shape(2), arr.dtype)
    buf = np.concatenate([junk, np.array(arr), junk[:1]]).astype(arr.dtype)   # concatenate drops a non-native byte order
    kw = {"extended_properties": dict(w.extended_properties)}
    if k != "S":
        kw["timing"] = w.timing
    if k in "AC":
        kw["scale_mode"] = w.scale_mode
    if k == "S":
        kw["start_frequency"] = w.start_frequency
        kw["frequency_increment"] = w.frequency_increment
    dk = "data" if k in "DS" else "raw_data"
    return type(w)(**{dk: buf}, start_index=2, sample_count=w.sample_count, **kw)


# ------------------------------------------------------------------ run
def _run_wfm(c):
    pool = W.Pool()
    gen = W.OnlineGen(c["seed"], c["n"], tuple(c.get("kinds", "ACSD")), c.get("focus"))
    i = 0
    while True:
        op = gen(pool, i)
        if op is None:
            break
        i += 1
        with warnings.catch_warnings():
            warnings.simplefilter("ignore")
            vf.try_impl(lambda: W.apply(pool, op))
    rng = random.Random(c["seed"] * 7 + 1)
    out = []
    for j, w in enumerate(pool.objs[:5]):
        m = c["methods"][j % len(c["methods"])]
        k = W.kind_of(w)
        if k == "D" and w.signal_count and rng.random() < 0.5:
            w.signals[rng.randrange(w.signal_count)].name      # a cached name list is part of the state
        snap = W.snapshot(w)
        cp = dup(w, m)
        tw = twin_of(w)
        item = {"kind": k, "m": m, "snap": snap, "copy_snap": W.snapshot(cp), "eq": bool(cp == w) and bool(w == cp),
                "twin_snap": W.snapshot(tw), "twin_eq": bool(tw == w) and bool(w == tw) and not bool(tw != w),
                "slack": [snap["start"], snap["cap"] - snap["start"] - snap["count"], int(snap["resizable"])],
                "tmode": snap["timing"]["mode"]}
        item["gen"] = probe(w, m)
        out.append(item)
    return {"items": out}


def _mk_value0(c):
    import nitypes.bintime as bt
    from nitypes.scalar import Scalar
    from nitypes.vector import Vector
    from nitypes.xy_data import XYData
    from nitypes.waveform import ExtendedPropertyDictionary
    import numpy as np
    k = c["k"]
    if k == "wfmd":
        return build_direct(c["d"])
    if k == "signal":
        w = build_direct(c["d"])
        return w.signals[c["i"]]
    if k == "timing":
        return mk_timing(c["t"])
    if k == "scale":
        return mk_scale(c["s"])
    if k == "props":
        d = ExtendedPropertyDictionary(mk_props(c["p"]))
        for kk in c.get("dels", []):
            d.pop(kk, None)
        return d
    if k == "bt":
        return (bt.DateTime if c["dt"] else bt.TimeDelta).from_ticks(c["ticks"])
    if k == "tarr":
        X, A = c17._cls(c["dt"])
        arr = A([X.from_ticks(t) for t in c["init"]])
        for op in c["ops"]:
            vf.try_impl(lambda: c17._apply(arr, op, X, A, False))
        return arr
    if k == "scalar":
        v = PVALS[c["v"]]
        if c.get("np"):
            import numpy as np
            v = {"f64": np.float64(1.5), "str": np.str_("abc"), "f64z": np.float64(0.0)}[c["np"]]
        return Scalar(v, c["units"], extended_properties=mk_props(c["p"])) if c["units"] is not None else Scalar(v, extended_properties=mk_props(c["p"]))
    if k == "vecx":
        # elements of a subclass of the four value types: the value type is that subclass, for the copy too
        import enum
        import numpy as np
        Colour = _COLOUR
        items = {"f64": [np.float64(1.5), np.float64(-2.0)], "str": [np.str_("ab"), np.str_("")], "enum": [Colour.RED, Colour.BLUE],
                 "f64_1": [np.float64(0.0)]}[c["np"]]
        return Vector(items, c["units"], extended_properties=mk_props(c["p"]))
    if k == "vec":
        vec = Vector([], c["units"], value_type=c18.TYPES[c["t"]], extended_properties=mk_props(c["p"]))
        for v in c["init"]:
            vec.append(c18._py(v))
        for op in c["ops"]:
            vf.try_impl(lambda: c18._apply(vec, op, False))
        return vec
    if k == "xy":
        dt_ = W.np_dtype(c["dtype"])
        if c.get("swapped") and np.dtype(dt_).itemsize > 1:
            dt_ = np.dtype(dt_).newbyteorder()
        x = XYData(np.array(c["x"], dt_), np.array(c["y"], dt_), x_units=c["xu"], y_units=c["yu"], extended_properties=mk_props(c["p"]))
        return x
    raise AssertionError(k)


def run_impl(c):
    try:
        return _run_impl(c)
    except Exception as e:  # the experiment itself failed (e.g. unpickling raised): reported as a disagreement
        import traceback
        return {"exc": vf.canon_exc(e), "trace": traceback.format_exc()[-600:]}


def _mk_value(c):
    x = _mk_value0(c)
    if c.get("delunits"):
        # the units entry removed through the dictionary view: part of the state like any other entry (or its absence)
        for key in [k_ for k_ in x.extended_properties if k_.startswith("NI_UnitDescription")][:c["delunits"]]:
            del x.extended_properties[key]
    return x


def _run_impl(c):
    if c["k"] == "wfm":
        return _run_wfm(c)
    x = _mk_value(c)
    r = {"gen": probe(x, c["m"]), "cls": type(x).__name__}
    if c["k"] == "timing":
        from props.wfm_common import timing_desc
        x = _mk_value(c)
        cp = dup(x, c["m"])
        r["t"] = timing_desc(x)
        r["t_copy"] = timing_desc(cp)
        r["eq"] = bool(cp == x)
    if c["k"] == "vec":
        x = _mk_value(c)
        cp = dup(x, c["m"])
        tn = lambda v: [n for n, ty in c18.TYPES.items() if ty is v._value_type][0]
        r["vec"] = {"t": tn(x), "l": [c18._enc(e) for e in x], "t2": tn(cp), "l2": [c18._enc(e) for e in cp]}
    if c["k"] == "wfmd":
        x = _mk_value(c)
        tw = twin_of(x)
        r["twin_eq"] = bool(tw == x) and bool(x == tw) and not bool(tw != x)
        r["twin_obs_same"] = wfm_obs(tw) == wfm_obs(x)
    return r


# ------------------------------------------------------------------ Coq printers
def snapc(x):
    if isinstance(x, bool):
        return "(SZ %d)" % int(x)
    if isinstance(x, int):
        return "(SZ %s)" % vf.zc(x)
    return "(SL [" + "; ".join(snapc(y) for y in x) + "])"


def _pgen(tag, g):
    names = {}

    def ref(x):
        t = snapc(x)
        if t not in names:
            names[t] = "x%d" % len(names)
        return names[t]

    a = "PGen %d %s %s %s %s [%s]" % (tag, ref(g["orig"]), ref(g["copy"]), ref(g["orig_after"]), ref(g["copy"]),
                                      "; ".join(vf.boolc(b) for b in g["flags"]))
    b = "PGen %d %s %s %s %s []" % (tag + 100, ref(g["copy2"]), ref(g["copy2"]), ref(g["copy2"]), ref(g["copy2_after"]))
    lets = "".join("let %s := %s in " % (n, t) for t, n in names.items())
    return [lets + "PAll [(" + a + "); (" + b + ")]"]


TAGS = {"wfm": 1, "wfmd": 2, "signal": 3, "timing": 4, "scale": 5, "props": 6, "bt": 7, "tarr": 8, "scalar": 9, "vec": 10, "xy": 11, "vecx": 12}


def to_coq(c, r):
    if "exc" in r:
        return "PGen 0 (SZ 0) (SZ 1) (SZ 0) (SZ 0) []"      # the experiment itself failed: never acceptable
    items = []
    if c["k"] == "wfm":
        for it in r["items"]:
            items += _pgen(1, it["gen"])
            items.append("PWfm %s %s %s" % (W.objc(it["snap"]), W.objc(it["copy_snap"]), vf.boolc(it["eq"])))
            items.append("PSlack %s %s %s" % (W.objc(it["snap"]), W.objc(it["twin_snap"]), vf.boolc(it["twin_eq"])))
    else:
        items += _pgen(TAGS[c["k"]], r["gen"])
        if c["k"] == "timing":
            items.append("PTiming %s %s %s" % (W.timingc(r["t"]), W.timingc(r["t_copy"]), vf.boolc(r["eq"])))
        if c["k"] == "vec":
            v = r["vec"]
            items.append("PVec %s %s %s %s" % (v["t"], c18._svl(v["l"]), v["t2"], c18._svl(v["l2"])))
        if c["k"] == "wfmd":
            items.append("PGen 12 (SZ 0) (SZ 0) (SZ 0) (SZ 0) [%s; %s]" % (vf.boolc(r["twin_eq"]), vf.boolc(r["twin_obs_same"])))
    return "PAll [" + ";\n ".join("(" + x + ")" for x in items) + "]"


def _feat(c, r):
    k = c["k"]
    if k == "wfm":
        return ",".join(sorted({"%s:%s:s%d%d%d:t%d" % (it["kind"], it["m"], min(it["slack"][0], 1), min(it["slack"][1], 1), it["slack"][2], it["tmode"])
                                for it in r.get("items", [])}))
    if k in ("wfmd", "signal"):
        d = c["d"]
        t = d.get("timing") or {}
        z = "z" if any(t.get(x) == 0 for x in ("off", "si", "ts")) or t.get("tss") == [] else ""
        return "%s:%s:%s:pre%d:post%d:t%s%s%s:n%d" % (d["kind"], d["dtype"], c["m"], min(d["pre"], 1), min(d["post"], 1), t.get("mode", "-"), t.get("fam", ""), z, min(len(d["vals"]), 2))
    if k == "timing":
        t = c["t"]
        z = "".join("0" if t.get(x) == 0 else "-" if t.get(x) is None else "v" for x in ("ts", "off", "si"))
        return "%s:%s:m%d:%s:%s" % (c["m"], t["fam"], t["mode"], z, "e" if t.get("tss") == [] else "")
    if k == "vec":
        return "%s:%s:n%d" % (c["m"], c["t"], min(len(r.get("vec", {}).get("l", [])), 2))
    if k == "tarr":
        return "%s:%s:ops%d" % (c["m"], c["dt"], min(len(c["ops"]), 2))
    return c["m"] + ":" + str(r.get("cls"))


def sig(c, r):
    return "%s|%s" % (c["k"], _feat(c, r)), True


def finding_key(c, r):
    k = c["k"]
    if k == "wfm":
        return "wfm|" + ",".join(sorted({it["kind"] for it in r.get("items", [])}))
    if k in ("wfmd", "signal"):
        return "%s|%s" % (k, c["d"]["kind"])
    return "%s|%s" % (k, r.get("cls"))


def case_size(c):
    return len(str(c))


# ------------------------------------------------------------------ generation
def _props_desc(rng):
    keys = rng.sample(["NI_ChannelName", "NI_UnitDescription", "k1", "k2", "k3"], rng.choice([0, 1, 2, 3]))
    return [[k, rng.randrange(len(PVALS)) if not k.startswith("NI_") else rng.randrange(5)] for k in keys]


def _timing_desc(rng, count, fam=None):
    fam = fam or rng.choice(["Dt", "Dt", "Ht", "Bt"])
    u = UNIT[fam]
    zv = lambda: rng.choice([None, 0, 0, u, 3 * u, -u, u // 3 + 1])
    m = rng.randrange(10)
    if m < 3:
        return {"fam": fam, "mode": 0, "ts": zv() if rng.random() < 0.7 else None, "off": zv()}
    if m < 7:
        return {"fam": fam, "mode": 1, "ts": zv() if rng.random() < 0.7 else None, "off": zv(), "si": rng.choice([0, 0, u, 2 * u, u // 4, -u])}
    base = rng.randrange(-5, 50)
    direction = rng.choice([1, 1, -1, 0])
    return {"fam": fam, "mode": 2, "tss": [(base + direction * j) * u for j in range(count)]}


def _direct_desc(rng, kind=None):
    kind = kind or rng.choice("ACSD")
    dtype = rng.choice(sorted(W.SUPPORTED[kind]))
    # a few long ones: NumPy rebuilds arrays above a small size over the pickle's own bytes
    n = rng.choice([0, 0, 1, 2, 3, 5])
    ncols = rng.choice([0, 1, 2, 3, 4]) if kind == "D" else 1
    hi = 2 if dtype == "bool" else 8 if kind == "D" else 100
    d = {"kind": kind, "dtype": dtype, "vals": [[rng.randrange(hi) for _ in range(ncols)] for _ in range(n)], "ncols": ncols,
         "pre": rng.choice([0, 0, 1, 3]), "post": rng.choice([0, 0, 2]), "props": _props_desc(rng)}
    if rng.random() < 0.12:
        d["swapped"] = True
    if kind != "S" and rng.random() < 0.8:
        d["timing"] = _timing_desc(rng, n)
    if kind in "AC":
        d["scale"] = rng.choice([None, None, [2.0, 0.5], [0.0, 0.0], [-1.5, 1e-300], [1.0, -0.0]])
    if kind == "S":
        d["f0"] = rng.choice([0.0, 1.5, -2.0, 1e9])
        d["df"] = rng.choice([0.0, 0.25, 1e-9])
        if rng.random() < 0.5:
            # members assigned through the setters after construction: ints, negative increments, zeros
            d["set_f"] = [rng.choice([5, 0, -3, 2.5, 1e6]), rng.choice([-250.0, -1, 0, 10, 0.125])]
    if kind == "D" and rng.random() < 0.7:
        k = rng.choice([0, 1, max(ncols - 1, 0), ncols, ncols, ncols + 2])
        d["names"] = rng.choice([", ", ",", " , "]).join(rng.choice(["a", "b", "clk", " d ", "", "p0"]) + str(j) for j in range(k))
        d["read_names"] = [rng.randrange(0, 4) for _ in range(rng.choice([0, 0, 1, 2]))]
    if kind == "D" and rng.random() < 0.4:
        d["set_names"] = [[rng.randrange(0, 4), rng.choice([" clk ", "a", "x y", " lead", "trail ", "", "\tt", "p,q", "q , r"])]
                          for _ in range(rng.choice([1, 1, 2, 3]))]
    return d


def gen_cases(rng, tier):
    big = tier != "quick"
    cases = []
    mi = [0]

    def meth():
        mi[0] += 1
        return METHODS[mi[0] % len(METHODS)] if rng.random() < 0.7 else rng.choice(METHODS)

    for i in range(260 if not big else 5000):
        focus = rng.choice([None, None, {"irregular": 0.6}, {"extra": ["append_wfm", "append_arr", "load"]}])
        ms = [meth() for _ in range(5)]
        cases.append({"k": "wfm", "seed": rng.randrange(10**9), "n": rng.choice([3, 6, 10, 16]), "kinds": rng.choice(["ACSD", "A", "C", "S", "D", "AD"]),
                      "focus": focus, "methods": ms})
    for i in range(500 if not big else 8000):
        cases.append({"k": "wfmd", "d": _direct_desc(rng), "m": meth()})
    # one long waveform (just over 1 KiB of samples) per class and copying method
    for kind, m in zip("ACSD", ["p2", "pdef", "p4", "p3"]) if not big else [(k_, m_) for k_ in "ACSD" for m_ in METHODS]:
        if True:
            d = _direct_desc(rng, kind)
            while d["ncols"] == 0 or W.np_dtype(d["dtype"]).itemsize * d["ncols"] < 4:
                d = _direct_desc(rng, kind)
            n = 1100 // (W.np_dtype(d["dtype"]).itemsize * d["ncols"]) + 1
            hi = 2 if d["dtype"] == "bool" else 8 if kind == "D" else 100
            d["vals"] = [[rng.randrange(hi) for _ in range(d["ncols"])] for _ in range(n)]
            if d.get("timing") is not None and d["timing"]["mode"] == 2:
                d["timing"] = None          # the samples are what matters here; 276 timestamps per snapshot are slow to judge
            cases.append({"k": "wfmd", "d": d, "m": m})
    for i in range(200 if not big else 3000):
        d = _direct_desc(rng, "D")
        if d["ncols"] == 0:
            d["ncols"] = rng.choice([1, 2, 3, 4])
            d["vals"] = [[rng.randrange(2) for _ in range(d["ncols"])] for _ in d["vals"]]
        cases.append({"k": "signal", "d": d, "i": rng.randrange(d["ncols"]), "m": meth()})
    for i in range(450 if not big else 6000):
        cases.append({"k": "timing", "t": _timing_desc(rng, rng.choice([0, 0, 1, 2, 4])), "m": meth()})
    for s in [None, [2.0, 0.5], [0.0, 0.0], [-1.5, 1e-300], [1.0, -0.0], [float("inf"), 5e-324]]:
        for m in METHODS:
            cases.append({"k": "scale", "s": s, "m": m})
    for i in range(60 if not big else 600):
        p = _props_desc(rng)
        cases.append({"k": "props", "p": p, "dels": [k for k, _ in p if rng.random() < 0.2], "m": meth()})
    edge = [0, 1, -1, 2**64, -(2**64), 2**127 - 1, -(2**127), 2**63, 12345678901234567890123]
    for t in edge:
        for dtf in (True, False):
            cases.append({"k": "bt", "dt": dtf, "ticks": t, "m": meth()})
    for i in range(120 if not big else 2000):
        dtf = rng.random() < 0.5
        init = [rng.choice(edge + [5, 6, 7]) for _ in range(rng.choice([0, 1, 2, 4]))]
        n = max(len(init), 1)
        ops = [c17._rand_op(rng, n, edge) for _ in range(rng.choice([0, 1, 3, 6]))]
        cases.append({"k": "tarr", "dt": dtf, "init": init, "ops": ops, "m": meth()})
    for i in range(120 if not big else 1500):
        cases.append({"k": "scalar", "v": rng.randrange(len(PVALS)), "units": rng.choice([None, "", "V", "é"]), "p": [x for x in _props_desc(rng) if x[0] != "NI_UnitDescription"], "m": meth(),
                      "np": rng.choice([None, None, None, "f64", "str", "f64z"])})
        if rng.random() < 0.25:
            cases[-1]["delunits"] = 1
    for i in range(300 if not big else 5000):
        t = rng.choice(["TBool", "TInt", "TInt", "TFloat", "TStr"])
        init = [c18._val_of(rng, t) for _ in range(rng.choice([0, 1, 2, 3]))]
        if t == "TInt" and init and rng.random() < 0.5:
            init[0] = ["b", rng.random() < 0.5]
        ops = [c18._rand_op(rng, t, max(len(init), 1)) for _ in range(rng.choice([0, 0, 2, 5]))]
        if rng.random() < 0.15:
            ops.append({"op": "clear"})
        cases.append({"k": "vec", "t": t, "init": init, "ops": ops, "units": rng.choice(["", "V"]), "p": [x for x in _props_desc(rng) if x[0] != "NI_UnitDescription"], "m": meth()})
        if rng.random() < 0.2:
            cases[-1]["delunits"] = 1
    for kind in ("f64", "str", "enum", "f64_1"):
        for _ in range(2 if not big else 6):
            cases.append({"k": "vecx", "np": kind, "units": rng.choice(["", "V"]),
                          "p": [x for x in _props_desc(rng) if x[0] != "NI_UnitDescription"], "m": meth()})
    for i in range(100 if not big else 1500):
        n = rng.choice([0, 1, 2, 4])
        dtype = rng.choice(["float64", "float32", "int8", "int16", "int32", "int64", "uint8", "uint16", "uint32", "uint64"])
        cases.append({"k": "xy", "dtype": dtype, "x": [rng.randrange(100) for _ in range(n)], "y": [rng.randrange(100) for _ in range(n)],
                      "xu": rng.choice(["", "s"]), "yu": rng.choice(["", "V"]), "p": [x for x in _props_desc(rng) if not x[0].startswith("NI_")], "m": meth()})
        if rng.random() < 0.2:
            cases[-1]["swapped"] = True
        if rng.random() < 0.25:
            cases[-1]["delunits"] = rng.choice([1, 2])
    return cases


def search_cases(rng, literals, tier):
    return gen_cases(rng, "quick")


def distribution(pairs):
    d = {}
    for c, r in pairs:
        if c["k"] == "wfm":
            for it in r.get("items", []):
                key = "wfm:%s:%s" % (it["kind"], it["m"])
                d[key] = d.get(key, 0) + 1
        else:
            key = "%s:%s" % (c["k"], c["m"])
            d[key] = d.get(key, 0) + 1
    return d
