"""C18 — Vector is a homogeneous typed list: list semantics, one item type, nothing lost."""
from __future__ import annotations

import vf

ID = "C18"
CASE_TYPE = "c18case"
SPEC_REQ = "Corr.C18Spec"
MODEL_REQ = "Corr.C18Model"
EXTRA_REQ = "Spec.ListSpec Model.Vector"
SPEC_FN = "c18_spec_ok"
MODEL_FN = "c18_model_ok"
PROPS_FILE = "Props/C18.v"
USES_GEN = []
RULE = ("three-way (implementation, Coq model/spec, real Python list): constructor from list/tuple/range/generator/"
        "iterator/str/one-shot iterables x four value types x mixed and wrong-typed items x value_type; histories of 1-20 "
        "operations (get/set/del by int and slice with every step sign, slice assignment from every iterable kind incl. "
        "one-shot iterators and self, insert/append/extend/+=/pop/remove/reverse/clear/index/count) with well- and "
        "wrong-typed values (bool into int vectors, int into bool/float vectors, None, nested lists); == with units; "
        "distinct = (value type, op kind, argument kind, index pattern, outcome); trivial = len/iter on an empty vector")
TRUSTED = ["hand model Model/Vector.v tied by the three-way correspondence; CPython list semantics = Spec/ListSpec.v (compared with real lists per run)"]
ASSUMPTIONS = ["isinstance(True, int) and the numeric == of bool/int/float as in CPython"]
PARTIAL = ["extend/+= with a wrong-typed item: the spec accepts either nothing stored or the well-typed prefix stored (the mixin appends item by item)"]

STRS = ["", "a", "b", "ab", "é", "x y"]
TYPES = {"TBool": bool, "TInt": int, "TFloat": float, "TStr": str}


def _py(v):
    k = v[0]
    if k == "b":
        return bool(v[1])
    if k == "i":
        return int(v[1])
    if k == "f":
        return v[1] / 2.0
    if k == "s":
        return STRS[v[1]]
    return {"none": None, "list": [1], "obj": object()}[v[1]]


def _enc(x):
    if isinstance(x, bool):
        return ["b", x]
    if isinstance(x, int):
        return ["i", x]
    if isinstance(x, float):
        return ["f", int(x * 2)]
    if isinstance(x, str):
        return ["s", STRS.index(x)]
    return ["o", "none"]


def _iterable(spec, vec=None):
    kind, items = spec[0], [_py(v) for v in spec[1]]
    if kind == "list":
        return list(items)
    if kind == "tuple":
        return tuple(items)
    if kind == "gen":
        return (x for x in items)
    if kind == "iter":
        return iter(items)
    if kind == "range":
        return range(len(items)) if False else iter(items)
    if kind == "str":
        return "".join(items)
    if kind == "vector":
        # another Vector (homogeneous by construction, possibly of a different value type)
        from nitypes.vector import Vector
        t = type(items[0]) if items else int
        return Vector(items, value_type=t)
    if kind == "self":
        return vec
    if kind == "notiter":
        return 5
    raise AssertionError(kind)


def _idx(i):
    if i[0] == "int":
        return i[1]
    if i[0] == "bool":          # a bool is an int: list index 1 / 0
        return bool(i[1])
    if i[0] == "np":            # an index object with __index__
        import numpy as np
        return np.int64(i[1])
    if i[0] == "slice":
        return slice(i[1], i[2], i[3])
    return "x"


def _apply(obj, op, is_list):
    k = op["op"]
    if k == "get":
        r = obj[_idx(op["idx"])]
        return ["list", [_enc(x) for x in r]] if op["idx"][0] == "slice" else ["val", _enc(r)]
    if k == "set":
        obj[_idx(op["idx"])] = _py(op["v"]) if op["v"][0] != "iterable" else [1, 2]
        return ["none"]
    if k == "setslice":
        vs = op["vs"]
        it = (list(obj) if is_list else obj) if vs[0] == "self" else (_iterable(vs) if not is_list else [_py(v) for v in vs[1]])
        obj[slice(op["a"], op["b"], op["c"])] = it
        return ["none"]
    if k == "del":
        del obj[_idx(op["idx"])]
        return ["none"]
    if k == "insert":
        obj.insert(op["i"] if op["i"] != "bad" else "1", _py(op["v"]) if op["v"][0] != "iterable" else [1])
        return ["none"]
    if k == "append":
        obj.append(_py(op["v"]) if op["v"][0] != "iterable" else [1])
        return ["none"]
    if k in ("extend", "iadd"):
        vs = op["vs"]
        it = (list(obj) if is_list else obj) if vs[0] == "self" else (_iterable(vs) if not is_list else [_py(v) for v in vs[1]])
        if k == "extend":
            obj.extend(it)
        else:
            obj += it
        return ["none"]
    if k == "pop":
        r = obj.pop() if op["i"] is None else obj.pop(op["i"])
        return ["val", _enc(r)]
    if k == "remove":
        obj.remove(_py(op["v"]))
        return ["none"]
    if k == "reverse":
        obj.reverse(); return ["none"]
    if k == "clear":
        obj.clear(); return ["none"]
    if k == "index":
        return ["int", obj.index(_py(op["v"]))]
    if k == "count":
        return ["int", obj.count(_py(op["v"]))]
    if k == "len":
        return ["int", len(obj)]
    if k == "iter":
        return ["list", [_enc(x) for x in iter(obj)]]
    raise AssertionError(k)


def _inst(t, v):
    return v[0] in {"TBool": ("b",), "TInt": ("b", "i"), "TFloat": ("f",), "TStr": ("s",)}[t]


def _well_typed(t, op):
    k = op["op"]
    if k in ("get", "set", "del") and op["idx"][0] == "bad":
        return False
    if k == "set" and (op["idx"][0] == "slice" or op["v"][0] == "iterable" or not _inst(t, op["v"])):
        return False
    if k in ("append", "insert") and (op["v"][0] == "iterable" or not _inst(t, op["v"])):
        return False
    if k == "insert" and op["i"] == "bad":
        return False
    if k in ("remove", "index", "count") and op["v"][0] == "o":
        return False
    if k in ("setslice", "extend", "iadd"):
        vs = op["vs"]
        if vs[0] in ("notiter",) or (vs[0] == "str" and k == "setslice"):
            return False
        if vs[0] != "self" and not all(_inst(t, v) for v in vs[1]):
            return False
    return True


class _Colour(__import__("enum").IntEnum):
    RED = 1
    BLUE = 3


def run_impl(c):
    from nitypes.vector import Vector
    k = c["k"]
    if k == "ctor":
        def f():
            kw = {}
            if c.get("value_type"):
                kw["value_type"] = TYPES[c["value_type"]]
            src = _iterable(c["items"])
            v = Vector(src, **kw)
            if isinstance(src, list):
                # the caller keeps using (and changing) its own list; the vector must hold its own items
                src.append(object()); src.reverse(); del src[:1]; src.clear()
            t = [n for n, ty in TYPES.items() if ty is v._value_type]
            return {"t": t[0] if t else "TStr", "items": [_enc(x) for x in v], "known_type": bool(t)}
        return vf.try_impl(f)
    if k == "subclass":
        import enum
        import numpy as np
        mk = {0: lambda i: 0.5 + i, 1: lambda i: np.float64(1.5 + i), 2: lambda i: "s%d" % i, 3: lambda i: np.str_("n%d" % i),
              4: lambda i: 10 + i, 5: lambda i: _Colour(1 + 2 * (i % 2)), 6: lambda i: bool(i % 2)}
        first = mk[c["first"]](0)
        items = [mk[cl](j + 1) for j, cl in enumerate(c["items"])]
        if c["path"] == "ctor":
            try:
                vec = Vector([first] + items)
                accepted = True
            except TypeError:
                vec = Vector([first])
                accepted = False
        else:
            vec = Vector([first])
            accepted = True
            try:
                if c["path"] == "append":
                    for it in items:
                        vec.append(it)
                elif c["path"] == "setslice":
                    vec[1:] = items
                else:
                    vec.insert(1, items[0]) if items else None
                    for it in items[1:]:
                        vec.insert(len(vec), it)
            except TypeError:
                accepted = False
                del vec[1:]      # what an all-or-nothing reading keeps: only the first item (a prefix may have been appended)
        return {"accepted": accepted, "vt_first": vec._value_type is type(first), "stored": len(vec)}
    if k == "eq":
        # each side gets the value type of its own items (int vectors may hold bools); empty sides get c["t1"]/c["t2"]
        def mk(items, units, tname):
            tn = tname
            if items:
                kinds = {v[0] for v in items}
                tn = "TStr" if "s" in kinds else "TFloat" if "f" in kinds else "TInt" if "i" in kinds else "TBool"
            vec = Vector([], units, value_type=TYPES[tn])
            vec.extend(_py(v) for v in items)
            return vec
        a, b = mk(c["l1"], c["u1"], c.get("t1", "TInt")), mk(c["l2"], c["u2"], c.get("t2", "TInt"))
        # == compares element lists and units: other extended properties take no part in it
        for o, x in zip((a, b), c.get("xp", (None, None))):
            if x is not None:
                o.extended_properties["verif_note"] = x
        eq, ne = a == b, a != b
        if bool(eq) == bool(ne):
            raise RuntimeError("== and != agree")
        return {"eq": bool(eq)}
    t = c["t"]
    vec = Vector([], value_type=TYPES[t])
    for v in c["init"]:
        vec.append(_py(v))
    steps = []
    for op in c["ops"]:
        pre = [_enc(x) for x in vec]
        r = vf.try_impl(lambda: _apply(vec, op, False))
        post = [_enc(x) for x in vec]
        if vec._value_type is not TYPES[t]:
            r = {"exc": "OtherError"}
        lres = None
        if _well_typed(t, op):
            l2 = [_py(v) for v in pre]
            lr = vf.try_impl(lambda: _apply(l2, op, True))
            lres = {"r": lr, "post": [_enc(x) for x in l2]}
        steps.append({"pre": pre, "res": r, "post": post, "list": lres})
    return {"steps": steps}


def _sv(v):
    k = v[0]
    if k == "b":
        return "(SBool %s)" % vf.boolc(v[1])
    if k == "i":
        return "(SInt %s)" % vf.zc(v[1])
    if k == "f":
        return "(SFloat %s)" % vf.zc(v[1])
    if k == "s":
        return "(SStr %s)" % vf.zc(v[1])
    return "SOther"


def _svl(l):
    return "[" + "; ".join(_sv(v) for v in l) + "]"


def _iterc(spec, for_setslice=False):
    if spec[0] == "self":
        return "ItSelf"
    if spec[0] == "notiter":
        return "ItNotIter"
    if spec[0] == "str" and for_setslice:
        return "ItStr"
    return "(ItItems %s)" % _svl(spec[1])


def _onec(v):
    return "OneIterable" if v[0] == "iterable" else "(One %s)" % _sv(v)


def _idxc(i):
    if i[0] == "int":
        return "(XInt %s)" % vf.zc(i[1])
    if i[0] == "bool":
        return "(XInt %d)" % int(i[1])
    if i[0] == "np":
        return "(XInt %s)" % vf.zc(i[1])
    if i[0] == "slice":
        return "(XSlice %s %s %s)" % (vf.optc(i[1]), vf.optc(i[2]), vf.optc(i[3]))
    return "XBad"


def _opc(op):
    k = op["op"]
    if k == "get":
        return "(VGet %s)" % _idxc(op["idx"])
    if k == "set":
        return "(VSet %s %s)" % (_idxc(op["idx"]), _onec(op["v"]))
    if k == "setslice":
        return "(VSetSlice %s %s %s %s)" % (vf.optc(op["a"]), vf.optc(op["b"]), vf.optc(op["c"]), _iterc(op["vs"], True))
    if k == "del":
        return "(VDel %s)" % _idxc(op["idx"])
    if k == "insert":
        return "(VInsert %s %s)" % ("None" if op["i"] == "bad" else "(Some %s)" % vf.zc(op["i"]), _onec(op["v"]))
    if k == "append":
        return "(VAppend %s)" % _onec(op["v"])
    if k == "extend":
        return "(VExtend %s)" % _iterc(op["vs"])
    if k == "iadd":
        return "(VIadd %s)" % _iterc(op["vs"])
    if k == "pop":
        return "(VPop %s)" % vf.optc(op["i"])
    if k in ("remove", "index", "count"):
        return "(%s %s)" % ({"remove": "VRemove", "index": "VIndex", "count": "VCount"}[k], _sv(op["v"]))
    return {"reverse": "VReverse", "clear": "VClear", "len": "VLen", "iter": "VIter"}[k]


def _outc(o):
    if o[0] == "none":
        return "RNone"
    if o[0] == "val":
        return "(RVal %s)" % _sv(o[1])
    if o[0] == "list":
        return "(RList %s)" % _svl(o[1])
    return "(RInt %s)" % vf.zc(o[1])


def _resc(r):
    return "(Raise %s)" % r["exc"] if "exc" in r else "(Ok %s)" % _outc(r["ok"])


def to_coq(c, r):
    k = c["k"]
    if k == "ctor":
        vt = "None" if not c.get("value_type") else "(Some %s)" % c["value_type"]
        out = "(Raise %s)" % r["exc"] if "exc" in r else "(Ok (%s, %s))" % (r["ok"]["t"], _svl(r["ok"]["items"]))
        return "VCtor %s %s %s" % (_iterc(c["items"]), vt, out)
    if k == "subclass":
        return "VSubclass %s %s %s %s %s" % (vf.zc(c["first"]), vf.listc(c["items"]), vf.boolc(r["accepted"]), vf.boolc(r["vt_first"]), vf.zc(r["stored"]))
    if k == "eq":
        return "VEq %s %s %s %s %s" % (_svl(c["l1"]), vf.zc(abs(hash(c["u1"])) % 1000 if c["u1"] else 0), _svl(c["l2"]),
                                       vf.zc(abs(hash(c["u2"])) % 1000 if c["u2"] else 0), vf.boolc(r["eq"]))
    obs = []
    for op, st in zip(c["ops"], r["steps"]):
        lst = "None" if st["list"] is None else "(Some (%s, %s))" % (_resc(st["list"]["r"]), _svl(st["list"]["post"]))
        obs.append("{| vo_pre := %s; vo_op := %s; vo_res := %s; vo_post := %s; vo_list := %s |}"
                   % (_svl(st["pre"]), _opc(op), _resc(st["res"]), _svl(st["post"]), lst))
    return "VHist %s [%s]" % (c["t"], ";\n ".join(obs))


def sig(c, r):
    k = c["k"]
    if k == "ctor":
        kinds = "".join(sorted({v[0] for v in c["items"][1]})) if c["items"][0] not in ("notiter",) else ""
        return "ctor|%s|%s|n%d|vt%s|%s" % (c["items"][0], kinds, min(len(c["items"][1]), 3), c.get("value_type"), r.get("exc", "ok")), True
    if k == "subclass":
        return "subclass|%s|%s|%s|%s" % (c["path"], c["first"], "".join(map(str, c["items"][:2])), r["accepted"]), True
    if k == "eq":
        return "eq|%s|%s" % (c["u1"] == c["u2"], r["eq"]), True
    parts = []
    for op, st in list(zip(c["ops"], r["steps"]))[:3]:
        extra = op.get("idx", [""])[0] + (op.get("vs", [""])[0]) + (op.get("v", [""])[0] if "v" in op else "")
        parts.append("%s%s:l%d:%s" % (op["op"], extra, min(len(st["pre"]), 3), st["res"].get("exc", "ok")))
    triv = len(c["ops"]) == 1 and c["ops"][0]["op"] in ("len", "iter") and not c["init"]
    return "%s|%s" % (c["t"], "/".join(parts)), not triv


def finding_key(c, r):
    return sig(c, r)[0]


def case_size(c):
    return len(c.get("ops", [])) * 100 + len(str(c))


def shrink(c):
    if c["k"] != "hist":
        return
    for i in range(len(c["ops"])):
        yield dict(c, ops=c["ops"][:i] + c["ops"][i + 1:])
    if c["init"]:
        yield dict(c, init=c["init"][:-1])


def _val_of(rng, t):
    if t == "TBool":
        return ["b", rng.random() < 0.5]
    if t == "TInt":
        return ["i", rng.choice([0, 1, -1, 2, 7, 10**20])] if rng.random() < 0.8 else ["b", rng.random() < 0.5]
    if t == "TFloat":
        return ["f", rng.choice([0, 1, 2, 3, -5, 4])]
    return ["s", rng.randrange(len(STRS))]


def _any_val(rng, t):
    m = rng.random()
    if m < 0.85:
        return _val_of(rng, t)
    if m < 0.95:
        return _val_of(rng, rng.choice(["TBool", "TInt", "TFloat", "TStr"]))
    return ["o", rng.choice(["none", "obj"])]


def _rand_op(rng, t, n):
    k = rng.choice(["get", "get", "set", "setslice", "setslice", "del", "insert", "append", "extend", "iadd", "pop", "remove",
                    "reverse", "clear", "index", "count", "len", "iter"])
    ri = lambda: rng.choice([None, None] + list(range(-n - 2, n + 3)))
    if k in ("get", "del"):
        m = rng.random()
        if m < 0.08:
            return {"op": k, "idx": rng.choice([["bool", rng.random() < 0.5], ["np", rng.randrange(-n - 1, n + 2)]])}
        if m < 0.45:
            return {"op": k, "idx": ["int", rng.randrange(-n - 2, n + 3)]}
        if m < 0.93:
            return {"op": k, "idx": ["slice", ri(), ri(), rng.choice([None, None, 1, -1, 2, -2, 3, 0])]}
        return {"op": k, "idx": ["bad"]}
    one = lambda: _any_val(rng, t) if rng.random() < 0.95 else ["iterable"]
    if k == "set":
        m = rng.random()
        idx = ["int", rng.randrange(-n - 2, n + 3)] if m < 0.88 else ["bad"] if m < 0.94 else ["slice", None, None, None]
        if m < 0.15:
            idx = rng.choice([["bool", rng.random() < 0.5], ["np", rng.randrange(-n - 1, n + 2)], ["np", rng.randrange(0, n + 1)]])
        return {"op": k, "idx": idx, "v": one() if idx[0] != "slice" else _any_val(rng, t)}
    itk = lambda: rng.choice(["list", "list", "tuple", "gen", "iter", "self", "notiter", "vector", "vector"] + (["str"] if t == "TStr" else []))

    def homog(items):
        """items for a source Vector: one value type (the receiver's, or for bool receivers often int: True/False vs 0/1/7)"""
        t2 = rng.choice([t, t, "TInt" if t == "TBool" else t, rng.choice(["TBool", "TInt", "TFloat", "TStr"])])
        return [_val_of(rng, t2) if not (t2 == "TInt") else ["i", rng.choice([0, 1, 7, -1, 2])] for _ in items]

    if k == "setslice":
        kind = itk()
        items = [_any_val(rng, t) for _ in range(rng.choice([0, 1, 1, 2, 3, n, n + 1]))]
        if kind == "str":
            items = [["s", rng.choice([1, 2])] for _ in items]
        if kind == "vector":
            items = homog(items)
        return {"op": k, "a": ri(), "b": ri(), "c": rng.choice([None, None, None, 1, -1, 2, -2, 3, 0]), "vs": [kind, items]}
    if k == "insert":
        return {"op": k, "i": rng.choice(list(range(-n - 3, n + 4)) + ["bad"]), "v": one()}
    if k == "append":
        return {"op": k, "v": one()}
    if k in ("remove", "index", "count"):
        return {"op": k, "v": _any_val(rng, t)}
    if k in ("extend", "iadd"):
        kind = itk()
        items = [_any_val(rng, t) for _ in range(rng.choice([0, 1, 2, 3]))]
        if kind == "str":
            items = [["s", rng.choice([1, 2])] for _ in items]
        if kind == "vector":
            items = homog(items)
        return {"op": k, "vs": [kind, items]}
    if k == "pop":
        return {"op": k, "i": None if rng.random() < 0.4 else rng.randrange(-n - 2, n + 3)}
    return {"op": k}


def gen_cases(rng, tier):
    big = tier != "quick"
    cases = []
    types = ["TBool", "TInt", "TFloat", "TStr"]
    # constructors
    for _ in range(600 if not big else 8000):
        t = rng.choice(types)
        kind = rng.choice(["list", "tuple", "gen", "iter", "range", "notiter"] + (["str"] if t == "TStr" else []))
        n = rng.choice([0, 0, 1, 2, 3, 5])
        items = [_val_of(rng, t) for _ in range(n)]
        if kind == "str":
            items = [["s", rng.choice([1, 2])] for _ in items]
        if rng.random() < 0.3 and items and kind != "str":
            items[rng.randrange(len(items))] = _any_val(rng, rng.choice(types)) if rng.random() < 0.7 else ["o", "none"]
        vt = rng.choice([None, None, t, rng.choice(types)])
        cases.append({"k": "ctor", "items": [kind, items], "value_type": vt})
    for _ in range(150 if not big else 2000):
        l1 = [_val_of(rng, rng.choice(["TInt", "TBool"])) for _ in range(rng.randrange(0, 4))]
        l2 = list(l1) if rng.random() < 0.6 else [_val_of(rng, "TInt") for _ in range(rng.randrange(0, 4))]
        if l2 and rng.random() < 0.3:
            j = rng.randrange(len(l2))
            if l2[j][0] == "i" and l2[j][1] in (0, 1):
                l2[j] = ["b", bool(l2[j][1])]
        u1 = rng.choice(["", "V", "A"]); u2 = u1 if rng.random() < 0.7 else rng.choice(["", "V", "A"])
        cases.append({"k": "eq", "l1": l1, "u1": u1, "l2": l2, "u2": u2})
        if rng.random() < 0.4:
            cases[-1]["xp"] = rng.choice([[1, 2], [1, None], [None, "x"], [3, 3]])
        # the same numbers held by vectors of another value type (1 == 1.0 == True), and empty vectors of two types
        conv = rng.choice(["f", "b", "same"])
        l3 = [(["f", 2 * v[1]] if conv == "f" and v[0] == "i" and abs(v[1]) < 10**6 else ["b", bool(v[1])] if conv == "b" and v[0] == "i" and v[1] in (0, 1) else v)
              for v in l1]
        if all(v[0] in ("f",) for v in l3) or all(v[0] in ("b",) for v in l3) or all(v[0] in ("i", "b") for v in l3):
            cases.append({"k": "eq", "l1": [v for v in l1 if v[0] in ("i", "b")] if conv != "f" else [v for v in l1 if v[0] == "i" and abs(v[1]) < 10**6],
                          "u1": u1, "l2": l3 if conv != "f" else [x for x in l3 if x[0] == "f"], "u2": u1,
                          "t1": rng.choice(["TInt", "TBool", "TFloat", "TStr"]), "t2": rng.choice(["TInt", "TBool", "TFloat", "TStr"])})
    # first items (and later ones) whose class is a subclass of float / str / int
    for first in range(7):
        for path in ("ctor", "append", "setslice", "insert"):
            for _ in range(2 if not big else 12):
                items = [rng.choice([first, first, first, rng.randrange(7)]) for _ in range(rng.choice([0, 1, 1, 2, 3]))]
                cases.append({"k": "subclass", "first": first, "items": items, "path": path})
    # histories
    for _ in range(900 if not big else 20000):
        t = rng.choice(types)
        init = [_val_of(rng, t) for _ in range(rng.choice([0, 1, 2, 3, 4, 6]))]
        n = max(len(init), 1)
        ops = [_rand_op(rng, t, n) for _ in range(rng.randrange(1, 21))]
        cases.append({"k": "hist", "t": t, "init": init, "ops": ops})
    return cases


def search_cases(rng, literals, tier):
    return gen_cases(rng, "quick")


def distribution(pairs):
    d = {}
    for c, r in pairs:
        if c["k"] != "hist":
            key = c["k"] + ":" + (r.get("exc", "ok") if isinstance(r, dict) else "ok")
            d[key] = d.get(key, 0) + 1
            continue
        for op, st in zip(c["ops"], r["steps"]):
            key = op["op"] + ":" + st["res"].get("exc", "ok")
            d[key] = d.get(key, 0) + 1
    return d
