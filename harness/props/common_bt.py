"""Shared generators for the bintime properties (C02/C03/C04/C14)."""
from __future__ import annotations

MAX128 = (1 << 127) - 1
MIN128 = -(1 << 127)
T64 = 1 << 64


def battery(include_out_of_range=True):
    """2^k, 2^k±1 and their negatives for k<=129, the int64/uint64/int128 edges."""
    vals = {0, 1, -1, 2, -2}
    for k in range(0, 130):
        for d in (-1, 0, 1):
            vals.add((1 << k) + d)
            vals.add(-(1 << k) + d)
    for edge in (MAX128, MIN128, (1 << 63) - 1, -(1 << 63), (1 << 64) - 1, 1 << 64):
        for d in (-2, -1, 0, 1, 2):
            vals.add(edge + d)
    # negative whole seconds with a non-zero fraction, fractions >= 2^63
    for w in (-1, -2, -86400, -(1 << 62), 5, 86399, (1 << 62)):
        for f in (1, (1 << 63), (1 << 63) + 1, (1 << 64) - 1, 0x8000000000000001, 12345678901234567):
            vals.add(w * T64 + f)
    out = sorted(vals)
    if not include_out_of_range:
        out = [v for v in out if MIN128 <= v <= MAX128]
    return out


def rand128(rng, in_range=True):
    mode = rng.randrange(8)
    if mode == 0:
        v = rng.randrange(MIN128, MAX128 + 1)
    elif mode == 1:  # small whole part, random fraction
        v = rng.randrange(-100000, 100000) * T64 + rng.randrange(T64)
    elif mode == 2:  # near a whole second
        v = rng.randrange(-(1 << 40), 1 << 40) * T64 + rng.choice([-3, -2, -1, 0, 1, 2, 3])
    elif mode == 3:  # near the edges
        v = rng.choice([MAX128, MIN128]) + rng.randrange(-1000, 1000)
    elif mode == 4:
        v = rng.randrange(-(1 << 64), 1 << 64)
    elif mode == 5:
        k = rng.randrange(0, 128)
        v = rng.choice([1, -1]) * ((1 << k) + rng.randrange(-5, 6))
    elif mode == 6:  # calendar-sized: seconds within a few thousand years
        v = rng.randrange(-60052752000, 255485145600) * T64 + rng.randrange(T64)
    else:
        v = rng.randrange(-(1 << 100), 1 << 100)
    if in_range:
        v = max(MIN128, min(MAX128, v))
    return v


def around(lits, spread=2):
    out = set()
    for v in lits:
        for d in range(-spread, spread + 1):
            out.add(v + d)
            out.add(-v + d)
    return sorted(out)


def sign_class(t):
    return "neg" if t < 0 else "zero" if t == 0 else "pos"


def frac_class(t):
    f = t % T64
    return "f0" if f == 0 else "flo" if f < (1 << 63) else "fhi"


def edge_class(t):
    if t > MAX128 or t < MIN128:
        return "out"
    d = min(MAX128 - t, t - MIN128)
    return "edge" if d < 4 else "near" if d < (1 << 64) else "in"
