"""C05 — complex-integer conversion is exact, layout-faithful and shape/stride agnostic."""
from __future__ import annotations

import math

import vf

ID = "C05"
CASE_TYPE = "c05case"
SPEC_REQ = "Corr.C05Spec"
MODEL_REQ = "Corr.C05Model"
EXTRA_REQ = "Model.Complex"
SPEC_FN = "c05_spec_ok"
MODEL_FN = "c05_model_ok"
PROPS_FILE = "Props/C05.v"
USES_GEN = []
RULE = ("cases = convert_complex over all nine dtype pairs + unsupported dtypes; inputs: NumPy scalars, 0-d to 3-d arrays "
        "in C, Fortran, strided, reversed, transposed and column-slice layouts; ComplexInt32 values over the int16 "
        "edges and random pairs; float parts at every integer k in [-32768,32767] sampled with nextafter(k, +-inf) in "
        "float32 and float64, halves, tiny and huge magnitudes for complex128->complex64 (overflow, subnormals, ties); "
        "byte layout of record arrays; EXHAUSTIVE sweeps on the real code: all 65536 int16 values in each field "
        "position x {complex64, complex128} x both directions (thorough: all 2^32 pairs in chunks); distinct = "
        "(src, dst, ndim, layout, value class, outcome)")
TRUSTED = ["hand model Model/Complex.v on logical element order; NumPy view/astype/strides are modelled and compared per run",
           "the exhaustive int16 sweeps compare the real code with exact integer equality in the harness (result.real == re etc.)"]
ASSUMPTIONS = ["NumPy astype int16<->float32/float64 is exact on int16 and truncates toward zero inside the int16 range",
               "binary64->binary32 astype is IEEE round-to-nearest-even (modelled by round_b32)"]
PARTIAL = ["stride / memory-layout handling is NumPy's: exercised on every layout, not proved"]
EXHAUSTIVE = {"quick": False, "thorough": True}
DT = {0: "ci32", 1: "c64", 2: "c128"}


def _np_dtype(code):
    import numpy as np
    from nitypes.complex import ComplexInt32DType
    return {0: ComplexInt32DType, 1: np.dtype(np.complex64), 2: np.dtype(np.complex128), 3: np.dtype(np.float64),
            4: np.dtype(np.int32), 5: np.dtype([("real", np.int32), ("imag", np.int32)]),
            # field-less void and sub-array dtypes: unsupported although a structured dtype is supported
            6: np.dtype("V4"), 7: np.dtype("V16"), 8: np.dtype((np.int16, (2,))), 9: np.dtype("V8"),
            # look-alikes of ComplexInt32DType that are not it: the same two fields in a padded record, or declared in the other order
            10: np.dtype({"names": ["real", "imag"], "formats": ["i2", "i2"], "offsets": [0, 2], "itemsize": 8}),
            11: np.dtype({"names": ["imag", "real"], "formats": ["i2", "i2"], "offsets": [2, 0]}),
            12: np.dtype([("real", "<i2"), ("imag", "<i2"), ("pad", "<i2")])}[code]


def _layout(arr, layout):
    import numpy as np
    if arr.ndim == 0:
        return arr
    if layout == "C":
        return np.ascontiguousarray(arr)
    if layout == "F":
        return np.asfortranarray(arr)
    if layout == "strided":
        big = np.zeros(tuple(2 * s + 1 for s in arr.shape), arr.dtype)
        sl = tuple(slice(1, None, 2) for _ in arr.shape)
        big[sl] = arr
        return big[sl]
    if layout == "reversed":
        return np.ascontiguousarray(arr[::-1])[::-1]
    if layout == "transposed":
        return np.ascontiguousarray(arr.T).T
    if layout == "broadcast" and arr.ndim >= 2:
        # rows are equal by construction: a zero-stride view of the first one
        return np.broadcast_to(np.ascontiguousarray(arr[0]), arr.shape)
    if layout == "swapped":
        # the same values held in the other byte order
        return arr.astype(arr.dtype.newbyteorder()) if arr.dtype.names is None else arr
    if layout == "colslice" and arr.ndim >= 2:
        wide = np.zeros(arr.shape[:-1] + (arr.shape[-1] + 2,), arr.dtype)
        wide[..., 1:-1] = arr
        return wide[..., 1:-1]
    return arr


def _make(c):
    import numpy as np
    src = _np_dtype(c["src"])
    n = len(c["values"])
    if c["src"] == 0:
        flat = np.zeros(n, src)
        flat["real"] = [v[0] for v in c["values"]]
        flat["imag"] = [v[1] for v in c["values"]]
    elif c["src"] in (3, 4):
        flat = np.array([float.fromhex(v[0]) for v in c["values"]], np.float64).astype(src)
    elif c["src"] == 5:
        flat = np.zeros(n, src)
    else:
        flat = np.array([complex(float.fromhex(v[0]), float.fromhex(v[1])) for v in c["values"]], np.complex128).astype(src)
    shape = tuple(c["shape"])
    arr = flat.reshape(shape)
    if c.get("scalar") and shape == ():
        return arr[()]
    return _layout(arr, c.get("layout", "C"))


def _fp(x):
    x = float(x)
    if math.isnan(x):
        return ["nan"]
    if math.isinf(x):
        return ["inf", x < 0]
    num, den = x.as_integer_ratio()
    return ["num", num, -(den.bit_length() - 1)]


def _request(c):
    """the requested dtype the way a caller may spell it: the library's own object, an equal dtype object built
    afresh, the scalar type, a string or a field list"""
    import numpy as np
    form, code = c.get("dst_form"), c["dst"]
    if not form or code > 2:
        return _np_dtype(code)
    if form == "fresh":
        return np.dtype([("real", np.int16), ("imag", np.int16)]) if code == 0 else np.dtype(_np_dtype(code).str)
    if form == "spec":
        return [("real", "<i2"), ("imag", "<i2")] if code == 0 else _np_dtype(code).name
    if form == "type":
        return _np_dtype(code) if code == 0 else _np_dtype(code).type
    if form == "swapped":
        # the complex dtype of the other byte order: served by value or refused with TypeError, nothing else
        return _np_dtype(code) if code == 0 else _np_dtype(code).newbyteorder()
    raise AssertionError(form)


def run_impl(c):
    import numpy as np
    import warnings
    from nitypes.complex import ComplexInt32DType, convert_complex
    warnings.filterwarnings("ignore", "overflow encountered in cast")  # complex128 -> complex64 beyond float32: inf, as IEEE says
    k = c["k"]
    if k == "layout":
        a = np.zeros(len(c["values"]), ComplexInt32DType)
        a["real"] = [v[0] for v in c["values"]]
        a["imag"] = [v[1] for v in c["values"]]
        return {"bytes": list(a.tobytes()), "itemsize": a.dtype.itemsize,
                "offsets": [a.dtype.fields["real"][1], a.dtype.fields["imag"][1]]}
    if k == "sweep":
        vals = np.arange(-32768, 32768, dtype=np.int16)
        checked = mism = 0
        positions = ("real", "imag")
        others = c.get("others", [0, -1, 32767, -32768, 12345])
        for pos in positions:
            for o in others:
                a = np.zeros(len(vals), ComplexInt32DType)
                a[pos] = vals
                a["imag" if pos == "real" else "real"] = o
                for dst in (np.complex64, np.complex128):
                    r = convert_complex(dst, a)
                    mism += int(np.count_nonzero(r.real != a["real"]) + np.count_nonzero(r.imag != a["imag"]))
                    mism += int(r.dtype != np.dtype(dst))
                    back = convert_complex(ComplexInt32DType, r)
                    mism += int(np.count_nonzero(back["real"] != a["real"]) + np.count_nonzero(back["imag"] != a["imag"]))
                    checked += 2 * len(vals)
        return {"checked": checked, "mismatches": mism}
    if k == "sweep_pairs":   # thorough: a chunk of the full 2^32 space
        hi = c["chunk"]
        re = np.arange(-32768, 32768, dtype=np.int16)
        mism = checked = 0
        for im in range(-32768 + hi * c["width"], -32768 + (hi + 1) * c["width"]):
            a = np.zeros(len(re), ComplexInt32DType)
            a["real"] = re
            a["imag"] = im
            for dst in (np.complex64, np.complex128):
                r = convert_complex(dst, a)
                back = convert_complex(ComplexInt32DType, r)
                mism += int(np.count_nonzero(r.real != re) + np.count_nonzero(r.imag != im) + np.count_nonzero(back != a))
            checked += len(re)
        return {"checked": checked, "mismatches": mism}
    x = _make(c)
    before = np.array(x, copy=True)

    got = vf.try_impl(lambda: convert_complex(_request(c), x))
    if "exc" in got:
        return got
    if c["dst"] > 2:
        # an unsupported request was served: whatever came back, it is not a refusal
        return {"ok": {"shape": list(np.shape(got["ok"])), "vals": []}}

    def f():
        r = got["ok"]
        if c.get("dst_form") == "swapped" and c["dst"] in (1, 2):
            r = r.astype(_np_dtype(c["dst"]))      # judged by value
        if r.dtype != _np_dtype(c["dst"]):
            raise AssertionError("dtype")
        if np.ascontiguousarray(x).tobytes() != np.ascontiguousarray(before).tobytes():
            raise AssertionError("input modified")
        flat = np.asarray(r).reshape(-1)   # logical (C) order
        if c["dst"] == 0:
            vals = [["i", int(v["real"]), int(v["imag"])] for v in flat]
        else:
            vals = [["f", _fp(v.real), _fp(v.imag)] for v in flat]
        return {"shape": list(np.shape(r)), "vals": vals}
    return vf.try_impl(f)


def _fpc(p):
    if p[0] == "nan":
        return "FNan"
    if p[0] == "inf":
        return "(FInf %s)" % vf.boolc(p[1])
    return "(FNum %s %s)" % (vf.zc(p[1]), vf.zc(p[2]))


def _cvalue_in(c):
    if c["src"] == 0:
        return "(CInts [%s])" % "; ".join("(%s, %s)" % (vf.zc(v[0]), vf.zc(v[1])) for v in c["values"])
    import numpy as np
    # the input as the source dtype actually holds it (float32 rounding of the generated doubles)
    out = []
    for v in c["values"]:
        re, im = float.fromhex(v[0]), float.fromhex(v[1])
        if c["src"] == 1:
            with np.errstate(all="ignore"):
                re, im = float(np.float32(re)), float(np.float32(im))
        out.append("(%s, %s)" % (_fpc(_fp(re)), _fpc(_fp(im))))
    return "(CFloats [%s])" % "; ".join(out)


def to_coq(c, r):
    k = c["k"]
    if k == "layout":
        ok = r["offsets"] == [0, 2]
        return "Layout [%s] %s %s" % ("; ".join("(%s, %s)" % (vf.zc(v[0]), vf.zc(v[1])) for v in c["values"]),
                                       vf.listc(r["bytes"]), vf.zc(r["itemsize"] if ok else -1))
    if k in ("sweep", "sweep_pairs"):
        return "Sweep %s %s %s" % (vf.zc(0 if k == "sweep" else 1), vf.zc(r["checked"]), vf.zc(r["mismatches"]))
    if "exc" in r:
        out = "(Raise %s)" % r["exc"]
    else:
        vals = r["ok"]["vals"]
        if c["dst"] == 0:
            cv = "(CInts [%s])" % "; ".join("(%s, %s)" % (vf.zc(v[1]), vf.zc(v[2])) for v in vals)
        else:
            cv = "(CFloats [%s])" % "; ".join("(%s, %s)" % (_fpc(v[1]), _fpc(v[2])) for v in vals)
        out = "(Ok (%s, %s))" % (vf.listc(r["ok"]["shape"]), cv)
    dstc = c["dst"] if c["dst"] <= 2 else 3
    if c.get("dst_form") == "swapped" and c["dst"] in (1, 2) and r.get("exc") == "TypeError":
        dstc = 3
    if c.get("layout") == "swapped" and c["src"] != 0 and r.get("exc") == "TypeError":
        # an input array of non-native byte order may be refused (it is not one of the supported dtypes) or converted
        # by value; what it may not be is misread. A refusal is judged like an unsupported request.
        dstc = 3
    return "Convert %s %s %s %s %s" % (vf.zc(c["src"]), vf.zc(dstc), vf.listc(c["shape"]), _cvalue_in(c), out)


def sig(c, r):
    k = c["k"]
    if k != "conv":
        return "%s|%s" % (k, c.get("chunk", "")), True
    cls = c.get("cls", "")
    return "conv|%d|%d%s|nd%d|%s|%s|%s|%s" % (c["src"], c["dst"], c.get("dst_form", ""), len(c["shape"]), c.get("layout", "C"), "scalar" if c.get("scalar") else "",
                                          cls, r.get("exc", "ok")), True


def finding_key(c, r):
    return sig(c, r)[0]


def case_size(c):
    return len(str(c))


def _shape(rng):
    nd = rng.choice([0, 1, 1, 2, 2, 3])
    # empty arrays keep their shape too: (0,), (0, 3), (2, 0, 4)
    return [rng.choice([1, 2, 3]) if rng.random() < 0.93 else 0 for _ in range(nd)]


def _int_pair(rng):
    e = [-32768, -32767, -1, 0, 1, 255, 256, 32766, 32767]
    return [rng.choice(e) if rng.random() < 0.5 else rng.randrange(-32768, 32768) for _ in range(2)]


def _float_part(rng, src, cls):
    import numpy as np
    if cls == "near_int":
        k = rng.choice([-32768, -32767, -1, 0, 1, 2, 32766, 32767]) if rng.random() < 0.4 else rng.randrange(-32768, 32768)
        ft = np.float32 if src == 1 else np.float64
        x = ft(k)
        d = rng.choice([0, 1, -1, 2])
        for _ in range(abs(d)):
            x = np.nextafter(x, ft(np.inf if d > 0 else -np.inf))
        x = float(x)
        if not (-32769 < x < 32768):
            x = float(k)
        return x
    if cls == "half":
        return rng.randrange(-65536, 65536) / 2.0
    if cls == "frac":
        return rng.uniform(-32768.99, 32767.99)
    # wide: for complex128 -> complex64
    return rng.choice([0.0, -0.0, 1e-45, 1.4e-45, 7e-46, 2.0 ** -149, 2.0 ** -150, 3 * 2.0 ** -150, 3.4028234663852886e38, 3.4028235677973366e38,
                       3.5e38, -1e39, 1e300, 16777217.0, 16777219.0, 0.1, 1 / 3, rng.uniform(-1, 1) * 2.0 ** rng.randrange(-160, 130),
                       float("inf"), float("-inf"), float("nan")])


def gen_cases(rng, tier):
    big = tier != "quick"
    cases = [{"k": "sweep"}]
    if big:
        for ch in range(64):
            cases.append({"k": "sweep_pairs", "chunk": ch, "width": 1024})
    for _ in range(20):
        cases.append({"k": "layout", "values": [_int_pair(rng) for _ in range(rng.randrange(0, 5))]})
    layouts = ["C", "F", "strided", "reversed", "transposed", "colslice", "swapped"]
    for _ in range(2500 if not big else 30000):
        src = rng.choice([0, 0, 1, 2])
        dst = rng.choice([0, 1, 2, 0, 1, 2, 3, 4, 5, 6, 7, 8, 9, 10, 11, 12, 10, 11]) if rng.random() < 0.18 else rng.choice([0, 1, 2])
        shape = _shape(rng)
        n = 1
        for s in shape:
            n *= s
        if src == 0:
            vals = [_int_pair(rng) for _ in range(n)]
            cls = "int"
        else:
            cls = rng.choice(["near_int", "near_int", "half", "frac"]) if dst == 0 else rng.choice(["near_int", "wide", "wide", "frac"])
            vals = [[float(_float_part(rng, src, cls)).hex(), float(_float_part(rng, src, cls)).hex()] for _ in range(n)]
        c = {"k": "conv", "src": src, "dst": dst, "shape": shape, "values": vals, "layout": rng.choice(layouts), "cls": cls,
             "scalar": shape == [] and rng.random() < 0.5}
        if rng.random() < 0.35:
            c["dst_form"] = rng.choice(["fresh", "fresh", "spec", "type", "swapped"])
        cases.append(c)
        if len(shape) >= 2 and shape[0] >= 1 and rng.random() < 0.5:
            # the same rows as a broadcast (zero-stride) view
            row = n // shape[0]
            cases.append(dict(c, values=(vals[:row] * shape[0]), layout="broadcast"))
    # a value whose own dtype is not a supported one, requested as that same dtype: still a TypeError
    for _ in range(60 if not big else 600):
        code = rng.choice([3, 4, 5])
        shape = _shape(rng)
        n = 1
        for s_ in shape:
            n *= s_
        vals = [[float(rng.randrange(-5, 6)).hex(), float(0).hex()] for _ in range(n)]
        cases.append({"k": "conv", "src": code, "dst": code, "shape": shape, "values": vals, "layout": "C", "cls": "unsup",
                      "scalar": shape == [] and rng.random() < 0.5})
    return cases


def search_cases(rng, literals, tier):
    return gen_cases(rng, "quick")


def distribution(pairs):
    d = {}
    for c, r in pairs:
        key = c["k"] + (":%s->%s:%s" % (c["src"], c["dst"], c.get("layout")) if c["k"] == "conv" else "") + ":" + (r.get("exc", "ok") if isinstance(r, dict) else "ok")
        d[key] = d.get(key, 0) + 1
    return d
