"""C01 — waveform sample buffers match a plain list model after every operation history."""
from __future__ import annotations

from props.wfm_common import *  # noqa: F401,F403
from props import wfm_common as W

ID = "C01"
PROPS_FILE = "Props/C01.v"
RULE = ("histories of 3-30 public calls on a pool of 1-4 objects of all four classes, drawn online from one PRNG while "
        "looking at the live objects (so most calls are valid) plus a malformed stream (None / negative / non-integer "
        "arguments, wrong dtype, wrong ndim, wrong signal count); construction from sizes and from arrays (raw constructor, "
        "from_array_1d, from_lines; copy and no-copy; owning arrays, views, strided views; 1-D and 2-D digital), append of "
        "arrays / one waveform / sequences, load_data with and without copy and sub-ranges, capacity and sample_count "
        "assignment, writes through the data views, get_(raw_)data windows; after EVERY call every pool object is "
        "snapshotted (full buffer, start, count, capacity, resizability, timing, scale, properties); distinct = distinct "
        "step signatures (op, class, geometry class start/count/slack, timing mode, owned/borrowed, argument form, outcome)")
TRUSTED = ["hand model Model/Waveform.v tied by the correspondence (full-buffer comparison after every call)",
           "NumPy zeros/full/resize/slice assignment modelled"]
ASSUMPTIONS = ["ndarray.resize(refcheck=False) keeps the prefix, zero-fills, and raises ValueError for arrays that do not own their data"]
PARTIAL = ["sample values are small integers mapped into each dtype (the buffer logic copies bit patterns)"]


def gen_cases(rng, tier):
    n = 700 if tier == "quick" else 6000
    cases = W.scripted(rng) + (W.scripted(rng) if tier != "quick" else [])
    for _ in range(n):
        cases.append({"seed": rng.randrange(1 << 40), "n": rng.choice([3, 6, 10, 16, 30])})
    return cases


def search_cases(rng, literals, tier):
    return gen_cases(rng, "quick") + gen_cases(rng, "quick")
