"""C11 — scaled data is gain*raw+offset, element by element, in the requested dtype."""
from __future__ import annotations

import math
import warnings

import vf

ID = "C11"
CASE_TYPE = "c11case"
SPEC_REQ = "Corr.C11Spec"
MODEL_REQ = "Corr.C11Model"
EXTRA_REQ = "Model.Complex Model.Waveform Model.Scaling"
SPEC_FN = "c11_spec_ok"
MODEL_FN = "c11_model_ok"
PROPS_FILE = "Props/C11.v"
USES_GEN = []
RULE = ("AnalogWaveform x 10 raw dtypes and ComplexWaveform x 3 raw dtypes x requested dtype (default, 32-bit, 64-bit, "
        "unsupported: wrong kind, float16, int32, str) x NO_SCALING / LinearScaleMode with gain and offset given as Python "
        "float, Python int, numpy float32/float64/int32 scalars and bool, values zero, negative, huge, tiny, non-representable "
        "in float32 x sample values incl. type limits, values that do not fit the target precision, subnormals, inf/nan "
        "(analog float raw) x windows (default, every start/count, empty at 0, out of range, negative, None, non-int, numpy "
        "ints) x buffers with slack; every result is sent to Coq as exact dyadics; raw bytes compared before/after, the call "
        "repeated, scaled_data compared with get_scaled_data(); distinct = (kind, raw dtype, request, scale kind and "
        "argument types, window class, outcome)")
TRUSTED = ["hand model Model/Scaling.v (IEEE arithmetic as exact dyadic operations + round-to-nearest-even, NumPy's NEP 50 "
           "handling of the Python-float gain/offset as a cast to the array precision) tied bit-exactly by the correspondence",
           "decoding of float32/float64 results into m*2^e (math.frexp, exact)"]
ASSUMPTIONS = ["signed zeros are identified; NaN payloads ignored", "complex raw samples are finite (inf/nan parts of complex raw data are outside the model)"]
PARTIAL = ["the few-ulps statement for whole results is decided per run by the exact-rational oracle (4 ulps at the magnitude of the "
           "larger term); the theorems bound each rounding by half a quantum and the linear pipeline by ulp(product)/2 + ulp(sum)/2 "
           "relative to the converted operands"]

A_RAW = ["float64", "float32", "int8", "int16", "int32", "int64", "uint8", "uint16", "uint32", "uint64"]
C_RAW = ["complex128", "complex64", "ci32"]


def _np_dtype(name):
    import numpy as np
    if name == "ci32":
        from nitypes.complex import ComplexInt32DType
        return ComplexInt32DType
    return np.dtype(name)


def _num(spec):
    import numpy as np
    t, v = spec
    if t == "f":
        return float.fromhex(v)
    if t == "i":
        return int(v)
    if t == "f32":
        return np.float32(float.fromhex(v))
    if t == "f64":
        return np.float64(float.fromhex(v))
    if t == "i32":
        return np.int32(v)
    if t == "b":
        return bool(v)
    # anything that converts with __float__: a Decimal, a 0-d array, a NumPy bool, an object that only has __float__
    if t == "dec":
        import decimal
        return decimal.Decimal(float.fromhex(v))
    if t == "zd":
        return np.array(float.fromhex(v))
    if t == "nb":
        return np.bool_(v)
    if t == "duck":
        return _OnlyFloat(float.fromhex(v))
    raise AssertionError(t)


class _OnlyFloat:
    def __init__(self, x):
        self.x = x

    def __float__(self):
        return self.x


def _fval(x):
    """exact (m, e) of a Python/NumPy float, or 'inf'/'-inf'/'nan'"""
    x = float(x)
    if math.isnan(x):
        return "nan"
    if math.isinf(x):
        return "inf" if x > 0 else "-inf"
    if x == 0:
        return [0, 0]
    m, e = math.frexp(x)
    return [int(m * (1 << 53)), e - 53]


def _given(spec):
    """exact value of a gain/offset as given"""
    t, v = spec
    if t in ("i", "i32"):
        return [int(v), 0]
    if t in ("b", "nb"):
        return [int(bool(v)), 0]
    if t == "f32":
        import numpy as np
        return _fval(np.float32(float.fromhex(v)))
    return _fval(float.fromhex(v))


def _build(c):
    import numpy as np
    from nitypes.waveform import AnalogWaveform, ComplexWaveform, LinearScaleMode, NO_SCALING
    kind, raw = c["kind"], c["raw"]
    dt = _np_dtype(raw)
    pre, post = c.get("pre", 0), c.get("post", 0)
    n = len(c["vals"])
    buf = np.zeros(pre + n + post, dt)
    if raw == "ci32":
        for i, (re, im) in enumerate(c["vals"]):
            buf[pre + i] = (re, im)
    elif kind == "C":
        for i, (re, im) in enumerate(c["vals"]):
            buf[pre + i] = complex(float.fromhex(re), float.fromhex(im))
    elif raw.startswith("float"):
        for i, v in enumerate(c["vals"]):
            buf[pre + i] = float.fromhex(v)
    else:
        for i, v in enumerate(c["vals"]):
            buf[pre + i] = v
    sm = NO_SCALING if c["scale"] is None else LinearScaleMode(_num(c["scale"]["g"]), _num(c["scale"]["o"]))
    cls = AnalogWaveform if kind == "A" else ComplexWaveform
    if c.get("swapped") and buf.dtype.names is None and buf.dtype.itemsize > 1:
        buf = buf.astype(buf.dtype.newbyteorder())      # the same raw values held in the other byte order
    via = c.get("via", "ctor")
    if via == "from_1d":
        return cls.from_array_1d(buf, copy=c.get("copy", True), start_index=pre, sample_count=n, scale_mode=sm)
    if via == "from_2d":
        return cls.from_array_2d(np.stack([buf, buf]).astype(buf.dtype), copy=c.get("copy", True), start_index=pre, sample_count=n, scale_mode=sm)[1]
    w = cls(raw_data=buf, start_index=pre, sample_count=n, scale_mode=sm)
    return w


REQ = {"float32": "R32", "float64": "R64", "complex64": "R32", "complex128": "R64"}


def _req_class(kind, req):
    if req is None:
        return "RDefault"
    ok = ("float32", "float64") if kind == "A" else ("complex64", "complex128")
    return REQ[req] if req in ok else "RBad"


def _arg(v):
    import numpy as np
    if isinstance(v, list):
        return getattr(np, v[1])(v[2])
    return "x" if v == "bad" else v


def _decode(kind, out):
    import numpy as np
    name = out.dtype.name
    tag = {"float32": 32, "float64": 64}.get(name, 0) if kind == "A" else {"complex64": 32, "complex128": 64}.get(name, 0)
    if out.ndim != 1 or not out.dtype.isnative:
        tag = 0     # exactly the requested dtype: not its byte-swapped twin
    if kind == "A":
        vals = [[_fval(v), [0, 0]] for v in out.tolist()] if tag else []
    else:
        vals = [[_fval(v.real), _fval(v.imag)] for v in out] if tag else []
    return tag, vals


def _raw_exact(c):
    out = []
    for v in c["vals"]:
        if c["raw"] == "ci32":
            out.append([[int(v[0]), 0], [int(v[1]), 0]])
        elif c["kind"] == "C":
            import numpy as np
            f = np.float32 if c["raw"] == "complex64" else float
            out.append([_fval(f(float.fromhex(v[0]))), _fval(f(float.fromhex(v[1])))])
        elif c["raw"].startswith("float"):
            import numpy as np
            f = np.float32 if c["raw"] == "float32" else float
            out.append([_fval(f(float.fromhex(v))), [0, 0]])
        else:
            out.append([[int(v), 0], [0, 0]])
    return out


def run_impl(c):
    import numpy as np
    with warnings.catch_warnings():
        warnings.simplefilter("ignore")
        w = _build(c)
        before = w._data.tobytes()
        args = []
        kw = {}
        if c["req"] == "ci32":
            from nitypes.complex import ComplexInt32DType
            args.append(ComplexInt32DType)
        elif c["req"] is not None:
            rq = c["req"]
            args.append(np.dtype(rq) if c.get("req_form") == "dtype" else (getattr(np, rq) if hasattr(np, rq) and c.get("req_form") == "type" else rq))
        if c["start"] != "omit":
            kw["start_index"] = _arg(c["start"])
        if c["sc"] != "omit":
            kw["sample_count"] = _arg(c["sc"])

        def call():
            out = w.get_scaled_data(*args, **kw)
            return out

        first = vf.try_impl(lambda: _decode(c["kind"], call()))
        flags = [w._data.tobytes() == before]
        if "ok" in first:
            a, b = call(), call()
            flags.append(a.dtype == b.dtype and a.tobytes() == b.tobytes())
        try:
            whole = w.get_scaled_data()
            prop = w.scaled_data
            flags.append(whole.dtype == prop.dtype and whole.tobytes() == prop.tobytes() and len(prop) == w.sample_count)
        except Exception:
            flags.append(False)
        flags.append(w._data.tobytes() == before)
        # scaled_data is computed from the samples as they are NOW: read again after a write through the raw view and
        # after the caller scribbled over the array it got the first time
        try:
            got1 = w.scaled_data
            if w.sample_count:
                if got1.flags.writeable and not np.shares_memory(got1, w._data):
                    got1[...] = 0
                raw = w.raw_data
                raw[0] = raw[-1] if w.sample_count > 1 and raw[0] != raw[-1] else (raw[0] + 1 if raw.dtype.names is None else raw[0])
            a2, b2 = w.scaled_data, w.get_scaled_data()
            flags.append(a2.dtype == b2.dtype and a2.tobytes() == b2.tobytes())
        except Exception:
            flags.append(False)
    return {"res": first, "flags": flags}


def _fp(v):
    if v == "nan":
        return "FNan"
    if v == "inf":
        return "(FInf false)"
    if v == "-inf":
        return "(FInf true)"
    return "(FNum %s %s)" % (vf.zc(v[0]), vf.zc(v[1]))


def _ce(p):
    return "(%s, %s)" % (_fp(p[0]), _fp(p[1]))


def _iargc(v):
    if v == "omit":
        return None
    if isinstance(v, list):
        v = v[2]
    return "INone" if v is None else "IBad" if v == "bad" else "(IInt %s)" % vf.zc(v)


def to_coq(c, r):
    with warnings.catch_warnings():
        warnings.simplefilter("ignore")
        raw = "[" + "; ".join(_ce(p) for p in _raw_exact(c)) + "]"
    sc = "SNone" if c["scale"] is None else "(SLinear %s %s)" % (_fp(_given(c["scale"]["g"])), _fp(_given(c["scale"]["o"])))
    start = _iargc(c["start"]) or "(IInt 0)"
    cnt = _iargc(c["sc"]) or "INone"
    res = r["res"]
    if "exc" in res:
        rs = "(Raise %s)" % res["exc"]
    else:
        tag, vals = res["ok"]
        rs = "(Ok (%d, [%s]))" % (tag, "; ".join(_ce(p) for p in vals))
    return "C11 %s %s %s %s %s %s [%s]" % (raw, sc, _req_class(c["kind"], c["req"]), start, cnt, rs, "; ".join(vf.boolc(b) for b in r["flags"]))


def _wclass(c):
    n = len(c["vals"])
    s, k = c["start"], c["sc"]
    f = lambda v: "omit" if v == "omit" else "none" if v is None else "bad" if v == "bad" else "np" if isinstance(v, list) else "neg" if v < 0 else "0" if v == 0 else "in" if v <= n else "out"
    return f(s) + "/" + f(k)


def sig(c, r):
    sk = "none" if c["scale"] is None else "lin:%s%s" % (c["scale"]["g"][0], c["scale"]["o"][0])
    out = r["res"].get("exc", "ok")
    return "%s|%s|%s|%s|%s|%s" % (c["kind"], c["raw"], c["req"], sk, _wclass(c), out), True


def finding_key(c, r):
    sk = "none" if c["scale"] is None else "linear"
    return "%s|%s|%s|%s|%s" % (c["kind"], c["raw"], c["req"], sk, _wclass(c))


def case_size(c):
    return len(c["vals"]) * 10 + len(str(c))


def shrink(c):
    for i in range(len(c["vals"])):
        yield dict(c, vals=c["vals"][:i] + c["vals"][i + 1:])
    if c.get("pre") or c.get("post"):
        yield dict(c, pre=0, post=0)


LIM = {"int8": (-128, 127), "int16": (-32768, 32767), "int32": (-2**31, 2**31 - 1), "int64": (-2**63, 2**63 - 1),
       "uint8": (0, 255), "uint16": (0, 65535), "uint32": (0, 2**32 - 1), "uint64": (0, 2**64 - 1)}
FLOATS = [0.0, 1.0, -1.0, 0.1, -2.5, 1e-3, 123456.789, 16777217.0, 1e30, -1e30, 1e-40, 1e38, 3.4e38, 1e300, 1e-300, 5e-324, 2.0**-149,
          2.0**-126, 1.7976931348623157e308, 9007199254740993.0]


def _sample(rng, raw):
    if raw in LIM:
        lo, hi = LIM[raw]
        m = rng.random()
        if m < 0.3:
            return rng.choice([lo, hi, 0, 1, hi - 1, lo + 1, min(hi, 16777217), min(hi, 2**53 + 1), min(hi, 2**24 + 1)])
        if m < 0.6:
            return rng.randrange(max(lo, -100), min(hi, 100) + 1)
        return rng.randrange(lo, hi + 1)
    m = rng.random()
    if m < 0.6:
        x = rng.choice(FLOATS)
    elif m < 0.9:
        x = rng.uniform(-1000, 1000)
    else:
        x = rng.choice([float("inf"), float("-inf"), float("nan")])
    return x.hex()


def _fin(rng):
    x = rng.choice(FLOATS[:12]) if rng.random() < 0.5 else rng.uniform(-1000, 1000)
    return x.hex()


def _scale_num(rng):
    t = rng.choice(["f", "f", "f", "i", "f32", "f64", "f64", "i32", "b", "dec", "zd", "nb", "duck"])
    if t == "nb":
        return [t, rng.random() < 0.5]
    if t in ("i", "i32"):
        return [t, rng.choice([0, 1, -1, 2, -3, 10, 1000, 2**31 - 1] + ([2**70, 2**63 + 1] if t == "i" else []))]
    if t == "b":
        return [t, rng.random() < 0.5]
    x = rng.choice([0.0, 1.0, -1.0, 0.1, 2.5, -3.0, 1e-3, 1e30, -1e30, 1e-40, 1e300, 1e-300, 0.30000000000000004, rng.uniform(-10, 10)])
    if t == "f32":
        import numpy as np
        with warnings.catch_warnings():
            warnings.simplefilter("ignore")
            x = float(np.float32(x))
        if math.isinf(x):
            x = 3.0
    return [t, float(x).hex()]


def _window(rng, n):
    m = rng.random()
    if m < 0.3:
        return "omit", "omit"
    if m < 0.42:
        return rng.choice([0, None, "omit"]), 0                 # the empty window at the start
    if m < 0.75:
        s = rng.randrange(0, n + 1)
        k = rng.randrange(0, n - s + 1)
        return rng.choice([s, s, ["np", "int32", s]]), rng.choice([k, k, None, "omit", ["np", "uint8", k]])
    if m < 0.80:
        s = rng.randrange(0, n + 2)
        return s, n - s + rng.choice([1, 2])
    if m < 0.85:
        # NumPy scalars of a narrow type: start + count wraps around in that type but not as integers
        ty, lim = rng.choice([("uint8", 256), ("int8", 128), ("uint16", 65536)])
        s = rng.randrange(0, min(n, lim - 1) + 1)
        k = lim - s - rng.choice([0, 1]) if ty != "int8" else lim - 1 - rng.randrange(0, 2)
        k = max(0, min(k, lim - 1))
        return ["np", ty, s], ["np", ty, k]
    if m < 0.9:
        return rng.choice([-1, n + 1]), rng.choice(["omit", 0, 1])
    if m < 0.95:
        return rng.choice(["bad", 0]), rng.choice(["bad", -1])
    return None, rng.choice([None, n, "omit"])


def gen_cases(rng, tier):
    big = tier != "quick"
    cases = []
    for _ in range(2600 if not big else 60000):
        kind = "A" if rng.random() < 0.6 else "C"
        raw = rng.choice(A_RAW if kind == "A" else C_RAW)
        n = rng.choice([0, 1, 2, 3, 5, 8])
        if raw == "ci32":
            vals = [[rng.choice([-32768, 32767, 0, 1, rng.randrange(-32768, 32768)]), rng.choice([-32768, 32767, 0, rng.randrange(-32768, 32768)])] for _ in range(n)]
        elif kind == "C":
            vals = [[_fin(rng), _fin(rng)] for _ in range(n)]
        else:
            vals = [_sample(rng, raw) for _ in range(n)]
        good = ["float32", "float64"] if kind == "A" else ["complex64", "complex128"]
        wrong = ["complex64", "complex128"] if kind == "A" else ["float32", "float64"]
        m = rng.random()
        req = None if m < 0.25 else rng.choice(good) if m < 0.85 else rng.choice(wrong + ["float16", "int32", "<U4", "int64", "ci32", "ci32"])
        scale = None if rng.random() < 0.3 else {"g": _scale_num(rng), "o": _scale_num(rng)}
        s, k = _window(rng, n)
        cases.append({"kind": kind, "raw": raw, "vals": vals, "req": req, "req_form": rng.choice(["dtype", "type", "str"]),
                      "scale": scale, "start": s, "sc": k, "pre": rng.choice([0, 0, 2]), "post": rng.choice([0, 0, 1])})
        if rng.random() < 0.15:
            cases[-1]["swapped"] = True
        if rng.random() < 0.3:
            cases[-1]["via"] = rng.choice(["from_1d", "from_2d", "from_2d"])
            cases[-1]["copy"] = rng.random() < 0.6
    return cases


def search_cases(rng, literals, tier):
    return gen_cases(rng, "quick")


def distribution(pairs):
    d = {}
    for c, r in pairs:
        key = "%s:%s:%s:%s" % (c["kind"], c["raw"], "none" if c["scale"] is None else "linear", r["res"].get("exc", "ok"))
        d[key] = d.get(key, 0) + 1
    return d
