"""C07 — a rejected call leaves the object, and its arguments, exactly as they were."""
from __future__ import annotations

from props.wfm_common import *  # noqa: F401,F403
from props import wfm_common as W

ID = "C07"
PROPS_FILE = "Props/C07.v"
SUBCHECKS = ["c17", "c18", "c15"]   # arrays, Vector and digital signal names: their step observations include the post-failure state
RULE = ("fault generator over the waveform pool: histories biased to invalid calls (wrong dtype / ndim / signal count / timestamp "
        "count, incompatible or non-monotonic timing, out-of-range and non-integer sizes, unresizable borrowed buffers "
        "that would have to grow, wrong-typed timing / scale mode), applied at every reachable state class (empty / full / "
        "slack, start > 0, borrowed, each timing mode) inside longer histories; after EVERY raising call the snapshot of "
        "every pool object (receiver AND sources / other objects: data, counts, capacity, start, timing, scale, properties) "
        "must equal the snapshot before; plus the C17 and C18 correspondences (arrays, Vector) whose observations include the "
        "content after each raising call; distinct = step signatures (op, class, geometry, timing mode, owned/borrowed, outcome)")
TRUSTED = ["hand models (Waveform.v, TimeArray.v, Vector.v) tied by the correspondences"]
ASSUMPTIONS = ["ndarray.resize fails without side effect on arrays that do not own their data"]
PARTIAL = ["Vector.extend / += are sequences of appends (outside 'single call'); aliasing receiver/argument is excluded as in the property"]


def gen_cases(rng, tier):
    n = 500 if tier == "quick" else 4000
    # scripted scenarios, and waveforms over READ-ONLY borrowed buffers with spare capacity (the write itself is what fails)
    cases = W.scripted(rng) + W.readonly_cases(rng, 60 if tier == "quick" else 800)
    for _ in range(n):
        cases.append({"seed": rng.randrange(1 << 40), "n": rng.choice([4, 8, 14, 24]), "focus": {"faulty": True}})
    return cases


def search_cases(rng, literals, tier):
    return gen_cases(rng, "quick")
